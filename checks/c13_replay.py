"""C13 replay workers: every item is a dict with a "kind"; worker(item) -> list of result dicts (see BUILDERS.md)."""
import itertools
import math
import random
from contextlib import contextmanager
from fractions import Fraction

from harness import core
from checks import c13_ref as ref

DATA_N = 3          # points per function distribution in the lattice replay
NUM_SAMPLES = 4     # num_likelihood_samples during the lattice replay

TOL64 = 1e-10       # polynomial exactness, nodes stored in float64
TOL32 = 3e-7        # x (degree + 5): nodes stored through float32 (default dtype float32, then .double()); calibrated 2.6e-8 x (degree + 5)

ASSUMPTIONS = [
    "GaussHermiteQuadrature1D stores numpy's float64 nodes through torch.Tensor(...), i.e. in the DEFAULT dtype at construction; 'exactly' is "
    "tested at 1e-10 (relative to sum_k |c_k| E|x|^k) with torch.set_default_dtype(float64) during construction, and at 3e-7 x (degree + 5) for a rule built "
    "under default float32 and cast with .double() (the cast cannot restore the digits)",
    "all tensors handed to the code are float64; the default dtype is float64 inside the replay workers because the likelihoods create their "
    "rule and parameters in the default dtype",
    "LaplaceLikelihood: the docstring calls the parameter 'sigma - the noise'; the reading the code satisfies is scale = sqrt(noise) "
    "(same convention as StudentTLikelihood's sigma^2)",
    "BetaLikelihood: the docstring states alpha = m s, beta = (1-m) s; the code (and upstream) uses alpha = m s + 1, beta = (1-m) s + 1. "
    "The check pins the code's parameters (alpha + beta = s + 2, (alpha-1)/(alpha+beta-2) = sigmoid(f)) and integrates that density; the "
    "docstring discrepancy is reported in ck.extra['doc_discrepancies'], not as a violation",
    "Bernoulli.expected_log_prob integrates log_normal_cdf, whose documented accuracy is 2e-3 absolute: its bound against the true integral is "
    "2e-3 + truncation and its error is not required to shrink below that floor",
    "'to rounding for z >= -1' is read as |error| <= 1e-12 |log Phi(z)| + 1e-15 (for z > 8 log Phi(z) is below the spacing of float64 at 1, so a "
    "purely relative reading is unsatisfiable by log(cdf(z)))",
    "the error-must-shrink clause is decided on the fixed (m, v, y, parameter) grid, aggregated as max and mean per likelihood/parameter/method "
    "(single Laplace cases oscillate with the position of the kink between nodes); seeded cases are only held to the bound at 40 nodes",
    "Monte-Carlo paths (marginal of Laplace/StudentT/Beta, all of Softmax) are statistical: only result shapes and finiteness are checked",
    "repeated differentiation (part rediff): every backward pass through one graph of log_normal_cdf must deliver upstream x phi/Phi at the accuracy the property grants "
    "(2e-3 relative for z < -1, 1e-12 elsewhere) - the first pass and every later one (retain_graph, accumulation into .grad, Jacobian rows); additionally every pass "
    "must agree to 1e-12 with the same pass through a fresh graph, the tensors the forward left on the context must be bit-identical after every pass and the upstream tensors untouched; "
    "for BernoulliLikelihood.expected_log_prob the per-term accuracy is propagated through the rule: |error| <= sum_i |c_i| phi/Phi(x_i) tol(x_i)",
    "parameter lattice (part params): 'the whole valid range' of a likelihood parameter is read as the range of its DEFAULT constraint (noise, scale: Positive(); deg_free: "
    "GreaterThan(2)), sampled at lower bound + 10^e, e = -6..2; values are driven in through the property setter or Module.initialize (tensor or python float) - writing "
    "raw_* directly is C08's subject.  A likelihood with batch shape [K] is called with function values of shape [K, N] or [1, N]: a parameter tensor that adds an axis in "
    "front of the function values is outside the domain (the rule pads its locations to the rank of the function distribution; the call raises a shape error, loudly).  "
    "Integrals are held to 1e-9 (1 + |reference|) only at placements where the rule has no truncation error: Laplace with every node on one side of the observation "
    "(|y - m| >= 12 function standard deviations, function sd <= scale: exact closed forms of E log p and log E p), Student-t with function sd <= scale / 5 "
    "(p(y|f) = g_nu((y - f) / s) / s, so the mpmath integral for s = 1 minus log s is the reference for every decade of the noise), Beta with function sd <= "
    "1 / (5 sqrt(1 + scale)) (mpmath integral); measured on the unchanged tree: <= 1.2e-12.  Members of a batch are additionally compared with an un-batched likelihood "
    "carrying the same parameters",
    "constraint dimension (part params): with a non-default constraint the valid range of a parameter is the range of THAT constraint (GreaterThan(lower + 1.5), Interval(lower + 0.5, lower + 30), "
    "the default bounds with transform exp / inverse log); the conditional must read the value the public property reports (raw parameter through the registered constraint); the integrals are compared with "
    "a fresh un-batched likelihood under the DEFAULT constraints carrying the same parameter values (every lattice value is valid under both), and with the absolute references wherever the class keeps the default lower bound",
    "conditional over the function-value range (part condf): 'the conditional distributions have the documented parameters' is decided through log_prob of the RETURNED distribution and its gradient w.r.t. f "
    "for |f| = 1e-6 .. 1e3 against the documented density in mpmath at 1e-9 (1 + |reference|) (measured on the unchanged tree: <= 4e-14 where it passes): a distribution whose parameters agree to 1e-16 but whose "
    "log-density is floored (torch clamps probability parameters to [eps, 1 - eps]) does not have the documented density; fixed parameters noise = 1/4, deg_free = 4, Beta scale = 5",
    "rule size (part bigrules): for 48 .. 128 nodes 'exactly' is decided on the monomials x^k, k = 2n-2, 2n-1, n, n+1, against the exact moment in Python integers at 32 (k + n) 2^-53 relative to the sum of the "
    "absolute terms of the rule (the moment itself for even k; sqrt(M_(k-1) M_(k+1)) for odd k; measured on the unchanged tree <= 1.1 (k + n) 2^-53); cells whose integrand exceeds the float64 range at a node are counted, not decided.  "
    "A rule built under default dtype float32 stores its weights in float32: weights below 2^-126 underflow, which no cast restores, so those cells are held to 32 (k + n) 2^-24 + 2^-126 sum_i |x_i|^k / sqrt(pi) over the nodes i whose stored weight is below 2^-126 "
    "(for more than 60 nodes the top degrees are then 'float32-underflow-limited': counted, decided only for structure: num_locs nodes, weights >= 0 summing to sqrt(pi))",
    "a degree-2n monomial must miss the integral by s^2n n!; a different deficit is reported as MODEL-DRIFT (a rule exact to a higher degree "
    "would still satisfy the property)",
]


@contextmanager
def default_dtype(torch, dt):
    old = torch.get_default_dtype()
    torch.set_default_dtype(dt)
    try:
        yield
    finally:
        torch.set_default_dtype(old)


def F(a, d):
    return Fraction(int(a), int(d))


# =====================================================================================================================================
# (a) polynomial exactness
# =====================================================================================================================================
MODES = ("default64", "setting64", "likelihood64", "default32-double")
LAYOUTS = ("flat", "rows", "cols1")
DISTS = ("normal", "mvn")


def poly_items(exact, coefs, lattice, extra, thorough, rnd):
    """one item = (coef, num_locs, mode, dist kind, layout) over the whole (m, s) lattice as a batch"""
    items = []
    k = 0
    for coef in coefs:
        deg = len(coef) - 1
        pts = [list(p) for p in lattice]
        ex = [[exact[(p[0], p[1], p[2], tuple(coef))].numerator, exact[(p[0], p[1], p[2], tuple(coef))].denominator] for p in lattice]
        mono = sum(1 for c in coef if c) == 1
        for n in range(1, 6):
            if 2 * n - 1 >= deg:
                what = "exact"
            elif 2 * n == deg and mono:
                what = "deficit"
            else:
                continue
            for mode in MODES:
                k += 1
                if mode != "default64" and not thorough and k % 3:
                    continue
                items.append(dict(kind="poly", src="tlc", coef=coef, n=n, mode=mode, dist=DISTS[k % 2], layout=LAYOUTS[k % 3], pts=pts, exact=ex, what=what))
    # larger rules: Fractions from the same recurrence
    big = list(range(6, 21)) + [25, 30, 40] if thorough else [6, 8, 10, 15, 20, 40]
    pts = [list(p) for p in lattice] + [list(p) for p in extra]
    for n in big:
        degs = range(0, 2 * n + 1) if thorough or n <= 10 else sorted(set([0, 1, 2, n, 2 * n - 3, 2 * n - 2, 2 * n - 1, 2 * n] + [rnd.randrange(2 * n) for _ in range(6)]))
        polys = [[0] * d + [1] for d in degs]
        for _ in range(6 if thorough else 2):
            polys.append([rnd.randint(-3, 3) for _ in range(2 * n - 1)] + [rnd.choice([-2, -1, 1, 2])])
            polys.append([Fraction(rnd.randint(-9, 9), rnd.randint(1, 9)) for _ in range(rnd.randint(2, 2 * n - 1))] + [Fraction(1, rnd.randint(1, 5))])
        for coef in polys:
            k += 1
            what = "deficit" if len(coef) - 1 == 2 * n else "exact"
            mode = MODES[k % 4] if (thorough or k % 2) else "default64"
            items.append(dict(kind="poly", src="fraction", coef=[[c.numerator, c.denominator] if isinstance(c, Fraction) else c for c in coef], n=n, mode=mode,
                              dist=DISTS[k % 2], layout=LAYOUTS[k % 3], pts=pts, exact=None, what=what))
    return items


def build_rule(torch, gpytorch, mode, n):
    """the rule object the way a user would get it; returns (quadrature module, tolerance)"""
    from gpytorch.utils.quadrature import GaussHermiteQuadrature1D
    D = torch.float64
    if mode == "default64":
        with default_dtype(torch, D):
            q = GaussHermiteQuadrature1D(n)
    elif mode == "setting64":
        with default_dtype(torch, D), gpytorch.settings.num_gauss_hermite_locs(n):
            q = GaussHermiteQuadrature1D()
    elif mode == "likelihood64":
        with default_dtype(torch, D), gpytorch.settings.num_gauss_hermite_locs(n):
            q = [gpytorch.likelihoods.LaplaceLikelihood, gpytorch.likelihoods.BernoulliLikelihood, gpytorch.likelihoods.StudentTLikelihood,
                 gpytorch.likelihoods.BetaLikelihood][n % 4]().quadrature
    elif mode == "default32-double":
        with default_dtype(torch, torch.float32):
            q = GaussHermiteQuadrature1D(n).double()
    else:
        raise core.Machinery("unknown mode " + mode)
    return q, (TOL32 if mode == "default32-double" else TOL64)


def layout_shape(layout, L):
    if layout == "rows" and L % 2 == 0:
        return (2, L // 2)
    if layout == "cols1":
        return (L, 1)
    return (L,)


def make_dist(torch, gpytorch, kind, mean, var):
    if kind == "mvn":
        if mean.dim() == 0:
            kind = "normal"
        else:
            return gpytorch.distributions.MultivariateNormal(mean, torch.diag_embed(var))
    return torch.distributions.Normal(mean, var.sqrt())


def run_poly(torch, gpytorch, it):
    D = torch.float64
    coef = [F(*c) if isinstance(c, (list, tuple)) else Fraction(c) for c in it["coef"]]
    n, mode = it["n"], it["mode"]
    deg = len(coef) - 1
    pts = [(F(a, d), F(b, d)) for a, b, d in it["pts"]]
    exact = [F(*e) for e in it["exact"]] if it["exact"] is not None else [ref.poly_int(m, s, coef) for m, s in pts]
    shape = layout_shape(it["layout"], len(pts))
    mean = torch.tensor([float(m) for m, _ in pts], dtype=D).reshape(shape)
    var = torch.tensor([float(s * s) for _, s in pts], dtype=D).reshape(shape)
    cf = [float(c) for c in coef]

    def func(x):
        acc = torch.full_like(x, cf[-1])
        for c in reversed(cf[:-1]):
            acc = acc * x + c
        return acc
    out = []
    base = dict(ok=True, nontrivial=deg >= 1, case=it)
    sig = "C13/polynomial/%s/%s" % (mode, "deg<2n" if it["what"] == "exact" else "deg=2n")
    desc = "num_locs=%d mode=%s dist=%s batch=%s degree=%d coef=%s" % (n, mode, it["dist"], list(shape), deg, [str(c) for c in coef][:12])
    ok, q = core.guarded(lambda: build_rule(torch, gpytorch, mode, n))
    if not ok:
        return [dict(base, key=["poly", it["coef"], n, mode], ok=False, sig=sig + "/raises", detail="%s: %s" % (desc, q))]
    q, tol = q
    if mode == "default32-double":
        tol = TOL32 * (deg + 5)
    if q.locations.numel() != n:
        return [dict(base, key=["poly", it["coef"], n, mode], ok=False, sig="C13/polynomial/%s/num-locs" % mode,
                     detail="%s: the rule has %d nodes" % (desc, q.locations.numel()))]
    ok, got = core.guarded(lambda: q(func, make_dist(torch, gpytorch, it["dist"], mean, var)))
    if not ok:
        return [dict(base, key=["poly", it["coef"], n, mode], ok=False, sig=sig + "/raises", detail="%s: %s" % (desc, got))]
    if tuple(got.shape) != tuple(shape):
        return [dict(base, key=["poly", it["coef"], n, mode], ok=False, sig="C13/polynomial/%s/shape" % mode, detail="%s: result shape %s" % (desc, list(got.shape)))]
    got = got.detach().reshape(-1).tolist()
    worst = 0.0
    for (m, s), e, g, p in zip(pts, exact, got, it["pts"]):
        scale = ref.natural_scale(m, s, coef)
        r = dict(base, key=["poly", it["coef"], n, mode, p], sig=sig)
        if it["what"] == "exact":
            err = abs(g - float(e)) / scale
            worst = max(worst, err)
            if not err <= tol:
                r.update(ok=False, detail="%s m=%s v=%s: rule gives %.17g, exact integral %s = %.17g (error %.3e of sum|c_k|E|x|^k, tolerance %.1e)" % (
                    desc, m, s * s, g, e, float(e), err, tol))
        else:
            dfc = float(ref.deficit(s, n)) * abs(float(coef[-1]))
            sgn = 1.0 if coef[-1] > 0 else -1.0
            err = abs(g - (float(e) - sgn * dfc)) / scale
            visible = dfc / scale > 100 * tol
            r.update(nontrivial=False, aux_deficit=dict(visible=visible, inexact=abs(g - float(e)) / scale > 10 * tol, n=n, mode=mode))
            if not err <= tol and not any(o.get("drift") for o in out):
                r["drift"] = "%s m=%s v=%s: at degree 2n the rule should miss the integral by s^2n n! = %.6g, it misses it by %.6g" % (desc, m, s * s, sgn * dfc, float(e) - g)
        out.append(r)
    out[0]["meas"] = dict(kind="poly", mode=mode, n=n, worst=worst if it["what"] == "exact" else None)
    if it["what"] == "exact" and deg >= 2:
        out[0]["sample"] = dict(case=desc, m=str(pts[0][0]), v=str(pts[0][1] ** 2), exact=str(exact[0]), rule=got[0])
    return out


def run_table(torch, gpytorch, it):
    """the stored nodes/weights for num_locs <= 3 against the table of Quadrature.tla (model binding: drift, not violation)"""
    n = it["n"]
    want = []
    zw = F(*it["zero_w"])
    if zw != 0:
        want.append((0.0, float(zw)))
    for xsq, w in it["pairs"]:
        x = math.sqrt(float(F(*xsq)))
        want += [(-x, float(F(*w))), (x, float(F(*w)))]
    want.sort()
    out = []
    for mode in MODES:
        q, tol = build_rule(torch, gpytorch, mode, n)
        got = sorted(zip(q.locations.tolist(), (q.weights / math.sqrt(math.pi)).tolist()))
        r = dict(key=["table", n, mode], ok=True, nontrivial=n > 1, sig="C13/rule-table", case=it)
        t = 1e-14 if tol == TOL64 else 1e-6
        if len(got) != len(want) or any(abs(a - c) > t or abs(b - d) > t for (a, b), (c, d) in zip(got, want)):
            r["drift"] = "stored rule for num_locs=%d (%s) is %s, Quadrature.tla has %s" % (n, mode, got, want)
        out.append(r)
    return out


# =====================================================================================================================================
# forward: shapes and index map
# =====================================================================================================================================
def run_shape(torch, gpytorch, it):
    D = torch.float64
    n, ms, os_ = it["n"], tuple(it["ms"]), tuple(it["os"])
    nm = int(math.prod(ms))
    no = int(math.prod(os_))
    # distinct rationals per element
    mq = [Fraction(2 * j - 5, 4) for j in range(nm)]
    vq = [Fraction((j % 5 + 1) ** 2, 4) + Fraction(j // 5) for j in range(nm)]
    yq = [Fraction(3 * j + 1, 7) for j in range(no)]
    mean = torch.tensor([float(x) for x in mq], dtype=D).reshape(ms)
    var = torch.tensor([float(x) for x in vq], dtype=D).reshape(ms)
    y = torch.tensor([float(x) for x in yq], dtype=D).reshape(os_)
    q, _ = build_rule(torch, gpytorch, "default64", n)
    desc = "num_locs=%d function batch shape %s observations %s" % (n, list(ms), list(os_))
    r = dict(key=["shape", n, list(ms), list(os_)], ok=True, nontrivial=it["cls"] == "ok" and (len(ms) > 0), case=it, sig="C13/forward-shape")
    ok, got = core.guarded(lambda: q(lambda x: y * x ** 2 + x, torch.distributions.Normal(mean, var.sqrt())))
    if it["cls"] != "ok":
        # outside the property's domain: only the prediction of the code-shaped model is compared
        r["nontrivial"] = False
        if it["cls"] == "raises" and ok:
            r["drift"] = "%s: model predicts an exception, the code returns shape %s" % (desc, list(got.shape))
        elif it["cls"] != "raises" and (not ok or list(got.shape) != it["shape"]):
            r["drift"] = "%s: model predicts shape %s, the code gives %s" % (desc, it["shape"], got if not ok else list(got.shape))
        return [r]
    if not ok:
        r.update(ok=False, sig="C13/forward-shape/raises", detail="%s: %s" % (desc, got))
        return [r]
    if list(got.shape) != it["shape"]:
        r.update(ok=False, sig="C13/forward-shape/result-shape", detail="%s: result shape %s, broadcast(function, observations) = %s" % (desc, list(got.shape), it["shape"]))
        return [r]

    def flat(idx, shape):
        p = 0
        for i, s in zip(idx, shape):
            p = p * s + i
        return p
    for b, mi, oi in it["reads"]:
        jm, jo = flat(mi, ms), flat(oi, os_)
        want = yq[jo] * (mq[jm] ** 2 + vq[jm]) + mq[jm]
        g = float(got[tuple(b)]) if b else float(got)
        if abs(g - float(want)) > 1e-12 * (abs(float(yq[jo])) * float(mq[jm] ** 2 + vq[jm]) + abs(float(mq[jm])) + 1):
            r.update(ok=False, sig="C13/forward-shape/index-map", detail="%s: element %s is %.15g; the integral of y x^2 + x for mean element %s, observation %s is %s" % (
                desc, b, g, mi, oi, want))
            break
    r["sample"] = dict(case=desc, result_shape=it["shape"])
    return [r]


# =====================================================================================================================================
# likelihood x method x setting x batch lattice
# =====================================================================================================================================
KIND = {"Bernoulli": "bern", "Laplace": "lap", "StudentT": "stu", "Beta": "beta"}
SOFTMAX_F, SOFTMAX_C = 3, 4


def make_lik(torch, gpytorch, name, par, n=0, batch_shape=()):
    """construct under default dtype float64 and (n > 0) inside num_gauss_hermite_locs(n)"""
    L = gpytorch.likelihoods
    from contextlib import ExitStack
    with ExitStack() as st:
        st.enter_context(default_dtype(torch, torch.float64))
        if n:
            st.enter_context(gpytorch.settings.num_gauss_hermite_locs(n))
        bs = torch.Size(batch_shape)
        if name == "Bernoulli":
            lik = L.BernoulliLikelihood()
        elif name == "Laplace":
            lik = L.LaplaceLikelihood(batch_shape=bs)
            lik.noise = torch.as_tensor(par["noise"], dtype=torch.float64)
        elif name == "StudentT":
            lik = L.StudentTLikelihood(batch_shape=bs)
            lik.noise = torch.as_tensor(par["noise"], dtype=torch.float64)
            lik.deg_free = torch.as_tensor(par["df"], dtype=torch.float64)
        elif name == "Beta":
            lik = L.BetaLikelihood(batch_shape=bs)
            lik.scale = torch.as_tensor(par["scale"], dtype=torch.float64)
        elif name == "Softmax":
            lik = L.SoftmaxLikelihood(num_features=SOFTMAX_F, num_classes=SOFTMAX_C)
            with torch.no_grad():
                lik.mixing_weights.copy_(torch.as_tensor(par["W"], dtype=torch.float64))
        else:
            raise core.Machinery("unknown likelihood " + name)
    for p in lik.parameters():
        if p.dtype != torch.float64:
            raise core.Machinery("%s parameter stored as %s" % (name, p.dtype))
    return lik


def default_par(name, g, torch):
    u = lambda lo, hi: lo + (hi - lo) * float(torch.rand(1, generator=g, dtype=torch.float64))
    if name == "Laplace":
        return dict(noise=u(0.3, 1.5))
    if name == "StudentT":
        return dict(noise=u(0.3, 1.5), df=u(3.0, 7.5))
    if name == "Beta":
        return dict(scale=u(2.0, 10.0))
    if name == "Softmax":
        return dict(W=(torch.randn(SOFTMAX_C, SOFTMAX_F, generator=g, dtype=torch.float64)).tolist())
    return {}


def run_cell(torch, gpytorch, it):
    D = torch.float64
    name, method, ctor, call, batch = it["lik"], it["method"], it["ctor"], it["call"], tuple(it["batch"])
    g = torch.Generator().manual_seed(1000 * it["seed"] + (int(core.digest([name, method, ctor, call, list(batch)]), 16) % 997))
    par = default_par(name, g, torch)
    out = []
    for mode in ("train", "eval"):
        desc = "%s.%s built under num_gauss_hermite_locs=%s called under %s batch=%s %s mode" % (name, method, ctor or "default", call or "default", list(batch), mode)
        r = dict(key=["cell", name, method, ctor, call, list(batch), mode], ok=True, nontrivial=bool(ctor or call or batch), case=it, sig="C13/lattice/%s/%s" % (name, method))
        out.append(r)
        lik = make_lik(torch, gpytorch, name, par, ctor)
        lik.train(mode == "train")
        N = DATA_N
        if name == "Softmax":
            mean = torch.randn(*batch, N, SOFTMAX_F, generator=g, dtype=D)
            var = 0.1 + torch.rand(*batch, N * SOFTMAX_F, generator=g, dtype=D)
            fd = gpytorch.distributions.MultitaskMultivariateNormal(mean, torch.diag_embed(var))
            y = torch.randint(0, SOFTMAX_C, (*batch, N), generator=g)
        else:
            mean = torch.randn(*batch, N, generator=g, dtype=D)
            var = 0.1 + 1.5 * torch.rand(*batch, N, generator=g, dtype=D)
            fd = gpytorch.distributions.MultivariateNormal(mean, torch.diag_embed(var))
            if name == "Bernoulli":
                y = (torch.rand(*batch, N, generator=g, dtype=D) > 0.5).to(D)
            elif name == "Beta":
                y = 0.05 + 0.9 * torch.rand(*batch, N, generator=g, dtype=D)
            else:
                y = torch.randn(*batch, N, generator=g, dtype=D)
        seen = dict(quad=0, mc=0, nodes=0)
        if hasattr(lik, "quadrature"):
            qf = lik.quadrature.forward

            def wq(func, dist, _qf=qf, _l=lik):
                seen["quad"] += 1
                seen["nodes"] = _l.quadrature.locations.numel()
                return _qf(func, dist)
            lik.quadrature.forward = wq
        df = lik._draw_likelihood_samples

        def wd(*a, _df=df, **k):
            seen["mc"] += 1
            return _df(*a, **k)
        lik._draw_likelihood_samples = wd
        from contextlib import ExitStack

        def callit(yy, dist):
            with ExitStack() as st, torch.no_grad():
                st.enter_context(gpytorch.settings.num_likelihood_samples(NUM_SAMPLES))
                if call:
                    st.enter_context(gpytorch.settings.num_gauss_hermite_locs(call))
                torch.manual_seed(it["seed"])
                if method == "marginal":
                    return lik(dist)
                return getattr(lik, method)(yy, dist)
        ok, res = core.guarded(callit, y, fd)
        if not ok:
            r.update(ok=False, sig=r["sig"] + "/raises", detail="%s: %s" % (desc, res))
            continue
        path = "quadrature" if seen["quad"] else ("mc" if seen["mc"] else "analytic")
        if path != it["path"] or (path == "quadrature" and seen["nodes"] != it["nodes"]):
            r["drift"] = "%s: Quadrature.tla predicts path %s with %d nodes, the code took %s with %d" % (desc, it["path"], it["nodes"], path, seen["nodes"])
        shape = list(res.batch_shape) if method == "marginal" else list(res.shape)
        if shape != it["shape"]:
            r.update(ok=False, sig=r["sig"] + "/result-shape", detail="%s: result shape %s, expected %s (per-point values)" % (desc, shape, it["shape"]))
            continue
        vals = res.probs if (method == "marginal" and name in ("Bernoulli", "Softmax")) else (res.mean if method == "marginal" else res)
        if not torch.isfinite(vals).all():
            r.update(ok=False, sig=r["sig"] + "/non-finite", detail="%s: non-finite result" % desc)
            continue
        if not it["decided"]:
            continue
        # independence: element b of the batched result is the un-batched call on element b
        flatm, flatv, flaty, flatr = mean.reshape(-1), var.reshape(-1), y.reshape(-1), vals.reshape(-1)
        for j in range(flatm.numel()):
            d1 = gpytorch.distributions.MultivariateNormal(flatm[j:j + 1], flatv[j:j + 1].reshape(1, 1))
            ok, one = core.guarded(callit, flaty[j:j + 1], d1)
            if not ok:
                r.update(ok=False, sig=r["sig"] + "/raises", detail="%s: single point call: %s" % (desc, one))
                break
            one = one.probs if method == "marginal" else one
            if abs(float(one.reshape(-1)[0]) - float(flatr[j])) > 1e-12 * (1 + abs(float(flatr[j]))):
                r.update(ok=False, sig=r["sig"] + "/batch-independence", detail="%s: flat element %d of the batched result is %.15g, the same point alone gives %.15g" % (
                    desc, j, float(flatr[j]), float(one.reshape(-1)[0])))
                break
        if mode == "eval" and batch == (2,) and ctor == 10:
            r["sample"] = dict(case=desc, path=path, nodes=seen["nodes"], shape=shape)
    return out


# =====================================================================================================================================
# (b) conditional distributions
# =====================================================================================================================================
def cond_items(seed, thorough):
    out = []
    for name in ("Bernoulli", "Laplace", "StudentT", "Beta", "Softmax"):
        for bs in ((), (2,)):
            if bs and name in ("Bernoulli", "Softmax"):
                continue
            for k in range(6 if thorough else 2):
                out.append(dict(kind="cond", lik=name, batch_shape=list(bs), seed=seed * 100 + k))
    return out


def run_cond(torch, gpytorch, it):
    D = torch.float64
    mp = ref.mpm()
    name, bs = it["lik"], tuple(it["batch_shape"])
    g = torch.Generator().manual_seed(7 + it["seed"])
    par = default_par(name, g, torch)
    if bs:   # one parameter value per batch element
        par = {k: [[v * (1 + 0.3 * j)] for j in range(bs[0])] for k, v in par.items()}
    lik = make_lik(torch, gpytorch, name, par, 0, bs)
    N = 4
    f = torch.randn(*bs, N, SOFTMAX_F, generator=g, dtype=D) if name == "Softmax" else 1.5 * torch.randn(*bs, N, generator=g, dtype=D)
    desc = "%s(batch_shape=%s) parameters %s" % (name, list(bs), {k: v for k, v in par.items() if k != "W"})
    r = dict(key=["cond", name, list(bs), it["seed"]], ok=True, nontrivial=True, case=it, sig="C13/conditional/" + name)
    ok, d = core.guarded(lambda: lik(f))
    if not ok:
        r.update(ok=False, sig=r["sig"] + "/raises", detail="%s: %s" % (desc, d))
        return [r]

    def pv(key, j):          # parameter value that applies to batch element j
        v = par[key]
        return v[j][0] if bs else v

    def bad(what, got, want):
        if not r["ok"]:
            return
        r.update(ok=False, sig="C13/conditional/%s/%s" % (name, what), detail="%s: %s is %.15g at f=%.6g, documented %.15g" % (desc, what, got, fj, want))
    ff = f.reshape(-1, N) if name != "Softmax" else None
    tcls = dict(Bernoulli="Bernoulli", Laplace="Laplace", StudentT="StudentT", Beta="Beta", Softmax="Categorical")[name]
    if type(d).__name__ != tcls:
        r.update(ok=False, sig=r["sig"] + "/class", detail="%s: conditional is a %s" % (desc, type(d).__name__))
        return [r]
    with torch.no_grad():
        if name == "Softmax":
            W = torch.as_tensor(par["W"], dtype=D)
            probs = d.probs.reshape(-1, SOFTMAX_C)
            fl = f.reshape(-1, SOFTMAX_F)
            for i in range(fl.shape[0]):
                z = [sum(mp.mpf(float(W[c, a])) * mp.mpf(float(fl[i, a])) for a in range(SOFTMAX_F)) for c in range(SOFTMAX_C)]
                tot = sum(mp.exp(x) for x in z)
                for c in range(SOFTMAX_C):
                    fj = float(fl[i, 0])
                    if abs(float(probs[i, c]) - float(mp.exp(z[c]) / tot)) > 1e-12:
                        bad("probs", float(probs[i, c]), float(mp.exp(z[c]) / tot))
            # without mixing weights W = I
            with default_dtype(torch, D):
                l2 = gpytorch.likelihoods.SoftmaxLikelihood(num_classes=SOFTMAX_F, mixing_weights=False)
            p2 = l2(f).probs
            if not core.close(p2, torch.softmax(f, -1), 1e-12, 1e-14)[0]:
                fj = 0.0
                bad("probs(mixing_weights=False)", float(p2.reshape(-1)[0]), float(torch.softmax(f, -1).reshape(-1)[0]))
            return [r]
        # observations for the log-density comparison
        if name == "Bernoulli":
            y = (torch.rand(*bs, N, generator=g, dtype=D) > 0.5).to(D)
        elif name == "Beta":
            y = 0.05 + 0.9 * torch.rand(*bs, N, generator=g, dtype=D)
        else:
            y = 2 * torch.randn(*bs, N, generator=g, dtype=D)
        lp = d.log_prob(y).reshape(-1, N)
        yy = y.reshape(-1, N)
        for j in range(ff.shape[0]):
            for i in range(N):
                fj = float(ff[j, i])
                if name == "Bernoulli":
                    got, want = float(d.probs.reshape(-1, N)[j, i]), float(mp.ncdf(mp.mpf(fj)))
                    if abs(got - want) > 1e-12:
                        bad("probs", got, want)
                    pr = {}
                elif name in ("Laplace", "StudentT"):
                    pr = dict(noise=pv("noise", j))
                    got, want = float(d.loc.reshape(-1, N)[j, i]), fj
                    if got != want:
                        bad("loc", got, want)
                    got, want = float(d.scale.expand(*bs, N).reshape(-1, N)[j, i]), math.sqrt(pv("noise", j))
                    if abs(got - want) > 1e-12 * want:
                        bad("scale", got, want)
                    if name == "StudentT":
                        pr["df"] = pv("df", j)
                        got, want = float(d.df.expand(*bs, N).reshape(-1, N)[j, i]), pv("df", j)
                        if abs(got - want) > 1e-12 * want:
                            bad("df", got, want)
                else:
                    s = pv("scale", j)
                    pr = dict(scale=s)
                    sg = float(1 / (1 + mp.exp(-mp.mpf(fj))))
                    got, want = float(d.concentration1.reshape(-1, N)[j, i]), sg * s + 1
                    if abs(got - want) > 1e-12 * want:
                        bad("concentration1", got, want)
                    got, want = float(d.concentration0.reshape(-1, N)[j, i]), (1 - sg) * s + 1
                    if abs(got - want) > 1e-12 * want:
                        bad("concentration0", got, want)
                want = float(ref.logp(mp, KIND[name], {k: mp.mpf(v) for k, v in pr.items()}, mp.mpf(float(yy[j, i])), mp.mpf(fj)))
                got = float(lp[j, i])
                if want > -30 and (name != "Bernoulli" or abs(fj) <= 2.5) and abs(got - want) > 1e-10 * (1 + abs(want)):   # probs near 1 lose 1 - p
                    bad("log_prob", got, want)
    r["sample"] = dict(case=desc, conditional=type(d).__name__)
    return [r]


# =====================================================================================================================================
# (c1) Bernoulli marginal
# =====================================================================================================================================
def bern_items(seed, thorough):
    return [dict(kind="bern", seed=seed * 100 + k, batch=list(b)) for k in range(12 if thorough else 4) for b in ((), (2,), (3, 2))]


def run_bern(torch, gpytorch, it):
    D = torch.float64
    mp = ref.mpm()
    batch = tuple(it["batch"])
    g = torch.Generator().manual_seed(11 + it["seed"])
    N = 5
    mean = 2.0 * torch.randn(*batch, N, generator=g, dtype=D)
    var = torch.exp(3 * torch.rand(*batch, N, generator=g, dtype=D) - 2.5)          # 0.08 .. 1.6
    fixed = torch.tensor([0.0, 1.0, -1.0, 3.0, -3.0], dtype=D)
    if it["seed"] % 4 == 0:
        mean = fixed.expand(*batch, N).clone()
    lik = make_lik(torch, gpytorch, "Bernoulli", {}, 0)
    lik.eval()
    fd = gpytorch.distributions.MultivariateNormal(mean, torch.diag_embed(var))
    y = (torch.rand(*batch, N, generator=g, dtype=D) > 0.5).to(D)
    desc = "Bernoulli marginal batch=%s seed=%d" % (list(batch), it["seed"])
    r = dict(key=["bern", list(batch), it["seed"]], ok=True, nontrivial=True, case=it, sig="C13/bernoulli-marginal")
    with torch.no_grad():
        ok, res = core.guarded(lambda: (lik(fd), lik.marginal(fd), lik.log_marginal(y, fd)))
    if not ok:
        r.update(ok=False, sig=r["sig"] + "/raises", detail="%s: %s" % (desc, res))
        return [r]
    p1, p2, lm = res[0].probs.reshape(-1), res[1].probs.reshape(-1), res[2].reshape(-1)
    if type(res[0]).__name__ != "Bernoulli" or list(res[0].probs.shape) != list(mean.shape):
        r.update(ok=False, sig=r["sig"] + "/shape", detail="%s: marginal is %s with probs %s" % (desc, type(res[0]).__name__, list(res[0].probs.shape)))
        return [r]
    for j, (m, v, yy) in enumerate(zip(mean.reshape(-1).tolist(), var.reshape(-1).tolist(), y.reshape(-1).tolist())):
        want = mp.ncdf(mp.mpf(m) / mp.sqrt(1 + mp.mpf(v)))
        for nm, got in (("likelihood(dist).probs", float(p1[j])), ("marginal(dist).probs", float(p2[j]))):
            if r["ok"] and abs(got - float(want)) > 1e-10:
                r.update(ok=False, sig="C13/bernoulli-marginal/probs", detail="%s: %s = %.15g for m=%.6g v=%.6g; Phi(m/sqrt(1+v)) = %.15g" % (desc, nm, got, m, v, float(want)))
        wl = mp.log(want if yy == 1.0 else 1 - want)
        if r["ok"] and wl > -20 and abs(float(lm[j]) - float(wl)) > 1e-9 * (1 + abs(float(wl))):
            r.update(ok=False, sig="C13/bernoulli-marginal/log_marginal", detail="%s: log_marginal(y=%d) = %.15g for m=%.6g v=%.6g; log Phi((2y-1)m/sqrt(1+v)) = %.15g" % (
                desc, int(yy), float(lm[j]), m, v, float(wl)))
    if it["seed"] % 100 == 0 and not batch:
        # the harness's own integrator: the identity the property states must hold for the mpmath integral of the documented conditional
        m, v = mean.reshape(-1)[1].item(), var.reshape(-1)[1].item()
        _, lmref = ref.ref_integrals(mp, "bern", {}, m, v, 1.0)
        if abs(lmref - mp.log(mp.ncdf(mp.mpf(m) / mp.sqrt(1 + mp.mpf(v))))) > mp.mpf(10) ** (-20):
            return [dict(machinery="mpmath integration of Phi(f) N(f; m, v) does not reproduce the probit identity (m=%r v=%r)" % (m, v))]
    r["sample"] = dict(case=desc, m=mean.reshape(-1)[0].item(), v=var.reshape(-1)[0].item(), probs=float(p1[0]))
    return [r]


# =====================================================================================================================================
# (c2) expected_log_prob / log_marginal against adaptive integration of the documented density
# =====================================================================================================================================
GRID_M = [-1.5, -0.5, 0.0, 0.7, 2.0]
GRID_V = [0.05, 0.3, 1.0, 2.5]
GRID = {"Bernoulli": ([dict()], [0.0, 1.0]),
        "Laplace": ([dict(noise=0.3), dict(noise=1.5)], [-1.0, 0.3, 2.5]),
        "StudentT": ([dict(noise=0.3, df=3.0), dict(noise=1.5, df=7.5)], [-1.0, 0.3, 2.5]),
        "Beta": ([dict(scale=2.0), dict(scale=10.0)], [0.1, 0.5, 0.85])}
NODES = (10, 20, 40)
FLOOR = {"Bernoulli/expected_log_prob": 2e-3}        # log_normal_cdf's documented accuracy; 1e-9 (rounding) elsewhere
# calibration on the unchanged tree (fixed grid, max over the grid and the parameter sets at 40 nodes); bound = 10 x, see aggregate()
CAL40 = {"Bernoulli/expected_log_prob": 3.9e-4, "Bernoulli/log_marginal": 1.8e-15,
         "Laplace/expected_log_prob": 4.3e-2, "Laplace/log_marginal": 1.6e-1,
         "StudentT/expected_log_prob": 4.7e-4, "StudentT/log_marginal": 1.1e-2,
         "Beta/expected_log_prob": 7.2e-9, "Beta/log_marginal": 3.5e-4}


def bound40(name, method):
    k = name + "/" + method
    if k == "Bernoulli/expected_log_prob":
        return 2e-3 + 1e-4          # log_normal_cdf's 2e-3 plus truncation (calibrated: the sum stays below 4e-4)
    if k == "Bernoulli/log_marginal":
        return 1e-9                 # analytic
    return 10 * CAL40[k]


def integral_items(seed, thorough):
    out = []
    for name, (pars, ys) in GRID.items():
        for pi, par in enumerate(pars):
            for m, v, y in itertools.product(GRID_M, GRID_V, ys):
                out.append(dict(kind="integral", lik=name, par=par, pi=pi, m=m, v=v, y=y, grid=True))
    rnd = random.Random(seed * 7919 + 13)
    for k in range(1200 if thorough else 48):
        name = ("Bernoulli", "Laplace", "StudentT", "Beta")[k % 4]
        par = {"Bernoulli": {}, "Laplace": dict(noise=rnd.uniform(0.3, 1.5)), "StudentT": dict(noise=rnd.uniform(0.3, 1.5), df=rnd.uniform(3.0, 7.5)),
               "Beta": dict(scale=rnd.uniform(2.0, 10.0))}[name]
        y = {"Bernoulli": float(rnd.randint(0, 1)), "Beta": rnd.uniform(0.1, 0.85)}.get(name, rnd.uniform(-1.0, 2.5))
        out.append(dict(kind="integral", lik=name, par=par, pi=-1, m=rnd.uniform(-1.5, 2.0), v=math.exp(rnd.uniform(math.log(0.05), math.log(2.5))), y=y, grid=False))
    return out


def run_integral(torch, gpytorch, it):
    D = torch.float64
    mp = ref.mpm()
    name, par, m, v, y = it["lik"], it["par"], it["m"], it["v"], it["y"]
    elp, lm = ref.ref_integrals(mp, KIND[name], par, m, v, y)
    desc = "%s %s m=%.6g v=%.6g y=%.6g" % (name, par, m, v, y)
    errs = {}
    out = []
    for n in NODES:
        lik = make_lik(torch, gpytorch, name, par, n)
        if lik.quadrature.locations.numel() != n:
            out.append(dict(key=["integral", name, par, m, v, y, n, "num-locs"], ok=False, nontrivial=True, case=it, sig="C13/integral/%s/num-locs" % name,
                            detail="%s: a likelihood built under num_gauss_hermite_locs(%d) carries a rule with %d nodes" % (desc, n, lik.quadrature.locations.numel())))
            continue
        fd = gpytorch.distributions.MultivariateNormal(torch.tensor([m], dtype=D), torch.tensor([[v]], dtype=D))
        yy = torch.tensor([y], dtype=D)
        for method, want in (("expected_log_prob", elp), ("log_marginal", lm)):
            with torch.no_grad():
                ok, got = core.guarded(lambda: float(getattr(lik, method)(yy, fd)))
            r = dict(key=["integral", name, par, m, v, y, n, method], ok=True, nontrivial=True, case=it, sig="C13/integral/%s/%s" % (name, method))
            out.append(r)
            if not ok:
                r.update(ok=False, sig=r["sig"] + "/raises", detail="%s num_locs=%d: %s" % (desc, n, got))
                continue
            err = abs(got - float(want))
            errs["%s/%d" % (method, n)] = err
            if n == 40 and not err <= bound40(name, method):
                r.update(ok=False, sig=r["sig"] + "/bound-at-40", detail="%s: %s with 40 nodes = %.12g, adaptive integration of the documented density gives %.12g (error %.3e, bound %.3e)" % (
                    desc, method, got, float(want), err, bound40(name, method)))
    if len(errs) == 2 * len(NODES):
        out[0]["meas"] = dict(kind="integral", lik=name, pi=it["pi"], grid=it["grid"], errs=errs, par=par)
    if it["grid"] and m == 0.7 and v == 1.0 and out[0]["ok"]:
        out[0]["sample"] = dict(case=desc, reference_elp=float(elp), reference_log_marginal=float(lm), abs_errors=errs)
    return out


# =====================================================================================================================================
# (d) log_normal_cdf
# =====================================================================================================================================
LN_BANDS = [(-1e9, -20, 1.2e-13), (-20, -10, 2.8e-14), (-10, -5, 5.9e-9), (-5, -3, 1.9e-6), (-3, -2, 4.8e-5), (-2, -1.5, 2.9e-4), (-1.5, -1.1, 1.3e-3),
            (-1.1, -1.0, 1.91e-3)]    # calibrated max |error| per band for z < -1 (unchanged tree); 10 x these gives a MODEL-DRIFT note only


def lncdf_grid(seed, thorough):
    import numpy as np
    npts = 50001 if thorough else 5001
    zs = list(np.linspace(-40.0, 10.0, npts))
    for b in (-1.0, -0.2, 0.2, 0.0):     # branch boundaries: z < -1, z^2 < 0.04
        zs += [b, float(np.nextafter(b, -100)), float(np.nextafter(b, 100)), b - 1e-9, b + 1e-9, b - 1e-4, b + 1e-4]
    zs += list(np.linspace(-1.1, -1.0, 401)) + list(np.linspace(-0.21, 0.21, 211)) + [-40.0, 10.0, 1e-300, -1e-300, 1e-8, -1e-8]
    rnd = random.Random(seed * 31 + 5)
    zs += [rnd.uniform(-40, 10) for _ in range(2000 if thorough else 500)]
    rnd.shuffle(zs)      # every chunk mixes the three branches in one tensor
    return [float(z) for z in zs]


def lncdf_items(seed, thorough):
    zs = lncdf_grid(seed, thorough)
    ch = 400
    return [dict(kind="lncdf", z=zs[i:i + ch], wseed=seed + i) for i in range(0, len(zs), ch)]


# =====================================================================================================================================
# (d2) the derivative clause under repeated differentiation of one graph (Quadrature.tla part "rediff", BackwardOps.tla)
# =====================================================================================================================================
REDIFF_N = 48         # entries of the argument tensor of one history


def rediff_items(hists, seed, thorough):
    """hists: list of (case, history) from TLC's terminal states.  Every history of the log_normal_cdf route gets its own slice of the grid of (d)
    restricted to the class of the case, so that together the histories cover the whole range incl. z < -1"""
    zs = lncdf_grid(seed, thorough)
    pools = {"tail": [z for z in zs if z < -1], "mixed": zs, "notail": [z for z in zs if not z < -1]}
    pos = {k: 0 for k in pools}
    out = []
    for k, (case, hist) in enumerate(hists):
        it = dict(kind="rediff", cell=case, hist=hist, seed=seed * 7907 + k)
        if case["route"] == "log_normal_cdf":
            pool = pools[case["zc"]]
            z = [pool[(pos[case["zc"]] + i) % len(pool)] for i in range(REDIFF_N)]
            pos[case["zc"]] += REDIFF_N
            if case["zc"] == "mixed":       # all three branches in every tensor
                z[:6] = [-7.3 - 0.01 * (k % 50), -1.0 - 1e-9, -1.0, 0.1, -0.15, 2.5]
            it["z"] = z
        out.append(it)
    return out


class LnSubject:
    """log_normal_cdf on a slice of the grid; derivative = phi/Phi to 2e-3 relative for z < -1, to rounding (1e-12) elsewhere"""
    node_name = "LogNormalCDFBackward"
    lower_out = ()
    names = ("z",)               # the inputs that require grad (checks/c19_multi.run_history)

    def mask(self, us):          # every upstream entry carries information (no structurally constant output entries)
        return us

    def __init__(self, torch, it):
        mp = ref.mpm()
        self.torch, self.zs = torch, it["z"]
        L = len(self.zs)
        shape = (2, L // 2) if it["cell"]["batch"] == "b2" else (L,)
        self.z0 = torch.tensor(self.zs, dtype=torch.float64).reshape(shape)
        self.true = torch.tensor([float(mp.npdf(mp.mpf(z)) / mp.ncdf(mp.mpf(z))) for z in self.zs], dtype=torch.float64).reshape(shape)
        self.rt = torch.tensor([2e-3 if z < -1 else 1e-12 for z in self.zs], dtype=torch.float64).reshape(shape)

    def forward(self):
        from gpytorch.functions import log_normal_cdf
        z = self.z0.clone().requires_grad_(True)
        return [z], [log_normal_cdf(z)]

    def functional(self):
        from gpytorch.functions import log_normal_cdf
        return (lambda z: log_normal_cdf(z)), [self.z0.clone()]

    def check(self, us, grads, slack=None):
        torch = self.torch
        want = us[0] * self.true
        err = (grads[0] - want).abs()
        bad = err > self.rt * want.abs() + 1e-300 + (slack[0] if slack and slack[0] is not None else 0.0)
        if bool(bad.any()):
            k = int(torch.argmax(((err / (want.abs() + 1e-300)) * bad).reshape(-1)))
            z = self.zs[k]
            return False, ("tail" if z < -1 else "near-zero" if z * z < 0.04 else "ordinary") + "/derivative", "at z=%.17g: delivered %.15g, upstream x phi/Phi = %.15g (relative error %.3e, allowed %.0e)" % (
                z, float(grads[0].reshape(-1)[k]), float(want.reshape(-1)[k]), float((err / want.abs()).reshape(-1)[k]), float(self.rt.reshape(-1)[k]))
        return True, "", ""


class BernSubject:
    """BernoulliLikelihood.expected_log_prob as a function of the mean and variance of the function distribution: the gradients are sums over the
    quadrature nodes of the derivative of log_normal_cdf.  Reference: the same rule (numpy's nodes) with phi/Phi from mpmath; each term may be off by
    2e-3 relative where its argument is below -1 and by rounding elsewhere"""
    node_name = "LogNormalCDFBackward"
    lower_out = ()
    names = ("mean", "variance")
    N = 4

    def mask(self, us):
        return us

    def __init__(self, torch, gpytorch, it, g):
        import numpy as np
        mp = ref.mpm()
        D = torch.float64
        self.torch, self.gp = torch, gpytorch
        bs = [2] if it["cell"]["batch"] == "b2" else []
        zc = it["cell"]["zc"]
        N = self.N
        y = (torch.rand(*bs, N, generator=g, dtype=D) > 0.5).to(D)
        sgn = 2 * y - 1
        mag = 0.3 * torch.rand(*bs, N, generator=g, dtype=D) if zc == "uncertain" else 1.5 + 2.0 * torch.rand(*bs, N, generator=g, dtype=D)
        self.mean0 = mag * (sgn if zc != "confident-wrong" else -sgn)
        self.var0 = torch.exp(3 * torch.rand(*bs, N, generator=g, dtype=D) - 2.5)
        self.y = y
        self.lik = make_lik(torch, gpytorch, "Bernoulli", {}, 0)
        n = self.lik.quadrature.locations.numel()
        t, w = np.polynomial.hermite.hermgauss(n)
        sq = math.sqrt(math.pi)
        gm, gv, tm, tv = [], [], [], []
        for m, v, s_ in zip(self.mean0.reshape(-1).tolist(), self.var0.reshape(-1).tolist(), sgn.reshape(-1).tolist()):
            am = av = em = evv = mp.mpf(0)
            for tj, wj in zip(t.tolist(), w.tolist()):
                x = mp.mpf(s_) * (mp.mpf(m) + mp.sqrt(2 * mp.mpf(v)) * mp.mpf(tj))
                Dx = mp.npdf(x) / mp.ncdf(x)
                cm = mp.mpf(wj) / sq * mp.mpf(s_)
                cv = cm * mp.mpf(tj) / mp.sqrt(2 * mp.mpf(v))
                tol = mp.mpf("2e-3") if x < -1 else mp.mpf("1e-12")
                am += cm * Dx
                av += cv * Dx
                em += abs(cm) * Dx * tol
                evv += abs(cv) * Dx * tol
            gm.append(float(am)), gv.append(float(av)), tm.append(float(em)), tv.append(float(evv))
        sh = self.mean0.shape
        self.gm, self.gv = torch.tensor(gm, dtype=D).reshape(sh), torch.tensor(gv, dtype=D).reshape(sh)
        self.tm, self.tv = torch.tensor(tm, dtype=D).reshape(sh), torch.tensor(tv, dtype=D).reshape(sh)

    def _elp(self, mean, var):
        fd = self.gp.distributions.MultivariateNormal(mean, self.torch.diag_embed(var))
        return self.lik.expected_log_prob(self.y, fd)

    def forward(self):
        mean, var = self.mean0.clone().requires_grad_(True), self.var0.clone().requires_grad_(True)
        return [mean, var], [self._elp(mean, var)]

    def functional(self):
        return (lambda mean, var: self._elp(mean, var)), [self.mean0.clone(), self.var0.clone()]

    def check(self, us, grads, slack=None):
        # observation i depends on (m_i, v_i) only: d (u . elp) / d m_i = u_i d elp_i / d m_i
        sl = [x if x is not None else 0.0 for x in (slack or [None, None])]
        for lab, got, want, tol, sk in (("mean", grads[0], us[0] * self.gm, us[0].abs() * self.tm, sl[0]), ("variance", grads[1], us[0] * self.gv, us[0].abs() * self.tv, sl[1])):
            err = (got - want).abs()
            bad = err > tol + 1e-13 * want.abs() + 1e-300 + sk
            if bool(bad.any()):
                k = int(self.torch.argmax((err * bad).reshape(-1)))
                return False, "d-" + lab, "observation %d (y=%d, m=%.6g, v=%.6g): d/d %s delivered %.12g, the rule applied to phi/Phi gives %.12g (allowed deviation %.3e)" % (
                    k, int(self.y.reshape(-1)[k]), float(self.mean0.reshape(-1)[k]), float(self.var0.reshape(-1)[k]), lab, float(got.reshape(-1)[k]), float(want.reshape(-1)[k]), float(tol.reshape(-1)[k]))
        return True, "", ""


def run_rediff(torch, gpytorch, it):
    from checks import c19_multi as cm
    case, hist = it["cell"], it["hist"]
    if case["route"] == "log_normal_cdf":
        desc = "log_normal_cdf on %d grid points of class %s, shape %s" % (len(it["z"]), case["zc"], "2 x %d" % (len(it["z"]) // 2) if case["batch"] == "b2" else "flat")
        sig = "C13/log_normal_cdf/rediff"
        fac = lambda g: LnSubject(torch, it)
    else:
        desc = "BernoulliLikelihood.expected_log_prob (%s predictions, batch %s), gradients w.r.t. mean and variance" % (case["zc"], case["batch"])
        sig = "C13/bernoulli-elp/rediff"
        fac = lambda g: BernSubject(torch, gpytorch, it, g)
    r = cm.run_history(torch, gpytorch, fac, hist, it["seed"], sig, desc, it, ["rediff", case, [[h["u"], h["how"]] for h in hist], it.get("z", [None])[0]])
    if r.get("ok") and it["seed"] % 53 == 0:
        r["sample"] = dict(case=desc, history=cm.hist_desc(hist), verdict="every pass = upstream x phi/Phi within the granted accuracy; context unchanged")
    return [r]


def run_lncdf(torch, gpytorch, it):
    D = torch.float64
    mp = ref.mpm()
    from gpytorch.functions import log_normal_cdf
    zs = it["z"]
    L = len(zs)
    shape = (2, L // 2) if (L % 2 == 0 and it["wseed"] % 2) else (L,)
    z = torch.tensor(zs, dtype=D).reshape(shape).requires_grad_(True)
    g = torch.Generator().manual_seed(it["wseed"])
    w = (0.5 + torch.rand(L, generator=g, dtype=D)).reshape(shape)          # grad_output must be propagated
    ok, res = core.guarded(lambda: log_normal_cdf(z))
    base = dict(ok=True, nontrivial=True, case=it)
    if not ok:
        return [dict(base, key=["lncdf", zs[0]], ok=False, sig="C13/log_normal_cdf/raises", detail=res)]
    ok, gr = core.guarded(lambda: torch.autograd.grad((res * w).sum(), z)[0])
    if not ok:
        return [dict(base, key=["lncdf", zs[0]], ok=False, sig="C13/log_normal_cdf/backward-raises", detail=gr)]
    vals, grads, ws = res.detach().reshape(-1).tolist(), gr.reshape(-1).tolist(), w.reshape(-1).tolist()
    out = []
    worst = dict(val_tail=0.0, val_body=0.0, grad_tail=0.0, grad_body=0.0)
    for zi, vi, gi, wi in zip(zs, vals, grads, ws):
        zz = mp.mpf(zi)
        want = mp.log(mp.ncdf(zz))
        dwant = mp.npdf(zz) / mp.ncdf(zz)
        err = float(abs(vi - want))
        derr = float(abs(gi / wi - dwant) / dwant)
        tail = zi < -1
        r = dict(base, key=["lncdf", zi], sig="C13/log_normal_cdf/" + ("tail" if tail else ("near-zero" if zi * zi < 0.04 else "ordinary")))
        if tail:
            worst["val_tail"], worst["grad_tail"] = max(worst["val_tail"], err), max(worst["grad_tail"], derr)
            if not err <= 2e-3:
                r.update(ok=False, sig=r["sig"] + "/value", detail="log_normal_cdf(%.17g) = %.15g, log Phi = %.15g (error %.3e > 2e-3)" % (zi, vi, float(want), err))
            elif not derr <= 2e-3:
                r.update(ok=False, sig=r["sig"] + "/derivative", detail="d/dz log_normal_cdf(%.17g) = %.15g, phi/Phi = %.15g (relative error %.3e > 2e-3)" % (zi, gi / wi, float(dwant), derr))
            else:
                for lo, hi, cal in LN_BANDS:
                    if lo <= zi < hi and max(err, derr) > 10 * cal + 1e-12 and not any(o.get("drift") for o in out):
                        r["drift"] = "log_normal_cdf at z=%.6g: error %.3e (value) %.3e (derivative) is more than 10 x the calibrated %.1e of its band (still within 2e-3)" % (zi, err, derr, cal)
        else:
            worst["val_body"] = max(worst["val_body"], err / (abs(float(want)) + 1e-3))
            worst["grad_body"] = max(worst["grad_body"], derr)
            if not err <= 1e-12 * abs(float(want)) + 1e-15:
                r.update(ok=False, sig=r["sig"] + "/value", detail="log_normal_cdf(%.17g) = %.17g, log Phi = %.17g (error %.3e, allowed 1e-12 relative + 1e-15)" % (zi, vi, float(want), err))
            elif not derr <= 1e-12:
                r.update(ok=False, sig=r["sig"] + "/derivative", detail="d/dz log_normal_cdf(%.17g) = %.17g, phi/Phi = %.17g (relative error %.3e > 1e-12)" % (zi, gi / wi, float(dwant), derr))
        out.append(r)
    out[0]["meas"] = dict(kind="lncdf", **worst)
    out[0]["sample"] = dict(case="log_normal_cdf on %d shuffled grid points, shape %s" % (L, list(shape)), z=zs[0], value=vals[0], log_Phi=float(mp.log(mp.ncdf(mp.mpf(zs[0])))))
    return out


# =====================================================================================================================================
# (f) parameter lattice (Quadrature.tla part "params"): every parameter over its whole valid range in decades, batched parameter tensors
#     mixing small and large values, observations placed where the rule has no truncation error
# =====================================================================================================================================
PARAM_ATTR = {"noise": "noise", "deg_free": "deg_free", "scale": "scale"}
PARAM_TOL = 1e-9              # integrals in the no-truncation regimes: relative to 1 + |reference| (calibrated on the unchanged tree: <= 4e-12)
F_VALUES = [1e-6, -0.3, 100.0, -1e-3, 2.5, -40.0]       # function values for the conditional: magnitudes 1e-6 .. 1e2, both signs


def qf(q):
    return Fraction(int(q[0]), int(q[1]))


def param_ref_items(decades, places):
    """reference integrals that do not depend on the decade of a location-scale parameter: Student-t in dimensionless form (function sd r,
    observation k, scale 1) per deg_free decade; Beta per scale decade (absolute)"""
    out = []
    for e in decades:
        for i, pl in enumerate(places["StudentT"]):
            out.append(dict(kind="pref", lik="StudentT", e=e, i=i, pl=pl))
        for i, pl in enumerate(places["Beta"]):
            out.append(dict(kind="pref", lik="Beta", e=e, i=i, pl=pl))
    return out


def beta_place(s, pl):
    """(m, v, y) as the floats handed to the code for Beta scale s (float) and placement <<m, r, y>>"""
    sd = float(qf(pl[1])) / math.sqrt(1.0 + s)
    return float(qf(pl[0])), sd * sd, float(qf(pl[2]))


def run_pref(torch, gpytorch, it):
    mp = ref.mpm()
    pl = it["pl"]
    if it["lik"] == "StudentT":
        nu = 2 + Fraction(10) ** it["e"]
        r, k = qf(pl[1]), qf(pl[2])
        elp, lm = ref.ref_integrals(mp, "stu", dict(noise=1, df=mp.mpf(nu.numerator) / nu.denominator), 0, mp.mpf((r * r).numerator) / (r * r).denominator,
                                    mp.mpf(k.numerator) / k.denominator, fine=True)
    else:
        s = float(Fraction(10) ** it["e"])
        m, v, y = beta_place(s, pl)
        elp, lm = ref.ref_integrals(mp, "beta", dict(scale=s), m, v, y)          # narrow placement: six panels agree with 28 panels at 40 digits to 1e-30 (measured for s = 1e-6, 1, 100)
    return [dict(aux=True, pref=[it["lik"], it["e"], it["i"]], elp=mp.nstr(elp, 25), lm=mp.nstr(lm, 25))]


def param_items(states, refs, seed, thorough):
    out = []
    for k, st in enumerate(sorted(states, key=repr)):
        c, o = st["c"], st["out"]
        if str(c["kind"]) != "param":
            continue
        lik = str(c["lik"])
        names = sorted(o["values"][0].keys()) if lik != "Bernoulli" else []
        it = dict(kind="param", lik=lik, layout=str(c["layout"]), route=str(c["route"]), bs=[int(x) for x in c["bs"]], fs=[int(x) for x in c["fs"]],
                  exps=[{p: int(m[p]) for p in names} for m in c["members"]],
                  values=[{p: [int(x) for x in m[p]] for p in names} for m in o["values"]],
                  cond=[{a: [int(x) for x in q] for a, q in m.items()} for m in o["cond"]],
                  shape=[int(x) for x in o["shape"]], pshape=[int(x) for x in o["pshape"]],
                  reads=sorted([[int(x) for x in b], int(j), [int(x) for x in fi]] for b, j, fi in o["reads"]),
                  con={p: dict(cls=str(q["class"]), lower=[int(x) for x in q["lower"]], upper=[int(x) for x in q["upper"]], bounded=bool(q["bounded"]), transform=str(q["transform"]),
                               dlower=[int(x) for x in q["dlower"]]) for p, q in (o["con"].items() if names else ())}, conhow=str(c["conhow"]),
                  regime=str(o["regime"]), place=[[[int(x) for x in q] for q in pl] for pl in o["place"]], reach=int(o["reach"]), seed=seed)
        it["refs"] = {}
        for m in it["exps"]:
            key = {"StudentT": m.get("deg_free"), "Beta": m.get("scale")}.get(lik)
            if key is not None:
                for i in range(len(it["place"])):
                    it["refs"]["%d/%d" % (key, i)] = refs[(lik, key, i)]
        for n in ((0, 40) if thorough else ((0, 40)[k % 2],)):
            out.append(dict(it, n=n))
    return out


def func_items(states):
    """Bernoulli: the decades are laid over the function distribution; one item = one mean with every variance decade as a batch"""
    by = {}
    for st in states:
        c, o = st["c"], st["out"]
        if str(c["kind"]) == "func":
            by.setdefault((int(c["em"]), int(c["sg"])), []).append((int(c["ev"]), [int(x) for x in o["m"]], [int(x) for x in o["v"]]))
    return [dict(kind="func", em=em, sg=sg, m=sorted(v)[0][1], ev=[e for e, _, _ in sorted(v)], v=[q for _, _, q in sorted(v)]) for (em, sg), v in sorted(by.items())]


CON_KW = {"noise": "noise_constraint", "deg_free": "deg_free_constraint", "scale": "scale_constraint"}


def make_constraint(torch, gpytorch, cc):
    """the constraint object of a class of Quadrature.tla (ConLower / ConUpper / ConTransform); None = leave the default"""
    C = gpytorch.constraints
    lo = float(qf(cc["lower"]))
    if cc["cls"] == "default":
        return None
    if cc["cls"] == "gt" and cc["transform"] == "softplus" and not cc["bounded"]:
        return C.GreaterThan(lo)
    if cc["cls"] == "interval" and cc["transform"] == "sigmoid" and cc["bounded"]:
        return C.Interval(lo, float(qf(cc["upper"])))
    if cc["cls"] == "exp" and cc["transform"] == "exp" and not cc["bounded"]:
        return C.Positive(transform=torch.exp, inv_transform=torch.log) if lo == 0 else C.GreaterThan(lo, transform=torch.exp, inv_transform=torch.log)
    raise core.Machinery("unknown constraint class %r" % (cc,))


def nondefault(it):
    return any(cc["cls"] != "default" for cc in it.get("con", {}).values())


def con_desc(it):
    out = []
    for p, cc in sorted(it.get("con", {}).items()):
        if cc["cls"] != "default":
            lo = float(qf(cc["lower"]))
            out.append("%s_constraint=%s" % (p, {"gt": "GreaterThan(%g)" % lo, "interval": "Interval(%g, %g)" % (lo, float(qf(cc["upper"]))),
                                                  "exp": ("Positive" if lo == 0 else "GreaterThan(%g, " % lo) + ("(" if lo == 0 else "") + "transform=exp)"}[cc["cls"]]))
    return (" " + ", ".join(out) + (" (given to the constructor)" if it.get("conhow") == "ctor" else " (register_constraint after construction)")) if out else ""


def set_params(torch, lik, it):
    """drive the value into the likelihood along the route of the case"""
    D = torch.float64
    route, bs = it["route"], tuple(it["bs"])
    vals = {}
    for p in it["values"][0]:
        col = [float(qf(m[p])) for m in it["values"]]
        if route.endswith("float"):
            vals[p] = col[0]
        elif bs:
            vals[p] = torch.tensor(col, dtype=D).reshape(*bs, 1)
        else:
            vals[p] = torch.tensor(col[0], dtype=D)
    if route.startswith("setter"):
        for p, v in vals.items():
            setattr(lik, PARAM_ATTR[p], v)
    elif route.startswith("initialize"):
        lik.initialize(**{PARAM_ATTR[p]: v for p, v in vals.items()})
    elif route != "none":
        raise core.Machinery("unknown route " + route)


def scalar_twin(torch, gpytorch, it, j):
    """a fresh un-batched likelihood carrying the parameters of member j (set through the tensor setter)"""
    L = gpytorch.likelihoods
    lik = {"Laplace": L.LaplaceLikelihood, "StudentT": L.StudentTLikelihood, "Beta": L.BetaLikelihood}[it["lik"]]()
    for p, q in it["values"][j].items():
        setattr(lik, PARAM_ATTR[p], torch.tensor(float(qf(q)), dtype=torch.float64))
    return lik


def run_param(torch, gpytorch, it):
    from contextlib import ExitStack
    D = torch.float64
    mp = ref.mpm()
    L = gpytorch.likelihoods
    name, bs, fs, n = it["lik"], tuple(it["bs"]), tuple(it["fs"]), it["n"]
    K = len(it["values"])
    desc = "%s(batch_shape=%s)%s %s via %s, function values of shape %s, rule with %s nodes" % (
        name, list(bs), con_desc(it), " ; ".join(", ".join("%s=%s" % (p, float(qf(q))) for p, q in m.items()) for m in it["values"]) or "no parameter", it["route"], list(fs), n or "default 20")
    base = dict(ok=True, nontrivial=True, case=it)
    kb = ["param", name, it["layout"], it["route"], list(bs), list(fs), it["exps"], n]
    nondef = nondefault(it)
    if nondef:
        kb = kb + [{p: cc["cls"] for p, cc in it["con"].items()}, it["conhow"]]
    out = []

    def res(aspect):
        r = dict(base, key=kb + [aspect], sig="C13/params/%s/%s" % (name, aspect))
        out.append(r)
        return r

    def fail(r, what, detail):
        if r["ok"]:
            r.update(ok=False, sig=r["sig"] + "/" + what, detail="%s: %s" % (desc, detail))

    # ---- construct and set ----------------------------------------------------------------------------------------------------------
    def build():
        with ExitStack() as st:
            if n:
                st.enter_context(gpytorch.settings.num_gauss_hermite_locs(n))
            if name == "Bernoulli":
                lik = L.BernoulliLikelihood()
            else:
                cons = {p: make_constraint(torch, gpytorch, cc) for p, cc in it.get("con", {}).items()}
                cons = {p: k for p, k in cons.items() if k is not None}
                cls = {"Laplace": L.LaplaceLikelihood, "StudentT": L.StudentTLikelihood, "Beta": L.BetaLikelihood}[name]
                if it.get("conhow", "ctor") == "ctor":
                    lik = cls(batch_shape=torch.Size(bs), **{CON_KW[p]: k for p, k in cons.items()})
                else:
                    lik = cls(batch_shape=torch.Size(bs))
                    for p, k in cons.items():
                        lik.register_constraint("raw_" + p, k)
        set_params(torch, lik, it)
        return lik
    r = res("readback")
    ok, lik = core.guarded(build)
    if not ok:
        fail(r, "raises", lik)
        return out
    nodes = lik.quadrature.locations.detach()
    if nodes.numel() != (n or 20):
        fail(r, "num-locs", "the rule has %d nodes" % nodes.numel())
        return out
    if float(nodes.abs().max()) * math.sqrt(2.0) >= it["reach"]:
        return [dict(machinery="Quadrature.tla NodeReach=%d but a node of the %d-point rule lies %.3f standard deviations out" % (it["reach"], nodes.numel(), float(nodes.abs().max()) * math.sqrt(2.0)))]
    for p in it["values"][0]:
        got = getattr(lik, PARAM_ATTR[p]).detach()
        if list(got.shape) != it["pshape"]:
            fail(r, p + "/shape", "likelihood.%s has shape %s, expected batch_shape + [1] = %s" % (p, list(got.shape), it["pshape"]))
            continue
        for j in range(K):
            want = float(qf(it["values"][j][p]))
            g = float(got.reshape(-1)[j if bs else 0])
            if not abs(g - want) <= 1e-12 * want:
                fail(r, p, "likelihood.%s of member %d reads %.17g after setting %.17g" % (p, j, g, want))
    # ---- the conditional: parameters of the returned distribution ---------------------------------------------------------------------
    r = res("conditional")
    nf = int(math.prod(fs))
    f = torch.tensor([F_VALUES[i % len(F_VALUES)] for i in range(nf)], dtype=D).reshape(fs)
    with torch.no_grad():
        ok, d = core.guarded(lambda: lik(f))
    tcls = dict(Bernoulli="Bernoulli", Laplace="Laplace", StudentT="StudentT", Beta="Beta")[name]
    if not ok:
        fail(r, "raises", d)
    elif type(d).__name__ != tcls:
        fail(r, "class", "the conditional is a %s" % type(d).__name__)
    elif list(d.batch_shape) != it["shape"]:
        fail(r, "shape", "the conditional has batch shape %s, broadcast(parameter %s, function %s) = %s" % (list(d.batch_shape), it["pshape"], list(fs), it["shape"]))
    else:
        sh = tuple(it["shape"])
        bc = lambda t: torch.broadcast_to(t.detach(), sh)
        attrs = {}
        if name in ("Laplace", "StudentT"):
            attrs = dict(loc=bc(d.loc), scale=bc(d.scale))
            if name == "StudentT":
                attrs["df"] = bc(d.df)
        elif name == "Beta":
            attrs = dict(c1=bc(d.concentration1), c0=bc(d.concentration0))
        else:
            attrs = dict(probs=bc(d.probs))
        pub = {p: bc(getattr(lik, PARAM_ATTR[p])) for p in it["values"][0]}          # what the public property reports, broadcast like the conditional's parameters
        for b, j, fi in it["reads"]:
            cj = it["cond"][j - 1]
            fv = float(f[tuple(fi)])
            el = {a: float(t[tuple(b)]) for a, t in attrs.items()}
            where = "element %s (member %d, f=%g)" % (b, j, fv)
            pv_ = {p: float(t[tuple(b)]) for p, t in pub.items()}
            for p, gotp in (("noise", el["scale"] ** 2 if "scale" in el else None), ("deg_free", el.get("df")), ("scale", el["c1"] + el["c0"] - 2 if "c1" in el else None)):
                if gotp is not None and p in pv_ and not abs(gotp - pv_[p]) <= 1e-12 * abs(pv_[p]) + 1e-15 * (2 if p == "scale" else 0):
                    fail(r, p + "-vs-property", "%s: the returned %s reads %s = %.17g, likelihood.%s reports %.17g" % (where, tcls, p, gotp, p, pv_[p]))
            if name in ("Laplace", "StudentT"):
                if el["loc"] != fv:
                    fail(r, "loc", "%s: loc = %.17g" % (where, el["loc"]))
                q = qf(cj["scale_sq"])
                want = float(mp.sqrt(mp.mpf(q.numerator) / q.denominator))
                if not abs(el["scale"] - want) <= 1e-12 * want:
                    fail(r, "scale", "%s: scale = %.17g, documented sqrt(noise) = %.17g (noise = %s)" % (where, el["scale"], want, q))
                if name == "StudentT":
                    want = float(qf(cj["df"]))
                    if not abs(el["df"] - want) <= 1e-12 * want:
                        fail(r, "df", "%s: df = %.17g, documented deg_free = %.17g" % (where, el["df"], want))
            elif name == "Beta":
                tot = qf(cj["conc_sum"])
                s_ = tot - 2
                if not abs((el["c1"] + el["c0"]) - float(tot)) <= 1e-14 * float(tot):
                    fail(r, "concentration-sum", "%s: concentration1 + concentration0 = %.17g, documented scale + 2 = %.17g (scale = %s)" % (where, el["c1"] + el["c0"], float(tot), s_))
                sg = 1 / (1 + mp.exp(-mp.mpf(fv)))
                want = float(sg * (mp.mpf(s_.numerator) / s_.denominator) + 1)
                if not abs(el["c1"] - want) <= 1e-14 * want:
                    fail(r, "concentration1", "%s: concentration1 = %.17g, documented sigmoid(f) scale + 1 = %.17g (scale = %s)" % (where, el["c1"], want, s_))
            else:
                want = float(mp.ncdf(mp.mpf(fv)))
                if not abs(el["probs"] - want) <= 1e-12:
                    fail(r, "probs", "%s: probs = %.17g, Phi(f) = %.17g" % (where, el["probs"], want))
    if name == "Bernoulli":
        return out
    # ---- integrals where the rule has no truncation error -----------------------------------------------------------------------------
    place = it["place"]
    N = fs[-1]
    W = []
    for j in range(K):
        v = it["values"][j]
        W.append(math.sqrt(float(qf(v["noise"]))) if name != "Beta" else 1.0 / math.sqrt(1.0 + float(qf(v["scale"]))))
    per_row = len(fs) > 1 and len(bs) > 0 and fs[0] == K     # function row j belongs to member j: every member gets its own placement scale; a single row is shared by all members
    rows = fs[0] if len(fs) > 1 else 1
    mean, var, y = torch.empty(fs, dtype=D), torch.empty(fs, dtype=D), torch.empty(fs, dtype=D)
    wrow = []
    for row in range(rows):
        w = W[row] if per_row else min(W)
        wrow.append(w)
        for i in range(N):
            pl = place[i]
            m_ = float(qf(pl[0]))
            if name == "Beta":
                # the width of the conditional in f is 1/sqrt(1 + s); with a shared function the narrowest member sets it
                sref = float(qf(it["values"][row if per_row else W.index(min(W))]["scale"]))
                m_, v_, y_ = beta_place(sref, pl)
            else:
                sd = float(qf(pl[1])) * w
                v_, y_ = sd * sd, m_ + float(qf(pl[2])) * w
            idx = (row, i) if len(fs) > 1 else (i,)
            mean[idx], var[idx], y[idx] = m_, v_, y_
    fd = gpytorch.distributions.MultivariateNormal(mean, torch.diag_embed(var))
    twins = {}
    for method in ("expected_log_prob", "log_marginal"):
        r = res(method)
        with torch.no_grad():
            ok, got = core.guarded(lambda: getattr(lik, method)(y, fd))
        if not ok:
            fail(r, "raises", got)
            continue
        if list(got.shape) != it["shape"]:
            fail(r, "result-shape", "result shape %s, expected %s" % (list(got.shape), it["shape"]))
            continue
        n_ref = 0
        for b, j, fi in it["reads"]:
            vj = it["values"][j - 1]
            m_, v_, y_ = float(mean[tuple(fi)]), float(var[tuple(fi)]), float(y[tuple(fi)])
            g = float(got[tuple(b)])
            i = fi[-1]
            row = fi[0] if len(fs) > 1 else 0
            where = "element %s (member %d: %s; m=%.6g v=%.6g y=%.9g)" % (b, j, ", ".join("%s=%.9g" % (p, float(qf(q))) for p, q in vj.items()), m_, v_, y_)
            want = None
            if name == "Laplace":
                # closed form; holds for every member because the placement condition does not involve the noise; sd <= b keeps the tilted mass on one side
                if math.sqrt(v_) <= W[j - 1] * 1.0000001:
                    e_, l_ = ref.laplace_one_sided(mp, qf(vj["noise"]).numerator / mp.mpf(qf(vj["noise"]).denominator), m_, v_, y_)
                    want, how = float(e_ if method == "expected_log_prob" else l_), "closed form of the documented Laplace(f, sqrt(noise))"
            elif wrow[row] == W[j - 1] and it["con"][{"StudentT": "deg_free", "Beta": "scale"}[name]]["lower"] == it["con"][{"StudentT": "deg_free", "Beta": "scale"}[name]]["dlower"]:
                # (the references are keyed by the exponent above the DEFAULT lower bound of deg_free / scale: they apply whenever the class keeps that bound)
                if name == "StudentT":
                    G = it["refs"]["%d/%d" % (it["exps"][j - 1]["deg_free"], i)]
                    want = float(mp.mpf(G["elp" if method == "expected_log_prob" else "lm"]) - mp.log(mp.mpf(qf(vj["noise"]).numerator) / qf(vj["noise"]).denominator) / 2)
                    how = "scale-equivariant reference (mpmath integral for scale 1, minus log sqrt(noise))"
                else:
                    G = it["refs"]["%d/%d" % (it["exps"][j - 1]["scale"], i)]
                    want, how = float(mp.mpf(G["elp" if method == "expected_log_prob" else "lm"])), "mpmath integral of the documented Beta density"
            if want is not None:
                n_ref += 1
                r["meas_err"] = max(r.get("meas_err", 0.0), abs(g - want) / (1 + abs(want)))
                if not abs(g - want) <= PARAM_TOL * (1 + abs(want)):
                    fail(r, "no-truncation-regime", "%s: %s = %.15g, %s gives %.15g (error %.3e, allowed %.1e)" % (where, method, g, how, want, abs(g - want), PARAM_TOL * (1 + abs(want))))
            if K > 1 or nondef:
                # fresh object with the same state: member j alone, un-batched, DEFAULT constraints, the same parameter VALUES, same function value
                n_ref += 1 if nondef else 0
                if j not in twins:
                    twins[j] = scalar_twin(torch, gpytorch, it, j - 1)
                fd1 = gpytorch.distributions.MultivariateNormal(mean[tuple(fi)].reshape(1), var[tuple(fi)].reshape(1, 1))
                with torch.no_grad():
                    ok, one = core.guarded(lambda: float(getattr(twins[j], method)(y[tuple(fi)].reshape(1), fd1)))
                if not ok:
                    fail(r, "raises", "un-batched twin: %s" % one)
                elif not abs(g - one) <= PARAM_TOL * (1 + abs(one)):
                    fail(r, "member-vs-scalar" if not nondef else "vs-default-constraint-twin", "%s: %s = %.15g, %.15g from an un-batched default-constrained likelihood with the parameter values of member %d" % (where, method, g, one, j))
        if n_ref == 0:
            return [dict(machinery="C13 params: no element of %s could be referenced" % desc)]
        if r["ok"] and it["layout"] == "batch" and it["route"] == "setter-tensor" and per_row and set(it["exps"][0].values()) == {-6} and set(it["exps"][1].values()) == {0}:
            r["sample"] = dict(case=desc, method=method, referenced_elements=n_ref, result=[float(x) for x in got.reshape(-1)[:3]])
    return out


def run_func(torch, gpytorch, it):
    """Bernoulli over the decades of the function distribution: marginal = Phi(m / sqrt(1 + v)) for every (m, v); expected_log_prob where the
    function is narrow (v <= 1e-2: no truncation error, only log_normal_cdf's documented 2e-3)"""
    D = torch.float64
    mp = ref.mpm()
    m = float(qf(it["m"]))
    vs = [float(qf(q)) for q in it["v"]]
    Kv = len(vs)
    lik = gpytorch.likelihoods.BernoulliLikelihood()
    base = dict(ok=True, nontrivial=True, case=it)
    out = []
    mean = torch.full((Kv, 1), m, dtype=D)
    var = torch.tensor(vs, dtype=D).reshape(Kv, 1)
    fd = gpytorch.distributions.MultivariateNormal(mean, var.reshape(Kv, 1, 1))
    desc = "Bernoulli, function mean %g, variances %s as one batch" % (m, vs)
    with torch.no_grad():
        ok, got = core.guarded(lambda: (lik(fd).probs, lik.marginal(fd).probs, lik.log_marginal(torch.ones(Kv, 1, dtype=D), fd), lik.log_marginal(torch.zeros(Kv, 1, dtype=D), fd),
                                        lik.expected_log_prob(torch.ones(Kv, 1, dtype=D), fd), lik.expected_log_prob(torch.zeros(Kv, 1, dtype=D), fd)))
    if not ok:
        return [dict(base, key=["func", it["em"], it["sg"]], ok=False, sig="C13/params/Bernoulli/function-decades/raises", detail="%s: %s" % (desc, got))]
    for k, (ev, v) in enumerate(zip(it["ev"], vs)):
        r = dict(base, key=["func", it["em"], it["sg"], ev], sig="C13/params/Bernoulli/function-decades")
        out.append(r)
        link = mp.mpf(m) / mp.sqrt(1 + mp.mpf(v))
        want = mp.ncdf(link)
        for nm, t in (("likelihood(dist).probs", got[0]), ("marginal(dist).probs", got[1])):
            g = float(t.reshape(-1)[k])
            if r["ok"] and not abs(g - float(want)) <= 1e-12:
                r.update(ok=False, sig=r["sig"] + "/marginal", detail="%s: %s = %.17g for v=%g; Phi(m/sqrt(1+v)) = %.17g" % (desc, nm, g, v, float(want)))
        for yy, t in ((1, got[2]), (0, got[3])):
            wl = mp.log(want if yy else mp.ncdf(-link))
            g = float(t.reshape(-1)[k])
            if r["ok"] and wl > -20 and not abs(g - float(wl)) <= 1e-9 * (1 + abs(float(wl))):
                r.update(ok=False, sig=r["sig"] + "/log_marginal", detail="%s: log_marginal(y=%d) = %.15g for v=%g; log Phi((2y-1) m/sqrt(1+v)) = %.15g" % (desc, yy, g, v, float(wl)))
        if ev in (-6, -2):
            for yy, t in ((1, got[4]), (0, got[5])):
                we, _ = ref.ref_integrals(mp, "bern", {}, m, v, float(yy))
                g = float(t.reshape(-1)[k])
                if r["ok"] and not abs(g - float(we)) <= 2e-3 + 1e-4:
                    r.update(ok=False, sig=r["sig"] + "/expected_log_prob", detail="%s: expected_log_prob(y=%d) = %.12g for v=%g; E log Phi((2y-1) f) = %.12g (allowed 2.1e-3)" % (desc, yy, g, v, float(we)))
    return out


# =====================================================================================================================================
RUNNERS = dict(param=run_param, func=run_func, pref=run_pref, rediff=run_rediff, poly=run_poly, table=run_table, shape=run_shape, cell=run_cell, cond=run_cond, bern=run_bern, integral=run_integral, lncdf=run_lncdf)


def worker(it):
    torch = core.setup_torch()
    import gpytorch
    if it["kind"] == "integral-aggregate":
        return []
    with default_dtype(torch, torch.float64 if it["kind"] not in ("poly", "table") else torch.get_default_dtype()):
        return RUNNERS[it["kind"]](torch, gpytorch, it)


# =====================================================================================================================================
# aggregation over the fixed grid (error must shrink with the number of nodes) and measured precision for the evidence
# =====================================================================================================================================
def shrink_verdicts(table):
    """table[(lik, pi, method)][n] = list of absolute errors over the fixed grid -> list of (sig, detail, case)"""
    bad = []
    for (name, pi, method), by_n in sorted(table.items()):
        floor = FLOOR.get(name + "/" + method, 1e-9)
        agg = {n: (max(by_n[n]), sum(by_n[n]) / len(by_n[n])) for n in NODES}
        for what, j in (("max", 0), ("mean", 1)):
            for a, b in ((10, 20), (20, 40)):
                if not agg[b][j] <= max(agg[a][j], floor):
                    bad.append(("C13/integral/%s/%s/shrink" % (name, method),
                                "%s.%s parameter set %d: %s |error| over the fixed grid goes %s as the nodes go 10 -> 20 -> 40 (must not grow above max(previous, %.0e))" % (
                                    name, method, pi, what, " -> ".join("%.3e" % agg[n][j] for n in NODES), floor),
                                dict(kind="integral-aggregate", lik=name, pi=pi, method=method)))
                    break
    return bad


def grid_table(results):
    table = {}
    for r in results:
        m = r.get("meas")
        if m and m["kind"] == "integral" and m["grid"]:
            for k, e in m["errs"].items():
                method, n = k.split("/")
                table.setdefault((m["lik"], m["pi"], method), {}).setdefault(int(n), []).append(e)
    return table


def aggregate(ck, results):
    table = grid_table(results)
    want = sum(len(p) for p, _ in GRID.values()) * 2
    complete = {k: v for k, v in table.items() if all(len(v.get(n, [])) == len(GRID_M) * len(GRID_V) * len(GRID[k[0]][1]) for n in NODES)}
    if len(complete) != want and not any(not r.get("ok", True) for r in results):
        ck.vacuous("the fixed integral grid is incomplete: %d of %d (likelihood, parameter set, method) groups" % (len(complete), want))
    for sig, detail, case in shrink_verdicts(complete):
        ck.case(["shrink", case], True)
        ck.violation(sig, detail, case)
    for k in complete:
        ck.case(["shrink", k], True)
    ck.extra["integral_error_table"] = {"%s/set%d/%s" % k: {str(n): dict(max=float("%.3e" % max(v[n])), mean=float("%.3e" % (sum(v[n]) / len(v[n])))) for n in NODES}
                                        for k, v in sorted(complete.items())}
    seeded = {}
    for r in results:
        m = r.get("meas")
        if m and m["kind"] == "integral" and not m["grid"]:
            for k, e in m["errs"].items():
                method, n = k.split("/")
                if n == "40":
                    kk = m["lik"] + "/" + method
                    seeded[kk] = max(seeded.get(kk, 0.0), e)
    ck.extra["calibration"] = dict(
        what="bounds at 40 nodes = 10 x the maximal |error| measured on the unchanged tree over the fixed grid (m in %s, v in %s, parameter sets %s); "
             "Bernoulli.expected_log_prob is bounded by log_normal_cdf's 2e-3 + 1e-4 instead, Bernoulli.log_marginal (analytic) by 1e-9" % (
                 GRID_M, GRID_V, {k: p for k, (p, _) in GRID.items()}),
        calibrated_max_at_40=CAL40, bounds_at_40={k: bound40(*k.split("/")) for k in CAL40}, seeded_max_at_40_this_run=seeded,
        log_normal_cdf_bands=[dict(lo=max(lo, -40), hi=hi, calibrated_max_error=c) for lo, hi, c in LN_BANDS])
    # polynomial exactness: measured precision
    worst = {}
    for r in results:
        m = r.get("meas")
        if m and m["kind"] == "poly" and m["worst"] is not None:
            worst[m["mode"]] = max(worst.get(m["mode"], 0.0), m["worst"])
    ck.extra["polynomial_worst_error_relative_to_sum_abs_terms"] = dict(measured=worst, tolerance={"float64 nodes": TOL64, "default32-double": "%.0e x (degree + 5)" % TOL32})
    vis = [r["aux_deficit"] for r in results if r.get("aux_deficit")]
    n_vis = sum(1 for d in vis if d["visible"])
    n_inexact = sum(1 for d in vis if d["visible"] and d["inexact"])
    ck.section("degree_2n_sanity", cases=len(vis), deficit_above_tolerance=n_vis, observed_inexact=n_inexact)
    if n_inexact == 0 and not any(not r.get("ok", True) for r in results):
        ck.vacuous("no degree-2n monomial was observed to be integrated inexactly: the polynomial comparison cannot tell exact from inexact")
    ln = dict(val_tail=0.0, val_body=0.0, grad_tail=0.0, grad_body=0.0)
    for r in results:
        m = r.get("meas")
        if m and m["kind"] == "lncdf":
            for k in ln:
                ln[k] = max(ln[k], m[k])
    ck.extra["log_normal_cdf_measured"] = dict(max_abs_error_z_below_minus1=ln["val_tail"], max_rel_derivative_error_z_below_minus1=ln["grad_tail"],
                                               max_error_z_from_minus1_rel_to_value_plus_1e3=ln["val_body"], max_rel_derivative_error_z_from_minus1=ln["grad_body"])
    ck.extra["doc_discrepancies"] = ["BetaLikelihood docstring: alpha = m s, beta = (1 - m) s; forward(): alpha = m s + 1, beta = (1 - m) s + 1 (pinned as implemented)",
                                     "LaplaceLikelihood docstring: 'sigma - the noise'; forward(): scale = noise.sqrt()"]
    if ln["val_tail"] == 0.0 or ln["val_body"] == 0.0 and ln["grad_body"] == 0.0:
        ck.vacuous("log_normal_cdf grid did not exercise both sides of z = -1")
    aggregate_big(ck, results)


def replay_aggregate(case):
    items = [it for it in integral_items(0, False) if it["grid"] and it["lik"] == case["lik"] and it["pi"] == case["pi"]]
    results = core.pmap(worker, items, chunksize=1)
    table = {k: v for k, v in grid_table(results).items() if k[2] == case["method"]}
    return [dict(ok=False, sig=s, detail=d) for s, d, _ in shrink_verdicts(table)]


# =====================================================================================================================================
# (g) the conditional over the whole range of the function values (Quadrature.tla part "condf"): log_prob of the returned distribution
#     and its gradient with respect to f, |f| = 1e-6 .. 1e3, for every likelihood whose conditional the library builds
# =====================================================================================================================================
CONDF_TOL = 1e-9         # relative to 1 + |reference| (measured on the unchanged tree: <= 4e-14 where it passes; 3.4e-11 for a Bernoulli conditional rebuilt on torch.special.log_ndtr)
CONDF_LAYOUTS = ("flat", "rows")


def condf_items(states, seed):
    """one item = (likelihood, observation class, layout) with EVERY magnitude / sign / direction of the lattice in one tensor (a batch mixes 1e-6 and 1e3)"""
    groups = {}
    for st in states:
        c, o = st["c"], st["out"]
        lik = str(c["lik"])
        if lik == "Softmax":
            key = (lik, bool(c["mix"]), int(c["obs"]))
            case = dict(em=int(c["em"]), dir=[int(x) for x in c["dir"]], f=[[int(x) for x in q] for q in o["f"]], logits=[[int(x) for x in q] for q in o["logits"]],
                        gaps=[[int(x) for x in q] for q in o["gaps"]], cls=str(o["class"]), W=[[int(x) for x in row] for row in o["W"]])
        else:
            key = (lik, False, str(c["obs"]))
            case = dict(em=int(c["em"]), sg=int(c["sg"]), f=[int(x) for x in o["f"]], y=[int(x) for x in o["y"]], offset=[int(x) for x in o["offset"]],
                        lin=[int(x) for x in o["lin"]], slope=[int(x) for x in o["slope"]], par={k: [int(x) for x in v] for k, v in o["par"].items()})
        groups.setdefault(key, []).append(case)
    out = []
    for k, (key, cases) in enumerate(sorted(groups.items(), key=repr)):
        cases.sort(key=lambda q: (q["em"], repr(q.get("dir", q.get("sg")))))
        for j, lay in enumerate(CONDF_LAYOUTS):
            out.append(dict(kind="condf", lik=key[0], mix=key[1], obs=key[2], layout=lay, cases=cases, seed=seed * 131 + 2 * k + j))
    return out


def condf_ref(mp, name, par, f, y):
    """(log p(y|f), d/df log p(y|f)) of the documented one-dimensional conditional, f and y the floats handed to the code"""
    f, y = mp.mpf(f), mp.mpf(y)
    if name == "Bernoulli":
        s = 2 * y - 1
        return mp.log(mp.ncdf(s * f)), s * mp.npdf(s * f) / mp.ncdf(s * f)
    if name == "Laplace":
        b = mp.sqrt(par["noise"])
        return -mp.log(2 * b) - abs(y - f) / b, mp.sign(y - f) / b
    if name == "StudentT":
        nu, s = par["deg_free"], mp.sqrt(par["noise"])
        t = (y - f) / s
        return ref.logp(mp, "stu", dict(noise=par["noise"], df=nu), y, f), (nu + 1) * t / (s * (nu + t * t))
    if name == "Beta":
        sc = par["scale"]
        sg = 1 / (1 + mp.exp(-f))
        a, b = sg * sc + 1, (1 - sg) * sc + 1
        return ref.logp(mp, "beta", dict(scale=sc), y, f), sc * sg * (1 - sg) * (mp.digamma(b) - mp.digamma(a) + mp.log(y) - mp.log1p(-y))
    raise core.Machinery("condf_ref: " + name)


def run_condf(torch, gpytorch, it):
    D = torch.float64
    mp = ref.mpm()
    L = gpytorch.likelihoods
    name, cases, lay = it["lik"], it["cases"], it["layout"]
    n = len(cases)
    if n % 2 or n < 4:
        return [dict(machinery="C13 condf: %d cases in the group %s" % (n, [name, it["mix"], it["obs"]]))]
    lead = (2, n // 2) if lay == "rows" else (n,)
    g = torch.Generator().manual_seed(it["seed"])
    w = (0.5 + torch.rand(n, generator=g, dtype=D)).reshape(lead)        # upstream gradient: must be propagated element by element
    base = dict(ok=True, nontrivial=True, case=it)
    out = []

    def results(aspect, keyf):
        rs = [dict(base, key=["condf", name, it["mix"], it["obs"], lay, keyf(q), aspect], sig="C13/condf/%s/%s" % (name + ("" if name != "Softmax" or it["mix"] else "-identity"), aspect)) for q in cases]
        out.extend(rs)
        return rs

    def fail(r, detail):
        if r["ok"]:
            r.update(ok=False, detail="%s: %s" % (desc, detail))

    if name == "Softmax":
        W = cases[0]["W"]
        C, Fd = len(W), len(W[0])
        if n // 2 == Fd or n == Fd:
            return [dict(machinery="C13 condf: the number of points equals the number of features (legacy transposed input path)")]
        desc = "SoftmaxLikelihood(num_classes=%d, mixing_weights=%s)%s, observed class %d, %d latent vectors of magnitude 1e-6 .. 1e3 as one %s batch" % (
            C, it["mix"], " W=%s" % W if it["mix"] else "", it["obs"] - 1, n, list(lead))
        keyf = lambda q: [q["em"], q["dir"]]
        rv, rg, ro = results("log_prob", keyf), results("gradient", keyf), results("log-odds", keyf)

        def build():
            if it["mix"]:
                lik = L.SoftmaxLikelihood(num_features=Fd, num_classes=C)
                with torch.no_grad():
                    lik.mixing_weights.copy_(torch.tensor(W, dtype=D))
            else:
                lik = L.SoftmaxLikelihood(num_classes=C, mixing_weights=False)
            return lik
        f0 = torch.tensor([[float(qf(x)) for x in q["f"]] for q in cases], dtype=D).reshape(*lead, Fd)
        f = f0.clone().requires_grad_(True)
        yobs = torch.full(lead, it["obs"] - 1, dtype=torch.long)

        def call():
            import warnings
            with warnings.catch_warnings():
                warnings.simplefilter("ignore")
                d = build()(f)
            lp = d.log_prob(yobs)
            gr = torch.autograd.grad((lp * w).sum(), f)[0]
            allc = torch.stack([d.log_prob(torch.full(lead, cc, dtype=torch.long)) for cc in range(C)], -1)
            return type(d).__name__, lp.detach(), gr, allc.detach()
        ok, got = core.guarded(call)
        if not ok:
            for r in rv:
                r.update(ok=False, sig=r["sig"] + "/raises", detail="%s: %s" % (desc, got))
            return out
        tname, lp, gr, allc = got
        if tname != "Categorical" or tuple(lp.shape) != tuple(lead):
            for r in rv:
                r.update(ok=False, sig=r["sig"] + "/class", detail="%s: the conditional is a %s, log_prob has shape %s" % (desc, tname, list(lp.shape)))
            return out
        lp, gr, allc, wf = lp.reshape(n), gr.reshape(n, Fd), allc.reshape(n, C), w.reshape(n)
        worst = 0.0
        for i, q in enumerate(cases):
            fv = [mp.mpf(float(x)) for x in f0.reshape(n, Fd)[i]]
            z = [sum(mp.mpf(W[cc][a]) * fv[a] for a in range(Fd)) for cc in range(C)]
            zm = max(z)
            lse = zm + mp.log(sum(mp.exp(x - zm) for x in z))
            o = it["obs"] - 1
            want = z[o] - lse
            where = "latent vector %s (logits %s, observed class is %s)" % ([float(x) for x in fv], [float(x) for x in z], q["cls"])
            e = abs(float(lp[i]) - float(want)) / (1 + abs(float(want)))
            worst = max(worst, e)
            if not e <= CONDF_TOL:
                fail(rv[i], "%s: log_prob = %.15g, documented log softmax(W f)[y] = %.15g" % (where, float(lp[i]), float(want)))
            sm = [mp.exp(x - lse) for x in z]
            for a in range(Fd):
                dw = mp.mpf(W[o][a]) - sum(sm[cc] * W[cc][a] for cc in range(C))
                gi = float(gr[i, a]) / float(wf[i])
                e = abs(gi - float(dw)) / (1 + abs(float(dw)))
                worst = max(worst, e)
                if not e <= CONDF_TOL:
                    fail(rg[i], "%s: d log_prob / d f[%d] = %.15g, documented (onehot - softmax) W = %.15g" % (where, a, gi, float(dw)))
            # the spec's exact log-odds: log p(c|f) - log p(most likely|f) = z_c - max z, for every class (unbounded below)
            top = float(allc[i].max())
            for cc in range(C):
                gap = float(qf(q["gaps"][cc]))
                e = abs((float(allc[i, cc]) - top) - gap) / (1 + abs(gap))
                if not e <= CONDF_TOL:
                    fail(ro[i], "%s: log p(class %d) - log p(most likely class) = %.15g, the logit difference is %.15g" % (where, cc, float(allc[i, cc]) - top, gap))
        out[0]["meas"] = dict(kind="condf", lik=name, worst=worst)
        if lay == "rows" and it["obs"] == 1:
            i = max(range(n), key=lambda j: -float(qf(cases[j]["gaps"][0])))
            out[0]["sample"] = dict(case=desc, logits=[float(qf(x)) for x in cases[i]["logits"]], log_prob=float(lp[i]), documented=float(qf(cases[i]["gaps"][0])))
        return out
    # ---- one-dimensional likelihoods -------------------------------------------------------------------------------------------------
    par = {k: float(qf(v)) for k, v in cases[0]["par"].items() if k != "none"}
    desc = "%sLikelihood %s, observation class %s, function values +-1e-6 .. +-1e3 as one %s batch" % (name, par, it["obs"], list(lead))
    keyf = lambda q: [q["em"], q["sg"]]
    rv, rg = results("log_prob", keyf), results("gradient", keyf)

    def build():
        if name == "Bernoulli":
            return L.BernoulliLikelihood()
        lik = {"Laplace": L.LaplaceLikelihood, "StudentT": L.StudentTLikelihood, "Beta": L.BetaLikelihood}[name]()
        for p, v in par.items():
            setattr(lik, PARAM_ATTR[p], torch.tensor(v, dtype=D))
        return lik
    f0 = torch.tensor([float(qf(q["f"])) for q in cases], dtype=D).reshape(lead)
    if name in ("Laplace", "StudentT") and it["obs"] != "fixed":
        y = f0 + torch.tensor([float(qf(q["offset"])) for q in cases], dtype=D).reshape(lead)        # y = f + offset
    else:
        y = torch.tensor([float(qf(q["y"])) for q in cases], dtype=D).reshape(lead)
    f = f0.clone().requires_grad_(True)

    def call():
        d = build()(f)
        lp = d.log_prob(y)
        gr = torch.autograd.grad((lp * w).sum(), f)[0]
        return type(d).__name__, lp.detach(), gr
    ok, got = core.guarded(call)
    if not ok:
        for r in rv:
            r.update(ok=False, sig=r["sig"] + "/raises", detail="%s: %s" % (desc, got))
        return out
    tname, lp, gr = got
    if tname != name or tuple(lp.shape) != tuple(lead):
        for r in rv:
            r.update(ok=False, sig=r["sig"] + "/class", detail="%s: the conditional is a %s, log_prob has shape %s" % (desc, tname, list(lp.shape)))
        return out
    lp, gr, wf, ff, yy = lp.reshape(n), gr.reshape(n), w.reshape(n), f0.reshape(n), y.reshape(n)
    mpar = {k: mp.mpf(v) for k, v in par.items()}
    worst = 0.0
    for i, q in enumerate(cases):
        fv, yv = float(ff[i]), float(yy[i])
        want, dw = condf_ref(mp, name, mpar, fv, yv)
        where = "f = %.17g, y = %.17g" % (fv, yv)
        e = abs(float(lp[i]) - float(want)) / (1 + abs(float(want)))
        if not e <= CONDF_TOL:
            fail(rv[i], "%s: log_prob of the returned %s = %.15g, documented log p(y|f) = %.15g" % (where, tname, float(lp[i]), float(want)))
        else:
            worst = max(worst, e)
        gi = float(gr[i]) / float(wf[i])
        e = abs(gi - float(dw)) / (1 + abs(float(dw)))
        if not e <= CONDF_TOL:
            fail(rg[i], "%s: d log_prob / d f = %.15g, derivative of the documented log density = %.15g" % (where, gi, float(dw)))
        else:
            worst = max(worst, e)
        if name == "Laplace":
            # the spec's exact values: log p + log(2b) = -|y - f| / b, slope sign(y - f) / b
            b = math.sqrt(par["noise"])
            lin, slope = float(qf(q["lin"])), float(qf(q["slope"]))
            if not abs(float(lp[i]) + math.log(2 * b) - lin) <= 1e-12 * (1 + abs(lin)):
                fail(rv[i], "%s: log_prob + log(2b) = %.15g, Quadrature.tla has -|y - f| / b = %.15g" % (where, float(lp[i]) + math.log(2 * b), lin))
            if not abs(gi - slope) <= 1e-12 * (1 + abs(slope)):
                fail(rg[i], "%s: d log_prob / d f = %.15g, Quadrature.tla has sign(y - f) / b = %.15g" % (where, gi, slope))
    out[0]["meas"] = dict(kind="condf", lik=name, worst=worst)
    if lay == "rows":
        out[0]["sample"] = dict(case=desc, f=float(ff[-1]), y=float(yy[-1]), log_prob=float(lp[-1]), gradient=float(gr[-1]) / float(wf[-1]))
    return out


RUNNERS["condf"] = run_condf


# =====================================================================================================================================
# (h) the rule size (Quadrature.tla part "bigrules"): rules with 48 .. 128 nodes on the monomials of degree 2n-2, 2n-1, n, n+1 against the exact
#     moment in Python integers.  One evaluation of the real rule per (rule, degree); no Fraction arithmetic per node (the exact-rational replay of
#     run_poly is not used for these sizes).
# =====================================================================================================================================
EPS64 = 2.0 ** -53
EPS32 = 2.0 ** -24
TINY32 = 2.0 ** -126      # smallest normal float32: a weight below it carries no relative accuracy once stored in float32 (it may be rounded to a denormal or to 0)
BIG_C = 32                # tolerance = BIG_C x (degree + num_locs) x unit roundoff x sum of the absolute terms; measured on the unchanged tree: <= 1.1 x (degree + num_locs) x 2^-53
BIG_DEG = ("top-even", "top-odd", "mid", "mid+1")


def float32_kept(locs):
    """how many nodes of numpy's rule have a weight that is a positive float32 number (the modelled rule of the vacuity guard keeps only those)"""
    import numpy as np
    return {n: int((np.polynomial.hermite.hermgauss(n)[1].astype(np.float32) > 0).sum()) for n in locs}


def big_items(states):
    """one item = (num_locs, how, dtype) with every (mean, sd, degree class) cell of the lattice"""
    groups = {}
    for st in states:
        c, o = st["c"], st["out"]
        key = (int(c["n"]), str(c["how"]), str(c["dtype"]))
        if str(o["demand"]) != "exact" or int(o["nodes"]) != key[0]:
            raise core.Machinery("C13 bigrules: unexpected demand in %r" % (o,))
        groups.setdefault(key, []).append(dict(m=[int(x) for x in o["m"]], s=[int(x) for x in o["s"]], ratio=[int(x) for x in c["ratio"]], deg=str(c["deg"]), degree=int(o["degree"]),
                                               terms=str(o["terms"])))
    out = []
    for k, (key, cells) in enumerate(sorted(groups.items())):
        cells.sort(key=lambda q: (q["degree"], q["m"], q["s"]))
        out.append(dict(kind="big", n=key[0], how=key[1], dtype=key[2], cells=cells, dist=DISTS[k % 2]))
    return out


def log_frac(q):
    return math.log(q.numerator) - math.log(q.denominator)


def build_big(torch, gpytorch, n, how, dtype):
    from gpytorch.utils.quadrature import GaussHermiteQuadrature1D
    dt = torch.float64 if dtype == "float64" else torch.float32
    with default_dtype(torch, dt):
        if how == "ctor":
            q = GaussHermiteQuadrature1D(n)
        elif how == "setting":
            with gpytorch.settings.num_gauss_hermite_locs(n):
                q = GaussHermiteQuadrature1D()
        elif how == "likelihood":
            with gpytorch.settings.num_gauss_hermite_locs(n):
                q = [gpytorch.likelihoods.LaplaceLikelihood, gpytorch.likelihoods.BernoulliLikelihood, gpytorch.likelihoods.StudentTLikelihood,
                     gpytorch.likelihoods.BetaLikelihood][n % 4]().quadrature
        else:
            raise core.Machinery("unknown how " + how)
    return q.double() if dtype == "float32" else q


def run_big(torch, gpytorch, it):
    D = torch.float64
    n, how, dtype = it["n"], it["how"], it["dtype"]
    eps = EPS64 if dtype == "float64" else EPS32
    desc = "num_locs=%d given by %s, default dtype %s at construction" % (n, how, dtype)
    base = dict(ok=True, nontrivial=True, case=it)
    out = []
    ok, q = core.guarded(lambda: build_big(torch, gpytorch, n, how, dtype))
    if not ok:
        return [dict(base, key=["big", n, how, dtype], ok=False, sig="C13/bigrules/%s/raises" % dtype, detail="%s: %s" % (desc, q))]
    # ---- structure the property implies: exactly num_locs distinct nodes inside [-sqrt(2n+1), sqrt(2n+1)], positive weights that sum to sqrt(pi) ------------------
    r = dict(base, key=["big", n, how, dtype, "structure"], sig="C13/bigrules/%s/num-locs" % dtype)
    loc, w = q.locations.detach().reshape(-1), q.weights.detach().reshape(-1)
    if loc.numel() != n or w.numel() != n or q.locations.dtype != D:
        r.update(ok=False, detail="%s: the rule holds %d nodes and %d weights (%s): a rule with k nodes cannot be exact at degree 2k <= 2 num_locs - 1" % (desc, loc.numel(), w.numel(), q.locations.dtype))
    out.append(r)
    r = dict(base, key=["big", n, how, dtype, "weights"], sig="C13/bigrules/%s/weights" % dtype)
    ws = float(w.sum())
    srt = torch.sort(loc).values
    gap = float((srt[1:] - srt[:-1]).min()) if loc.numel() > 1 else 1.0
    wmin = float(w.min())
    if not abs(ws - math.sqrt(math.pi)) <= 8 * (n + 8) * eps * math.sqrt(math.pi):
        r.update(ok=False, detail="%s: the weights sum to %.17g, sqrt(pi) = %.17g" % (desc, ws, math.sqrt(math.pi)))
    elif not (wmin > 0 if dtype == "float64" else wmin >= 0):
        r.update(ok=False, detail="%s: smallest weight %.3g (a Gauss rule has positive weights)" % (desc, wmin))
    elif not gap > 0 or not float(loc.abs().max()) <= math.sqrt(2 * n + 1):
        r.update(ok=False, detail="%s: nodes are not %d distinct points of [-sqrt(2n+1), sqrt(2n+1)] (smallest gap %.3g, largest |node| %.6g)" % (desc, n, gap, float(loc.abs().max())))
    out.append(r)
    # ---- exactness on the monomials ------------------------------------------------------------------------------------------------------------------------
    xb = math.sqrt(2 * (2 * n + 1))           # |sqrt(2) node| <= sqrt(2 (2n + 1))
    moms = {}
    worst, n_dec, n_range, n_under = 0.0, 0, 0, 0
    by_deg = {}
    for cell in it["cells"]:
        by_deg.setdefault(cell["degree"], []).append(cell)
    for k, cells in sorted(by_deg.items()):
        use = []
        for cell in cells:
            m, s = F(*cell["m"]), F(*cell["s"])
            if (m, s) not in moms:
                moms[(m, s)] = ref.moments_upto(m, s, 2 * n + 1)
            mm = moms[(m, s)]
            scale = mm[k] if k % 2 == 0 else None       # even degree: every term of the rule's sum is positive, they add up to the moment itself
            lsc = log_frac(mm[k]) if k % 2 == 0 else 0.5 * (log_frac(mm[k - 1]) + log_frac(mm[k + 1]))      # odd: sum_i w_i |x_i|^k <= sqrt(M_(k-1) M_(k+1)) (Cauchy-Schwarz; the rule's degree-2n value is below M_2n)
            rr = dict(base, key=["big", n, how, dtype, cell["m"], cell["s"], cell["deg"]], sig="C13/bigrules/%s/deg<2n/%s" % (dtype, cell["deg"]))
            if k * math.log(abs(float(m)) + float(s) * xb) > 700 or not -600 < lsc < 700:
                n_range += 1
                rr.update(nontrivial=False, big=dict(cls="out-of-float64-range", n=n, deg=cell["deg"], dtype=dtype))
                out.append(rr)
                continue
            use.append((cell, m, s, mm, rr))
        if not use:
            continue
        mean = torch.tensor([float(m) for _, m, _, _, _ in use], dtype=D)
        var = torch.tensor([float(s * s) for _, _, s, _, _ in use], dtype=D)
        ok, got = core.guarded(lambda: q(lambda x: x ** k, make_dist(torch, gpytorch, it["dist"], mean, var)))
        if not ok or tuple(got.shape) != (len(use),):
            out.append(dict(base, key=["big", n, how, dtype, k, "raises"], ok=False, sig="C13/bigrules/%s/raises" % dtype, detail="%s degree %d: %s" % (desc, k, got if not ok else "result shape %s" % list(got.shape))))
            continue
        got = got.detach().tolist()
        for (cell, m, s, mm, rr), g in zip(use, got):
            den = mm[k] ** 2 if k % 2 == 0 else mm[k - 1] * mm[k + 1]
            if not math.isfinite(g):
                rr.update(ok=False, detail="%s: x^%d against N(%s, %s^2): the rule gives %r" % (desc, k, m, s, g))
                out.append(rr)
                continue
            err = math.sqrt(float((Fraction(g) - mm[k]) ** 2 / den))
            tol = BIG_C * (k + n) * eps
            cls = "decided"
            if dtype == "float32":
                # what float32 storage of the weights can lose: TINY32 per node whose stored weight is below the normal range, times the integrand at the rule's own nodes (count and range checked above), 1 / sqrt(pi) normalisation
                x = (loc * math.sqrt(2.0) * float(s) + float(m)).abs()
                lost = w.double() < TINY32               # a stored weight in the normal range is accurate to float32 rounding (covered by the relative term)
                under = 0.0
                if bool(lost.any()):
                    lu = math.log(TINY32) + float(torch.logsumexp(k * torch.log(x[lost].clamp_min(1e-300)), 0)) - 0.5 * math.log(math.pi) - 0.5 * log_frac(den)
                    under = math.exp(min(lu, 50.0))
                tol += under
                if under > 1e-3:
                    cls = "float32-underflow-limited"
                    n_under += 1
            rr["big"] = dict(cls=cls, n=n, deg=cell["deg"], dtype=dtype, centred=abs(F(*cell["ratio"])) <= Fraction(1, 2), err=err / ((k + n) * eps))
            if cls == "decided":
                n_dec += 1
                worst = max(worst, err / ((k + n) * eps))
            else:
                rr["nontrivial"] = False
            if not err <= tol:
                rr.update(ok=False, detail="%s: x^%d against N(%s, %s^2): the rule gives %.17g, exact moment %.17g (error %.3e of the sum of the absolute terms, tolerance %.3e = %d (degree + num_locs) x unit roundoff%s); the rule holds %d nodes" % (
                    desc, k, m, s, g, float(mm[k]) if abs(log_frac(abs(mm[k]))) < 700 else float("nan"), err, tol, BIG_C, " + float32 underflow of the weights" if dtype == "float32" else "", loc.numel()) if mm[k] != 0 else
                    "%s: x^%d against N(0, %s^2): the rule gives %.17g, exact moment 0 (error %.3e of sqrt(M_(k-1) M_(k+1)), tolerance %.3e); the rule holds %d nodes" % (desc, k, s, g, err, tol, loc.numel()))
            out.append(rr)
    out[0]["meas"] = dict(kind="big", n=n, how=how, dtype=dtype, worst=worst, decided=n_dec, out_of_range=n_range, underflow_limited=n_under)
    if dtype == "float64" and how == "setting":
        c0 = [r for r in out if r.get("big", {}).get("cls") == "decided" and r["key"][-1] == "top-odd"]
        if c0:
            out[0]["sample"] = dict(case=desc + ", degree %d" % (2 * n - 1), cell=str(c0[0]["key"][4:6]), error_in_units_of_degree_plus_n_roundoffs=c0[0]["big"]["err"])
    return out


RUNNERS["big"] = run_big


def aggregate_big(ck, results):
    meas = [r["meas"] for r in results if r.get("meas") and r["meas"]["kind"] == "big"]
    cells = [r["big"] for r in results if r.get("big")]
    dec = {}
    for b in cells:
        if b["cls"] == "decided" and b["centred"]:
            dec[(b["n"], b["dtype"], b["deg"])] = dec.get((b["n"], b["dtype"], b["deg"]), 0) + 1
    ns = sorted({b["n"] for b in cells})
    missing = [(n, d) for n in ns for d in BIG_DEG if not dec.get((n, "float64", d))]
    if (missing or not meas) and not any(not r.get("ok", True) for r in results):
        ck.vacuous("bigrules: no centred float64 cell inside the float64 range decides %s" % (missing or "anything"))
    ck.section("bigrules", rules=len(meas), cells=len(cells), cells_decided=sum(1 for b in cells if b["cls"] == "decided"),
               cells_integrand_out_of_float64_range=sum(1 for b in cells if b["cls"] == "out-of-float64-range"),
               cells_float32_underflow_limited=sum(1 for b in cells if b["cls"] == "float32-underflow-limited"))
    ck.extra["bigrules_worst_error_in_units_of_(degree+num_locs)_roundoffs"] = {
        "%d/%s" % (n, dt): float("%.3g" % max([m["worst"] for m in meas if m["n"] == n and m["dtype"] == dt] or [0.0])) for n in ns for dt in ("float64", "float32")}
    ck.extra["bigrules_tolerance"] = "%d x (degree + num_locs) x unit roundoff of the dtype, relative to the sum of the absolute terms; float32: + 2^-126 x sum_i |x_i|^k / sqrt(pi) (a float32 weight below the smallest normal number carries no accuracy)" % BIG_C
