------------------------------- MODULE PyIndex -------------------------------
(***************************************************************************)
(* Python / torch indexing semantics on labelled tensors.                  *)
(*                                                                         *)
(* A tensor is [shape |-> <<d1,...,dk>>, data |-> row-major sequence].     *)
(* An index is a sequence of items:                                        *)
(*   [k |-> "int",   v |-> i]                                              *)
(*   [k |-> "slice", a |-> start, b |-> stop, s |-> step]   (NoneI = None) *)
(*   [k |-> "ell"]                                                         *)
(*   [k |-> "list",  v |-> <<i1, i2, ...>>]     (an index tensor, 1-d)     *)
(* Positions are 0-based as in Python.  Only the forms whose meaning numpy *)
(* and torch share are defined: basic indexing, one index tensor anywhere, *)
(* or several index tensors of equal length in ADJACENT positions (zipped, *)
(* result dimension in place).  Step must be positive (torch rejects       *)
(* negative steps).                                                        *)
(***************************************************************************)
EXTENDS Integers, Sequences, FiniteSets

NoneI == 99          \* stands for Python's None inside slices (a value no test shape can reach)
Err   == [shape |-> <<>>, data |-> <<>>, err |-> TRUE]

Min(a, b) == IF a < b THEN a ELSE b
Max(a, b) == IF a > b THEN a ELSE b

\* ---- one dimension ----------------------------------------------------------------------
IntOK(n, i)   == -n <= i /\ i < n
NormInt(n, i) == IF i < 0 THEN i + n ELSE i

SliceStart(n, a) == IF a = NoneI THEN 0 ELSE IF a < 0 THEN Max(a + n, 0) ELSE Min(a, n)
SliceStop(n, b)  == IF b = NoneI THEN n ELSE IF b < 0 THEN Max(b + n, 0) ELSE Min(b, n)
SliceStep(s)     == IF s = NoneI THEN 1 ELSE s

\* number of selected positions and the positions themselves, exactly slice(a,b,s).indices(n)
SliceLen(n, a, b, s) ==
  LET lo == SliceStart(n, a) hi == SliceStop(n, b) st == SliceStep(s)
  IN IF hi <= lo THEN 0 ELSE ((hi - lo - 1) \div st) + 1

SlicePos(n, a, b, s) ==
  LET lo == SliceStart(n, a) st == SliceStep(s)
  IN [j \in 1..SliceLen(n, a, b, s) |-> lo + (j - 1) * st]

\* the same by definition (used to check SlicePos): position p is selected iff lo <= p < hi and st | p - lo
SliceSet(n, a, b, s) ==
  {p \in 0..(n - 1) : /\ p >= SliceStart(n, a) /\ p < SliceStop(n, b)
                      /\ (p - SliceStart(n, a)) % SliceStep(s) = 0}

IsSorted(q) == \A i \in 1..(Len(q) - 1) : q[i] < q[i + 1]
Range(q) == {q[i] : i \in DOMAIN q}

\* ---- whole index ----------------------------------------------------------------------------
Full == [k |-> "slice", a |-> NoneI, b |-> NoneI, s |-> NoneI]

NumEll(items) == Cardinality({i \in DOMAIN items : items[i].k = "ell"})

\* replace the ellipsis / pad on the right with full slices; "rank" = number of tensor dimensions
Expand(items, rank) ==
  LET ne == NumEll(items)
      n  == Len(items) - ne
  IN IF ne > 1 \/ n > rank THEN <<>>                       \* caller treats <<>> with rank > 0 as an error
     ELSE IF ne = 0 THEN items \o [j \in 1..(rank - n) |-> Full]
     ELSE LET e == CHOOSE i \in DOMAIN items : items[i].k = "ell"
          IN SubSeq(items, 1, e - 1) \o [j \in 1..(rank - n) |-> Full] \o SubSeq(items, e + 1, Len(items))

ItemOK(it, n) ==
  CASE it.k = "int"   -> IntOK(n, it.v)
    [] it.k = "slice" -> it.s = NoneI \/ it.s > 0
    [] it.k = "list"  -> \A j \in DOMAIN it.v : IntOK(n, it.v[j])
    [] OTHER          -> FALSE

\* positions selected in one dimension
ItemPos(it, n) ==
  CASE it.k = "int"   -> <<NormInt(n, it.v)>>
    [] it.k = "slice" -> SlicePos(n, it.a, it.b, it.s)
    [] it.k = "list"  -> [j \in DOMAIN it.v |-> NormInt(n, it.v[j])]

Lists(items) == {i \in DOMAIN items : items[i].k = "list"}

\* index tensors must be adjacent and broadcastable (equal length, or length 1); they are then zipped
ListsOK(items) ==
  LET L == Lists(items)
  IN \/ L = {}
     \/ /\ \A i, j \in L : Len(items[i].v) = Len(items[j].v) \/ Len(items[i].v) = 1 \/ Len(items[j].v) = 1
        /\ \A i, j \in L : \A m \in i..j : i <= j => m \in L
ZipLen(items) == LET L == Lists(items) IN IF L = {} THEN 0 ELSE CHOOSE m \in {Len(items[i].v) : i \in L} : \A i \in L : Len(items[i].v) <= m

RECURSIVE Prod(_)
Prod(q) == IF q = <<>> THEN 1 ELSE Head(q) * Prod(Tail(q))

Stride(shape, k) == Prod(SubSeq(shape, k + 1, Len(shape)))

\* Result of T[items].  Dimensions of the result: one per slice; one (in place of the first list) for the
\* zipped lists; none for ints.
TIndex(T, items) ==
  LET rank == Len(T.shape)
      ex   == Expand(items, rank)
  IN IF (rank > 0 /\ ex = <<>>) \/ Len(ex) # rank THEN Err
     ELSE IF ~(\A k \in 1..rank : ItemOK(ex[k], T.shape[k])) \/ ~ListsOK(ex) THEN Err
     ELSE
       LET L      == Lists(ex)
           first  == IF L = {} THEN 0 ELSE CHOOSE i \in L : \A j \in L : i <= j
           pos    == [k \in 1..rank |-> ItemPos(ex[k], T.shape[k])]
           \* result dimensions: the tensor dimensions that produce one, in order
           rdims  == SelectSeq([k \in 1..rank |-> k], LAMBDA k : ex[k].k = "slice" \/ k = first)
           rshape == [d \in 1..Len(rdims) |-> IF rdims[d] = first THEN ZipLen(ex) ELSE Len(pos[rdims[d]])]
           total  == Prod(rshape)
           \* digit of result position p (0-based) along result dimension d
           Digit(p, d) == (p \div Stride(rshape, d)) % rshape[d]
           \* which result dimension drives tensor dimension k
           Drive(k) == IF ex[k].k = "list" THEN CHOOSE d \in 1..Len(rdims) : rdims[d] = first
                       ELSE IF ex[k].k = "slice" THEN CHOOSE d \in 1..Len(rdims) : rdims[d] = k
                       ELSE 0
           Src(p) == LET Off(k) == IF ex[k].k = "int" THEN pos[k][1]
                                   ELSE IF ex[k].k = "list" /\ Len(pos[k]) = 1 THEN pos[k][1]      \* broadcast
                                   ELSE pos[k][Digit(p, Drive(k)) + 1]
                         RECURSIVE Sum(_)
                         Sum(k) == IF k > rank THEN 0 ELSE Off(k) * Stride(T.shape, k) + Sum(k + 1)
                     IN Sum(1)
       IN [shape |-> rshape, data |-> [p \in 1..total |-> T.data[Src(p - 1) + 1]], err |-> FALSE]

\* row-major tensor of consecutive labels base, base+1, ...
Iota(shape, base) == [shape |-> shape, data |-> [p \in 1..Prod(shape) |-> base + p - 1], err |-> FALSE]
=============================================================================
