---------------------------- MODULE BackwardOps ----------------------------
(***************************************************************************)
(* Repeated differentiation of ONE forward graph through a hand-written    *)
(* backward pass (properties C19 and C13).  Operators only - the modules   *)
(* that use it (Grad.tla part "gmachine", Quadrature.tla part "rediff")    *)
(* keep the machine in their own variables.                                *)
(*                                                                         *)
(* A torch.autograd.Function keeps what its backward needs in a CONTEXT:   *)
(* tensors registered with ctx.save_for_backward (autograd's version       *)
(* counters notice when one of them is modified afterwards) and plain      *)
(* attributes (ctx.numerator = ...: nothing notices).  The machine is      *)
(*                                                                         *)
(*     built --Forward--> recorded --Backward(u_1, how_1)--> ...           *)
(*                                 --Backward(u_k, how_k)-->               *)
(*                                                                         *)
(* with k <= BWMaxBwd backward passes through the SAME graph, each with    *)
(* its own upstream gradient u_j and its own way of being requested:       *)
(*   "grad"   torch.autograd.grad(out, inputs, u, retain_graph=True)       *)
(*   "accum"  out.backward(u, retain_graph=True): the result is ADDED to   *)
(*            the .grad of the leaves                                      *)
(*   "free"   torch.autograd.grad(out, inputs, u): the graph is released,  *)
(*            no further pass is possible                                  *)
(* and, from the built state, "jacobian":                                  *)
(*   torch.autograd.functional.jacobian(f, inputs): its own forward, then  *)
(*   ONE BACKWARD PASS PER OUTPUT ELEMENT with a one-hot upstream, all     *)
(*   through that one graph.                                               *)
(* Upstream gradients: "ones" (the .sum() loss), "randA" / "randB" (two    *)
(* different dense tensors), "unit" (one-hot: one row of the Jacobian, one *)
(* per-observation gradient), "rows" (every one-hot in turn).              *)
(*                                                                         *)
(* The property: EVERY pass j delivers  u_j . dF(x)  - the vector-Jacobian *)
(* product of the function the forward computed, with the u_j of THAT      *)
(* pass.  The context entries carry a version number (0 = as the forward   *)
(* stored them); a backward that performs an in-place operation on an      *)
(* entry bumps its version.  The code as it is reads and never writes      *)
(* (BWImpure = {}), hence                                                  *)
(*   BWPure     no entry ever leaves version 0, and                        *)
(*   BWDerivOK  every pass saw exactly what the forward stored.            *)
(* With an entry in BWImpure TLC needs a history with TWO passes to        *)
(* violate BWDerivOK (the first pass of every graph is still exact): that  *)
(* is the dimension of the history space the replay must cover.            *)
(*                                                                         *)
(* WHICH INPUTS REQUIRE A GRADIENT is a dimension of the forward: every    *)
(* non-empty subset rg of the tensor inputs of the Function (BWNeedSets),  *)
(* incl. exactly one of two tensors (a frozen parameter, a constant        *)
(* operand).  A hand-written backward returns one value per input; the     *)
(* property per input i in rg: the value delivered is  u . dF/di  (it      *)
(* EXISTS - not None - and is the complete derivative), unless the forward *)
(* refused the call loudly (the covariance Functions have no derivative    *)
(* for x1 / x2 and raise when either wants one: any, not all).  The public *)
(* objects never refuse: the kernels route such calls to the generic       *)
(* branch.  A backward that consults ctx.needs_input_grad to skip work is  *)
(* modelled by a shortcut set: <<fn, i, j>> = "when j needs no gradient,  *)
(* the part of i's gradient computed on j's chain is dropped" - the code   *)
(* has                                                                     *)
(* none (every backward computes every term whatever is needed); with one  *)
(* TLC needs a case whose rg is a PROPER subset to violate BWNeedsOK.      *)
(***************************************************************************)
EXTENDS Naturals, Sequences, FiniteSets

CONSTANTS BWMaxBwd,        \* passes through one graph
          BWUpstreams,     \* subset of {"ones", "randA", "randB", "unit", "rows"}
          BWImpure         \* set of <<function, context entry>> the modelled backward modifies in place; {} = the code
\* (the shortcut set sc of the operators below - <<function, input i, input j>>: i's gradient loses the terms shared with j's chain when j needs
\*  none; {} = the code - is an operator argument, not a constant: Quadrature.tla shares this module)

\* ---- the hand-written Functions and their contexts, transcribed ----------------------------------
BWFns == {"rbfcov", "materncov", "lncdf", "nat2muvar", "trilnat2muvar", "ngdinterp"}
\* ctx.save_for_backward(...)
BWSaved(fn) == CASE fn = "rbfcov"        -> {"d_output_d_input"}                                  \* unitless_sq_dist * covar / lengthscale
                 [] fn = "materncov"     -> {"d_output_d_input"}                                  \* per nu, see Grad!CovFormula
                 [] fn = "lncdf"         -> {"z", "log_phi_z"}
                 [] fn = "nat2muvar"     -> {"mu", "L"}
                 [] fn = "trilnat2muvar" -> {"mu", "L", "tril_nat_covar"}
                 [] fn = "ngdinterp"     -> {"interp_term", "s_times_interp_term", "interp_mean", "natural_vec", "expec_vec", "prec"}
\* plain attributes set on ctx by the forward; LogNormalCDF stores the continued-fraction numerator / denominator only when some z < -1
BWAttrs(fn, tail) == IF fn = "lncdf" /\ tail THEN {"numerator", "denominator"} ELSE {}
BWNames(fn, tail) == BWSaved(fn) \cup BWAttrs(fn, tail)
\* what the backward reads, by branch: the tail branch of LogNormalCDF.backward reads the two attributes, everything else the saved tensors
BWReads(fn, tail) == BWNames(fn, tail)

\* ---- the tensor inputs and who requires a gradient -------------------------------------------------
BWCovFns == {"rbfcov", "materncov"}
BWInputs(fn) == CASE fn \in BWCovFns        -> {"x1", "x2", "lengthscale"}
                  [] fn = "lncdf"         -> {"z"}
                  [] fn = "nat2muvar"     -> {"natural_vec", "natural_mat"}
                  [] fn = "trilnat2muvar" -> {"natural_vec", "natural_tril_mat"}
                  [] fn = "ngdinterp"     -> {"interp_term", "natural_vec", "natural_mat"}
BWNeedSets(fn) == (SUBSET BWInputs(fn)) \ {{}}
\* the inputs the hand-written backward has a derivative for (it returns None for the others)
BWHasGrad(fn) == IF fn \in BWCovFns THEN {"lengthscale"} ELSE BWInputs(fn)
\* the forward's guard: any(ctx.needs_input_grad[:2]) -> RuntimeError
BWRefuses(fn, rg) == rg \ BWHasGrad(fn) # {}
\* through the public object the two-path kernels send every call in which x1 OR x2 requires grad to the generic branch (KernelCalls!KCGeneric)
BWRoute(fn, api, rg) == IF api = "public" /\ fn \in BWCovFns /\ rg \cap {"x1", "x2"} # {} THEN "autograd" ELSE "function"
BWDelivered(fn, rg, i, sc) == IF i \notin BWHasGrad(fn) THEN "None"
                          ELSE IF \E j \in BWInputs(fn) \ rg : <<fn, i, j>> \in sc THEN "partial"
                          ELSE "u . dF/d input"
BWOutcome(fn, api, rg, sc) ==
  IF BWRoute(fn, api, rg) = "autograd" THEN [refused |-> FALSE, route |-> "autograd", grads |-> [i \in rg |-> "u . dF/d input"]]
  ELSE IF BWRefuses(fn, rg) THEN [refused |-> TRUE, route |-> "function", grads |-> [i \in rg |-> "-"]]
  ELSE [refused |-> FALSE, route |-> "function", grads |-> [i \in rg |-> BWDelivered(fn, rg, i, sc)]]
\* every input that requires grad receives the complete derivative, or the call was refused loudly (only the bare Function may refuse)
BWNeedsOK(fn, api, rg, sc) ==
  LET o == BWOutcome(fn, api, rg, sc)
  IN /\ rg \in BWNeedSets(fn)
     /\ (o.refused => api = "function")
     /\ (~o.refused => \A i \in rg : o.grads[i] = "u . dF/d input")

BWModes == {"grad", "accum", "free"}

BWStart(fn, tail) == [phase |-> "built", ctx |-> [n \in BWNames(fn, tail) |-> 0], alive |-> FALSE, hist |-> <<>>]
BWForward(m)      == [m EXCEPT !.phase = "recorded", !.alive = TRUE]
BWCanBackward(m)  == m.phase = "recorded" /\ m.alive /\ Len(m.hist) < BWMaxBwd
\* one pass: it sees the context as it is NOW; the modelled backward bumps what it writes in place
BWBackward(m, fn, u, how) ==
  [m EXCEPT !.hist  = Append(@, [u |-> u, how |-> how, saw |-> m.ctx]),
            !.ctx   = [n \in DOMAIN m.ctx |-> IF <<fn, n>> \in BWImpure THEN m.ctx[n] + 1 ELSE m.ctx[n]],
            !.alive = (how # "free")]
\* functional.jacobian: own forward, then one pass per output element; modelled with two rows (first, any later one)
BWJacobian(m, fn) ==
  LET m1 == BWBackward(BWForward(m), fn, "row1", "jacobian")
      m2 == BWBackward(m1, fn, "rowk", "jacobian")
  IN [m2 EXCEPT !.alive = FALSE, !.phase = "jacobian"]

BWSteps(m, fn) ==
  IF m.phase = "built" THEN {BWForward(m), BWJacobian(m, fn)}
  ELSE IF BWCanBackward(m) THEN {BWBackward(m, fn, u, how) : u \in BWUpstreams, how \in BWModes}
  ELSE {}
BWTerminal(m) == m.phase # "built" /\ ~BWCanBackward(m) /\ m.hist # <<>>

\* ---- the property -----------------------------------------------------------------------------------
BWPure(m)    == \A n \in DOMAIN m.ctx : m.ctx[n] = 0
BWDerivOK(m) == \A j \in 1..Len(m.hist) : \A n \in DOMAIN m.hist[j].saw : m.hist[j].saw[n] = 0
\* what pass j must deliver: u_j . dF(x) of the ONE forward of the history
BWExpected(m) == [j \in 1..Len(m.hist) |-> [u |-> m.hist[j].u, how |-> m.hist[j].how, delivers |-> "u . dF(x)"]]
BWRefused(m) == [m EXCEPT !.phase = "refused"]                \* the forward raised: no graph, no pass
BWTypeOK(m)  == /\ m.phase \in {"built", "recorded", "jacobian", "refused"} /\ Len(m.hist) <= BWMaxBwd
                /\ (m.phase \in {"built", "refused"} => m.hist = <<>> /\ ~m.alive)
                /\ \A j \in 1..Len(m.hist) : (m.hist[j].how = "free" => j = Len(m.hist))      \* nothing follows a pass that released the graph
=============================================================================
