-------------------------------- MODULE MTMVN --------------------------------
(***************************************************************************)
(* MultitaskMultivariateNormal as an abstract data type.                   *)
(*                                                                         *)
(* SEMANTICS (property C11): a distribution is a family of labelled random *)
(* variables; the n x t mean tensor says which variable sits where, and    *)
(* the covariance is "the" covariance of those variables: row r of the     *)
(* stored matrix belongs to variable crow[r].  The representation is       *)
(* CONSISTENT (RepOK) when the order of covariance rows is the flattening  *)
(* of the mean that the layout flag promises (interleaved: point-major,    *)
(* otherwise task-major; plain MVN: the mean itself).                      *)
(*                                                                         *)
(* CODE-SHAPED: GetItem transcribes MultitaskMultivariateNormal.           *)
(* __getitem__ branch by branch - the mean is indexed by torch (true       *)
(* Python semantics, PyIndex.tla), the covariance by the hand-written      *)
(* slice / index arithmetic.  Variant = "pinned" is the arithmetic of the  *)
(* pinned commit, Variant = "fixed" the repaired one.                      *)
(*                                                                         *)
(* The machine starts from a consistent n x t (optionally batched)         *)
(* distribution and applies GetItem repeatedly; the property is that every *)
(* reachable representation is consistent and that indexing raises exactly *)
(* when Python indexing of the mean raises.                                *)
(***************************************************************************)
EXTENDS PyIndex, TLC

CONSTANTS N, T,          \* points, tasks
          Batch,         \* <<>> or <<b>>
          Interleaved,   \* BOOLEAN
          Variant,       \* "pinned" | "fixed"
          IdxFamily,     \* which family of index expressions the run enumerates
          MaxSteps       \* chain length

VARIABLES d,      \* [cls, inter, mean, crow, err]
          steps,
          last,   \* the index expression applied last
          hist    \* history for replay: <<[idx, err, shape, labels]>> with the DECLARATIVE expectation of each step

vars == <<d, steps, last, hist>>

\* ---- representation ----------------------------------------------------------------------
Flat(inter, n, t, i, a) == IF inter THEN i * t + a ELSE a * n + i

\* covariance row labels promised by the layout flag for a mean tensor of shape batch \o <<n, t>>
RowsFor(mean, inter) ==
  LET r  == Len(mean.shape)
      n  == mean.shape[r - 1]
      t  == mean.shape[r]
      bs == SubSeq(mean.shape, 1, r - 2)
      nb == Prod(bs)
  IN [shape |-> bs \o <<n * t>>,
      data  |-> [p \in 1..(nb * n * t) |->
                   LET b == (p - 1) \div (n * t)
                       q == (p - 1) % (n * t)
                       i == IF inter THEN q \div t ELSE q % n
                       a == IF inter THEN q % t ELSE q \div n
                   IN mean.data[b * n * t + i * t + a + 1]],
      err |-> FALSE]

RepOK(x) ==
  \/ x.err
  \/ /\ x.cls = "MT"  => Len(x.mean.shape) >= 2 /\ x.crow.shape = RowsFor(x.mean, x.inter).shape
                                                /\ x.crow.data = RowsFor(x.mean, x.inter).data
     /\ x.cls = "MVN" => x.crow.shape = x.mean.shape /\ x.crow.data = x.mean.data

MkErr == [cls |-> "ERR", inter |-> FALSE, mean |-> Err, crow |-> Err, err |-> TRUE]
MkMT(mean, crow, inter) ==
  IF mean.err \/ crow.err THEN MkErr ELSE [cls |-> "MT", inter |-> inter, mean |-> mean, crow |-> crow, err |-> FALSE]
MkMVN(mean, crow) ==
  IF mean.err \/ crow.err THEN MkErr ELSE [cls |-> "MVN", inter |-> FALSE, mean |-> mean, crow |-> crow, err |-> FALSE]

\* ---- code-shaped helpers ---------------------------------------------------------------------
NormIndex(i, n) == IF i < 0 THEN n + i ELSE i                        \* _normalize_index

\* _normalize_slice of the pinned commit: no clamping
NormSlicePinned(s, n) ==
  [a |-> IF s.a = NoneI THEN 0 ELSE IF s.a < 0 THEN n + s.a ELSE s.a,
   b |-> IF s.b = NoneI THEN n ELSE IF s.b < 0 THEN n + s.b ELSE s.b,
   s |-> IF s.s = NoneI THEN 1 ELSE s.s]
\* repaired: slice(*s.indices(n))
NormSliceFixed(s, n) == [a |-> SliceStart(n, s.a), b |-> SliceStop(n, s.b), s |-> SliceStep(s.s)]
NormSlice(s, n) == IF Variant = "pinned" THEN NormSlicePinned(s, n) ELSE NormSliceFixed(s, n)

Sl(a, b, s) == [k |-> "slice", a |-> a, b |-> b, s |-> s]
IsFull(it) == it.k = "slice" /\ it.a = NoneI /\ it.b = NoneI /\ it.s = NoneI

\* index tensors keep negative entries at the pinned commit; the repair normalises them
NormList(q, n) == IF Variant = "pinned" THEN q ELSE [j \in DOMAIN q |-> IF q[j] < 0 THEN q[j] + n ELSE q[j]]

\* _normalize_indices on a plain int (the "pairs of indices" branch): unchanged at the pinned commit
NormPairInt(i, n) == IF Variant = "pinned" THEN i ELSE NormIndex(i, n)
\* positions a row/col item contributes to the "pairs of indices" branch (an int is a length-1 sequence: it broadcasts)
PairPos(it, n) == IF it.k = "int" THEN <<NormPairInt(it.v, n)>> ELSE NormList(it.v, n)

\* positions a row/col item contributes to the meshgrid branch
GridPos(it, n) == IF it.k = "slice" THEN SlicePos(n, it.a, it.b, it.s) ELSE NormList(it.v, n)

\* covariance rows selected by the meshgrid branch.  With an index tensor among the batch items, cov[batch + (ind,)]
\* ZIPS the batch tensor with `ind` (torch advanced indexing); the repaired form indexes the batch dimensions first.
HasList(items) == \E j \in DOMAIN items : items[j].k = "list"
GridRows(crow, bidx, ind) ==
  IF Variant = "pinned" \/ ~HasList(bidx) THEN TIndex(crow, bidx \o <<[k |-> "list", v |-> ind]>>)
  ELSE LET byBatch == TIndex(crow, bidx)
       IN IF byBatch.err THEN Err ELSE TIndex(byBatch, <<[k |-> "ell"], [k |-> "list", v |-> ind]>>)

GetItemMT(x, idx0) ==
  LET rank == Len(x.mean.shape)
      hasEll == NumEll(idx0) > 0
      idx == IF hasEll THEN Expand(idx0, rank)
             ELSE IF Len(idx0) = rank - 1 THEN idx0 \o <<Full>> ELSE idx0
      newMean == TIndex(x.mean, idx)
  IN IF (hasEll /\ idx = <<>> /\ rank > 0) \/ newMean.err THEN MkErr
     ELSE IF Len(idx) <= rank - 2 THEN MkMT(newMean, TIndex(x.crow, idx), x.inter)
     ELSE IF Len(idx) > rank THEN MkErr
     ELSE
       LET bidx == SubSeq(idx, 1, rank - 2)
           row  == IF x.inter THEN idx[rank - 1] ELSE idx[rank]
           col  == IF x.inter THEN idx[rank] ELSE idx[rank - 1]
           nr   == IF x.inter THEN x.mean.shape[rank - 1] ELSE x.mean.shape[rank]
           nc   == IF x.inter THEN x.mean.shape[rank] ELSE x.mean.shape[rank - 1]
       IN CASE row.k = "int" /\ col.k = "int" ->
                 MkMVN(newMean, TIndex(x.crow, bidx \o <<[k |-> "int", v |-> NormIndex(row.v, nr) * nc + NormIndex(col.v, nc)]>>))
            [] row.k = "int" /\ col.k = "slice" ->
                 LET r == NormIndex(row.v, nr)
                     c == NormSlice(col, nc)
                 IN MkMVN(newMean, TIndex(x.crow, bidx \o <<Sl(c.a + r * nc, c.b + r * nc, c.s)>>))
            [] row.k = "slice" /\ col.k = "int" ->
                 LET r == NormSlice(row, nr)
                     c == NormIndex(col.v, nc)
                     start == IF Variant = "pinned" THEN r.a + c ELSE r.a * nc + c
                 IN MkMVN(newMean, TIndex(x.crow, bidx \o <<Sl(start, r.b * nc + c, r.s * nc)>>))
            [] row.k = "slice" /\ col.k = "slice" /\ IsFull(row) /\ IsFull(col) ->
                 MkMT(newMean, TIndex(x.crow, bidx), x.inter)
            [] (row.k = "slice" \/ col.k = "slice") /\ row.k # "int" /\ col.k # "int" ->
                 LET rp == GridPos(row, nr)
                     cp == GridPos(col, nc)
                     ind == [p \in 1..(Len(rp) * Len(cp)) |-> rp[((p - 1) \div Len(cp)) + 1] * nc + cp[((p - 1) % Len(cp)) + 1]]
                 IN MkMT(newMean, GridRows(x.crow, bidx, ind), x.inter)
            [] {row.k, col.k} \subseteq {"int", "list"} /\ "list" \in {row.k, col.k} ->
                 \* "pairs of indices": index tensor x index tensor, or an index tensor paired with a plain int
                 \* (_normalize_indices handles both; the int then broadcasts against the tensor in row * nc + col)
                 LET rp == PairPos(row, nr)
                     cp == PairPos(col, nc)
                     m  == Max(Len(rp), Len(cp))
                     B(q, j) == IF Len(q) = 1 THEN q[1] ELSE q[j]            \* tensor broadcasting of row*nc + col
                 IN IF Len(rp) # Len(cp) /\ Len(rp) # 1 /\ Len(cp) # 1 THEN MkErr
                    ELSE MkMVN(newMean, TIndex(x.crow, bidx \o <<[k |-> "list", v |-> [j \in 1..m |-> B(rp, j) * nc + B(cp, j)]]>>))
            [] OTHER -> MkErr      \* kinds outside the alphabet (bool masks, nested lists): not enumerated

\* MultivariateNormal.__getitem__ (plain MVN reached by indexing): event dimension is the last one
GetItemMVN(x, idx0) ==
  LET rank == Len(x.mean.shape)
      idx  == idx0
      newMean == TIndex(x.mean, idx)
  IN IF newMean.err \/ rank = 0 THEN MkErr
     ELSE MkMVN(newMean, TIndex(x.crow, idx))     \* covariance rows follow the mean (MVN.tla has the branch-level model)

GetItem(x, idx) == IF x.cls = "MT" THEN GetItemMT(x, idx) ELSE GetItemMVN(x, idx)

\* ---- the declarative expectation -------------------------------------------------------------
\* d[idx] must raise exactly when indexing the mean raises, and otherwise denote the selected variables
Expected(x, idx0) ==
  LET rank == Len(x.mean.shape)
      idx == IF x.cls = "MT" /\ NumEll(idx0) = 0 /\ Len(idx0) = rank - 1 THEN idx0 \o <<Full>> ELSE idx0
  IN TIndex(x.mean, idx)

\* ---- index expressions enumerated --------------------------------------------------------------
Bound(n) == {NoneI} \cup (-(n + 2))..(n + 2)
Steps == {NoneI, 1, 2, 3}
Slices(n) == {Sl(a, b, s) : a \in Bound(n), b \in Bound(n), s \in Steps}
FewSlices(n) == {Sl(a, b, s) : a \in {NoneI, -1, 0, 1}, b \in {NoneI, -1, 1, n}, s \in {NoneI, 2}}
Ints(n) == {[k |-> "int", v |-> i] : i \in (-(n + 1))..n}
IdxLists(n) == {[k |-> "list", v |-> q] : q \in UNION {[1..m -> (-n)..(n - 1)] : m \in 1..2}}
Ell == [k |-> "ell"]
BatchItems == IF Batch = <<>> THEN {<<>>} ELSE {<<[k |-> "int", v |-> 0]>>, <<[k |-> "int", v |-> -1]>>, <<Full>>, <<Sl(1, NoneI, NoneI)>>}
\* an index tensor in the batch position: the batch members in reverse order, and the last member counted from the end.
\* Offered in front of event items that are not index tensors themselves: a batch tensor zipped with an event tensor
\* selects (point, task) pairs of DIFFERENT batch members, for which the property states no joint covariance.
\* (no member twice: d[tensor, i, j] is an MVN over the selected members, and a repeated member has no independent copy)
BatchLists(b) == {<<[k |-> "list", v |-> IF b > 1 THEN <<b - 1, 0>> ELSE <<0>>]>>, <<[k |-> "list", v |-> <<-1>>]>>}

\* The kinds of index an event dimension accepts, and compact alphabets per kind: every int (incl. negative and the
\* two out-of-range neighbours), slices that drop the first / the last element, stride and clamp, index tensors of
\* length 1-2 over the extreme positions counted from either end.
Kinds == {"int", "slice", "list"}
PairSlices(n) == {Full, Sl(1, NoneI, NoneI), Sl(NoneI, -1, NoneI), Sl(NoneI, NoneI, 2), Sl(-1, n + 1, NoneI)}
PairLists(n) == {[k |-> "list", v |-> q] : q \in UNION {[1..m -> {-n, -1, 0, n - 1}] : m \in 1..2}}
OfKind(kd, n) == CASE kd = "int" -> Ints(n) [] kd = "slice" -> PairSlices(n) [] kd = "list" -> PairLists(n)
PairingIdx(kr, kc, n, t) == {<<r, c>> : r \in OfKind(kr, n), c \in OfKind(kc, t)}

EventIdxOf(fam, n, t) ==
  CASE fam = "int_int"     -> {<<i, j>> : i \in Ints(n), j \in Ints(t)}
    [] fam = "int_slice"   -> {<<i, s>> : i \in Ints(n), s \in Slices(t)}
    [] fam = "slice_int"   -> {<<s, j>> : s \in Slices(n), j \in Ints(t)}
    [] fam = "slice_slice" -> {<<r, c>> : r \in FewSlices(n), c \in FewSlices(t)}
    [] fam = "one"         -> {<<i>> : i \in Ints(n)} \cup {<<s>> : s \in Slices(n)} \cup {<<Ell>>}
                                    \cup {<<Ell, j>> : j \in Ints(t)} \cup {<<Ell, s>> : s \in FewSlices(t)}
                                    \cup {<<i, Ell>> : i \in Ints(n)} \cup {<<s, Ell>> : s \in FewSlices(n)}
                                    \cup {<<i, Ell, j>> : i \in Ints(n), j \in Ints(t)}
    [] fam = "lists"       -> {<<r, c>> : r \in IdxLists(n), c \in IdxLists(t)}
                                    \cup {<<r, c>> : r \in IdxLists(n), c \in FewSlices(t)}
                                    \cup {<<r, c>> : r \in FewSlices(n), c \in IdxLists(t)}
    \* an index tensor for one event dimension paired with a plain int for the other ("these points, last task"):
    \* every int incl. negative and out of range x every index tensor of length 1-2 incl. negative entries
    [] fam = "mixed"       -> {<<i, c>> : i \in Ints(n), c \in IdxLists(t)}
                                    \cup {<<r, j>> : r \in IdxLists(n), j \in Ints(t)}
    \* every PAIRING of index kinds for the two event dimensions over compact alphabets (used behind every batch item)
    [] fam = "pairs"       -> UNION {PairingIdx(kr, kc, n, t) : kr \in Kinds, kc \in Kinds}
    [] fam = "small"       -> {<<i, j>> : i \in {[k |-> "int", v |-> 0], [k |-> "int", v |-> -1]}, j \in Ints(t)}
                                    \cup {<<[k |-> "list", v |-> <<-1, 0>>], [k |-> "int", v |-> -1]>>,
                                          <<[k |-> "int", v |-> -1], [k |-> "list", v |-> <<0, -1>>]>>,
                                          <<[k |-> "list", v |-> <<0, -1>>], Sl(NoneI, -1, NoneI)>>}
                                    \cup {<<i>> : i \in Ints(n)} \cup {<<s>> : s \in FewSlices(n)} \cup {<<Ell>>}
                                    \cup {<<Sl(1, NoneI, NoneI), j>> : j \in Ints(t)} \cup {<<i, Sl(NoneI, -1, NoneI)>> : i \in Ints(n)}
                                    \cup {<<Sl(NoneI, NoneI, 2), Sl(1, NoneI, NoneI)>>}

AllFamilies == {"int_int", "int_slice", "slice_int", "slice_slice", "one", "lists", "mixed"}

\* the kind of an item as the alphabet sees it
KindOf(it) == it.k
\* THE ALPHABET IS CLOSED UNDER PAIRING: for the two event dimensions every (point kind, task kind) in Kinds x Kinds occurs,
\* with a negative int / an index tensor with a negative entry wherever the kind allows one - in the union of all
\* families and in the compact family that is replayed behind every batch item.  TLC evaluates this before the run.
HasNeg(it) == CASE it.k = "int" -> it.v < 0 [] it.k = "list" -> \E j \in DOMAIN it.v : it.v[j] < 0
                [] it.k = "slice" -> (it.a # NoneI /\ it.a < 0) \/ (it.b # NoneI /\ it.b < 0) [] OTHER -> FALSE
PairingsCovered(S, n, t) ==
  \A kr \in Kinds, kc \in Kinds : \A negr \in BOOLEAN, negc \in BOOLEAN :
     \E e \in S : /\ Len(e) = 2 /\ KindOf(e[1]) = kr /\ KindOf(e[2]) = kc
                  /\ HasNeg(e[1]) = negr /\ HasNeg(e[2]) = negc
                  /\ ItemOK(e[1], n) /\ ItemOK(e[2], t)          \* a VALID index of that pairing
ASSUME PairingsCovered(UNION {EventIdxOf(f, N, T) : f \in AllFamilies}, N, T)
ASSUME PairingsCovered(EventIdxOf("pairs", N, T), N, T)
EventIdx(n, t) ==
  IF steps > 0 THEN EventIdxOf("small", n, t)            \* later links of a chain d[i][j]...: a small representative family
  ELSE IF IdxFamily = "all" THEN UNION {EventIdxOf(f, n, t) : f \in AllFamilies}
  ELSE IF IdxFamily = "small_pairs" THEN EventIdxOf("small", n, t) \cup EventIdxOf("pairs", n, t)
  ELSE EventIdxOf(IdxFamily, n, t)

\* event items offered behind a batch index tensor: every pairing of the kinds int and slice (compact alphabets) and
\* the small family, whatever family the run enumerates behind the basic batch items
BatchListEvents(n, t) ==
  {e \in EventIdxOf("small", n, t) \cup (IF steps > 0 THEN {} ELSE EventIdxOf("pairs", n, t)) : ~HasList(e)}

\* index expressions offered in the current state
Offers(x) ==
  IF x.cls = "MT" THEN
     LET r == Len(x.mean.shape) n == x.mean.shape[r - 1] t == x.mean.shape[r]
     IN IF r = 2 THEN EventIdx(n, t)
        ELSE {b \o e : b \in BatchItems, e \in EventIdx(n, t)} \cup {b : b \in BatchItems \ {<<>>}}
             \cup {b \o e : b \in BatchLists(x.mean.shape[1]), e \in BatchListEvents(n, t)}
             \cup BatchLists(x.mean.shape[1])
  ELSE
     LET r == Len(x.mean.shape)
     IN IF r = 1 THEN {<<i>> : i \in Ints(x.mean.shape[1])} \cup {<<s>> : s \in FewSlices(x.mean.shape[1])} ELSE {}

Start ==
  LET mean == Iota(Batch \o <<N, T>>, 100)
  IN [cls |-> "MT", inter |-> Interleaved, mean |-> mean, crow |-> RowsFor(mean, Interleaved), err |-> FALSE]

Init == d = Start /\ steps = 0 /\ last = <<>> /\ hist = <<>>

Index(idx) ==
  /\ steps < MaxSteps /\ ~d.err
  /\ d' = GetItem(d, idx)
  /\ steps' = steps + 1
  /\ last' = idx
  /\ LET e == Expected(d, idx) IN hist' = Append(hist, [idx |-> idx, err |-> e.err, shape |-> e.shape, labels |-> e.data])

Next == \E idx \in Offers(d) : Index(idx)

Spec == Init /\ [][Next]_vars

\* ---- properties ---------------------------------------------------------------------------------
Consistent == RepOK(d)

\* raises iff indexing the mean raises; otherwise the mean is mean[idx] (action property)
MeanIsIndexedMean ==
  [][ steps' = steps + 1 =>
        LET e == Expected(d, last') IN (d'.err <=> e.err) /\ (~e.err => d'.mean.shape = e.shape /\ d'.mean.data = e.data) ]_vars

=============================================================================
