------------------------------ MODULE Rational ------------------------------
(***************************************************************************)
(* Exact rational arithmetic for TLC: a rational is <<n, d>> with d > 0    *)
(* and gcd(|n|, d) = 1.  TLC integers are 32 bit: keep instances small.    *)
(***************************************************************************)
EXTENDS Integers, Sequences

Abs(x) == IF x < 0 THEN -x ELSE x
RECURSIVE Gcd(_, _)
Gcd(a, b) == IF b = 0 THEN a ELSE Gcd(b, a % b)

Norm(n, d) ==
  LET s == IF d < 0 THEN -1 ELSE 1
      g == Gcd(Abs(n), Abs(d))
  IN IF n = 0 THEN <<0, 1>> ELSE <<(s * n) \div g, (s * d) \div g>>

R(i)       == <<i, 1>>
RQ(n, d)   == Norm(n, d)
RAdd(a, b) == Norm(a[1] * b[2] + b[1] * a[2], a[2] * b[2])
RSub(a, b) == Norm(a[1] * b[2] - b[1] * a[2], a[2] * b[2])
RMul(a, b) == Norm(a[1] * b[1], a[2] * b[2])
RDiv(a, b) == Norm(a[1] * b[2], a[2] * b[1])          \* b # 0
RNeg(a)    == <<-a[1], a[2]>>
RLe(a, b)  == a[1] * b[2] <= b[1] * a[2]
RLt(a, b)  == a[1] * b[2] < b[1] * a[2]
RZero      == <<0, 1>>
ROne       == <<1, 1>>
IsZero(a)  == a[1] = 0
=============================================================================
