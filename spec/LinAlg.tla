------------------------------- MODULE LinAlg -------------------------------
(***************************************************************************)
(* Small dense linear algebra over Rational: a matrix is a sequence of     *)
(* rows, a vector a sequence of rationals.  Determinant by Laplace         *)
(* expansion, inverse by the adjugate (n <= 4 in practice).                *)
(***************************************************************************)
EXTENDS Rational, FiniteSets

Rows(M) == Len(M)
Cols(M) == IF Len(M) = 0 THEN 0 ELSE Len(M[1])
Mk(r, c, f(_, _)) == [i \in 1..r |-> [j \in 1..c |-> f(i, j)]]
FromInt(M) == [i \in 1..Len(M) |-> [j \in 1..Len(M[i]) |-> R(M[i][j])]]
VFromInt(v) == [i \in 1..Len(v) |-> R(v[i])]
Ident(n) == Mk(n, n, LAMBDA i, j : IF i = j THEN ROne ELSE RZero)
Tr(M) == Mk(Cols(M), Rows(M), LAMBDA i, j : M[j][i])
MAdd(A, B) == Mk(Rows(A), Cols(A), LAMBDA i, j : RAdd(A[i][j], B[i][j]))
MSub(A, B) == Mk(Rows(A), Cols(A), LAMBDA i, j : RSub(A[i][j], B[i][j]))
MScale(c, A) == Mk(Rows(A), Cols(A), LAMBDA i, j : RMul(c, A[i][j]))

RECURSIVE RSum(_)
RSum(q) == IF q = <<>> THEN RZero ELSE RAdd(Head(q), RSum(Tail(q)))

MMul(A, B) == Mk(Rows(A), Cols(B), LAMBDA i, j : RSum([k \in 1..Cols(A) |-> RMul(A[i][k], B[k][j])]))
MVec(A, v) == [i \in 1..Rows(A) |-> RSum([k \in 1..Cols(A) |-> RMul(A[i][k], v[k])])]
VAdd(u, v) == [i \in 1..Len(u) |-> RAdd(u[i], v[i])]
VSub(u, v) == [i \in 1..Len(u) |-> RSub(u[i], v[i])]
Dot(u, v)  == RSum([k \in 1..Len(u) |-> RMul(u[k], v[k])])
Col(v)     == [i \in 1..Len(v) |-> <<v[i]>>]            \* vector as n x 1 matrix
ColOf(M, j) == [i \in 1..Rows(M) |-> M[i][j]]
Diag(v)    == Mk(Len(v), Len(v), LAMBDA i, j : IF i = j THEN v[i] ELSE RZero)
DiagOf(M)  == [i \in 1..Rows(M) |-> M[i][i]]

\* rows r1..r2, columns c1..c2
Block(M, r1, r2, c1, c2) == [i \in 1..(r2 - r1 + 1) |-> [j \in 1..(c2 - c1 + 1) |-> M[r1 + i - 1][c1 + j - 1]]]
\* rows/cols selected by increasing index sequences
Sel(M, rs, cs) == [i \in 1..Len(rs) |-> [j \in 1..Len(cs) |-> M[rs[i]][cs[j]]]]
VSel(v, is) == [i \in 1..Len(is) |-> v[is[i]]]

Minor(M, r, c) ==
  LET n == Rows(M)
  IN [i \in 1..(n - 1) |-> [j \in 1..(n - 1) |-> M[IF i < r THEN i ELSE i + 1][IF j < c THEN j ELSE j + 1]]]

RECURSIVE Det(_)
Det(M) ==
  IF Rows(M) = 0 THEN ROne
  ELSE IF Rows(M) = 1 THEN M[1][1]
  ELSE RSum([j \in 1..Rows(M) |->
              LET t == RMul(M[1][j], Det(Minor(M, 1, j))) IN IF j % 2 = 1 THEN t ELSE RNeg(t)])

Inv(M) ==
  LET n == Rows(M) d == Det(M)
  IN Mk(n, n, LAMBDA i, j :
        LET c == Det(Minor(M, j, i)) IN RDiv(IF (i + j) % 2 = 0 THEN c ELSE RNeg(c), d))

Solve(A, b) == MVec(Inv(A), b)

IsSym(M) == \A i, j \in 1..Rows(M) : M[i][j] = M[j][i]
\* positive definite: all leading principal minors > 0 (Sylvester)
IsPD(M)  == \A k \in 1..Rows(M) : RLt(RZero, Det(Block(M, 1, k, 1, k)))
\* positive semi-definite: all principal minors >= 0
IsPSD(M) == \A S \in SUBSET (1..Rows(M)) :
              S = {} \/ LET q == CHOOSE q \in [1..Cardinality(S) -> S] : \A a, b \in 1..Cardinality(S) : a < b => q[a] < q[b]
                        IN RLe(RZero, Det(Sel(M, q, q)))

\* [[A, B], [C, D]]
Blk(A, B, C, D) ==
  [i \in 1..(Rows(A) + Rows(C)) |->
     IF i <= Rows(A) THEN A[i] \o B[i] ELSE C[i - Rows(A)] \o D[i - Rows(A)]]

\* ---- the Gaussian conditional: the denotation of exact GP prediction ------------------------------
\* y ~ N(mx, Kxx + S) observed; f* ~ N(ms, Kss), Cov(f*, y) = Ksx
CondMean(ms, Ksx, A, y, mx) == VAdd(ms, MVec(Ksx, Solve(A, VSub(y, mx))))
CondCov(Kss, Ksx, A)        == MSub(Kss, MMul(Ksx, MMul(Inv(A), Tr(Ksx))))
=============================================================================
