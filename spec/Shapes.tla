------------------------------- MODULE Shapes -------------------------------
(***************************************************************************)
(* Tensor shapes, numpy / torch broadcasting and un-broadcasting.          *)
(*                                                                         *)
(* A shape is a sequence of positive integers, an index of a shape a       *)
(* sequence of 0-based positions.  Two definitions of broadcasting sit     *)
(* side by side: the DECLARATIVE one (numpy's rule, stated on all operands *)
(* at once: align right, every axis carries at most one size other than 1) *)
(* and the CODE-SHAPED pairwise fold that torch.broadcast_shapes / tensor  *)
(* arithmetic performs.  Batch.tla checks that they agree on every triple. *)
(* All operator names start with Sh so that the module can be extended     *)
(* together with PyIndex.                                                  *)
(***************************************************************************)
EXTENDS Integers, Sequences, FiniteSets

ShMax(a, b) == IF a >= b THEN a ELSE b
ShOnes(k)   == [j \in 1..k |-> 1]
ShRange(q)  == {q[j] : j \in DOMAIN q}

\* all shapes of rank 0..maxRank over the dimension sizes `dims`
ShShapes(dims, maxRank) == UNION {[1..r -> dims] : r \in 0..maxRank}

\* size of the k-th axis counted from the right (k >= 1); missing leading axes read as 1
ShRDim(s, k) == IF k <= Len(s) THEN s[Len(s) - k + 1] ELSE 1

\* ---- declarative broadcasting of a sequence of shapes ------------------------------------
ShMaxRank(ss) == IF ss = <<>> THEN 0
                 ELSE CHOOSE m \in {Len(ss[i]) : i \in DOMAIN ss} : \A i \in DOMAIN ss : Len(ss[i]) <= m

\* sizes other than 1 present on the k-th axis from the right
ShSizes(ss, k) == {ShRDim(ss[i], k) : i \in DOMAIN ss} \ {1}

ShCompatible(ss) == \A k \in 1..ShMaxRank(ss) : Cardinality(ShSizes(ss, k)) <= 1

\* defined when ShCompatible(ss): every axis takes the one size other than 1 that occurs on it, else 1
ShBroadcastAll(ss) ==
  LET r == ShMaxRank(ss)
  IN [j \in 1..r |-> LET nz == ShSizes(ss, r - j + 1) IN IF nz = {} THEN 1 ELSE CHOOSE v \in nz : TRUE]

\* ---- code-shaped pairwise broadcasting -----------------------------------------------------
ShNone == <<0>>                 \* "raises": 0 is not a legal axis size

ShBc2(a, b) ==
  IF a = ShNone \/ b = ShNone THEN ShNone
  ELSE LET r  == ShMax(Len(a), Len(b))
           ok == \A k \in 1..r : ShRDim(a, k) = ShRDim(b, k) \/ ShRDim(a, k) = 1 \/ ShRDim(b, k) = 1
       IN IF ok THEN [j \in 1..r |-> ShMax(ShRDim(a, r - j + 1), ShRDim(b, r - j + 1))] ELSE ShNone

ShBc3(a, b, c) == ShBc2(ShBc2(a, b), c)

\* Tensor.expand(target): like broadcasting, but the result must be the target itself
ShExpand(s, target) == IF ShBc2(s, target) = target THEN target ELSE ShNone

\* ---- indices --------------------------------------------------------------------------------
ShMaxDim(s) == IF s = <<>> THEN 1 ELSE CHOOSE m \in ShRange(s) : \A v \in ShRange(s) : v <= m

ShIndices(s) == {i \in [1..Len(s) -> 0..(ShMaxDim(s) - 1)] : \A k \in 1..Len(s) : i[k] < s[k]}

ShNumel(s) == Cardinality(ShIndices(s))

\* ---- un-broadcasting ------------------------------------------------------------------------
\* code-shaped formula: the element of a tensor of shape s that its broadcast view shows at index b
\* (right aligned; an axis of size 1 is read at position 0)
ShUnb(b, s) == [k \in 1..Len(s) |-> IF s[k] = 1 THEN 0 ELSE b[Len(b) - Len(s) + k]]

\* declarative: the indices of s that agree with b on every axis that is not stretched
ShUnbSet(b, s) == {i \in ShIndices(s) : \A k \in 1..Len(s) : s[k] = 1 \/ i[k] = b[Len(b) - Len(s) + k]}

\* the same through torch's two primitive steps: view s with leading axes of size 1, then stretch axes of size 1
ShPad(s, r)     == ShOnes(r - Len(s)) \o s
ShUnbSteps(b, s) ==
  LET p   == ShPad(s, Len(b))
      ip  == [j \in 1..Len(b) |-> IF p[j] = 1 THEN 0 ELSE b[j]]        \* index into the padded view
  IN SubSeq(ip, Len(b) - Len(s) + 1, Len(b))                            \* drop the leading zeros

\* ---- size coincidences between batch axes and data axes ---------------------------------------
\* A data tensor has shape batch \o <<n, d>>, a kernel matrix batch \o <<n, m>>, a diagonal batch \o <<n>>.  Code that tells
\* these apart by counting axes or by looking at trailing sizes (`res.dim() == ...`, `res.shape[-2:] == (n, m)`, view, squeeze)
\* can take a batch axis for a data axis only where their sizes are EQUAL.  Every such equality is a class of its own:
\* the coincidence class of (batch shape s, rows n, columns m, features d) says which batch axes (counted from the right)
\* have the size of which data axis, and which data axes have equal sizes.
ShCoAxes(s, v) == {k \in 1..Len(s) : ShRDim(s, k) = v}

ShCoClass(s, n, m, d) == [rows |-> ShCoAxes(s, n), cols |-> ShCoAxes(s, m), feat |-> ShCoAxes(s, d),
                          square |-> n = m, rowsfeat |-> n = d]

\* the numbers of rows that realise every class of shape s: a generic one (the size of no axis), the feature size, every axis size
ShCoRows(s, generic, d) == {generic, d} \cup ShRange(s)

\* `rows` covers the classes of s: every batch axis coincides with some choice, one choice coincides with nothing, one with d
ShCoCovered(s, rows, d) ==
  /\ \A k \in 1..Len(s) : \E n \in rows : k \in ShCoAxes(s, n)
  /\ \E n \in rows : ShCoAxes(s, n) = {} /\ n # d
  /\ d \in rows

=============================================================================
