------------------------------- MODULE Persist -------------------------------
(***************************************************************************)
(* Persistence round trips (property C18).                                 *)
(*                                                                         *)
(* A model is a set of CARRIERS of prediction-relevant state.  Kinds:      *)
(*   "param"    torch Parameter                    (in state_dict)         *)
(*   "buffer"   registered buffer (constraint bounds, prior parameters,    *)
(*              grids, variational flags ...)      (in state_dict)         *)
(*   "lazybuf"  buffer registered only by the first forward call           *)
(*   "ctor"     plain attribute fixed by the constructor arguments         *)
(*   "random"   plain attribute drawn at construction (differs between two *)
(*              constructions)                                             *)
(*   "closure"  function objects kept by the model (getter / setter of a    *)
(*              registered prior): deepcopy and pickle do NOT copy functions *)
(*              - the restored model holds the very same function - so a    *)
(*              closure is carried correctly only if it reads the module it *)
(*              is CALLED with and captures no model object                 *)
(*   "cache"    evaluation-time cache (prediction strategy, memo, kernel   *)
(*              attribute caches): derived state, tagged with the          *)
(*              parameter version it was computed from                     *)
(* Mechanisms: "state_dict" into a FRESHLY CONSTRUCTED model of the same   *)
(* architecture; "pickle"; "deepcopy" (prediction strategies are dropped   *)
(* by __deepcopy__).                                                       *)
(*                                                                         *)
(* The machine runs a train / eval / predict / step history on the         *)
(* original, takes a save point at any moment, restores, and compares.     *)
(* Inventory (which carrier kinds a real model family has) is a constant   *)
(* obtained by introspection of the real classes, so TLC decides "no       *)
(* prediction-relevant state lives outside what the mechanism carries" on  *)
(* the real inventory.                                                     *)
(***************************************************************************)
EXTENDS Integers, Sequences, FiniteSets, TLC

CONSTANTS Kinds,        \* set of carrier kinds present in the family (subset of the kinds above)
          ClosureCapturesOwner,   \* BOOLEAN: some prior closure reads a captured module instead of its argument (current code: FALSE)
          MaxV, MaxLen

VARIABLES mode, pv, ran,       \* ran: a forward pass has happened (lazy buffers exist)
          cache,               \* <<>> or <<pv at fill>>
          restored,            \* <<>> or <<[mech, ok, carriers equal?, cache tag]>> result of the last round trip
          hist
vars == <<mode, pv, ran, cache, restored, hist>>

Mechs == {"state_dict", "pickle", "deepcopy"}

Init == mode = "train" /\ pv = 0 /\ ran = FALSE /\ cache = <<>> /\ restored = <<>> /\ hist = <<>>
Room == Len(hist) < MaxLen
Rec(e) == hist' = Append(hist, e)

Train   == Room /\ mode' = "train" /\ cache' = <<>> /\ UNCHANGED <<pv, ran>> /\ restored' = <<>> /\ Rec([a |-> "Train"])
Eval    == Room /\ mode' = "eval" /\ cache' = (IF mode = "train" THEN <<>> ELSE cache) /\ UNCHANGED <<pv, ran>> /\ restored' = <<>> /\ Rec([a |-> "Eval"])
OptStep == Room /\ mode = "train" /\ pv < MaxV /\ pv' = pv + 1 /\ ran' = TRUE /\ UNCHANGED <<mode, cache>> /\ restored' = <<>> /\ Rec([a |-> "OptStep"])
Predict == Room /\ mode = "eval" /\ cache' = (IF cache = <<>> THEN <<pv>> ELSE cache) /\ ran' = TRUE /\ UNCHANGED <<mode, pv>> /\ restored' = <<>> /\ Rec([a |-> "Predict"])

\* which carrier kinds of the ORIGINAL reappear with the same content in the restored model
Carried(mech, k) ==
  CASE mech = "state_dict" -> k \in {"param", "buffer", "ctor", "closure"} \/ (k = "lazybuf" /\ ~ran)   \* (closures: those of the fresh construction)   \* nothing to carry before the first forward
    [] mech = "pickle"     -> (k = "closure" => ~ClosureCapturesOwner)
    [] mech = "deepcopy"   -> (k = "closure" => ~ClosureCapturesOwner)      \* the copy would keep reading the ORIGINAL's parameters
\* does the mechanism fail outright (load_state_dict raising on unexpected keys)?
Raises(mech) == mech = "state_dict" /\ "lazybuf" \in Kinds /\ ran

RoundTrip(mech) ==
  /\ Room
  /\ restored' = << [mech |-> mech,
                     raises |-> Raises(mech),
                     equal |-> \A k \in Kinds \ {"cache"} : Carried(mech, k),
                     \* caches of the restored model: none after state_dict into a fresh model / deepcopy; copied by pickle
                     cachetag |-> IF mech = "pickle" THEN cache ELSE <<>>,
                     pv |-> pv] >>
  /\ UNCHANGED <<mode, pv, ran, cache>>
  /\ Rec([a |-> "RoundTrip", mech |-> mech])

Next == Train \/ Eval \/ OptStep \/ Predict \/ \E m \in Mechs : RoundTrip(m)
Spec == Init /\ [][Next]_vars

\* ---- properties -----------------------------------------------------------------------------------
\* every prediction-relevant carrier of the restored model equals the original's, and restoring does not raise
RoundTripExact == restored # <<>> => (~restored[1].raises /\ restored[1].equal)
\* a restored model never holds a cache computed from other parameters than its own
NoForeignCache == restored # <<>> /\ restored[1].cachetag # <<>> => restored[1].cachetag[1] = restored[1].pv
=============================================================================
