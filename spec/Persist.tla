------------------------------- MODULE Persist -------------------------------
(***************************************************************************)
(* Persistence round trips (property C18).                                 *)
(*                                                                         *)
(* A model is a set of CARRIERS of prediction-relevant state.  Kinds:      *)
(*   "param"    torch Parameter                    (in state_dict)         *)
(*   "buffer"   registered buffer (constraint bounds, prior parameters,    *)
(*              grids, variational flags ...)      (in state_dict)         *)
(*   "lazybuf"  PERSISTENT buffer registered only by the first forward     *)
(*              call (lazily drawn random features): in the state_dict     *)
(*              once it exists; a receiver that is not in the same "has    *)
(*              been called" state rejects / misses the key (loud)         *)
(*   "npbuf"    NON-persistent buffer (or tensor attribute) created by the *)
(*              first forward call whose value is neither fixed by the     *)
(*              constructor nor derived from carried state: it never       *)
(*              reaches the state_dict, a strict load succeeds and the     *)
(*              receiver keeps / draws its own value (silent)              *)
(*   "ctor"     plain attribute fixed by the constructor arguments         *)
(*   "random"   plain attribute drawn at construction (differs between two *)
(*              constructions)                                             *)
(*   "closure"  function objects kept by the model (getter / setter of a    *)
(*              registered prior): deepcopy and pickle do NOT copy functions *)
(*              - the restored model holds the very same function - so a    *)
(*              closure is carried correctly only if it reads the module it *)
(*              is CALLED with and captures no model object                 *)
(*   "cache"    evaluation-time cache (prediction strategy, memo, kernel   *)
(*              attribute caches): derived state, tagged with the          *)
(*              parameter version it was computed from                     *)
(* Mechanisms: "state_dict" into a FRESHLY CONSTRUCTED model of the same   *)
(* architecture; "pickle"; "deepcopy" (prediction strategies are dropped   *)
(* by __deepcopy__).  The RECEIVER of a state_dict has a history of its    *)
(* own: "fresh" (never called), "called" (one forward pass in training     *)
(* mode: lazily created state exists, no evaluation caches), "used" (has   *)
(* also served evaluation-mode predictions - full and mean-only - from ITS *)
(* parameters: holds foreign caches that the load must drop).              *)
(*                                                                         *)
(* The FAILURE MODE of a round trip is part of its outcome (and of the     *)
(* signature of the replayed cell): "raises-on-load" (loud),               *)
(* "carrier-missing-from-state-dict" (a prediction-relevant carrier that   *)
(* exists at the save point has no key), "loads-silently-but-differs".     *)
(* A known finding about one mode never covers another.                    *)
(*                                                                         *)
(* The machine runs a train / eval / predict / step history on the         *)
(* original, takes a save point at any moment, restores, and compares.     *)
(* Inventory (which carrier kinds a real model family has) is a constant   *)
(* obtained by introspection of the real classes, so TLC decides "no       *)
(* prediction-relevant state lives outside what the mechanism carries" on  *)
(* the real inventory.                                                     *)
(***************************************************************************)
EXTENDS Integers, Sequences, FiniteSets, TLC

CONSTANTS Kinds,        \* set of carrier kinds present in the family (subset of the kinds above)
          ClosureCapturesOwner,   \* BOOLEAN: some prior closure reads a captured module instead of its argument (current code: FALSE)
          LoadDropsCaches,        \* BOOLEAN: load_state_dict drops every cache of the receiver, whatever attribute holds it (current code: TRUE)
          MaxV, MaxLen

VARIABLES mode, pv, ran,       \* ran: a forward pass has happened (lazy buffers exist)
          cache,               \* <<>> or <<pv at fill>>
          restored,            \* <<>> or <<[mech, recv, ran, failure mode, cache tag, pv]>> result of the last round trip
          hist
vars == <<mode, pv, ran, cache, restored, hist>>

Mechs == {"state_dict", "pickle", "deepcopy"}

Init == mode = "train" /\ pv = 0 /\ ran = FALSE /\ cache = <<>> /\ restored = <<>> /\ hist = <<>>
Room == Len(hist) < MaxLen
Rec(e) == hist' = Append(hist, e)

Train   == Room /\ mode' = "train" /\ cache' = <<>> /\ UNCHANGED <<pv, ran>> /\ restored' = <<>> /\ Rec([a |-> "Train"])
Eval    == Room /\ mode' = "eval" /\ cache' = (IF mode = "train" THEN <<>> ELSE cache) /\ UNCHANGED <<pv, ran>> /\ restored' = <<>> /\ Rec([a |-> "Eval"])
OptStep == Room /\ mode = "train" /\ pv < MaxV /\ pv' = pv + 1 /\ ran' = TRUE /\ UNCHANGED <<mode, cache>> /\ restored' = <<>> /\ Rec([a |-> "OptStep"])
\* obs: "full" posterior or "meanonly" (skip_posterior_variances); both fill caches that belong to the current parameter version
Predict(obs) == Room /\ mode = "eval" /\ cache' = (IF cache = <<>> THEN <<pv>> ELSE cache) /\ ran' = TRUE /\ UNCHANGED <<mode, pv>> /\ restored' = <<>> /\ Rec([a |-> "Predict", obs |-> obs])

Recvs(mech) == IF mech = "state_dict" THEN {"fresh", "called", "used"} ELSE {"none"}
RecvRan(recv) == recv \in {"called", "used"}

\* which carrier kinds of the ORIGINAL reappear with the same content in the restored model
Carried(mech, recv, k) ==
  CASE mech = "state_dict" -> \/ k \in {"param", "buffer", "ctor", "closure"}             \* (closures: those of the fresh construction)
                              \/ (k = "lazybuf" /\ ran = RecvRan(recv))                    \* nothing to carry before the first forward (both sides draw at first use); key on both sides after it
                              \/ (k = "npbuf" /\ ~ran /\ ~RecvRan(recv))                   \* only while neither side has created it
    [] mech = "pickle"     -> (k = "closure" => ~ClosureCapturesOwner)
    [] mech = "deepcopy"   -> (k = "closure" => ~ClosureCapturesOwner)      \* the copy would keep reading the ORIGINAL's parameters
\* does the mechanism fail outright?  strict load_state_dict: "Unexpected key" (original called, receiver not) / "Missing key" (the reverse)
Raises(mech, recv) == mech = "state_dict" /\ "lazybuf" \in Kinds /\ ran # RecvRan(recv)
\* a carrier that exists at the save point and has no key in the state_dict
Missing(mech) == mech = "state_dict" /\ ran /\ "npbuf" \in Kinds
Equal(mech, recv) == \A k \in Kinds \ {"cache"} : Carried(mech, recv, k)
Failure(mech, recv) ==
  IF Raises(mech, recv) THEN "raises-on-load"
  ELSE IF Missing(mech) THEN "carrier-missing-from-state-dict"
  ELSE IF ~Equal(mech, recv) THEN "loads-silently-but-differs"
  ELSE "none"

RoundTrip(mech, recv) ==
  /\ Room
  /\ restored' = << [mech |-> mech, recv |-> recv, ran |-> ran,
                     failure |-> Failure(mech, recv),
                     \* caches of the restored model: pickle copies the original's; deepcopy and a fresh / called receiver have none; a USED receiver
                     \* holds caches of ITS OWN earlier parameters (tag -1), which loading has to drop
                     cachetag |-> IF mech = "pickle" THEN cache
                                  ELSE IF recv = "used" /\ ~LoadDropsCaches THEN <<-1>> ELSE <<>>,
                     pv |-> pv] >>
  /\ UNCHANGED <<mode, pv, ran, cache>>
  /\ Rec([a |-> "RoundTrip", mech |-> mech, recv |-> recv])

Next == Train \/ Eval \/ OptStep \/ (\E o \in {"full", "meanonly"} : Predict(o)) \/ \E m \in Mechs : \E r \in Recvs(m) : RoundTrip(m, r)
Spec == Init /\ [][Next]_vars

\* ---- properties -----------------------------------------------------------------------------------
\* every prediction-relevant carrier of the restored model equals the original's, and restoring does not raise
RoundTripExact == restored # <<>> => restored[1].failure = "none"
\* a restored model never holds a cache computed from other parameters than its own
NoForeignCache == restored # <<>> /\ restored[1].cachetag # <<>> => restored[1].cachetag[1] = restored[1].pv
=============================================================================
