-------------------------------- MODULE Batch --------------------------------
(***************************************************************************)
(* Property C08: a module built with a batch shape is that many            *)
(* independent replicas.                                                   *)
(*                                                                         *)
(* SEMANTICS.  A batched object has parameters of batch shape P and is     *)
(* applied to data of batch shapes D1 and D2 (for a kernel: x1 and x2; for *)
(* an exact GP: training and test inputs; for a variational GP: inputs and *)
(* inducing points).  The batched output has batch shape                   *)
(* Out = broadcast(P, D1, D2) and element b of it must be what the         *)
(* NON-batched object computes from element ShUnb(b, P) of the parameters  *)
(* and elements ShUnb(b, D1), ShUnb(b, D2) of the data ("the replica of    *)
(* b").  A triple that numpy cannot broadcast has no output.               *)
(*                                                                         *)
(* CODE-SHAPED.  Site(...) transcribes the places where the library lines  *)
(* a parameter tensor up with a data-shaped tensor (view / unsqueeze /     *)
(* expand arithmetic).  Which parameter element the library really reads   *)
(* at every position of the result follows from applying the broadcasting  *)
(* algebra to the shapes the code builds; SiteOutcome compares it with the *)
(* replica's parameter element.                                            *)
(*                                                                         *)
(* Every (P, D1, D2) is one initial state; the state carries the case for  *)
(* the replay (all b with their replica indices) and the predicted outcome *)
(* of every site.                                                          *)
(***************************************************************************)
EXTENDS Shapes, TLC

CONSTANTS Dims,        \* axis sizes, {1, 2, 3}
          MaxRank,     \* 2
          NPts, MPts,  \* rows of x1 / x2 used by the replay (4, 3)
          DFeat,       \* feature dimension (2)
          NCo,         \* a number of rows that coincides with an axis size of Dims (3)
          CheckSites,  \* the sites whose alignment this run asserts
          Repaired     \* subset of {"rq_alpha", "const_kernel", "call_diag", "multitask"}: transcribe the repaired arithmetic of
                       \* that site family instead of the arithmetic of the pinned commit (see checks/c08.py REPAIRED)

VARIABLE c

\* ---- row-major enumeration of the indices of a shape ---------------------------------------
RECURSIVE BProd(_)
BProd(q) == IF q = <<>> THEN 1 ELSE Head(q) * BProd(Tail(q))
BStride(s, k) == BProd(SubSeq(s, k + 1, Len(s)))
BUnravel(p, s) == [k \in 1..Len(s) |-> (p \div BStride(s, k)) % s[k]]

\* ---- the sites ---------------------------------------------------------------------------------
\* par : shape of the parameter tensor at the moment it meets the data-shaped tensor (its first np axes are P)
\* with: shape of the data-shaped tensor;  op: "bc" (arithmetic / matmul batch broadcasting) or "expand"
\* exp : shape the property requires for the result; its last nt axes are not batch axes
SiteNames == {"lengthscale_x1", "lengthscale_x2", "outputscale_full", "outputscale_diag", "rq_alpha_full", "rq_alpha_diag",
              "constant_mean", "linear_mean_weights", "linear_mean_bias", "noise", "const_kernel_full", "const_kernel_diag",
              "var_inducing_values", "multitask_task_covar", "call_diag", "call_diag_nco", "call_diag_ignored"}

Site(name, P, D1, D2) ==
  LET Out == ShBc3(P, D1, D2)
      B1  == ShBc2(P, D1)
      B2  == ShBc2(P, D2)
      DD  == ShBc2(D1, D2)
      np  == Len(P)
  IN CASE name = "lengthscale_x1" ->        \* Kernel.__init__: raw_lengthscale has shape batch + (1, d); forward: x1.div(self.lengthscale)
            [par |-> P \o <<1, DFeat>>, with |-> D1 \o <<NPts, DFeat>>, op |-> "bc", exp |-> B1 \o <<NPts, DFeat>>, nt |-> 2]
       [] name = "lengthscale_x2" ->
            [par |-> P \o <<1, DFeat>>, with |-> D2 \o <<MPts, DFeat>>, op |-> "bc", exp |-> B2 \o <<MPts, DFeat>>, nt |-> 2]
       [] name = "outputscale_full" ->      \* ScaleKernel.forward: outputscales.view(*outputscales.shape, 1, 1); orig_output.mul(outputscales)
            [par |-> P \o <<1, 1>>, with |-> Out \o <<NPts, MPts>>, op |-> "bc", exp |-> Out \o <<NPts, MPts>>, nt |-> 2]
       [] name = "outputscale_diag" ->      \* diag: outputscales.unsqueeze(-1)
            [par |-> P \o <<1>>, with |-> B1 \o <<NPts>>, op |-> "bc", exp |-> B1 \o <<NPts>>, nt |-> 1]
       [] name = "rq_alpha_full" ->         \* RQKernel.forward: alpha has shape batch + (1,);
                                            \* for _ in range(1, len(dist_mat.shape) - len(self.batch_shape)): alpha = alpha.unsqueeze(-1)
                                            \* repaired: alpha.unsqueeze(-1) unless diag
            LET dist == Out \o <<NPts, MPts>>
                cnt  == IF "rq_alpha" \in Repaired THEN 1 ELSE ShMax(Len(dist) - np - 1, 0)
            IN [par |-> P \o <<1>> \o ShOnes(cnt), with |-> dist, op |-> "bc", exp |-> dist, nt |-> 2]
       [] name = "rq_alpha_diag" ->
            LET dist == B1 \o <<NPts>>
                cnt  == IF "rq_alpha" \in Repaired THEN 0 ELSE ShMax(Len(dist) - np - 1, 0)
            IN [par |-> P \o <<1>> \o ShOnes(cnt), with |-> dist, op |-> "bc", exp |-> dist, nt |-> 1]
       [] name = "constant_mean" ->         \* ConstantMean.forward: constant.unsqueeze(-1).expand(broadcast_shapes(constant.shape, input.shape[:-1]))
            [par |-> P \o <<1>>, with |-> D1 \o <<NPts>>, op |-> "bc", exp |-> B1 \o <<NPts>>, nt |-> 1]
       [] name = "linear_mean_weights" ->   \* LinearMean.forward: x.matmul(self.weights): matmul broadcasts the batch axes
            [par |-> P, with |-> D1, op |-> "bc", exp |-> B1, nt |-> 0]
       [] name = "linear_mean_bias" ->      \* res + self.bias, bias has shape batch + (1,)
            [par |-> P \o <<1>>, with |-> B1 \o <<NPts>>, op |-> "bc", exp |-> B1 \o <<NPts>>, nt |-> 1]
       [] name = "noise" ->                 \* _HomoskedasticNoiseBase.forward: noise (batch + (1,)).unsqueeze(-2)
                                            \*   .expand(*broadcast_shapes(noise_batch, input_batch), 1, num_tasks)
            [par |-> P \o <<1, 1>>, with |-> B1 \o <<1, 1>>, op |-> "expand", exp |-> B1 \o <<1, 1>>, nt |-> 2]
       [] name = "const_kernel_full" ->     \* ConstantKernel.forward: batch_shape = broadcast_shapes(x1.shape[:-2], x2.shape[:-2]);
                                            \*   constant (batch + (1,)).unsqueeze(-1).expand(batch_shape + (n, m))
                                            \* repaired: ... .expand(broadcast_shapes(constant.shape, batch_shape + (n, m)))
            [par |-> P \o <<1, 1>>, with |-> DD \o <<NPts, MPts>>, op |-> IF "const_kernel" \in Repaired THEN "bc" ELSE "expand",
             exp |-> Out \o <<NPts, MPts>>, nt |-> 2]
       [] name = "const_kernel_diag" ->
            [par |-> P \o <<1>>, with |-> D1 \o <<NPts>>, op |-> IF "const_kernel" \in Repaired THEN "bc" ELSE "expand",
             exp |-> B1 \o <<NPts>>, nt |-> 1]
       [] name = "var_inducing_values" ->   \* _VariationalStrategy._expand_inputs: broadcast_shapes(inducing batch, x batch);
                                            \* VariationalStrategy.forward: interp_term^T @ inducing_values (batch + (m,)).unsqueeze(-1)
            [par |-> P, with |-> ShBc2(D2, D1), op |-> "bc", exp |-> Out, nt |-> 0]
       [] OTHER -> [par |-> <<>>, with |-> <<>>, op |-> "bc", exp |-> <<>>, nt |-> 0]

\* outcome of a site: which parameter element the code reads at every position of the result
AlignOutcome(st, P) ==
  LET R == IF st.op = "expand" THEN ShExpand(st.par, st.with) ELSE ShBc2(st.par, st.with)
  IN IF R = ShNone THEN "raises"
     ELSE IF R # st.exp THEN "shape"
     ELSE IF \A f \in ShIndices(R) :
               SubSeq(ShUnb(f, st.par), 1, Len(P)) = ShUnb(SubSeq(f, 1, Len(R) - st.nt), P)
          THEN "ok" ELSE "values"

\* Kernel.__call__(diag=True): "did this kernel eat the diag option?" -
\*   if res.dim() == x1_.dim() and res.shape[-2:] == (x1_.size(-2), x2_.size(-2)): res = res.diagonal(dim1=-1, dim2=-2)
\* forward(diag=True) returns broadcast(P, D1) + (n,) for every kernel that honours diag
CallDiagOutcome(P, D1, n) ==
  LET res  == ShBc2(P, D1) \o <<n>>
      x1   == D1 \o <<n, DFeat>>
      full == IF "call_diag" \in Repaired THEN Len(ShBc2(P, D1)) + 2 ELSE Len(x1)     \* repaired: rank of the broadcast batch + 2
      eats == Len(res) = full /\ Len(res) >= 2 /\ SubSeq(res, Len(res) - 1, Len(res)) = <<n, n>>
      fin  == IF eats THEN SubSeq(res, 1, Len(res) - 2) \o <<n>> ELSE res
  IN IF fin = ShBc2(P, D1) \o <<n>> THEN "ok" ELSE "shape"

\* MultitaskKernel.forward: covar_i = task covariance (batch P);
\*   if len(x1.shape[:-2]): covar_i = covar_i.repeat(*x1.shape[:-2], 1, 1)      -- repeat TILES: axis sizes multiply
\*   KroneckerProductLinearOperator(covar_x (batch Out), covar_i) broadcasts the two batch shapes
MultitaskOutcome(P, D1, D2) ==
  LET Out == ShBc3(P, D1, D2)
      r   == ShMax(Len(P), Len(D1))
      \* BatchRepeatLinearOperator: the base operator gets leading axes when it has fewer batch axes than the repeat; its size is
      \* zip(base batch, repeat) - left aligned and cut to the shorter one
      rep == IF D1 = <<>> \/ "multitask" \in Repaired THEN P        \* repaired: no repeat, the Kronecker product broadcasts
             ELSE IF Len(D1) >= Len(P) THEN [j \in 1..r |-> ShRDim(P, r - j + 1) * ShRDim(D1, r - j + 1)]
             ELSE [j \in 1..Len(D1) |-> P[j] * D1[j]]
      B   == ShBc2(Out, rep)
  IN IF B = ShNone THEN "raises" ELSE IF B # Out THEN "shape" ELSE "ok"

\* the same for a kernel whose forward ignores diag and returns the full matrix broadcast(P, D1) + (n, n)  (IndexKernel)
CallDiagIgnoredOutcome(P, D1, n) ==
  LET res  == ShBc2(P, D1) \o <<n, n>>
      x1   == D1 \o <<n, DFeat>>
      full == IF "call_diag" \in Repaired THEN Len(ShBc2(P, D1)) + 2 ELSE Len(x1)
      eats == Len(res) = full /\ SubSeq(res, Len(res) - 1, Len(res)) = <<n, n>>
      fin  == IF eats THEN SubSeq(res, 1, Len(res) - 2) \o <<n>> ELSE res
  IN IF fin = ShBc2(P, D1) \o <<n>> THEN "ok" ELSE "shape"

SiteOutcome(name, P, D1, D2) ==
  IF name = "call_diag" THEN CallDiagOutcome(P, D1, NPts)
  ELSE IF name = "call_diag_ignored" THEN CallDiagIgnoredOutcome(P, D1, NPts)
  ELSE IF name = "multitask_task_covar" THEN MultitaskOutcome(P, D1, D2)
  ELSE IF name = "call_diag_nco" THEN CallDiagOutcome(P, D1, NCo)
  ELSE AlignOutcome(Site(name, P, D1, D2), P)

\* ---- the case carried by a state ---------------------------------------------------------------
Case(P, D1, D2) ==
  LET Out == ShBc3(P, D1, D2)
      ok  == Out # ShNone
      Y   == ShBc2(P, D1)                    \* batch shape of everything that depends on P and D1 only (targets, prior, mll)
  IN [P |-> P, D1 |-> D1, D2 |-> D2, ok |-> ok,
      out |-> IF ok THEN Out ELSE <<>>,
      y   |-> IF ok THEN Y ELSE <<>>,
      reps |-> IF ok THEN [q \in 1..BProd(Out) |->
                             LET b == BUnravel(q - 1, Out)
                             IN [b |-> b, p |-> ShUnb(b, P), d1 |-> ShUnb(b, D1), d2 |-> ShUnb(b, D2), y |-> ShUnb(b, Y)]]
               ELSE <<>>,
      pred |-> IF ok THEN [s \in SiteNames |-> SiteOutcome(s, P, D1, D2)] ELSE [s \in SiteNames |-> "rejected"]]

AllShapes == ShShapes(Dims, MaxRank)

Init == \E P \in AllShapes, D1 \in AllShapes, D2 \in AllShapes : c = Case(P, D1, D2)
Next == UNCHANGED c
Spec == Init /\ [][Next]_c

\* ---- properties of the algebra (hold on every triple) ------------------------------------------
Three == <<c.P, c.D1, c.D2>>

Commutative == \A i, j \in 1..3 : ShBc2(Three[i], Three[j]) = ShBc2(Three[j], Three[i])

Associative ==
  /\ ShBc2(ShBc2(c.P, c.D1), c.D2) = ShBc2(c.P, ShBc2(c.D1, c.D2))
  /\ \A i, j, k \in 1..3 : {i, j, k} = {1, 2, 3} => ShBc3(Three[i], Three[j], Three[k]) = ShBc3(c.P, c.D1, c.D2)

IdempotentUnit == \A i \in 1..3 : ShBc2(Three[i], Three[i]) = Three[i] /\ ShBc2(Three[i], <<>>) = Three[i]

\* the pairwise fold is numpy's rule
FoldIsDeclarative ==
  /\ c.ok = ShCompatible(Three)
  /\ c.ok => c.out = ShBroadcastAll(Three)
  /\ \A i, j \in 1..3 : LET two == <<Three[i], Three[j]>>
                        IN /\ (ShBc2(two[1], two[2]) # ShNone) = ShCompatible(two)
                           /\ ShCompatible(two) => ShBc2(two[1], two[2]) = ShBroadcastAll(two)

Rejected == ~c.ok => /\ c.reps = <<>>
                     /\ \E k \in 1..MaxRank : Cardinality(ShSizes(Three, k)) >= 2

\* the replica indices are in range, unique, and the same by formula, by definition and by torch's two steps
UnbroadcastWellDefined ==
  c.ok => \A b \in ShIndices(c.out), i \in 1..3 :
            /\ ShUnb(b, Three[i]) \in ShIndices(Three[i])
            /\ ShUnbSet(b, Three[i]) = {ShUnb(b, Three[i])}
            /\ ShUnbSteps(b, Three[i]) = ShUnb(b, Three[i])

\* every element of the parameters and of the data is the replica of some b
Surjective == c.ok => \A i \in 1..3 : {ShUnb(b, Three[i]) : b \in ShIndices(c.out)} = ShIndices(Three[i])

\* un-broadcasting through an intermediate broadcast (the code broadcasts in stages) is un-broadcasting
Staged ==
  c.ok => \A i, j \in 1..3 : LET mid == ShBc2(Three[i], Three[j])
                             IN /\ ShBc2(mid, c.out) = c.out
                                /\ \A b \in ShIndices(c.out) : ShUnb(ShUnb(b, mid), Three[i]) = ShUnb(b, Three[i])

\* Kernel.forward: the distance of x1 / lengthscale and x2 / lengthscale has the batch shape Out
DistBatch == c.ok => ShBc2(ShBc2(c.P, c.D1), ShBc2(c.P, c.D2)) = c.out

\* ExactGP.__call__: train and test inputs are expanded to broadcast(D1, D2) and concatenated; the joint has batch Out
ExactJointBatch == c.ok => ShBc2(c.P, ShBc2(c.D1, c.D2)) = c.out /\ ShExpand(c.D1, ShBc2(c.D1, c.D2)) # ShNone

\* no broadcasting, no mixing: when all three shapes agree the replica of b is b
NoBroadcastIdentity == (c.ok /\ c.P = c.D1 /\ c.D1 = c.D2) => \A q \in DOMAIN c.reps : c.reps[q].p = c.reps[q].b /\ c.reps[q].d1 = c.reps[q].b

\* the case lists every b exactly once
RepsComplete ==
  c.ok => /\ Len(c.reps) = ShNumel(c.out)
          /\ {c.reps[q].b : q \in DOMAIN c.reps} = ShIndices(c.out)
          /\ \A q \in DOMAIN c.reps : c.reps[q].y = ShUnb(c.reps[q].b, c.y) /\ ShUnb(c.reps[q].y, c.P) = c.reps[q].p

Algebra == /\ Commutative /\ Associative /\ IdempotentUnit /\ FoldIsDeclarative /\ Rejected /\ UnbroadcastWellDefined
           /\ Surjective /\ Staged /\ DistBatch /\ ExactJointBatch /\ NoBroadcastIdentity /\ RepsComplete

\* ---- the code-shaped sites line parameters up like right-aligned broadcasting -----------------
SitesAligned == c.ok => \A s \in CheckSites : c.pred[s] = "ok"

=============================================================================
