-------------------------------- MODULE Batch --------------------------------
(***************************************************************************)
(* Property C08: a module built with a batch shape is that many            *)
(* independent replicas.                                                   *)
(*                                                                         *)
(* SEMANTICS.  A batched object has parameters of batch shape P and is     *)
(* applied to data of batch shapes D1 and D2 (for a kernel: x1 and x2; for *)
(* an exact GP: training and test inputs; for a variational GP: inputs and *)
(* inducing points).  The batched output has batch shape                   *)
(* Out = broadcast(P, D1, D2) and element b of it must be what the         *)
(* NON-batched object computes from element ShUnb(b, P) of the parameters  *)
(* and elements ShUnb(b, D1), ShUnb(b, D2) of the data ("the replica of    *)
(* b").  A triple that numpy cannot broadcast has no output.               *)
(*                                                                         *)
(* CODE-SHAPED.  Site(...) transcribes the places where the library lines  *)
(* a parameter tensor up with a data-shaped tensor (view / unsqueeze /     *)
(* expand arithmetic).  Which parameter element the library really reads   *)
(* at every position of the result follows from applying the broadcasting  *)
(* algebra to the shapes the code builds; SiteOutcome compares it with the *)
(* replica's parameter element.                                            *)
(*                                                                         *)
(* Every (P, D1, D2) is one initial state; the state carries the case for  *)
(* the replay (all b with their replica indices) and the predicted outcome *)
(* of every site.                                                          *)
(*                                                                         *)
(* KERNEL STRUCTURE.  A kernel is a TREE of modules and every node has its *)
(* OWN batch shape (the `batch_shape=` it was constructed with, possibly   *)
(* none): ScaleKernel(LinearKernel(batch_shape=[b])) is a scale node that  *)
(* owns nothing over a leaf that owns [b].  The batch shape of the kernel  *)
(* is the broadcast of the shapes its nodes own, and the replica of b      *)
(* holds at EVERY node element ShUnb(b, parameter shape of the node).      *)
(* The triple is therefore read a second way: (A, B, D) = the two parameter*)
(* batch shapes placed on the nodes of a composite kernel and the batch    *)
(* shape of the data.  A = <<>> / B = <<>> are the composites that INHERIT *)
(* their batch shape from a sub-kernel.                                    *)
(*                                                                         *)
(* SIZE COINCIDENCES.  The number of rows n of the data is a dimension of  *)
(* the case: a generic n, n = the feature size, and n = the size of every  *)
(* batch axis (Shapes.tla, ShCoClass): code that recognises "a matrix" by  *)
(* the number of axes and the trailing sizes can only go wrong there.      *)
(*                                                                         *)
(* MODEL LISTS.  Family = "list": every sequence of member kinds (length   *)
(* 1..MaxMembers, homogeneous and heterogeneous) of an                     *)
(* IndependentModelList; output i of every operation of the list depends   *)
(* on member i and argument i only.                                        *)
(*                                                                         *)
(* OBJECTIVES.  Family = "objective": every constructible configuration    *)
(* (objective class of gpytorch.mlls x likelihood / noise model x priors   *)
(* x added loss term x combine_terms).  An objective is a normalised sum   *)
(* of TERMS (data term, KL, log prior, added loss); element b of every     *)
(* term is the term of the replica of b: it is reduced over the axes of    *)
(* the replica (its n data points, the event axes of a parameter) and over *)
(* nothing else, and it is divided by a number the replica knows (its n,   *)
(* num_data, the number of members) - never by something that grows with   *)
(* the batch.  The normalisers and the reductions of the prior terms are   *)
(* sites (norm_.., prior_..); every configuration is replayed on the triple  *)
(* lattice (batch ranks 0..2, parameters and data broadcast against each   *)
(* other) and element b is compared in VALUE with the non-batched replica. *)
(*                                                                         *)
(* MISSING OBSERVATIONS.  Family = "nan": the NaN policy                   *)
(* (settings.observation_nan_policy) is a dimension of the replica         *)
(* lattice.  "ignore" is the lattice without missing entries (every other  *)
(* family); under "mask" and "fill" the targets of batch shape Y carry a   *)
(* PATTERN: element y misses the positions miss[y] of its NObs points.     *)
(* TLC enumerates the patterns per batch shape (built axis by axis, so     *)
(* that they can vary along either batch axis or both) and classifies      *)
(* them: no element misses anything / the same positions in every element  *)
(* / different positions, one element complete / different positions,      *)
(* every element incomplete.  Under "fill" the replica of y is the         *)
(* non-batched object on the y-th slice with ITS OWN missing entries       *)
(* deleted (NanNoCrossTalk: what is dropped from y depends on miss[y]       *)
(* only); under "mask" the documented union over the whole batch.          *)
(***************************************************************************)
EXTENDS Shapes, TLC

CONSTANTS Dims,        \* axis sizes, {1, 2, 3}
          MaxRank,     \* 2
          NPts, MPts,  \* rows of x1 / x2 used by the replay (4, 3)
          DFeat,       \* feature dimension (2)
          Family,      \* "triple" (batch-shape triples), "list" (member kinds of a model list), "objective" (configurations of the
                       \*   objectives of gpytorch.mlls), "nan" (patterns of missing observations) or "both" (all of them: the generation run)
          WithStruct,  \* BOOLEAN: carry the kernel-structure predictions in the case (only the runs that check / dump them pay for them)
          AllRows,     \* BOOLEAN: the structure predictions range over every row count of Rows (else: over the row counts the case is replayed with)
          CheckStructs,\* the structures of StructNames this run evaluates (the structure runs split them: initial states are computed by one thread)
          NObs,        \* number of observations of one replica in the missing-observation family (5)
          MaxMembers,  \* longest model list (3)
          Variants,    \* rejected variants of the code the lattice must tell from the code (adequacy of the lattice), subset of
                       \*   {"diag_own_batch", "fantasy_noise_carry", "norm_numel", "nan_shared_mask"}
          CheckSites,  \* the sites whose alignment this run asserts
          Repaired     \* subset of {"rq_alpha", "const_kernel", "call_diag", "multitask", "obj_prior"}: transcribe the repaired arithmetic of
                       \* that site family instead of the arithmetic of the pinned commit (see checks/c08.py REPAIRED)

VARIABLE c

\* ---- row-major enumeration of the indices of a shape ---------------------------------------
RECURSIVE BProd(_)
BProd(q) == IF q = <<>> THEN 1 ELSE Head(q) * BProd(Tail(q))
BStride(s, k) == BProd(SubSeq(s, k + 1, Len(s)))
BUnravel(p, s) == [k \in 1..Len(s) |-> (p \div BStride(s, k)) % s[k]]

\* ---- the row counts of the size-coincidence dimension: the generic one, then the axis sizes in ascending order --------------
RECURSIVE BSorted(_)
BSorted(S) == IF S = {} THEN <<>> ELSE LET m == CHOOSE x \in S : \A y \in S : x <= y IN <<m>> \o BSorted(S \ {m})
Rows == <<NPts>> \o BSorted(Dims \ {NPts})
ASSUME NPts \notin Dims /\ NPts # DFeat /\ DFeat \in Dims       \* NPts is generic; the feature size is one of the coincidence rows

\* ---- the sites ---------------------------------------------------------------------------------
\* par : shape of the parameter tensor at the moment it meets the data-shaped tensor (its first np axes are P)
\* with: shape of the data-shaped tensor;  op: "bc" (arithmetic / matmul batch broadcasting) or "expand"
\* exp : shape the property requires for the result; its last nt axes are not batch axes
SiteNames == {"lengthscale_x1", "lengthscale_x2", "outputscale_full", "outputscale_diag", "rq_alpha_full", "rq_alpha_diag",
              "constant_mean", "linear_mean_weights", "linear_mean_bias", "noise", "const_kernel_full", "const_kernel_diag",
              "var_inducing_values", "multitask_task_covar", "call_diag", "call_diag_n1", "call_diag_n2", "call_diag_n3",
              "call_diag_ignored",
              "norm_exact_mll", "norm_loo", "norm_approx", "prior_exact_ev0", "prior_exact_ev1", "prior_exact_ev2", "prior_approx"}

Site(name, P, D1, D2) ==
  LET Out == ShBc3(P, D1, D2)
      B1  == ShBc2(P, D1)
      B2  == ShBc2(P, D2)
      DD  == ShBc2(D1, D2)
      np  == Len(P)
  IN CASE name = "lengthscale_x1" ->        \* Kernel.__init__: raw_lengthscale has shape batch + (1, d); forward: x1.div(self.lengthscale)
            [par |-> P \o <<1, DFeat>>, with |-> D1 \o <<NPts, DFeat>>, op |-> "bc", exp |-> B1 \o <<NPts, DFeat>>, nt |-> 2]
       [] name = "lengthscale_x2" ->
            [par |-> P \o <<1, DFeat>>, with |-> D2 \o <<MPts, DFeat>>, op |-> "bc", exp |-> B2 \o <<MPts, DFeat>>, nt |-> 2]
       [] name = "outputscale_full" ->      \* ScaleKernel.forward: outputscales.view(*outputscales.shape, 1, 1); orig_output.mul(outputscales)
            [par |-> P \o <<1, 1>>, with |-> Out \o <<NPts, MPts>>, op |-> "bc", exp |-> Out \o <<NPts, MPts>>, nt |-> 2]
       [] name = "outputscale_diag" ->      \* diag: outputscales.unsqueeze(-1)
            [par |-> P \o <<1>>, with |-> B1 \o <<NPts>>, op |-> "bc", exp |-> B1 \o <<NPts>>, nt |-> 1]
       [] name = "rq_alpha_full" ->         \* RQKernel.forward: alpha has shape batch + (1,);
                                            \* for _ in range(1, len(dist_mat.shape) - len(self.batch_shape)): alpha = alpha.unsqueeze(-1)
                                            \* repaired: alpha.unsqueeze(-1) unless diag
            LET dist == Out \o <<NPts, MPts>>
                cnt  == IF "rq_alpha" \in Repaired THEN 1 ELSE ShMax(Len(dist) - np - 1, 0)
            IN [par |-> P \o <<1>> \o ShOnes(cnt), with |-> dist, op |-> "bc", exp |-> dist, nt |-> 2]
       [] name = "rq_alpha_diag" ->
            LET dist == B1 \o <<NPts>>
                cnt  == IF "rq_alpha" \in Repaired THEN 0 ELSE ShMax(Len(dist) - np - 1, 0)
            IN [par |-> P \o <<1>> \o ShOnes(cnt), with |-> dist, op |-> "bc", exp |-> dist, nt |-> 1]
       [] name = "constant_mean" ->         \* ConstantMean.forward: constant.unsqueeze(-1).expand(broadcast_shapes(constant.shape, input.shape[:-1]))
            [par |-> P \o <<1>>, with |-> D1 \o <<NPts>>, op |-> "bc", exp |-> B1 \o <<NPts>>, nt |-> 1]
       [] name = "linear_mean_weights" ->   \* LinearMean.forward: x.matmul(self.weights): matmul broadcasts the batch axes
            [par |-> P, with |-> D1, op |-> "bc", exp |-> B1, nt |-> 0]
       [] name = "linear_mean_bias" ->      \* res + self.bias, bias has shape batch + (1,)
            [par |-> P \o <<1>>, with |-> B1 \o <<NPts>>, op |-> "bc", exp |-> B1 \o <<NPts>>, nt |-> 1]
       [] name = "noise" ->                 \* _HomoskedasticNoiseBase.forward: noise (batch + (1,)).unsqueeze(-2)
                                            \*   .expand(*broadcast_shapes(noise_batch, input_batch), 1, num_tasks)
            [par |-> P \o <<1, 1>>, with |-> B1 \o <<1, 1>>, op |-> "expand", exp |-> B1 \o <<1, 1>>, nt |-> 2]
       [] name = "const_kernel_full" ->     \* ConstantKernel.forward: batch_shape = broadcast_shapes(x1.shape[:-2], x2.shape[:-2]);
                                            \*   constant (batch + (1,)).unsqueeze(-1).expand(batch_shape + (n, m))
                                            \* repaired: ... .expand(broadcast_shapes(constant.shape, batch_shape + (n, m)))
            [par |-> P \o <<1, 1>>, with |-> DD \o <<NPts, MPts>>, op |-> IF "const_kernel" \in Repaired THEN "bc" ELSE "expand",
             exp |-> Out \o <<NPts, MPts>>, nt |-> 2]
       [] name = "const_kernel_diag" ->
            [par |-> P \o <<1>>, with |-> D1 \o <<NPts>>, op |-> IF "const_kernel" \in Repaired THEN "bc" ELSE "expand",
             exp |-> B1 \o <<NPts>>, nt |-> 1]
       [] name = "var_inducing_values" ->   \* _VariationalStrategy._expand_inputs: broadcast_shapes(inducing batch, x batch);
                                            \* VariationalStrategy.forward: interp_term^T @ inducing_values (batch + (m,)).unsqueeze(-1)
            [par |-> P, with |-> ShBc2(D2, D1), op |-> "bc", exp |-> Out, nt |-> 0]
       [] OTHER -> [par |-> <<>>, with |-> <<>>, op |-> "bc", exp |-> <<>>, nt |-> 0]

\* outcome of a site: which parameter element the code reads at every position of the result
AlignOutcome(st, P) ==
  LET R == IF st.op = "expand" THEN ShExpand(st.par, st.with) ELSE ShBc2(st.par, st.with)
  IN IF R = ShNone THEN "raises"
     ELSE IF R # st.exp THEN "shape"
     ELSE IF \A f \in ShIndices(R) :
               SubSeq(ShUnb(f, st.par), 1, Len(P)) = ShUnb(SubSeq(f, 1, Len(R) - st.nt), P)
          THEN "ok" ELSE "values"

\* Kernel.__call__(diag=True): "did this kernel eat the diag option?" -
\*   if res.dim() == x1_.dim() and res.shape[-2:] == (x1_.size(-2), x2_.size(-2)): res = res.diagonal(dim1=-1, dim2=-2)
\* forward(diag=True) returns broadcast(P, D1) + (n,) for every kernel that honours diag
CallDiagOutcome(P, D1, n) ==
  LET res  == ShBc2(P, D1) \o <<n>>
      x1   == D1 \o <<n, DFeat>>
      full == IF "call_diag" \in Repaired THEN Len(ShBc2(P, D1)) + 2 ELSE Len(x1)     \* repaired: rank of the broadcast batch + 2
      eats == Len(res) = full /\ Len(res) >= 2 /\ SubSeq(res, Len(res) - 1, Len(res)) = <<n, n>>
      fin  == IF eats THEN SubSeq(res, 1, Len(res) - 2) \o <<n>> ELSE res
  IN IF fin = ShBc2(P, D1) \o <<n>> THEN "ok" ELSE "shape"

\* MultitaskKernel.forward: covar_i = task covariance (batch P);
\*   if len(x1.shape[:-2]): covar_i = covar_i.repeat(*x1.shape[:-2], 1, 1)      -- repeat TILES: axis sizes multiply
\*   KroneckerProductLinearOperator(covar_x (batch Out), covar_i) broadcasts the two batch shapes
MultitaskOutcome(P, D1, D2) ==
  LET Out == ShBc3(P, D1, D2)
      r   == ShMax(Len(P), Len(D1))
      \* BatchRepeatLinearOperator: the base operator gets leading axes when it has fewer batch axes than the repeat; its size is
      \* zip(base batch, repeat) - left aligned and cut to the shorter one
      rep == IF D1 = <<>> \/ "multitask" \in Repaired THEN P        \* repaired: no repeat, the Kronecker product broadcasts
             ELSE IF Len(D1) >= Len(P) THEN [j \in 1..r |-> ShRDim(P, r - j + 1) * ShRDim(D1, r - j + 1)]
             ELSE [j \in 1..Len(D1) |-> P[j] * D1[j]]
      B   == ShBc2(Out, rep)
  IN IF B = ShNone THEN "raises" ELSE IF B # Out THEN "shape" ELSE "ok"

\* the same for a kernel whose forward ignores diag and returns the full matrix broadcast(P, D1) + (n, n)  (IndexKernel)
CallDiagIgnoredOutcome(P, D1, n) ==
  LET res  == ShBc2(P, D1) \o <<n, n>>
      x1   == D1 \o <<n, DFeat>>
      full == IF "call_diag" \in Repaired THEN Len(ShBc2(P, D1)) + 2 ELSE Len(x1)
      eats == Len(res) = full /\ SubSeq(res, Len(res) - 1, Len(res)) = <<n, n>>
      fin  == IF eats THEN SubSeq(res, 1, Len(res) - 2) \o <<n>> ELSE res
  IN IF fin = ShBc2(P, D1) \o <<n>> THEN "ok" ELSE "shape"


\* ---- objectives: normalised sums of terms ----------------------------------------------------------
\* classes of gpytorch.mlls that take batched models (SumMarginalLogLikelihood over them: the model lists, ListOps sum_mll / sum_loo;
\* DeepApproximateMLL / DeepPredictiveLogLikelihood average over their leading axis - samples / quadrature sites, not replicas)
ObjClasses == {"exact_mll", "loo", "elbo", "pll", "gamma_elbo"}
ObjIsExact(cls) == cls \in {"exact_mll", "loo"}       \* ExactMarginalLogLikelihood, LeaveOneOutPseudoLikelihood (exact GPs)
\* likelihood / noise model: GaussianLikelihood, FixedNoiseGaussianLikelihood (+ learn_additional_noise), a Gaussian likelihood over
\* HeteroskedasticNoise(noise GP), and the non-Gaussian likelihoods with a batch shape (quadrature)
ObjLiks == {"gaussian", "fixed", "fixed_learn", "hetero", "student_t", "bernoulli", "laplace", "beta"}
ObjGaussian == {"gaussian", "fixed", "fixed_learn", "hetero"}
ObjAdded == {"none", "noise_model"}                    \* NoiseModelAddedLossTerm: the marginal log likelihood of the noise GP as an added loss
ObjConstructible(o) ==
  /\ ObjIsExact(o.cls) => o.lik \in ObjGaussian /\ o.combine             \* exact inference needs a Gaussian likelihood; no combine_terms
  /\ o.cls = "gamma_elbo" => o.lik \in ObjGaussian
  /\ ~ObjIsExact(o.cls) => o.lik # "hetero"                               \* (its noise model needs the inputs: expected_log_prob has none)
  /\ o.added = "noise_model" => o.lik = "hetero"
ObjConfigs == {o \in [cls : ObjClasses, lik : ObjLiks, prior : BOOLEAN, added : ObjAdded, combine : BOOLEAN] : ObjConstructible(o)}

ObjTerms(o) == {"data"} \cup (IF ObjIsExact(o.cls) THEN {} ELSE {"kl"}) \cup (IF o.prior THEN {"prior"} ELSE {})
               \cup (IF o.added # "none" THEN {"added"} ELSE {})
\* the sites that transcribe the arithmetic of the configuration (the added loss is an ExactMarginalLogLikelihood of the noise GP)
ObjSites(o) ==
  (IF o.cls = "exact_mll" THEN {"norm_exact_mll"} ELSE IF o.cls = "loo" THEN {"norm_loo"} ELSE {"norm_approx"})
  \cup (IF o.added = "noise_model" THEN {"norm_exact_mll"} ELSE {})
  \cup (IF ~o.prior THEN {} ELSE IF ObjIsExact(o.cls) THEN {"prior_exact_ev0", "prior_exact_ev1", "prior_exact_ev2"} ELSE {"prior_approx"})
ObjCase(o) == [obj |-> o, terms |-> ObjTerms(o), sites |-> ObjSites(o)]

\* the number the reduced data term is divided by: which tensor the code looks at and what it reads of it
\*   ExactMarginalLogLikelihood.forward  : function_dist.event_shape.numel()      function_dist: batch Y = broadcast(P, D1), event (n,)
\*   LeaveOneOutPseudoLikelihood.forward : target.size(-1)                        target: Y + (n,)
\*   _ApproximateMarginalLogLikelihood   : approximate_dist_f.event_shape[0]      q(f): batch Out = broadcast(P, D1, D2), event (n,)
\* variant "norm_numel": <that tensor>.numel()
NormRead(cls) == IF cls = "exact_mll" THEN "event_numel" ELSE IF cls = "loo" THEN "last" ELSE "event_first"
NormBatch(cls, P, D1, D2) == IF ObjIsExact(cls) THEN ShBc2(P, D1) ELSE ShBc3(P, D1, D2)
NormCode(cls, bsh, n, V) ==
  LET sh == bsh \o <<n>>
      nb == Len(bsh)
      rd == IF "norm_numel" \in V THEN "numel" ELSE NormRead(cls)
  IN CASE rd = "numel" -> BProd(sh)
       [] rd = "last" -> sh[Len(sh)]
       [] rd = "event_numel" -> BProd(SubSeq(sh, nb + 1, Len(sh)))
       [] rd = "event_first" -> sh[nb + 1]
\* the replica divides by its n
NormOutcome(cls, P, D1, D2, V) == IF NormCode(cls, NormBatch(cls, P, D1, D2), NPts, V) = NPts THEN "ok" ELSE "values"

\* the log prior of a parameter of shape T = P + ev (ev: the axes of ONE replica's parameter).  Element y of the term must be the sum over
\* the elements of T whose batch index is the replica's, ShUnb(y, P).
\*   ExactMarginalLogLikelihood._add_other_terms:  res_ndim = res.ndim;
\*       res.add_(prior_term.view(*prior_term.shape[:res_ndim], -1).sum(dim=-1))
\*     keeps the first len(Y) axes of T (whatever they are), sums the rest and adds IN PLACE (the kept shape must expand to Y)
\*   repaired ("obj_prior"): keeps the batch axes of the parameter
PriorExactOutcome(P, ev, Y) ==
  LET T   == P \o ev
      k   == IF "obj_prior" \in Repaired THEN Len(P) ELSE IF Len(Y) <= Len(T) THEN Len(Y) ELSE Len(T)
      cut == SubSeq(T, 1, k)
      R   == ShExpand(cut, Y)
  IN IF R = ShNone THEN "raises"
     ELSE IF \A y \in ShIndices(Y) : {t \in ShIndices(T) : SubSeq(t, 1, k) = ShUnb(y, cut)} = {t \in ShIndices(T) : SubSeq(t, 1, Len(P)) = ShUnb(y, P)}
          THEN "ok" ELSE "values"
\*   _ApproximateMarginalLogLikelihood.forward:  log_prior.add_(prior.log_prob(closure(module)).sum().div(self.num_data))
\*     sums EVERY element of T into every element of the objective
PriorApproxOutcome(P, ev, Out) ==
  LET T == P \o ev
  IN IF "obj_prior" \in Repaired
        \/ \A b \in ShIndices(Out) : ShIndices(T) = {t \in ShIndices(T) : SubSeq(t, 1, Len(P)) = ShUnb(b, P)}
     THEN "ok" ELSE "values"

SiteOutcome(name, P, D1, D2) ==
  IF name = "call_diag" THEN CallDiagOutcome(P, D1, NPts)
  ELSE IF name = "call_diag_ignored" THEN CallDiagIgnoredOutcome(P, D1, NPts)
  ELSE IF name = "multitask_task_covar" THEN MultitaskOutcome(P, D1, D2)
  ELSE IF name = "call_diag_n1" THEN CallDiagOutcome(P, D1, 1)          \* rows = the size of a batch axis / of the feature axis
  ELSE IF name = "call_diag_n2" THEN CallDiagOutcome(P, D1, 2)
  ELSE IF name = "call_diag_n3" THEN CallDiagOutcome(P, D1, 3)
  ELSE IF name = "norm_exact_mll" THEN NormOutcome("exact_mll", P, D1, D2, {})
  ELSE IF name = "norm_loo" THEN NormOutcome("loo", P, D1, D2, {})
  ELSE IF name = "norm_approx" THEN NormOutcome("elbo", P, D1, D2, {})
  ELSE IF name = "prior_exact_ev0" THEN PriorExactOutcome(P, <<>>, ShBc2(P, D1))             \* outputscale, constant of the mean: batch
  ELSE IF name = "prior_exact_ev1" THEN PriorExactOutcome(P, <<1>>, ShBc2(P, D1))            \* noise: batch + (1,)
  ELSE IF name = "prior_exact_ev2" THEN PriorExactOutcome(P, <<1, DFeat>>, ShBc2(P, D1))     \* ARD lengthscale: batch + (1, d)
  ELSE IF name = "prior_approx" THEN PriorApproxOutcome(P, <<1, DFeat>>, ShBc3(P, D1, D2))
  ELSE AlignOutcome(Site(name, P, D1, D2), P)

\* ---- kernel structure: trees of modules, every node with its own batch shape -----------------------
\* own: "A", "B" (the node was built with batch_shape = A / B of the case) or "none" (built without batch shape)
KLeaf(o)      == [op |-> "leaf",  own |-> o, kids |-> <<>>]
KScale(o, k)  == [op |-> "scale", own |-> o, kids |-> <<k>>]               \* ScaleKernel(k, batch_shape=o)
KSum(k1, k2)  == [op |-> "sum",   own |-> "none", kids |-> <<k1, k2>>]     \* AdditiveKernel: no parameters, no batch shape of its own
KProd(k1, k2) == [op |-> "prod",  own |-> "none", kids |-> <<k1, k2>>]     \* ProductKernel

StructNames == {"scale(leaf)", "sum(leaf,leaf)", "prod(leaf,leaf)", "sum(scale(leaf),leaf)", "prod(scale(leaf),leaf)",
                "scale(scale(leaf))", "scale(sum(leaf,leaf))", "sum(scale(prod(leaf,leaf)),leaf)"}

Struct(name) ==
  CASE name = "scale(leaf)"            -> KScale("A", KLeaf("B"))
    [] name = "sum(leaf,leaf)"         -> KSum(KLeaf("A"), KLeaf("B"))
    [] name = "prod(leaf,leaf)"        -> KProd(KLeaf("A"), KLeaf("B"))
    [] name = "sum(scale(leaf),leaf)"  -> KSum(KScale("none", KLeaf("A")), KLeaf("B"))      \* a member that inherits, next to a batched member
    [] name = "prod(scale(leaf),leaf)" -> KProd(KScale("none", KLeaf("A")), KLeaf("B"))
    [] name = "scale(scale(leaf))"     -> KScale("none", KScale("A", KLeaf("B")))           \* inherits through two levels
    [] name = "scale(sum(leaf,leaf))"  -> KScale("A", KSum(KLeaf("B"), KLeaf("none")))
    [] name = "sum(scale(prod(leaf,leaf)),leaf)" -> KSum(KScale("none", KProd(KLeaf("A"), KLeaf("B"))), KLeaf("none"))

KOwn(k, A, B) == IF k.own = "A" THEN A ELSE IF k.own = "B" THEN B ELSE <<>>

\* the shapes owned by the nodes of the tree (pre-order)
RECURSIVE KOwns(_, _, _)
KOwns(k, A, B) == <<KOwn(k, A, B)>> \o (IF Len(k.kids) = 0 THEN <<>>
                                        ELSE IF Len(k.kids) = 1 THEN KOwns(k.kids[1], A, B)
                                        ELSE KOwns(k.kids[1], A, B) \o KOwns(k.kids[2], A, B))

\* Kernel.batch_shape (property): broadcast_shapes(self._batch_shape, *[k.batch_shape for k in self.sub_kernels()])
RECURSIVE KEff(_, _, _)
KEff(k, A, B) == IF Len(k.kids) = 0 THEN KOwn(k, A, B)
                 ELSE IF Len(k.kids) = 1 THEN ShBc2(KOwn(k, A, B), KEff(k.kids[1], A, B))
                 ELSE ShBc3(KOwn(k, A, B), KEff(k.kids[1], A, B), KEff(k.kids[2], A, B))

\* the batch shape of the node's PARAMETERS.  ScaleKernel.__init__: outputscale = torch.zeros(*self.batch_shape) reads the property, i.e.
\* the broadcast of what the node owns with the batch shape of its base kernel: a ScaleKernel built without batch_shape over a batched
\* base kernel has one outputscale per batch element (its _batch_shape stays empty).  The replica of b holds ShUnb(b, KPar(node)).
KPar(k, A, B) == IF k.op = "scale" THEN KEff(k, A, B) ELSE KOwn(k, A, B)

\* what the replicas give: one diagonal / one matrix per element of broadcast(batch shape of the kernel, data batch)
KFullWant(k, A, B, D, n, m) == ShBc2(KEff(k, A, B), D) \o <<n, m>>

\* forward(x1, x2, diag=True) and Kernel.__call__(x1, x2, diag=True) on data of batch shape D with n rows: the shape of the
\* result, and whether every __call__ inside returned the shape of ITS replicas (a member that returns another shape cannot hold its
\* replicas' values even when broadcasting with the other members hides it in the shape of the sum / product)
\*   ScaleKernel.forward: self.base_kernel.forward(..., diag=True) * outputscale.unsqueeze(-1)          (forward, not __call__)
\*   AdditiveKernel / ProductKernel.forward: kern(x1, x2, diag=True) for every member                   (__call__)
\*   Kernel.__call__: n_batch = len(broadcast_shapes(x1.shape[:-2], x2.shape[:-2], self.batch_shape));
\*                    if res.dim() == n_batch + 2 and res.shape[-2:] == (n, n): res = res.diagonal(dim1=-1, dim2=-2)
\*   variant "diag_own_batch": self._batch_shape (what the node owns) in the place of self.batch_shape
RECURSIVE KFwdDiag(_, _, _, _, _, _), KCallDiag(_, _, _, _, _, _)
KFwdDiag(k, A, B, D, n, V) ==
  IF k.op = "leaf" THEN [sh |-> ShBc2(KOwn(k, A, B), D) \o <<n>>, sound |-> TRUE]
  ELSE IF k.op = "scale" THEN LET r == KFwdDiag(k.kids[1], A, B, D, n, V)
                              IN [sh |-> ShBc2(r.sh, KPar(k, A, B) \o <<1>>), sound |-> r.sound]
  ELSE LET r1 == KCallDiag(k.kids[1], A, B, D, n, V)
           r2 == KCallDiag(k.kids[2], A, B, D, n, V)
       IN [sh |-> ShBc2(r1.sh, r2.sh), sound |-> r1.sound /\ r2.sound]
KCallDiag(k, A, B, D, n, V) ==             \* fwd: what forward returned (LazyEvaluatedKernelTensor._diagonal stops there)
  LET r    == KFwdDiag(k, A, B, D, n, V)
      eff  == KEff(k, A, B)
      want == ShBc2(eff, D) \o <<n>>
      nb   == IF "call_diag" \notin Repaired THEN Len(D)                                  \* pinned commit: res.dim() == x1_.dim()
              ELSE Len(ShBc2(D, IF "diag_own_batch" \in V THEN KOwn(k, A, B) ELSE eff))
      eats == r.sh # ShNone /\ Len(r.sh) = nb + 2 /\ SubSeq(r.sh, Len(r.sh) - 1, Len(r.sh)) = <<n, n>>
      fin  == IF eats THEN SubSeq(r.sh, 1, Len(r.sh) - 2) \o <<n>> ELSE r.sh
  IN [sh |-> fin, sound |-> r.sound /\ fin = want, fwd |-> r, want |-> want]

KOutcome(r, want) == IF r.sh = ShNone THEN "raises" ELSE IF r.sh # want THEN "shape" ELSE IF ~r.sound THEN "values" ELSE "ok"

\* k(x1, x2, diag=True), and LazyEvaluatedKernelTensor._diagonal: Module.__call__ of the root (= forward, no heuristic at the root),
\* then res.view(self.shape[:-1]) with self.shape = broadcast_shapes(x1 batch, x2 batch, kernel.batch_shape) + (n, n)
KDiagOutcomes(k, A, B, D, n, V) == LET r == KCallDiag(k, A, B, D, n, V)
                                   IN [diag |-> KOutcome(r, r.want), lazydiag |-> KOutcome(r.fwd, r.want)]

\* the full matrix: no heuristic, the members' matrices broadcast
RECURSIVE KFwdFull(_, _, _, _, _, _)
KFwdFull(k, A, B, D, n, m) ==
  IF k.op = "leaf" THEN ShBc2(KOwn(k, A, B), D) \o <<n, m>>
  ELSE IF k.op = "scale" THEN ShBc2(KFwdFull(k.kids[1], A, B, D, n, m), KPar(k, A, B) \o <<1, 1>>)
  ELSE ShBc2(KFwdFull(k.kids[1], A, B, D, n, m), KFwdFull(k.kids[2], A, B, D, n, m))

KFullOutcome(k, A, B, D, n, m) == KOutcome([sh |-> KFwdFull(k, A, B, D, n, m), sound |-> TRUE], KFullWant(k, A, B, D, n, m))

\* predictions for the triple read as (A, B, D): every structure, the diag modes for every row count in ns, the full matrix
\* (k(x1, x2): n x m, k(x1): n x n) for the generic sizes (its shape arithmetic looks at no size).  The case carries the cells
\* <<structure, mode, rows, outcome>> whose outcome is not "ok".  (the variants touch the diag modes only)
StructCells(A, B, D, ns, V) ==
  UNION {LET k == Struct(S) IN
           (IF V = {} THEN {<<S, "full", NPts, KFullOutcome(k, A, B, D, NPts, MPts)>>, <<S, "self", NPts, KFullOutcome(k, A, B, D, NPts, NPts)>>}
            ELSE {})
           \cup UNION {LET r == KDiagOutcomes(k, A, B, D, n, V)
                       IN {<<S, "diag", n, r.diag>>, <<S, "lazydiag", n, r.lazydiag>>} : n \in ns}
         : S \in StructNames \cap CheckStructs}
StructBad(A, B, D, ns, V) == {x \in StructCells(A, B, D, ns, V) : x[4] # "ok"}

\* ---- model lists ---------------------------------------------------------------------------------
\* member kinds: the likelihood of the member decides which arguments the list has to hand to it
MemberKinds == {"gaussian", "fixed", "fixed_learn"}      \* GaussianLikelihood, FixedNoiseGaussianLikelihood (learn_additional_noise)
NeedsNoise(kind) == kind \in {"fixed", "fixed_learn"}    \* its fantasy points need a noise tensor
\* sum_mll / sum_loo: SumMarginalLogLikelihood with mll_cls = ExactMarginalLogLikelihood / LeaveOneOutPseudoLikelihood
ListOps == {"call_train", "call_eval", "likelihood", "sum_mll", "sum_loo", "fantasy", "fantasy_fast_pred_var"}

\* the `noise` list the caller passes to get_fantasy_model: entry i is member i's own tensor (written i) or None (written 0)
NoiseArg(kinds) == [i \in 1..Len(kinds) |-> IF NeedsNoise(kinds[i]) THEN i ELSE 0]

\* IndependentModelList.get_fantasy_model:
\*   kwargs = [{**kwargs, "noise": noise_} if noise_ is not None else kwargs for noise_ in noise]
\* variant "fantasy_noise_carry": one dict updated in a loop - a None entry keeps the noise of the closest member before it
RECURSIVE LastGiven(_, _)
LastGiven(arg, i) == IF i = 0 THEN 0 ELSE IF arg[i] # 0 THEN arg[i] ELSE LastGiven(arg, i - 1)
NoiseGot(kinds, V) == LET arg == NoiseArg(kinds)
                      IN [i \in 1..Len(kinds) |-> IF "fantasy_noise_carry" \in V THEN LastGiven(arg, i) ELSE arg[i]]

\* the members whose state / arguments output i of operation op reads (every operation zips members with their arguments)
ListDeps(kinds, op, V) ==
  [i \in 1..Len(kinds) |-> {i} \cup (IF op \in {"fantasy", "fantasy_fast_pred_var"} /\ NoiseGot(kinds, V)[i] # 0
                                      THEN {NoiseGot(kinds, V)[i]} ELSE {})]

ListCase(kinds) == [kinds |-> kinds, noise |-> NoiseArg(kinds),
                    got  |-> NoiseGot(kinds, {}), deps |-> [op \in ListOps |-> ListDeps(kinds, op, {})],
                    vgot |-> NoiseGot(kinds, Variants), vdeps |-> [op \in ListOps |-> ListDeps(kinds, op, Variants)],
                    hetero |-> Cardinality({kinds[i] : i \in 1..Len(kinds)}) >= 2]

\* ---- missing observations: settings.observation_nan_policy ------------------------------------------
\* The targets have shape Y \o <<NObs>>.  A pattern `miss` is the sequence, over the elements of Y in row-major order, of the sets of
\* positions (1..NObs) whose observation is missing (NaN) in that element.  Policies: "ignore" does not look (the lattice without missing
\* entries: every other family), "mask" (documented: a position missing in ONE batch element is masked for the COMPLETE batch),
\* "fill" (fill in a dummy value, compute, filter later: element by element).
NanPolicies == {"mask", "fill"}
\* who carries the batch shape Y: hyperparameters and inputs ("both"), the hyperparameters only (shared inputs, batched targets: the
\* independent-outputs idiom), the inputs only (shared hyperparameters)
NanPlacements == {"both", "params", "data"}
NanP(pl, Y) == IF pl = "data" THEN <<>> ELSE Y
NanD(pl, Y) == IF pl = "params" THEN <<>> ELSE Y

\* the patterns of a batch shape.  rank 0: one element (complete, one / two positions missing).  rank 1: every element independently complete /
\* missing position 1 / missing position 3.  rank 2: element (i, j) misses a1[i] \cup a2[j], a1[i] \in {{}, {1}}, a2[j] \in {{}, {2}}: the
\* pattern can vary along the first axis, along the last axis or along both.  Positions 4..NObs are always observed.
ASSUME NObs >= 4
NanAxisCands(r, k) == IF r = 1 THEN {{}, {1}, {3}} ELSE {{}, {k}}
NanPatterns(Y) ==
  IF Y = <<>> THEN {<<{}>>, <<{1}>>, <<{1, 3}>>}
  ELSE IF Len(Y) = 1 THEN [1..Y[1] -> NanAxisCands(1, 1)]
  ELSE {[q \in 1..BProd(Y) |-> LET y == BUnravel(q - 1, Y) IN a1[y[1] + 1] \cup a2[y[2] + 1]] :
          a1 \in [1..Y[1] -> NanAxisCands(2, 1)], a2 \in [1..Y[2] -> NanAxisCands(2, 2)]}

NanUnion(miss) == UNION {miss[q] : q \in DOMAIN miss}
\* the classes of a pattern: what a reduction over the wrong axes can and cannot change
NanClasses == {"none", "same", "one_clean", "different"}
NanClass(miss) == LET S == {miss[q] : q \in DOMAIN miss}
                  IN IF S = {{}} THEN "none" ELSE IF Cardinality(S) = 1 THEN "same" ELSE IF {} \in S THEN "one_clean" ELSE "different"
\* the batch axes along which the pattern varies
NanVary(Y, miss) == {k \in 1..Len(Y) : \E q1, q2 \in DOMAIN miss :
                       LET y1 == BUnravel(q1 - 1, Y)
                           y2 == BUnravel(q2 - 1, Y)
                       IN (\A j \in 1..Len(Y) : j # k => y1[j] = y2[j]) /\ miss[q1] # miss[q2]}

\* SEMANTICS: the observations the replica of element q must NOT see.  fill: its own missing entries and nothing else; mask: the union
NanDropWant(pol, miss, q) == IF pol = "fill" THEN miss[q] ELSE NanUnion(miss)

\* CODE-SHAPED: the places where the library decides which observations to drop, and what they read
\*   mask: settings.observation_nan_policy._get_observed(t, event_shape) = ~any(isnan(t.reshape(-1, *event_shape)), dim=0): EVERY batch axis
\*   fill: torch.isnan(t): element by element (t: train_labels in DefaultPredictionStrategy._mean_cache, mean_cache in exact_predictive_mean,
\*         target / observations in _GaussianLikelihoodBase.expected_log_prob / log_marginal)
\* variant "nan_shared_mask": a 'fill' branch that uses the helper of the 'mask' branch
NanSites == {"mask/mean_cache", "mask/predictive_mean", "mask/exact_mll", "mask/expected_log_prob", "mask/log_marginal",
             "fill/mean_cache", "fill/predictive_mean", "fill/expected_log_prob", "fill/log_marginal"}
NanSitePol(s) == IF s \in {"mask/mean_cache", "mask/predictive_mean", "mask/exact_mll", "mask/expected_log_prob", "mask/log_marginal"}
                 THEN "mask" ELSE "fill"
NanDropCode(s, miss, q, V) == IF NanSitePol(s) = "mask" \/ "nan_shared_mask" \in V THEN NanUnion(miss) ELSE miss[q]

NanCase(Y, pl, miss) ==
  [nanY |-> Y, place |-> pl, P |-> NanP(pl, Y), D1 |-> NanD(pl, Y), miss |-> miss, class |-> NanClass(miss), vary |-> NanVary(Y, miss),
   \* the expected observation: per policy, per element (row-major), the positions deleted from the replica's data
   drop  |-> [pol \in NanPolicies |-> [q \in DOMAIN miss |-> NanDropWant(pol, miss, q)]],
   code  |-> [s \in NanSites |-> [q \in DOMAIN miss |-> NanDropCode(s, miss, q, {})]],
   vcode |-> [s \in NanSites |-> [q \in DOMAIN miss |-> NanDropCode(s, miss, q, Variants)]]]

\* ---- the case carried by a state ---------------------------------------------------------------
CaseRows(P, D1, D2) == ShCoRows(P, NPts, DFeat) \cup ShCoRows(D1, NPts, DFeat) \cup ShCoRows(D2, NPts, DFeat)
\* n is the size of a batch axis of the case (an axis of an intermediate result has the size of an axis of P, D1 or D2)
CaseCoincides(P, D1, D2, n) == \E s \in {P, D1, D2} : ShCoAxes(s, n) # {}
CaseRowSeq(P, D1, D2) ==
  SelectSeq([i \in 1..Len(Rows) |-> [n |-> Rows[i], co |-> ShCoClass(ShBc3(P, D1, D2), Rows[i], MPts, DFeat),
                                     batch |-> CaseCoincides(P, D1, D2, Rows[i])]],
            LAMBDA r : r.n \in CaseRows(P, D1, D2))
StructRows(P, D1, D2) == IF AllRows THEN ShRange(Rows) ELSE CaseRows(P, D1, D2)
Case(P, D1, D2) ==
  LET Out == ShBc3(P, D1, D2)
      ok  == Out # ShNone
      Y   == ShBc2(P, D1)                    \* batch shape of everything that depends on P and D1 only (targets, prior, mll)
  IN [P |-> P, D1 |-> D1, D2 |-> D2, ok |-> ok,
      out |-> IF ok THEN Out ELSE <<>>,
      y   |-> IF ok THEN Y ELSE <<>>,
      reps |-> IF ok /\ ~WithStruct THEN [q \in 1..BProd(Out) |->
                             LET b == BUnravel(q - 1, Out)
                             IN [b |-> b, p |-> ShUnb(b, P), d1 |-> ShUnb(b, D1), d2 |-> ShUnb(b, D2), y |-> ShUnb(b, Y)]]
               ELSE <<>>,
      pred |-> IF ok /\ ~WithStruct THEN [s \in SiteNames |-> SiteOutcome(s, P, D1, D2)] ELSE <<>>,
      \* the normalisers of the objectives under the rejected variants (norm_numel)
      vnorm |-> IF ok /\ ~WithStruct THEN [cls \in ObjClasses |-> NormOutcome(cls, P, D1, D2, Variants)] ELSE <<>>,
      \* the size-coincidence dimension: which row counts of Rows this case is replayed with, and their classes
      rows |-> IF ok THEN CaseRowSeq(P, D1, D2) ELSE <<>>,
      \* the triple read as (A, B, D) = (P, D1, D2): composite kernels, the code and the rejected variants
      \* (the row counts the case is replayed with; HeuristicNeedsCoincidence over ALL row counts is checked by the run with AllRows = TRUE)
      sbad |-> IF ok /\ WithStruct THEN StructBad(P, D1, D2, StructRows(P, D1, D2), {}) ELSE {},
      vbad |-> IF ok /\ WithStruct /\ Variants # {} THEN StructBad(P, D1, D2, StructRows(P, D1, D2), Variants) ELSE {}]

AllShapes == ShShapes(Dims, MaxRank)

ListConfigs == UNION {[1..r -> MemberKinds] : r \in 1..MaxMembers}

\* Family = "both": the two families in one run (the generation run); IsTriple tells the states apart
Init == \/ Family \in {"list", "both"} /\ \E kinds \in ListConfigs : c = ListCase(kinds)
        \/ Family \in {"objective", "both"} /\ \E o \in ObjConfigs : c = ObjCase(o)
        \/ Family \in {"nan", "both"} /\ \E Y \in AllShapes, pl \in NanPlacements : \E miss \in NanPatterns(Y) :
                                         (Y = <<>> => pl = "both") /\ c = NanCase(Y, pl, miss)
        \/ Family \in {"triple", "both"} /\ \E P \in AllShapes, D1 \in AllShapes, D2 \in AllShapes : c = Case(P, D1, D2)
IsNan == "miss" \in DOMAIN c
IsTriple == "P" \in DOMAIN c /\ ~IsNan
IsList == "kinds" \in DOMAIN c
IsObjective == "obj" \in DOMAIN c
Next == UNCHANGED c
Spec == Init /\ [][Next]_c

\* ---- properties of the algebra (hold on every triple) ------------------------------------------
Three == <<c.P, c.D1, c.D2>>

Commutative == \A i, j \in 1..3 : ShBc2(Three[i], Three[j]) = ShBc2(Three[j], Three[i])

Associative ==
  /\ ShBc2(ShBc2(c.P, c.D1), c.D2) = ShBc2(c.P, ShBc2(c.D1, c.D2))
  /\ \A i, j, k \in 1..3 : {i, j, k} = {1, 2, 3} => ShBc3(Three[i], Three[j], Three[k]) = ShBc3(c.P, c.D1, c.D2)

IdempotentUnit == \A i \in 1..3 : ShBc2(Three[i], Three[i]) = Three[i] /\ ShBc2(Three[i], <<>>) = Three[i]

\* the pairwise fold is numpy's rule
FoldIsDeclarative ==
  /\ c.ok = ShCompatible(Three)
  /\ c.ok => c.out = ShBroadcastAll(Three)
  /\ \A i, j \in 1..3 : LET two == <<Three[i], Three[j]>>
                        IN /\ (ShBc2(two[1], two[2]) # ShNone) = ShCompatible(two)
                           /\ ShCompatible(two) => ShBc2(two[1], two[2]) = ShBroadcastAll(two)

Rejected == ~c.ok => /\ c.reps = <<>>
                     /\ \E k \in 1..MaxRank : Cardinality(ShSizes(Three, k)) >= 2

\* the replica indices are in range, unique, and the same by formula, by definition and by torch's two steps
UnbroadcastWellDefined ==
  c.ok => \A b \in ShIndices(c.out), i \in 1..3 :
            /\ ShUnb(b, Three[i]) \in ShIndices(Three[i])
            /\ ShUnbSet(b, Three[i]) = {ShUnb(b, Three[i])}
            /\ ShUnbSteps(b, Three[i]) = ShUnb(b, Three[i])

\* every element of the parameters and of the data is the replica of some b
Surjective == c.ok => \A i \in 1..3 : {ShUnb(b, Three[i]) : b \in ShIndices(c.out)} = ShIndices(Three[i])

\* un-broadcasting through an intermediate broadcast (the code broadcasts in stages) is un-broadcasting
Staged ==
  c.ok => \A i, j \in 1..3 : LET mid == ShBc2(Three[i], Three[j])
                             IN /\ ShBc2(mid, c.out) = c.out
                                /\ \A b \in ShIndices(c.out) : ShUnb(ShUnb(b, mid), Three[i]) = ShUnb(b, Three[i])

\* Kernel.forward: the distance of x1 / lengthscale and x2 / lengthscale has the batch shape Out
DistBatch == c.ok => ShBc2(ShBc2(c.P, c.D1), ShBc2(c.P, c.D2)) = c.out

\* ExactGP.__call__: train and test inputs are expanded to broadcast(D1, D2) and concatenated; the joint has batch Out
ExactJointBatch == c.ok => ShBc2(c.P, ShBc2(c.D1, c.D2)) = c.out /\ ShExpand(c.D1, ShBc2(c.D1, c.D2)) # ShNone

\* no broadcasting, no mixing: when all three shapes agree the replica of b is b
NoBroadcastIdentity == (c.ok /\ c.P = c.D1 /\ c.D1 = c.D2) => \A q \in DOMAIN c.reps : c.reps[q].p = c.reps[q].b /\ c.reps[q].d1 = c.reps[q].b

\* the case lists every b exactly once
RepsComplete ==
  (IsTriple /\ c.ok) => /\ Len(c.reps) = ShNumel(c.out)
          /\ {c.reps[q].b : q \in DOMAIN c.reps} = ShIndices(c.out)
          /\ \A q \in DOMAIN c.reps : c.reps[q].y = ShUnb(c.reps[q].b, c.y) /\ ShUnb(c.reps[q].y, c.P) = c.reps[q].p

Algebra == /\ Commutative /\ Associative /\ IdempotentUnit /\ FoldIsDeclarative /\ Rejected /\ UnbroadcastWellDefined
           /\ Surjective /\ Staged /\ DistBatch /\ ExactJointBatch /\ NoBroadcastIdentity /\ RepsComplete

\* ---- the code-shaped sites line parameters up like right-aligned broadcasting -----------------
SitesAligned == c.ok => \A s \in CheckSites : c.pred[s] = "ok"

\* ---- kernel structure and size coincidences --------------------------------------------------------
\* the batch shape of a composite kernel is numpy's broadcast of the shapes its nodes own (declarative, all at once)
StructBatchIsBroadcast ==
  c.ok => \A S \in StructNames \cap CheckStructs : KEff(Struct(S), c.P, c.D1) = ShBroadcastAll(KOwns(Struct(S), c.P, c.D1))

\* the replay runs every case with a row count of every coincidence class of its batch shape
CoincidencesCovered ==
  c.ok => LET used == {c.rows[i].n : i \in DOMAIN c.rows}
          IN /\ \A s \in {c.P, c.D1, c.D2, c.out} : ShCoCovered(s, used, DFeat)
             /\ \A n \in ShRange(Rows) : n \in used <=> (n \in {NPts, DFeat} \/ CaseCoincides(c.P, c.D1, c.D2, n))
             /\ \A i \in DOMAIN c.rows : /\ c.rows[i].co = ShCoClass(c.out, c.rows[i].n, MPts, DFeat)
                                          /\ c.rows[i].batch = CaseCoincides(c.P, c.D1, c.D2, c.rows[i].n)

\* every composite returns the shape of its replicas, in every evaluation mode, for every row count (AllRows: used by the replay or not)
StructAligned == (c.ok /\ WithStruct) => c.sbad = {}

\* a heuristic that recognises a matrix by its trailing sizes can go wrong ONLY where the row count coincides with a batch axis:
\* holds for the code and for the rejected variants alike (it is what makes the coincidence rows the right classes to enumerate)
HeuristicNeedsCoincidence ==
  (c.ok /\ WithStruct) => \A x \in c.sbad \cup c.vbad :
                            x[2] \in {"diag", "lazydiag"} => \E i \in DOMAIN c.rows : c.rows[i].n = x[3] /\ c.rows[i].batch

Structure == StructBatchIsBroadcast /\ CoincidencesCovered /\ StructAligned /\ HeuristicNeedsCoincidence

\* ---- model lists -------------------------------------------------------------------------------------
\* output i of every operation of the list reads member i and argument i, nothing else; a member whose entry is None gets no noise
ListIndependent == IsList => /\ \A op \in ListOps, i \in 1..Len(c.kinds) : c.deps[op][i] = {i}
                             /\ \A i \in 1..Len(c.kinds) : c.got[i] = c.noise[i]
\* (the same over the variant fields: no invariant of a run - checks/c08.py reads vdeps and requires that some configuration of member
\* kinds violates it, i.e. that the enumerated lists can tell the variant fantasy_noise_carry from the code)
ListVariantIndependent == IsList => \A op \in ListOps, i \in 1..Len(c.kinds) : c.vdeps[op][i] = {i}

\* ---- objectives ---------------------------------------------------------------------------------------
\* every objective has a data term, the variational ones a KL term and no exact one; every class comes with every likelihood it can be
\* constructed with, with and without priors; every site of a configuration is a site of the lattice
ObjectivesWellFormed ==
  IsObjective => /\ "data" \in c.terms /\ (("kl" \in c.terms) <=> ~ObjIsExact(c.obj.cls)) /\ (("prior" \in c.terms) <=> c.obj.prior)
                 /\ c.sites \subseteq SiteNames /\ c.sites # {}
                 /\ \A cls \in ObjClasses, pr \in BOOLEAN : \E o \in ObjConfigs : o.cls = cls /\ o.prior = pr /\ o.lik = "gaussian"
                 /\ \A cls \in ObjClasses : {o.lik : o \in {x \in ObjConfigs : x.cls = cls}}
                                             = {l \in ObjLiks : ObjConstructible([cls |-> cls, lik |-> l, prior |-> FALSE, added |-> "none", combine |-> TRUE])}
\* a normaliser that grows with the batch (variant norm_numel) is visible exactly where the batch of the objective has two elements or more:
\* the cases with a non-trivial batch are the right class to replay the objectives on
NormVariantNeedsBatch ==
  (IsTriple /\ c.ok /\ ~WithStruct) =>
     \A cls \in ObjClasses : (c.vnorm[cls] # "ok") <=> ("norm_numel" \in Variants /\ BProd(NormBatch(cls, c.P, c.D1, c.D2)) >= 2)

\* ---- missing observations ---------------------------------------------------------------------------------
NanFillSites == {s \in NanSites : NanSitePol(s) = "fill"}
\* every site drops from element q what the semantics says; the mask of a site is a function of the pattern of the WHOLE batch under 'mask'
NanSitesAligned == IsNan => \A s \in NanSites, q \in DOMAIN c.miss : c.code[s][q] = c.drop[NanSitePol(s)][q]
\* fill = independent replicas: what is dropped from element q depends on the missing entries of element q and on nothing else - stated as
\* non-interference over every other pattern of the same batch shape that agrees with this one on element q (semantics and code-shaped sites)
NanNoCrossTalk ==
  IsNan => \A q \in DOMAIN c.miss, m2 \in NanPatterns(c.nanY) :
             m2[q] = c.miss[q] => /\ NanDropWant("fill", m2, q) = c.drop["fill"][q]
                                  /\ \A s \in NanFillSites : NanDropCode(s, m2, q, {}) = c.code[s][q]
\* mask = the documented union: every element drops the same positions, and they are the positions missing in some element
NanMaskIsUnion ==
  IsNan => \A q \in DOMAIN c.miss : /\ c.drop["mask"][q] = NanUnion(c.miss)
                                     /\ c.miss[q] \subseteq c.drop["mask"][q]
                                     /\ \A i \in c.drop["mask"][q] : \E p \in DOMAIN c.miss : i \in c.miss[p]
\* a 'fill' site that reduces over the batch (variant nan_shared_mask) is visible exactly where the patterns of two elements differ:
\* the classes one_clean / different are the right ones to replay (none / same cannot tell it from the code)
NanVariantNeedsDifferent ==
  IsNan => \A s \in NanFillSites : (c.vcode[s] # c.drop["fill"]) <=> ("nan_shared_mask" \in Variants /\ c.class \in {"one_clean", "different"})
\* every batch shape with two elements or more comes with a pattern of every class; a rank-2 batch with patterns that vary along the first
\* axis only, along the last axis only and along both; some observation always survives the union
NanClassesCovered ==
  IsNan => LET Y == c.nanY
               ps == NanPatterns(Y)
           IN /\ c.miss \in ps /\ Len(c.miss) = BProd(Y) /\ c.class \in NanClasses
              /\ NanUnion(c.miss) \subseteq 1..3 /\ NObs \notin NanUnion(c.miss)
              /\ (BProd(Y) >= 2 => {NanClass(m) : m \in ps} = NanClasses)
              /\ ((Len(Y) = 2 /\ Y[1] >= 2 /\ Y[2] >= 2) => {NanVary(Y, m) : m \in ps} = SUBSET {1, 2})
              /\ ShBc2(c.P, c.D1) = Y
MissingObservations == NanSitesAligned /\ NanNoCrossTalk /\ NanMaskIsUnion /\ NanVariantNeedsDifferent /\ NanClassesCovered

=============================================================================
