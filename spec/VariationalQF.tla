---------------------------- MODULE VariationalQF ----------------------------
(***************************************************************************)
(* Variational predictive q(f) and KL(q(u) || p(u)) (property C14).        *)
(*                                                                         *)
(* Part "qf"      exact rational instances.  The prior is the linear       *)
(*   kernel K(a, b) = a.b on integer feature rows with the affine mean     *)
(*   m(a) = w.a + b.  The inducing features are the rows of an integer     *)
(*   lower triangular L with positive diagonal, so that Kzz = L L^T + j I  *)
(*   and, for jitter j = 0, chol(Kzz) = L is rational.  q(u) is given by   *)
(*   the PARAMETERS of one of the five variational distributions.          *)
(*   Denotation (the property): push q(u) = N(mu, S) through p(f | u):     *)
(*       mean  mx + Kxz Kzz^-1 (mu - mz)                                   *)
(*       cov   Kxx - Kxz Kzz^-1 (Kzz - S) Kzz^-1 Kzx                       *)
(*       KL    1/2 (tr(Kzz^-1 S) + (mu-mz)' Kzz^-1 (mu-mz) - k             *)
(*                  + ln det Kzz - ln det S)      (ln applied outside TLC) *)
(*   Two readings of the parameters: "direct" (unwhitened strategies:      *)
(*   q(u) is what the parameters encode) and "white" (u = mz + L e, the    *)
(*   parameters encode q(e); only for j = 0).  Code-shaped expressions     *)
(*   transcribed from VariationalStrategy.forward, Unwhitened-             *)
(*   VariationalStrategy.forward, kl_mvn_mvn and the forward maps of the   *)
(*   variational distributions are evaluated next to the denotation; the   *)
(*   invariants say they agree.  Eval(i) is stored in the state so that    *)
(*   the replay reads TLC's exact values.                                  *)
(* Part "mix"     multitask wrappers: LMC mixes the latent q(f) with the   *)
(*   coefficients, the independent wrapper stacks tasks (interleaved       *)
(*   point-major layout), for all tasks or one task per input, and         *)
(*   kl_divergence() is the sum of the per-latent KL - for EVERY position  *)
(*   of the latent / task dimension in the batch shape of the wrapped      *)
(*   strategy (latent_dim / task_dim = -1, -2, -3, the latter also given   *)
(*   as a non-negative index), with batch dimensions in front of and       *)
(*   behind it whose sizes are equal to (a reduction over the wrong        *)
(*   dimension keeps the shape) or different from the number of latents.   *)
(*   The code-shaped expressions are written with strides / permutations   *)
(*   as torch executes sum(dim) and permute; constant Variant selects the  *)
(*   dimension they use; TLC accepts the named dimension and must reject   *)
(*   "the last dimension" and the inverse mask permutation.                *)
(* Part "lattice" strategy x distribution x batch-shape cells and, per     *)
(*   strategy, where the code adds jitter ("the prior the model evaluates  *)
(*   to"); for the multitask wrappers also the batch layout (position of   *)
(*   the latent / task dimension x sizes of the other dimensions).         *)
(* Part "hist"    training-mode call protocol: memoised q(u) / p(u) are    *)
(*   dropped at every training-mode call, so an output always reflects the *)
(*   current parameters.  ClearOnTrainCall = FALSE is the broken variant.  *)
(* Part "paths"   strategy x distribution x (base strategy of a wrapper) x *)
(*   CODE PATH of the forward computation: the settings that select another*)
(*   branch of a strategy's forward (or of the linear algebra below it)    *)
(*   are part of the configuration space; q(f) is the same Gaussian under  *)
(*   every one of them (PathInfo states which components a path produces). *)
(* Part "ehist"   evaluation-mode call protocol.  Evaluation-mode calls    *)
(*   memoise q(u) / p(u) / the Cholesky factor, and a path may retain its  *)
(*   own intermediate results; train(), eval() and load_state_dict() drop  *)
(*   what is memoised.  Histories: a first prediction under the path, then *)
(*   mode changes, training-mode calls (through the whole forward or       *)
(*   through an early return), optimizer steps, loads, further predictions *)
(*   under the path or under the default settings.  Every prediction must  *)
(*   reflect the CURRENT parameters and the inputs OF THE CALL (two input  *)
(*   sets alternate).  Variant.reuse / reusex = TRUE (input-independent /  *)
(*   input-dependent state retained by a path is read back when present    *)
(*   and dropped only by a training-mode call that runs the whole forward),*)
(*   Variant.loadclear = FALSE and Variant.modeclear = FALSE are the       *)
(*   broken variants TLC must reject.                                      *)
(*   Variant.legacy = TRUE adds LoadLegacy: a state dict of the version    *)
(*   before whitening (no `updated_strategy` entry) holding q(u) = N(m, S) *)
(*   in the coordinates of u; the first non-prior call converts it once.   *)
(*   Every later output must describe the LOADED q(u): the jitter of the   *)
(*   conversion and the jitter of forward / kl_divergence() are the same   *)
(*   value.  Variant.convjit = "setting" is the broken variant (rejected   *)
(*   for an explicit jitter_val that differs from the dtype default).      *)
(* Part "jit"     jitter_val as a constructor argument: strategy x JitArgs *)
(*   (not given, the dtype default given explicitly, 0, small, large) and  *)
(*   the value every site that reads the jitter of Kzz must use.           *)
(* Part "qu"      strategy x distribution x STRUCTURE / CONDITIONING of q(u)   *)
(*   (near the prior, diagonal, dense, dense ill-conditioned) x number of    *)
(*   inducing points below / above the iteration cap of the Lanczos          *)
(*   estimate, with the iterative solves each cell performs and the setting  *)
(*   that caps them: no cap may cut a solve short of the tolerance setting.  *)
(*   Variant.preccap = "lanczos" (the natural-gradient CIQ solve with the    *)
(*   precision capped like the Lanczos estimate) is rejected.                *)
(* Part "qf" also evaluates the conversion of a legacy checkpoint exactly  *)
(*   (j = 0): whitening the stored (m, S) and VariationalStrategy.forward  *)
(*   on the result give the direct reading of (m, S) (LegacyOK).           *)
(***************************************************************************)
EXTENDS LinAlg, TLC

CONSTANTS Part, Instances, MaxHist, ClearOnTrainCall, Variant

VARIABLES c, out
vars == <<c, out>>

\* TLC keeps function constructors lazy and re-evaluates them at every application; SubSeq (a Java override) materialises
\* its argument, so every intermediate matrix / vector is forced once (values are unchanged).
FV(v)     == SubSeq(v, 1, Len(v))
FM(M)     == SubSeq([p \in 1..Len(M) |-> SubSeq(M[p], 1, Len(M[p]))], 1, Len(M))
IM(M)     == FM(FromInt(M))
IV(v)     == FV(VFromInt(v))
MM(X, Y)  == FM(MMul(X, Y))
MT(X)     == FM(Tr(X))
MA(X, Y)  == FM(MAdd(X, Y))
MS(X, Y)  == FM(MSub(X, Y))
MSc(r, X) == FM(MScale(r, X))
MI(X)     == FM(Inv(X))
MV(X, v)  == FV(MVec(X, v))
VA(u, v)  == FV(VAdd(u, v))
VS(u, v)  == FV(VSub(u, v))
Trace(M)  == RSum(DiagOf(M))
ZeroM(n)  == Mk(n, n, LAMBDA p, q : RZero)
Quad(v, M) == Dot(v, MV(M, v))
Lower(M)  == Mk(Rows(M), Cols(M), LAMBDA p, q : IF q <= p THEN M[p][q] ELSE RZero)
Half      == RQ(1, 2)

\* ============================== the variational distributions ================================
\* instance fields used here: dist, mu (integer vector), Cs (integer lower triangular, positive diagonal), ju (integer)
\* stored parameters, as the modules keep them
PChol(i)  == Mk(Len(i.Cs), Len(i.Cs), LAMBDA p, q : IF q <= p THEN R(i.Cs[p][q]) ELSE R(i.ju))   \* strictly upper part: junk
PStd(i)   == [k \in 1..Len(i.Cs) |-> R(IF k % 2 = 1 THEN -i.Cs[k][k] ELSE i.Cs[k][k])]           \* signs are not part of the encoding
Theta1(i) == IV(i.mu)
Theta2(i) == IF i.dist = "nat" THEN MSc(RNeg(Half), MM(IM(i.Cs), MT(IM(i.Cs))))    \* natural_mat = -1/2 C C^T
             ELSE MSc(RNeg(Half), MM(MT(IM(i.Cs)), IM(i.Cs)))                       \* tril: Theta2 = -1/2 T^T T

\* what the parameters encode (declarative)
QMean(i) ==
  IF i.dist \in {"nat", "tril"} THEN MV(MSc(RNeg(Half), MI(Theta2(i))), Theta1(i))           \* mu = -1/2 Theta2^-1 theta1
  ELSE IV(i.mu)
QCov(i) ==
  CASE i.dist = "chol"  -> MM(Lower(PChol(i)), MT(Lower(PChol(i))))                              \* L L^T, L the lower triangle
    [] i.dist = "mf"    -> Diag([k \in 1..Len(i.Cs) |-> RMul(PStd(i)[k], PStd(i)[k])])              \* diag(std^2)
    [] i.dist = "delta" -> ZeroM(Len(i.mu))                                                        \* a point mass
    [] OTHER            -> MSc(RNeg(Half), MI(Theta2(i)))                                      \* Sigma = -1/2 Theta2^-1

\* code-shaped forward maps; each returns [mean, cov, root] with root root^T = cov
CodeDist(i) ==
  LET k == Len(i.mu) IN
  CASE i.dist = "chol" ->
         LET mask == Mk(k, k, LAMBDA p, q : IF q <= p THEN ROne ELSE RZero)
             Lc == Mk(k, k, LAMBDA p, q : RMul(PChol(i)[p][q], mask[p][q]))
         IN [mean |-> IV(i.mu), cov |-> MM(Lc, MT(Lc)), root |-> Lc]
    [] i.dist = "mf" ->
         LET sd == PStd(i)
         IN [mean |-> IV(i.mu), cov |-> Diag([q \in 1..k |-> RMul(sd[q], sd[q])]),
             root |-> Diag([q \in 1..k |-> IF RLt(sd[q], RZero) THEN RNeg(sd[q]) ELSE sd[q]])]
    [] i.dist = "delta" -> [mean |-> IV(i.mu), cov |-> ZeroM(k), root |-> ZeroM(k)]
    [] i.dist = "nat" ->
         \* _NaturalToMuVarSqrt: L_inv = chol(-2 natural_mat) (= Cs, lower triangular with positive diagonal);
         \* L = L_inv^-1; S = L^T L; mu = S natural_vec
         LET Li == IM(i.Cs)  Lm == MI(Li)  S == MM(MT(Lm), Lm)
         IN [mean |-> MV(S, Theta1(i)), cov |-> S, root |-> MT(Lm)]
    [] OTHER ->
         \* _TrilNaturalToMuVarSqrt: L = natural_tril_mat^-1; mu = L (L^T natural_vec); covariance L L^T
         LET Lm == MI(IM(i.Cs))
         IN [mean |-> MV(Lm, MV(MT(Lm), Theta1(i))), cov |-> MM(Lm, MT(Lm)), root |-> Lm]

\* ============================== q(f) and KL ==================================================
\* the denotation of the property
QfMean(mx, Kxz, Ki, mz, mu)  == VA(mx, MV(Kxz, MV(Ki, VS(mu, mz))))
QfCov(Kxx, Kxz, Kzz, Ki, S)  == MS(Kxx, MM(MM(MM(MM(Kxz, Ki), MS(Kzz, S)), Ki), MT(Kxz)))
KLPieces(Ki, Kzz, mz, mu, S) == [tr |-> Trace(MM(Ki, S)), quad |-> Quad(VS(mu, mz), Ki), detK |-> Det(Kzz), detS |-> Det(S)]

\* UnwhitenedVariationalStrategy.forward: left = [mu - mz | root]; inv_products = left^T Kzz^-1 Kzx;
\* mean = mx + first row; covariance = R R^T + (Kxx - Kxz Kzz^-1 Kzx) with R^T the remaining rows
UCode(mx, Kxx, Kxz, Ki, mz, mu, root) ==
  LET k == Len(mz)
      left == Mk(k, k + 1, LAMBDA p, q : IF q = 1 THEN RSub(mu[p], mz[p]) ELSE root[p][q - 1])
      invp == MM(MM(MT(left), Ki), MT(Kxz))                      \* (k + 1) x n
      Rt   == Block(invp, 2, k + 1, 1, Cols(invp))                   \* k x n
      data == MA(Kxx, MM(MSc(R(-1), Kxz), MM(Ki, MT(Kxz))))
  IN [mean |-> VA(mx, invp[1]), cov |-> MA(MM(MT(Rt), Rt), data)]

\* kl_mvn_mvn(q(u), p(u)): inv_quad of [mean difference | root of S] against Kzz gives trace + quadratic form
KLCode(Ki, mz, mu, root) ==
  LET k == Len(mz)
      rhs == Mk(k, k + 1, LAMBDA p, q : IF q = 1 THEN RSub(mz[p], mu[p]) ELSE root[p][q - 1])
  IN RSum([q \in 1..(k + 1) |-> Quad(ColOf(rhs, q), Ki)])

\* instance: [id, L, Gx, w, b, j, dist, mu, Cs, ju, a]
Eval(i) ==
  LET k  == Len(i.L)  n == Len(i.Gx)  p == Len(i.a)  n0 == Len(i.Gx) - Len(i.a)
      L  == IM(i.L)   Gx == IM(i.Gx)   w == IV(i.w)   Ik == Ident(Len(i.L))
      Kzz == MA(MM(L, MT(L)), MSc(R(i.j), Ik))               \* jitter is part of the prior the model evaluates to
      Kxz == MM(Gx, MT(L))
      Kxx == MM(Gx, MT(Gx))
      mz  == [q \in 1..k |-> RAdd(Dot(L[q], w), R(i.b))]
      mx  == [q \in 1..n |-> RAdd(Dot(Gx[q], w), R(i.b))]
      Ki  == MI(Kzz)
      qm  == QMean(i)   qS == QCov(i)   cd == CodeDist(i)
      \* --- direct reading: q(u) = N(qm, qS)
      dmean == QfMean(mx, Kxz, Ki, mz, qm)
      dcov  == QfCov(Kxx, Kxz, Kzz, Ki, qS)
      dkl   == KLPieces(Ki, Kzz, mz, qm, qS)
      ucode == UCode(mx, Kxx, Kxz, Ki, mz, cd.mean, cd.root)
      \* --- whitened reading (j = 0: chol(Kzz) = L): u = mz + L e, e ~ N(qm, qS)
      um    == VA(mz, MV(L, qm))
      uS    == MM(MM(L, qS), MT(L))
      wmean == QfMean(mx, Kxz, Ki, mz, um)
      wcov  == QfCov(Kxx, Kxz, Kzz, Ki, uS)
      wkl   == KLPieces(Ki, Kzz, mz, um, uS)
      \* VariationalStrategy.forward: interp = L^-1 Kzx; mean = interp^T m + mx; covariance Kxx + interp^T (S - I) interp
      interp == MM(MI(L), MT(Kxz))
      cwmean == VA(MV(MT(interp), cd.mean), mx)
      cwcov  == MA(Kxx, MM(MM(MT(interp), MS(cd.cov, Ik)), interp))
      \* the unwhitened code on the same q(u): parameters (um, root L root)
      ucode2 == UCode(mx, Kxx, Kxz, Ki, mz, um, MM(L, cd.root))
      \* legacy checkpoint (VariationalStrategy.__call__ with updated_strategy = False): the stored parameters are q(u) itself; they are whitened once
      \* with L = chol(Kzz): mean L^-1 (m - mz), root L^-1 root; forward then runs on the whitened parameters
      lgm    == MV(MI(L), VS(cd.mean, mz))
      lgroot == MM(MI(L), cd.root)
      lgcov  == MM(lgroot, MT(lgroot))
      clmean == VA(MV(MT(interp), lgm), mx)
      clcov  == MA(Kxx, MM(MM(MT(interp), MS(lgcov, Ik)), interp))
      \* orthogonally decoupled: the last p data rows are the mean inducing points, a their Delta parameters
      av == IV(i.a)
      Orth(mean, cov) ==
        [mean |-> VA(SubSeq(mean, 1, n0), MV(Block(cov, 1, n0, n0 + 1, n), av)),
         cov  |-> Block(cov, 1, n0, 1, n0),
         quad |-> Quad(av, Block(cov, n0 + 1, n, n0 + 1, n)),
         aa   |-> Dot(av, av)]
      white == i.j = 0
  IN [id |-> i.id, pdK |-> IsPD(Kzz), pdS |-> (i.dist = "delta" \/ IsPD(qS)),
      qm |-> qm, qS |-> qS, cqm |-> cd.mean, cqS |-> cd.cov, rootOK |-> MM(cd.root, MT(cd.root)) = cd.cov,
      mx |-> mx, Kxx |-> Kxx,
      d |-> [mean |-> dmean, cov |-> dcov, kl |-> dkl],
      cu |-> ucode, cukl |-> KLCode(Ki, mz, cd.mean, cd.root),
      \* q(u) = p(u)
      pr |-> [mean |-> QfMean(mx, Kxz, Ki, mz, mz), cov |-> QfCov(Kxx, Kxz, Kzz, Ki, Kzz), kl |-> KLPieces(Ki, Kzz, mz, mz, Kzz)],
      white |-> white,
      w  |-> IF white THEN [mean |-> wmean, cov |-> wcov, kl |-> wkl, wtr |-> Trace(qS), wquad |-> Dot(qm, qm), wdetS |-> Det(qS)] ELSE [none |-> TRUE],
      cw |-> IF white THEN [mean |-> cwmean, cov |-> cwcov] ELSE [none |-> TRUE],
      cu2 |-> IF white THEN ucode2 ELSE [none |-> TRUE],
      cl |-> IF white THEN [mean |-> clmean, cov |-> clcov, tr |-> Trace(lgcov), quad |-> Dot(lgm, lgm), detS |-> Det(lgcov)] ELSE [none |-> TRUE],
      um |-> IF white THEN um ELSE <<>>, uS |-> IF white THEN uS ELSE <<>>,
      od |-> IF p > 0 THEN Orth(dmean, dcov) ELSE [none |-> TRUE],
      ow |-> IF p > 0 /\ white THEN Orth(wmean, wcov) ELSE [none |-> TRUE]]

\* ---- invariants of part "qf" (on the stored evaluation) --------------------------------------
WellPosed   == Part = "qf" => out.pdK /\ out.pdS
\* every variational distribution returns the mean / covariance its parameters encode
DistOK      == Part = "qf" => out.cqm = out.qm /\ out.cqS = out.qS /\ out.rootOK
\* the unwhitened code equals the denotation
UnwhitenedOK == Part = "qf" => out.cu.mean = out.d.mean /\ out.cu.cov = out.d.cov
\* the whitened code equals the denotation for u = mz + L e
WhitenedOK  == Part = "qf" /\ out.white => out.cw.mean = out.w.mean /\ out.cw.cov = out.w.cov
\* whitened and unwhitened strategies describing the same q(u) give the same q(f)
SameQf      == Part = "qf" /\ out.white => out.cu2.mean = out.cw.mean /\ out.cu2.cov = out.cw.cov
\* the registered Gaussian KL computes trace + quadratic form
KLCodeOK    == Part = "qf" => out.cukl = RAdd(out.d.kl.tr, out.d.kl.quad)
\* the KL of the whitened parameters against N(0, I) is the KL of q(u) against p(u)
WhiteKLOK   == Part = "qf" /\ out.white =>
                 /\ out.w.kl.tr = out.w.wtr /\ out.w.kl.quad = out.w.wquad
                 /\ out.w.kl.detS = RMul(out.w.kl.detK, out.w.wdetS)
\* a legacy checkpoint (q(u) stored unwhitened) converted by the whitened strategy describes the stored q(u): q(f) and the KL pieces of the
\* converted parameters against N(0, I) are those of the direct reading
LegacyOK    == Part = "qf" /\ out.white =>
                 /\ out.cl.mean = out.d.mean /\ out.cl.cov = out.d.cov
                 /\ out.cl.tr = out.d.kl.tr /\ out.cl.quad = out.d.kl.quad
                 /\ out.d.kl.detS = RMul(out.d.kl.detK, out.cl.detS)
\* q(u) = p(u) gives the prior and KL = 0 (trace = k, quadratic form 0, equal determinants)
PriorOK     == Part = "qf" => /\ out.pr.mean = out.mx /\ out.pr.cov = out.Kxx
                              /\ out.pr.kl.tr = R(Len(out.qm)) /\ out.pr.kl.quad = RZero
                              /\ out.pr.kl.detS = out.pr.kl.detK

\* ============================== part "mix": multitask wrappers ================================
\* The base strategy works on a batch of GPs of batch shape `shape` (1 to 3 dimensions); ONE of these dimensions holds the
\* latent functions (LMC: argument latent_dim, negative) / the tasks (independent wrapper: argument task_dim, negative or
\* non-negative); the dimensions in front of it and behind it are ordinary batch dimensions that the wrapper must leave alone.
\* Every tensor is stored flat, row-major over its shape (position 1-based), as torch stores a contiguous tensor.
\* instance: [id, shape, ld : the latent dimension as LMC is given it (negative), td : the same dimension as the independent
\*            wrapper is given it (negative or non-negative), mean : B x N integers (B = product of shape), cov : B matrices N x N,
\*            A : B x T integers (lmc_coefficients has shape shape x T), um : B x k integers (the stub's q(u) = N(um, I) against
\*            p(u) = N(0, I): twice its KL is |um|^2), ti : N task indices in 1..T (LMC), tj : N task indices in 1..Q (independent)]
\* denotation: for every entry b of the remaining batch dimensions, f_t(x) = sum_q A[b, q][t] g_{b, q}(x) with independent
\*   latents, KL = sum_q KL_{b, q}; layout of the multitask output: index (n, t) -> (n-1) T + t
RECURSIVE ProdS(_)
ProdS(s) == IF s = <<>> THEN 1 ELSE Head(s) * ProdS(Tail(s))
AxisOf(s, d)   == IF d < 0 THEN Len(s) + d + 1 ELSE d + 1                \* python dimension index -> position in 1..Len(s)
DropAt(s, a)   == SubSeq(s, 1, a - 1) \o SubSeq(s, a + 1, Len(s))
PutAt(s, a, v) == SubSeq(s, 1, a - 1) \o <<v>> \o SubSeq(s, a, Len(s))
RECURSIVE FlatIx(_, _)
FlatIx(s, ix)  == IF s = <<>> THEN 1 ELSE (Head(ix) - 1) * ProdS(Tail(s)) + FlatIx(Tail(s), Tail(ix))
RECURSIVE MultiIx(_, _)
MultiIx(s, f)  == IF s = <<>> THEN <<>>
                  ELSE <<((f - 1) \div ProdS(Tail(s))) + 1>> \o MultiIx(Tail(s), ((f - 1) % ProdS(Tail(s))) + 1)
ISumTo(m, f(_)) == LET RECURSIVE S(_)
                       S(q) == IF q = 0 THEN 0 ELSE f(q) + S(q - 1)
                   IN S(m)

\* ---- code-shaped tensor operations on [shape, vals] (integer entries), written with strides as the library executes them
\* t.sum(dim = d)
SumDim(t, d) ==
  LET a == AxisOf(t.shape, d)  Qa == t.shape[a]  S == ProdS(SubSeq(t.shape, a + 1, Len(t.shape)))  os == DropAt(t.shape, a)
  IN [shape |-> os,
      vals  |-> [o \in 1..ProdS(os) |-> LET p == (o - 1) \div S  r == (o - 1) % S
                                        IN ISumTo(Qa, LAMBDA q : t.vals[p * Qa * S + (q - 1) * S + r + 1])]]
\* t.permute(perm), perm a sequence of python positions (0-based)
Permute(t, perm) ==
  LET n  == Len(t.shape)
      os == [k \in 1..n |-> t.shape[perm[k] + 1]]
  IN [shape |-> os,
      vals  |-> [f \in 1..ProdS(os) |-> LET jx == MultiIx(os, f)
                                            ix == [d \in 1..n |-> jx[CHOOSE k \in 1..n : perm[k] + 1 = d]]
                                        IN t.vals[FlatIx(t.shape, ix)]]]
Range0(lo, hi) == [k \in 1..(IF hi > lo THEN hi - lo ELSE 0) |-> lo + k - 1]          \* python range(lo, hi)

\* Variant: which dimension the code-shaped expressions use.  "named" / "to" is the code as the property needs it;
\*   lmckl  = "last": LMCVariationalStrategy.kl_divergence sums over dim -1 instead of latent_dim
\*   imtkl  = "last": IndependentMultitaskVariationalStrategy.kl_divergence sums over dim -1 instead of task_dim
\*   imtmask = "from": the one-hot task mask (..., N, tasks) is permuted with the permutation that moves dimension task_dim to
\*             the end instead of the one that moves the last dimension to task_dim (the two coincide iff task_dim is the last
\*             batch dimension)
\* TLC must reject each of the three deviations on instances whose latent dimension is not the last one.
MixEval(i) ==
  LET shape == i.shape   nb == Len(i.shape)
      ax == AxisOf(shape, i.ld)   Q == shape[ax]   oshape == DropAt(shape, ax)   OB == ProdS(oshape)   B == ProdS(shape)
      N == Len(i.mean[1])  T == Len(i.A[1])
      nn(r) == ((r - 1) \div T) + 1     tt(r) == ((r - 1) % T) + 1
      src(o, q) == FlatIx(shape, PutAt(MultiIx(oshape, o), ax, q))          \* where latent q of output entry o lives
      QSum(f(_)) == ISumTo(Q, f)
      \* ---------- denotation
      lmean == [o \in 1..OB |-> [n \in 1..N |-> [t \in 1..T |-> QSum(LAMBDA q : i.A[src(o, q)][t] * i.mean[src(o, q)][n])]]]
      lcov  == [o \in 1..OB |-> [r \in 1..(N * T) |-> [s \in 1..(N * T) |->
                  QSum(LAMBDA q : i.A[src(o, q)][tt(r)] * i.A[src(o, q)][tt(s)] * i.cov[src(o, q)][nn(r)][nn(s)])]]]
      smean == [o \in 1..OB |-> [n \in 1..N |-> QSum(LAMBDA q : i.A[src(o, q)][i.ti[n]] * i.mean[src(o, q)][n])]]
      scov  == [o \in 1..OB |-> [n \in 1..N |-> [e \in 1..N |->
                  QSum(LAMBDA q : i.A[src(o, q)][i.ti[n]] * i.A[src(o, q)][i.ti[e]] * i.cov[src(o, q)][n][e])]]]
      kl2base == [f \in 1..B |-> ISumTo(Len(i.um[f]), LAMBDA e : i.um[f][e] * i.um[f][e])]       \* twice the KL of batch entry f
      kl2   == [o \in 1..OB |-> QSum(LAMBDA q : kl2base[src(o, q)])]
      \* independent tasks (Q = number of tasks): task t is latent t
      imean == [o \in 1..OB |-> [n \in 1..N |-> [t \in 1..Q |-> i.mean[src(o, t)][n]]]]
      icov  == [o \in 1..OB |-> [r \in 1..(N * Q) |-> [s \in 1..(N * Q) |->
                  LET tr == ((r - 1) % Q) + 1  ts == ((s - 1) % Q) + 1  nr == ((r - 1) \div Q) + 1  ns == ((s - 1) \div Q) + 1
                  IN IF tr = ts THEN i.cov[src(o, tr)][nr][ns] ELSE 0]]]
      ismean == [o \in 1..OB |-> [n \in 1..N |-> i.mean[src(o, i.tj[n])][n]]]
      iscov  == [o \in 1..OB |-> [n \in 1..N |-> [e \in 1..N |-> IF i.tj[n] = i.tj[e] THEN i.cov[src(o, i.tj[n])][n][e] ELSE 0]]]
      \* ---------- code-shaped (LMCVariationalStrategy.__call__ / kl_divergence)
      Ten(f(_)) == [shape |-> shape, vals |-> [b \in 1..B |-> f(b)]]
      \* mean: latent mean and coefficients are permuted so that the latent dimension is contracted by a matmul = a sum over it
      cmean == [o \in 1..OB |-> [n \in 1..N |-> [t \in 1..T |-> SumDim(Ten(LAMBDA b : i.mean[b][n] * i.A[b][t]), i.ld).vals[o]]]]
      \* covariance: KroneckerProduct(latent covariance, a a^T).sum(latent_dim)
      ckron == [o \in 1..OB |-> [r \in 1..(N * T) |-> [s \in 1..(N * T) |->
                  SumDim(Ten(LAMBDA b : i.cov[b][nn(r)][nn(s)] * (i.A[b][tt(r)] * i.A[b][tt(s)])), i.ld).vals[o]]]]
      ckl   == SumDim(Ten(LAMBDA b : kl2base[b]), IF Variant.lmckl = "named" THEN i.ld ELSE -1)
      \* ---------- code-shaped (IndependentMultitaskVariationalStrategy)
      ta    == AxisOf(shape, i.td) - 1                                             \* task dimension, python position
      \* all tasks: MultitaskMultivariateNormal.from_batch_mvn moves the task dimension behind the data dimension
      mten  == [shape |-> shape \o <<N>>, vals |-> [f \in 1..(B * N) |-> i.mean[((f - 1) \div N) + 1][((f - 1) % N) + 1]]]
      cimean == Permute(mten, Range0(0, ta) \o Range0(ta + 1, nb + 1) \o <<ta>>)         \* shape: oshape x N x Q
      cikl  == SumDim(Ten(LAMBDA b : kl2base[b]), IF Variant.imtkl = "named" THEN i.td ELSE -1)
      \* one task per input: one-hot mask of shape oshape x N x Q, permuted to the shape of the latent mean, multiplied, summed
      hot   == [shape |-> oshape \o <<N, Q>>,
                vals  |-> [f \in 1..(OB * N * Q) |-> IF i.tj[(((f - 1) \div Q) % N) + 1] = ((f - 1) % Q) + 1 THEN 1 ELSE 0]]
      mask  == Permute(hot, IF Variant.imtmask = "to" THEN Range0(0, ta) \o <<nb>> \o Range0(ta, nb)
                            ELSE Range0(0, ta) \o Range0(ta + 1, nb + 1) \o <<ta>>)
      cismean == IF mask.shape # mten.shape THEN [shape |-> <<-1>>, vals |-> <<>>]             \* torch raises: the shapes do not match
                 ELSE SumDim([shape |-> mten.shape, vals |-> [f \in 1..(B * N) |-> mten.vals[f] * mask.vals[f]]], ta)
  IN [id |-> i.id, oshape |-> oshape, lmean |-> lmean, lcov |-> lcov, smean |-> smean, scov |-> scov, kl2 |-> kl2,
      imean |-> imean, icov |-> icov, ismean |-> ismean, iscov |-> iscov,
      codeOK |-> cmean = lmean /\ ckron = lcov,
      klOK   |-> ckl.shape = oshape /\ ckl.vals = kl2,
      iOK    |-> /\ cimean.shape = oshape \o <<N, Q>>
                 /\ \A o \in 1..OB : \A n \in 1..N : \A t \in 1..Q : cimean.vals[((o - 1) * N + n - 1) * Q + t] = imean[o][n][t],
      iklOK  |-> cikl.shape = oshape /\ cikl.vals = kl2,
      iselOK |-> /\ cismean.shape = oshape \o <<N>>
                 /\ \A o \in 1..OB : \A n \in 1..N : cismean.vals[(o - 1) * N + n] = ismean[o][n],
      \* selecting one task per input is selecting entries of the all-tasks output
      selOK |-> \A o \in 1..OB : \A n \in 1..N : \A e \in 1..N :
                  /\ scov[o][n][e] = lcov[o][(n - 1) * T + i.ti[n]][(e - 1) * T + i.ti[e]]
                  /\ smean[o][n] = lmean[o][n][i.ti[n]]
                  /\ iscov[o][n][e] = icov[o][(n - 1) * Q + i.tj[n]][(e - 1) * Q + i.tj[e]]
                  /\ ismean[o][n] = imean[o][n][i.tj[n]]]

\* the wrappers mix / stack the latent q(f) over the NAMED dimension, for every position of that dimension in the batch shape
MixOK    == Part = "mix" => out.codeOK /\ out.selOK /\ out.iOK /\ out.iselOK
\* kl_divergence() is the sum of the per-latent KL over the NAMED dimension: one value per entry of the remaining batch dimensions
MixKLOK  == Part = "mix" => out.klOK /\ out.iklOK

\* ============================== part "lattice" ================================================
Strategies == {"VariationalStrategy", "UnwhitenedVariationalStrategy", "BatchDecoupledVariationalStrategy",
               "OrthogonallyDecoupledVariationalStrategy", "CiqVariationalStrategy", "GridInterpolationVariationalStrategy",
               "LMCVariationalStrategy", "IndependentMultitaskVariationalStrategy"}
Dists      == {"Cholesky", "MeanField", "Delta", "Natural", "TrilNatural"}
BShapes    == {<<>>, <<2>>}

\* white: coordinates of the variational parameters ("chol": u = mz + chol(Kzz) e, "sym": u = mz + Kzz^(1/2) e, "none": u itself,
\*        "interp": f = W u with the interpolation matrix of the grid);
\* xjit: how many times jitter_val is added to the diagonal of Kxx;  kljit: the jitter of p(u) used by kl_divergence()
\*        ("jv" = jitter_val, "1e-3" fixed; the unwhitened strategy uses jitter_val in training mode after a call and 1e-3 otherwise);
\* for the wrappers the facts are those of the base strategy.
StratInfo(s) ==
  CASE s = "VariationalStrategy"                       -> [white |-> "chol", xjit |-> 1, kljit |-> "jv", wraps |-> FALSE]
    [] s = "UnwhitenedVariationalStrategy"             -> [white |-> "none", xjit |-> 0, kljit |-> "1e-3/jv", wraps |-> FALSE]
    [] s = "BatchDecoupledVariationalStrategy"         -> [white |-> "chol", xjit |-> 1, kljit |-> "jv", wraps |-> FALSE]
    [] s = "OrthogonallyDecoupledVariationalStrategy"  -> [white |-> "none", xjit |-> 0, kljit |-> "jv", wraps |-> TRUE]
    [] s = "CiqVariationalStrategy"                    -> [white |-> "sym", xjit |-> 2, kljit |-> "jv", wraps |-> FALSE]
    [] s = "GridInterpolationVariationalStrategy"      -> [white |-> "interp", xjit |-> 0, kljit |-> "1e-3", wraps |-> FALSE]
    [] OTHER                                           -> [white |-> "base", xjit |-> 0, kljit |-> "base", wraps |-> TRUE]

\* ---- batch layouts of the multitask wrappers ("which dimension" arguments)
\* The variational parameters of a wrapped strategy have batch shape  bp \o <<Q>> \o post : the dimension named by latent_dim
\* (LMC) / task_dim (independent wrapper) is ld = -(Len(post) + 1); every valid position -1, -2, -3 is a cell.  Sizes: Q in {2, 3};
\* a "pre" dimension (bp) has size 2, so it is EQUAL to Q for Q = 2 and different for Q = 3; a "post" dimension is "eq" (size Q:
\* reducing over the wrong dimension gives the right shape and wrong numbers) or "ne" (size 5 - Q: it gives a wrong shape).
\* pos: the independent wrapper is given the same dimension as a non-negative index (only where inputs and inducing points add no
\* batch dimension in front of the parameters' batch shape, which would shift the meaning of a non-negative index).
Wrappers  == {"LMCVariationalStrategy", "IndependentMultitaskVariationalStrategy"}
Posts     == {<<>>, <<"eq">>, <<"ne">>, <<"eq", "eq">>, <<"ne", "ne">>}
NoLayout  == [Q |-> 0, post |-> <<>>, pos |-> FALSE]
Layouts   == [Q : {2, 3}, post : Posts, pos : BOOLEAN]
PostSizes(l)  == [k \in 1..Len(l.post) |-> IF l.post[k] = "eq" THEN l.Q ELSE 5 - l.Q]
LatentDim(l)  == -(Len(l.post) + 1)
\* shapes the property speaks about: parameters (= q(u) batch), the argument as given, the batch shape of kl_divergence() and of
\* the output for inputs without batch dimensions
LayoutInfo(q) ==
  LET l == q.lay  ps == q.bp \o <<l.Q>> \o PostSizes(l)
  IN [param |-> ps, ld |-> LatentDim(l), given |-> IF l.pos THEN Len(ps) + LatentDim(l) ELSE LatentDim(l),
      kl |-> DropAt(ps, AxisOf(ps, LatentDim(l)))]

\* ---- the mean / variance dimension of the batch-decoupled strategy (argument mean_var_batch_dim)
\* mv = 0: not named (one shared kernel; the strategy stacks its two inducing sets in front of the data dimensions);
\* mv = -1 / -2: the kernel has batch shape bp with a dimension of size 2 inserted so that it sits at index mv; the same dimension of
\* the inducing points holds the mean set and the variance set.  mv = -2 needs a parameter batch dimension behind it (bp = <<2>>: the
\* two dimensions have EQUAL sizes, taking the wrong one keeps every shape) and inputs that spell that dimension out (bx = bp).
MVDims == {0, -1, -2}
MVInfo(q) == IF q.mv = 0 THEN [kernel |-> <<>>, mv |-> 0]
             ELSE [kernel |-> PutAt(q.bp, Len(q.bp) + q.mv + 2, 2), mv |-> q.mv]

\* valid pairs: the batch-decoupled strategy rejects a point mass, the grid strategy needs a covariance and has no batch of grids;
\* for the orthogonally decoupled strategy the distribution is that of the covariance strategy (the mean part is always a Delta)
ValidCell(q) ==
  /\ (q.strat = "BatchDecoupledVariationalStrategy" => q.dist # "Delta")
  /\ (q.strat = "GridInterpolationVariationalStrategy" => q.dist # "Delta" /\ q.bz = <<>>)
  /\ (q.strat # "BatchDecoupledVariationalStrategy" => q.mv = 0)
  /\ (q.mv = -2 => q.bp = <<2>> /\ q.bx = <<2>>)
  /\ (q.strat \notin Wrappers => q.lay = NoLayout)
  /\ (q.strat \in Wrappers =>
        /\ q.lay \in Layouts
        /\ (q.bp = <<>> => q.lay.Q = 3)                      \* without a pre dimension Q = 2 / 3 are the same cell
        /\ (q.lay.pos => q.strat = "IndependentMultitaskVariationalStrategy" /\ q.bx = <<>> /\ (q.bz # <<>> => q.bp # <<>>)))
Cells == {q \in [strat : Strategies, dist : Dists, bz : BShapes, bp : BShapes, bx : BShapes, lay : Layouts \cup {NoLayout}, mv : MVDims] : ValidCell(q)}
CellOut(q) == IF q.strat \in Wrappers THEN [info |-> StratInfo(q.strat), layout |-> LayoutInfo(q)]
              ELSE IF q.strat = "BatchDecoupledVariationalStrategy" THEN [info |-> StratInfo(q.strat), layout |-> MVInfo(q)]
              ELSE [info |-> StratInfo(q.strat), layout |-> [none |-> TRUE]]

\* ============================== part "jit": jitter_val as a constructor argument ===============
\* none: not given (the strategy falls back to settings.variational_cholesky_jitter.value(dtype)); dflt: that very value given explicitly;
\* zero: 0.0 (falsy); small / large: explicit values different from the default.
JitArgs == {"none", "dflt", "zero", "small", "large"}
\* the value a site reads: "self" = the strategy's jitter_val, "setting" = the dtype default of the setting whatever the argument
JitOf(src, jarg) == IF src = "self" /\ jarg # "none" THEN jarg ELSE "dflt"
\* sites of a whitened strategy that read the jitter of Kzz: their composition is the identity only if all read the same value
\* (forward un-whitens with chol(Kzz + j I), kl_divergence() is taken in the whitened coordinates, the legacy conversion whitens)
JitSites == {"forward", "kl", "convert"}
SiteSrc(site) == IF site = "convert" THEN Variant.convjit ELSE "self"
\* strategies that contain a VariationalStrategy and hence its conversion of legacy checkpoints (the batch-decoupled strategy never had an
\* unwhitened version; for the wrappers it is the base strategy's)
HasLegacy(strat, base) == strat = "VariationalStrategy" \/ base = "VariationalStrategy"
LegacyDists == {"Cholesky", "Natural", "TrilNatural"}        \* a whitened full covariance is representable (not: diagonal, point mass)
JitCells == [strat : Strategies, jarg : JitArgs]
JitInfo(q) == [eff |-> JitOf("self", q.jarg), explicit |-> q.jarg # "none",
               sites |-> [site \in JitSites |-> JitOf(SiteSrc(site), q.jarg)]]
JitSame == Part = "jit" => \A site \in JitSites : out.sites[site] = out.eff

\* ============================== part "qu": structure of q(u) x size of the inducing set ========
\* The property quantifies over q(u): its structure and conditioning are a dimension of the case lattice, for EVERY strategy and distribution
\* class, next to the number M of inducing points relative to the iteration caps of the iterative solvers (a solve that is cut short is
\* invisible while q(u) is close to the prior, diagonal, or M is far below every cap).
\*   nearprior  q(u) = p(u) up to a small perturbation (whitened coordinates: mean ~ 0, S ~ I)
\*   diag       diagonal precision, entries 1 .. 1e2      (a Jacobi-preconditioned solve is exact after one step)
\*   dense      dense precision, eigenvalues 1 .. 1e2
\*   ill        dense precision, eigenvalues 1 .. 1e4     (a mean-field module: diagonal with that spectrum)
\* Solver settings of these cells: every TOLERANCE tight; QuCaps are the iteration caps: "cg" = max_cg_iterations (set far above M),
\* "lanczos" = max_lanczos_quadrature_iterations (the library default: it bounds the Lanczos estimate of the spectrum, an input of the
\* quadrature nodes only).  MOf: "below" / "above" the smaller cap.
QClasses == {"nearprior", "diag", "dense", "ill"}
MSizes   == {"below", "above"}
QuCaps   == [cg |-> 1000, lanczos |-> 20]
MOf(ms)  == IF ms = "below" THEN 16 ELSE 24
\* which classes a distribution class can express: a point mass has no covariance (near the prior mean / a generic mean), a mean-field module
\* is diagonal; near-prior in the coordinates of u needs a full covariance (p(u) = N(mz, Kzz) is dense)
ValidQuCell(q) ==
  /\ (q.strat = "BatchDecoupledVariationalStrategy" => q.dist # "Delta")
  /\ (q.strat = "GridInterpolationVariationalStrategy" => q.dist # "Delta")
  /\ (q.dist = "Delta" => q.qclass \in {"nearprior", "dense"})
  /\ (q.dist = "MeanField" => q.qclass # "dense")
  /\ (q.dist = "MeanField" /\ q.qclass = "nearprior" => StratInfo(q.strat).white \notin {"none", "interp"} \/ StratInfo(q.strat).wraps)
QuCells == {q \in [strat : Strategies, dist : Dists, qclass : QClasses, msize : MSizes] : ValidQuCell(q)}
\* iterations a Krylov solve on the precision of the class needs before the tolerance is met (exact arithmetic: the number of distinct
\* eigenvalues after Jacobi preconditioning; ill: rounding destroys orthogonality, more than M steps - measured up to 3 M)
QuNeed(q) == CASE q.qclass = "nearprior" -> 4 [] q.qclass = "diag" -> 1 [] q.qclass = "dense" -> MOf(q.msize) [] OTHER -> 3 * MOf(q.msize)
\* the iterative solves a cell performs (everything else is a dense factorisation: M is far below max_cholesky_size) and the setting that
\* caps each: CIQ applies Kzz^-1/2 by MINRES on shifted systems; on its natural-gradient path (NaturalVariationalDistribution) it never forms
\* (m, S) and solves with the precision -2 Theta instead.  Variant.preccap = "lanczos" is the broken variant: that solve capped like the
\* Lanczos estimate.
QuSolves(q) ==
  IF q.strat # "CiqVariationalStrategy" THEN {}
  ELSE {[site |-> "kzz-invsqrt", cap |-> "cg", need |-> MOf(q.msize)]}
       \cup (IF q.dist = "Natural" THEN {[site |-> "precision", cap |-> Variant.preccap, need |-> QuNeed(q)]} ELSE {})
QuInfo(q) == [M |-> MOf(q.msize), solves |-> QuSolves(q), tol |-> IF QuSolves(q) = {} THEN "direct" ELSE "settings"]
\* every iterative solve runs until the TOLERANCE setting is met: no cap cuts it short, so the output is the closed form at the tolerance
\* the settings state, whatever q(u) is
QuConverges == Part = "qu" => \A sv \in out.solves : sv.need <= QuCaps[sv.cap]
\* cover: every strategy x every distribution class it accepts has a dense ill-conditioned (mean-field: diagonal ill-conditioned; point mass:
\* generic mean) cell and a near-prior / diagonal cell at both sizes, and the cell that separates the two caps exists
QuCover == Part = "qu" =>
  /\ \A s \in Strategies, d \in Dists, ms \in MSizes :
        (\E q \in QuCells : q.strat = s /\ q.dist = d) =>
          /\ \E q \in QuCells : q.strat = s /\ q.dist = d /\ q.msize = ms /\ q.qclass \in {"ill", "dense"}
          /\ \E q \in QuCells : q.strat = s /\ q.dist = d /\ q.msize = ms /\ q.qclass \in {"nearprior", "diag"}
  /\ \E q \in QuCells : \E sv \in QuSolves(q) : sv.need > QuCaps.lanczos /\ sv.need <= QuCaps.cg
  /\ MOf("below") < QuCaps.lanczos /\ MOf("above") > QuCaps.lanczos /\ 3 * MOf("above") <= QuCaps.cg

\* ============================== part "hist" ===================================================
\* c = [ver : version of the parameters, memo : version the memoised q(u) / p(u) were computed from (0: nothing memoised),
\*      fresh : a forward call happened since the last optimizer step];  out = history of observations
HInit == [ver |-> 1, memo |-> 0, fresh |-> FALSE]
Forward ==
  /\ Part = "hist" /\ Len(out) < MaxHist
  /\ LET m2 == IF ClearOnTrainCall \/ c.memo = 0 THEN c.ver ELSE c.memo
     IN /\ c' = [c EXCEPT !.memo = m2, !.fresh = TRUE]
        /\ out' = Append(out, [a |-> "Forward", sees |-> m2, want |-> c.ver])
\* kl_divergence() as the objectives call it: after the forward call of the same step
KL ==
  /\ Part = "hist" /\ Len(out) < MaxHist /\ c.fresh
  /\ LET m2 == IF c.memo = 0 THEN c.ver ELSE c.memo
     IN /\ c' = [c EXCEPT !.memo = m2]
        /\ out' = Append(out, [a |-> "KL", sees |-> m2, want |-> c.ver])
\* optimizer.step(): parameters change in place, nothing is told to the caches
OptStep ==
  /\ Part = "hist" /\ Len(out) < MaxHist
  /\ c' = [c EXCEPT !.ver = c.ver + 1, !.fresh = FALSE]
  /\ out' = Append(out, [a |-> "OptStep", sees |-> 0, want |-> 0])

ObservesCurrent == Part = "hist" => \A e \in 1..Len(out) : out[e].sees = out[e].want

\* ============================== part "paths" ==================================================
\* Settings that select a different code path of a strategy's forward or of the linear algebra it calls.  The property does not
\* mention them: q(f) is the closed form under every one.
\*   default      no setting
\*   skipvar      skip_posterior_variances(True): only the mean is requested (the covariance may be omitted = returned as zero)
\*   fastpredvar  fast_pred_var(True)
\*   cg           max_cholesky_size(0): every solve that is not an explicit Cholesky call runs conjugate gradients (iterative tolerance)
\*   trace        trace_mode(True): dense tensors instead of lazy operators
\*   nofast       fast_computations(covar_root_decomposition = False, log_prob = False, solves = False)
\*   eager        lazily_evaluate_kernels(False)
Paths == {"default", "skipvar", "fastpredvar", "cg", "trace", "nofast", "eager"}
PathInfo(p) == [mean |-> TRUE, cov |-> IF p = "skipvar" THEN "optional" ELSE "required",
                tol  |-> IF p = "cg" THEN "iterative" ELSE "direct"]
Bases == {"VariationalStrategy", "UnwhitenedVariationalStrategy"}
ValidPathCell(q) ==
  /\ (q.strat = "BatchDecoupledVariationalStrategy" => q.dist # "Delta")
  /\ (q.strat = "GridInterpolationVariationalStrategy" => q.dist # "Delta")
  /\ (q.strat \in Wrappers => q.base \in Bases)
  /\ (q.strat = "OrthogonallyDecoupledVariationalStrategy" => q.base = "VariationalStrategy")
  /\ (q.strat \notin Wrappers \cup {"OrthogonallyDecoupledVariationalStrategy"} => q.base = "none")
PathCells == {q \in [strat : Strategies, dist : Dists, base : Bases \cup {"none"}, path : Paths] : ValidPathCell(q)}

\* ============================== part "ehist" ==================================================
\* c = [ver  : version of the parameters,
\*      mode : "train" / "eval",
\*      memo : version the memoised q(u) / p(u) / Cholesky factor were computed from (0: nothing memoised),
\*      aux  : version of the input-independent intermediate result retained by the path of the cell (0: nothing retained),
\*      auxx : the input set the input-dependent intermediate result retained by the path belongs to (0: nothing retained)]
\* out = history of observations; the first entry is the first prediction under the path (made by Init) on input set 1.
\* own = TRUE: the call is made under the path of the cell, FALSE: under the default settings;  xs: which of two input sets is passed.
\* An observation says which parameter version (sees) and which input set (xsees) the returned q(f) was computed from.
\*      coord: "own" the parameters are in the strategy's coordinates / "u": a legacy checkpoint was loaded and no call was made since,
\*      skew : the parameters were converted with another jitter than the one forward reads (they describe a q(u) nobody loaded)]
\* qu: the q(u) an output describes: "cur" (the one the current parameters / the loaded checkpoint state) or "skew".
EObs(a, flag, xs, sees, want, xsees, qu) == [a |-> a, flag |-> flag, xs |-> xs, sees |-> sees, want |-> want, xsees |-> xsees, qu |-> qu]
\*      leg  : number of legacy loads so far (at most 2)
EInit == [ver |-> 1, mode |-> "eval", memo |-> 1, aux |-> 1, auxx |-> 1, coord |-> "own", skew |-> FALSE, leg |-> 0]
EOut0 == <<EObs("Predict", TRUE, 1, 1, 1, 1, "cur")>>
\* the one-off conversion at the first non-prior call after a legacy load (either mode, whole forward or early return, any path)
Converts == c.coord = "u"
SkewAfter == IF Converts THEN JitOf(Variant.convjit, Variant.jarg) # JitOf("self", Variant.jarg) ELSE c.skew
QuOf(sk) == IF sk THEN "skew" ELSE "cur"
\* with legacy loads switched on only the histories that contain one are wanted: one without is not continued beyond the point where a legacy
\* load followed by an observation still fits (the histories without are those of the run with Variant.legacy = FALSE)
ECan  == Part = "ehist" /\ Len(out) < MaxHist /\ (Variant.legacy => c.leg > 0 \/ Len(out) < MaxHist - 2)
Predict(own, xs) ==
  /\ ECan /\ c.mode = "eval"
  /\ LET m2    == IF c.memo = 0 \/ Converts THEN c.ver ELSE c.memo          \* memoised in evaluation mode: valid because every change drops it
         sees  == IF own /\ Variant.reuse /\ c.aux # 0 THEN c.aux ELSE m2     \* intended: a path recomputes what it retains at every call
         xsees == IF own /\ Variant.reusex /\ c.auxx # 0 THEN c.auxx ELSE xs
     IN /\ c' = [c EXCEPT !.memo = m2, !.aux = IF own THEN sees ELSE c.aux, !.auxx = IF own THEN xsees ELSE c.auxx,
                          !.coord = "own", !.skew = SkewAfter]
        /\ out' = Append(out, EObs("Predict", own, xs, sees, c.ver, xsees, QuOf(SkewAfter)))
ToTrain ==
  /\ ECan /\ c.mode = "eval"
  /\ c' = [c EXCEPT !.mode = "train", !.memo = IF Variant.modeclear THEN 0 ELSE c.memo]
  /\ out' = Append(out, EObs("ToTrain", FALSE, 0, 0, 0, 0, "cur"))
ToEval ==
  /\ ECan /\ c.mode = "train"
  /\ c' = [c EXCEPT !.mode = "eval", !.memo = IF Variant.modeclear THEN 0 ELSE c.memo]
  /\ out' = Append(out, EObs("ToEval", FALSE, 0, 0, 0, 0, "cur"))
\* a training-mode call on input set 1; short = TRUE: the inputs are the inducing points (a strategy may return q(u) itself before the rest
\* of forward)
TrainCall(short) ==
  /\ ECan /\ c.mode = "train"
  /\ LET m2 == IF ClearOnTrainCall \/ c.memo = 0 \/ Converts THEN c.ver ELSE c.memo
         drop == (Variant.reuse \/ Variant.reusex) /\ ~short               \* the broken variants drop what a path retained here only
     IN /\ c' = [c EXCEPT !.memo = m2, !.aux = IF drop THEN 0 ELSE c.aux, !.auxx = IF drop THEN 0 ELSE c.auxx, !.coord = "own", !.skew = SkewAfter]
        /\ out' = Append(out, EObs("TrainCall", short, 1, m2, c.ver, 1, QuOf(SkewAfter)))
\* optimizer.step(): in training mode (a change made in evaluation mode behind the back of the caches is outside the protocol)
EOptStep ==
  /\ ECan /\ c.mode = "train"
  /\ c' = [c EXCEPT !.ver = c.ver + 1]
  /\ out' = Append(out, EObs("OptStep", FALSE, 0, 0, 0, 0, "cur"))
\* load_state_dict(): in either mode
LoadState ==
  /\ ECan
  /\ c' = [c EXCEPT !.ver = c.ver + 1, !.memo = IF Variant.loadclear THEN 0 ELSE c.memo, !.coord = "own", !.skew = FALSE]
  /\ out' = Append(out, EObs("LoadState", FALSE, 0, 0, 0, 0, "cur"))
\* load_state_dict() of a checkpoint written before whitening: q(u) = N(m, S) in the coordinates of u, no `updated_strategy` entry; in either mode.
\* (For a strategy whose own coordinates are those of u this is LoadState.)  An optimizer step before the first call moves the parameters in the
\* coordinates of u: the conversion then applies to what the parameters encode at the call.
LoadLegacy ==
  /\ Part = "ehist" /\ Len(out) < MaxHist - 1 /\ Variant.legacy /\ c.leg < 2
  /\ c' = [c EXCEPT !.ver = c.ver + 1, !.memo = IF Variant.loadclear THEN 0 ELSE c.memo, !.coord = "u", !.skew = FALSE, !.leg = c.leg + 1]
  /\ out' = Append(out, EObs("LoadLegacy", FALSE, 0, 0, 0, 0, "cur"))
ENext == \/ \E own \in BOOLEAN, xs \in {1, 2} : Predict(own, xs)
         \/ \E short \in BOOLEAN : TrainCall(short)
         \/ ToTrain \/ ToEval \/ EOptStep \/ LoadState \/ LoadLegacy
\* every prediction and every training-mode output reflects the current parameters and the inputs of the call, whatever the path and
\* whatever was predicted before; after a legacy load it describes the q(u) that was loaded
EObservesCurrent == Part = "ehist" => \A e \in 1..Len(out) : out[e].sees = out[e].want /\ out[e].xsees = out[e].xs /\ out[e].qu = "cur"

\* ============================== the machine ===================================================
Init ==
  CASE Part = "qf"      -> c \in Instances /\ out = Eval(c)
    [] Part = "mix"     -> c \in Instances /\ out = MixEval(c)
    [] Part = "lattice" -> c \in Cells /\ out = CellOut(c)
    [] Part = "hist"    -> c = HInit /\ out = <<>>
    [] Part = "paths"   -> c \in PathCells /\ out = PathInfo(c.path)
    [] Part = "ehist"   -> c = EInit /\ out = EOut0
    [] Part = "jit"     -> c \in JitCells /\ out = JitInfo(c)
    [] Part = "qu"      -> c \in QuCells /\ out = QuInfo(c)

Next == IF Part = "hist" THEN Forward \/ KL \/ OptStep ELSE IF Part = "ehist" THEN ENext ELSE UNCHANGED vars
Spec == Init /\ [][Next]_vars
=============================================================================
