--------------------------- MODULE ExactObjective ---------------------------
(***************************************************************************)
(* Exact marginal log likelihood and leave-one-out objective (property     *)
(* C02), four parts selected by Part:                                      *)
(*                                                                         *)
(*  "assembly" objective = (main term + log prior density of every         *)
(*             parameter with a registered prior + every registered added  *)
(*             loss term) / number of observations, per batch element.     *)
(*             Code side: ExactMarginalLogLikelihood.forward /             *)
(*             _add_other_terms, LeaveOneOutPseudoLikelihood.forward and   *)
(*             the traversals Module.named_priors (no memo at HEAD) /      *)
(*             named_added_loss_terms (memo, None entries skipped)         *)
(*             transcribed over a module DAG and over tensors with shapes  *)
(*             (view(shape[:res.ndim] + (-1,)).sum(-1), in-place broadcast *)
(*             add).  Every term is a distinguishable integer stub:        *)
(*             prior of slot k = 10^(k-1) * value of the element,          *)
(*             added loss j = 10^(3+j) * (7 | 3 + batch index), main term  *)
(*             = 10^6 * batch position.  Definition side: the declarative  *)
(*             sum over the SET of registered priors / terms.              *)
(*  "sum"      SumMarginalLogLikelihood = mean over the member models of   *)
(*             their objectives.                                           *)
(*  "rational" exact rational instances (K = X X^T, integer noise, mean    *)
(*             constant, targets): determinant and quadratic form of the   *)
(*             log density, elimination (Cholesky path without square      *)
(*             roots) against Laplace / adjugate; the bordered LOO         *)
(*             formulas of the code against the Gaussian conditional on    *)
(*             the data set with point i deleted.                          *)
(*  "lattice"  the cells of the float64 replay (kernel x mean x likelihood *)
(*             x batch x prior assignment x objective x solver setting)    *)
(*             with the terms the definition contains in each cell.        *)
(*                                                                         *)
(* Repairs = the repairs present in the tree under test ({} is HEAD).      *)
(* "prior_memo": named_priors yields a registered prior once however many  *)
(* paths lead to its module (as named_added_loss_terms does).              *)
(* "prior_batch_shape": a prior term is reduced over the parameter's own   *)
(* non-batch dimensions (known from the owning module) instead of over     *)
(* whatever follows its first res.ndim dimensions.                         *)
(* Every state carries the definition (out.exp), the transcribed code of   *)
(* the tree (out.code, out.agree) and of the fully repaired code           *)
(* (out.repaired).  Invariants: AssemblyOK (repaired code = definition on  *)
(* the whole lattice), ConventionalOK (code of the tree = definition on    *)
(* the conventional sub-lattice), PredictionsSharp (at HEAD the cells that *)
(* miss the definition are exactly the unconventional ones), SumOK,        *)
(* RationalOK, LatticeOK.                                                  *)
(***************************************************************************)
EXTENDS LinAlg

CONSTANTS Part, Repairs, Archs, Batches, Ns, MaxModels, Instances

VARIABLES c,       \* the enumerated configuration / instance / cell
          out      \* what the spec says must be observed (+ what the transcribed code computes)
vars == <<c, out>>

\* ---------------------------------------------------------------- integers, sequences
RECURSIVE IProd(_)
IProd(s) == IF s = <<>> THEN 1 ELSE Head(s) * IProd(Tail(s))
RECURSIVE ISum(_)
ISum(s) == IF s = <<>> THEN 0 ELSE Head(s) + ISum(Tail(s))
RECURSIVE Flat(_)
Flat(ss) == IF ss = <<>> THEN <<>> ELSE Head(ss) \o Flat(Tail(ss))
RECURSIVE Pow10(_)
Pow10(k) == IF k = 0 THEN 1 ELSE 10 * Pow10(k - 1)
IMin(a, b) == IF a < b THEN a ELSE b
\* first occurrences only (a memo set during a traversal)
RECURSIVE Dedup(_)
Dedup(s) ==
  IF s = <<>> THEN <<>>
  ELSE LET r == Dedup(SubSeq(s, 1, Len(s) - 1)) l == s[Len(s)]
       IN IF \E i \in 1..Len(r) : r[i] = l THEN r ELSE Append(r, l)

\* ---------------------------------------------------------------- tensors: shape + row-major data
Tn(sh, d) == [sh |-> sh, d |-> d, err |-> FALSE]
TErr == [sh |-> <<>>, d |-> <<>>, err |-> TRUE]
RECURSIVE Unravel(_, _)      \* 0-based multi-index of the 0-based position q
Unravel(q, sh) == IF sh = <<>> THEN <<>> ELSE LET inner == IProd(Tail(sh)) IN <<q \div inner>> \o Unravel(q % inner, Tail(sh))
RECURSIVE Ravel(_, _)
Ravel(idx, sh) == IF sh = <<>> THEN 0 ELSE Head(idx) * IProd(Tail(sh)) + Ravel(Tail(idx), Tail(sh))
PadL(sh, r) == [i \in 1..(r - Len(sh)) |-> 1] \o sh
BroadcastsTo(ts, rs) == Len(ts) <= Len(rs) /\ LET p == PadL(ts, Len(rs)) IN \A i \in 1..Len(rs) : p[i] = rs[i] \/ p[i] = 1
\* 1-based position read in a tensor of shape ts for the 1-based position q of the broadcast result of shape rs
BPos(q, rs, ts) ==
  LET p == PadL(ts, Len(rs)) idx == Unravel(q - 1, rs)
  IN Ravel([i \in 1..Len(rs) |-> IF p[i] = 1 THEN 0 ELSE idx[i]], p) + 1

\* t.view(t.shape[:r] + (-1,)).sum(dim=-1)
ViewLeadSum(t, r) ==
  LET k == IMin(r, Len(t.sh)) lead == SubSeq(t.sh, 1, k) rest == IProd(SubSeq(t.sh, k + 1, Len(t.sh)))
  IN Tn(lead, [i \in 1..IProd(lead) |-> ISum(SubSeq(t.d, (i - 1) * rest + 1, i * rest))])
\* res.add_(t): t must broadcast to the shape of res
AddIn(res, t) ==
  IF res.err \/ t.err \/ ~BroadcastsTo(t.sh, res.sh) THEN TErr
  ELSE Tn(res.sh, [q \in 1..IProd(res.sh) |-> res.d[q] + t.d[BPos(q, res.sh, t.sh)]])
\* res.add(t): out of place, either side broadcasts
AddOut(res, t) ==
  IF res.err \/ t.err THEN TErr
  ELSE IF BroadcastsTo(t.sh, res.sh) THEN AddIn(res, t)
  ELSE IF BroadcastsTo(res.sh, t.sh) THEN AddIn(t, res)
  ELSE TErr

\* ============================ part "assembly" ==================================================
\* configuration: arch, obj, B (batch shape of the objective), n (data points), stub (multiplier of the main term),
\*   pri[k] in none | flat (parameter without batch dimensions) | batch (parameter with batch shape B), k = slot,
\*   loss[j] in unreg | pending (registered, never updated: None) | scalar | batch
Slots == 1..4
AllRepairs == {"prior_memo", "prior_batch_shape"}
Tasks(arch) == IF arch = "mtask" THEN 2 ELSE 1

\* module DAG.  plain: 1 model, 2 likelihood, 3 likelihood.noise_covar, 4 mean_module, 5 covar_module (ScaleKernel), 8 base_kernel
\* shared: 5 AdditiveKernel of 6, 7 (ScaleKernels) over the SAME base kernel object 8
\* mtask : 2 MultitaskGaussianLikelihood (parameters on itself), 4 MultitaskMean > 6 base_means > 7 ConstantMean,
\*         5 MultitaskKernel > 3 task_covar_module, 8 data_covar_module
Children(arch, nd) ==
  CASE arch = "plain"  -> (CASE nd = 1 -> <<2, 4, 5>> [] nd = 2 -> <<3>> [] nd = 5 -> <<8>> [] OTHER -> <<>>)
    [] arch = "shared" -> (CASE nd = 1 -> <<2, 4, 5>> [] nd = 2 -> <<3>> [] nd = 5 -> <<6, 7>> [] nd = 6 -> <<8>> [] nd = 7 -> <<8>> [] OTHER -> <<>>)
    [] arch = "mtask"  -> (CASE nd = 1 -> <<2, 4, 5>> [] nd = 4 -> <<6>> [] nd = 6 -> <<7>> [] nd = 5 -> <<3, 8>> [] OTHER -> <<>>)
\* slot 1 noise, 2 mean constant, 3 outputscale (mtask: task_noises), 4 ARD lengthscale
SiteNode(arch, k) ==
  CASE arch = "plain" -> <<3, 4, 5, 8>>[k] [] arch = "shared" -> <<3, 4, 6, 8>>[k] [] arch = "mtask" -> <<2, 7, 2, 8>>[k]
SiteTail(arch, k) ==
  IF arch = "mtask" THEN << <<1>>, <<>>, <<2>>, <<1, 2>> >>[k] ELSE << <<1>>, <<>>, <<>>, <<1, 2>> >>[k]
LossNode(j) == <<5, 8>>[j]

OwnBatch(cf, k) == IF cf.pri[k] = "batch" THEN cf.B ELSE <<>>
\* value of the parameter element: 1 + own batch position + position inside the parameter's own dimensions
PriorTerm(cf, k) ==
  LET t == IProd(SiteTail(cf.arch, k)) sh == OwnBatch(cf, k) \o SiteTail(cf.arch, k)
  IN Tn(sh, [p \in 1..IProd(sh) |-> Pow10(k - 1) * (1 + ((p - 1) \div t) + ((p - 1) % t))])
LossTerm(cf, j) ==
  IF cf.loss[j] = "batch" THEN Tn(cf.B, [q \in 1..IProd(cf.B) |-> Pow10(3 + j) * (2 + q)])
  ELSE Tn(<<>>, <<Pow10(3 + j) * 7>>)
MainStub(cf) == Tn(cf.B, [q \in 1..IProd(cf.B) |-> 1000000 * cf.stub * q])

\* ---- code side ----
RECURSIVE Walk(_, _)          \* pre-order over named_children, a module is visited once per path
Walk(arch, nd) == <<nd>> \o Flat([i \in 1..Len(Children(arch, nd)) |-> Walk(arch, Children(arch, nd)[i])])
SlotsAt(cf, nd) == SelectSeq(<<1, 2, 3, 4>>, LAMBDA k : SiteNode(cf.arch, k) = nd /\ cf.pri[k] # "none")
LossesAt(cf, nd) == SelectSeq(<<1, 2>>, LAMBDA j : LossNode(j) = nd /\ cf.loss[j] \in {"scalar", "batch"})
CodePriors(cf, reps) ==
  LET v == Walk(cf.arch, 1) ys == Flat([i \in 1..Len(v) |-> SlotsAt(cf, v[i])])
  IN IF "prior_memo" \in reps THEN Dedup(ys) ELSE ys
CodeLosses(cf) == LET v == Walk(cf.arch, 1) IN Dedup(Flat([i \in 1..Len(v) |-> LossesAt(cf, v[i])]))

RECURSIVE FoldLoss(_, _, _)
FoldLoss(cf, res, js) == IF js = <<>> THEN res ELSE FoldLoss(cf, AddOut(res, LossTerm(cf, Head(js))), Tail(js))
PriorReduce(cf, res, k, reps) ==
  IF "prior_batch_shape" \in reps THEN ViewLeadSum(PriorTerm(cf, k), Len(OwnBatch(cf, k)))
  ELSE ViewLeadSum(PriorTerm(cf, k), Len(res.sh))
RECURSIVE FoldPrior(_, _, _, _)
FoldPrior(cf, res, ks, reps) == IF ks = <<>> THEN res ELSE FoldPrior(cf, AddIn(res, PriorReduce(cf, res, Head(ks), reps)), Tail(ks), reps)
AddOtherTerms(cf, res, reps) == FoldPrior(cf, FoldLoss(cf, res, CodeLosses(cf)), CodePriors(cf, reps), reps)

\* mll: function_dist.event_shape.numel(); loo: target.size(-1)
CodeDiv(cf) == IF cf.obj = "mll" THEN cf.n * Tasks(cf.arch) ELSE cf.n
\* value = v + hc * (log(2 pi) / 2), v exact rationals per batch element
CodeObj(cf, reps) ==
  LET r == AddOtherTerms(cf, MainStub(cf), reps)
  IN IF r.err THEN [err |-> TRUE, v |-> <<>>, hc |-> RZero]
     ELSE [err |-> FALSE, v |-> [q \in 1..IProd(r.sh) |-> RQ(r.d[q], CodeDiv(cf))], hc |-> IF cf.obj = "loo" THEN R(-1) ELSE RZero]
CodeOther(cf, reps) ==
  LET r == AddOtherTerms(cf, MainStub(cf), reps)
  IN IF r.err \/ r.sh # cf.B THEN [err |-> TRUE, other |-> <<>>]
     ELSE [err |-> FALSE, other |-> [q \in 1..IProd(r.sh) |-> r.d[q] - MainStub(cf).d[q]]]

\* ---- definition side ----
PriorSites(cf) == SelectSeq(<<1, 2, 3, 4>>, LAMBDA k : cf.pri[k] # "none")
LossSites(cf) == SelectSeq(<<1, 2>>, LAMBDA j : cf.loss[j] \in {"scalar", "batch"})
\* log prior density of parameter k as seen by batch element q: every element of the parameter that belongs to it
DefPrior(cf, k, q) ==
  LET t == IProd(SiteTail(cf.arch, k)) own == IF cf.pri[k] = "batch" THEN q - 1 ELSE 0
  IN Pow10(k - 1) * ISum([e \in 1..t |-> own + e])
DefLoss(cf, j, q) == IF cf.loss[j] = "batch" THEN Pow10(3 + j) * (2 + q) ELSE Pow10(3 + j) * 7
DefOther(cf, q) ==
  LET ps == PriorSites(cf) ls == LossSites(cf)
  IN ISum([i \in 1..Len(ps) |-> DefPrior(cf, ps[i], q)]) + ISum([i \in 1..Len(ls) |-> DefLoss(cf, ls[i], q)])
NObs(cf) == cf.n * Tasks(cf.arch)
\* loo: the main stub is sum_i a_i with log p(y_i | y_-i) = a_i - log(2 pi)/2, so the mean carries -n/n of the constant
DefObj(cf) ==
  [err |-> FALSE,
   v |-> [q \in 1..IProd(cf.B) |-> RQ(MainStub(cf).d[q] + DefOther(cf, q), NObs(cf))],
   hc |-> IF cf.obj = "loo" THEN RQ(-cf.n, cf.n) ELSE RZero]

LossMenu(B) ==
  {<<"unreg", "unreg">>, <<"pending", "unreg">>, <<"scalar", "unreg">>, <<"unreg", "scalar">>, <<"pending", "scalar">>}
    \cup (IF B = <<>> THEN {} ELSE {<<"batch", "unreg">>, <<"scalar", "batch">>})
AsmOK(cf) ==
  /\ cf.obj = "loo" => cf.arch # "mtask"
  /\ cf.B = <<>> => \A k \in Slots : cf.pri[k] # "batch"
  /\ cf.loss \in LossMenu(cf.B)
  /\ cf.arch = "mtask" => {cf.pri[1], cf.pri[3]} # {"flat", "batch"}      \* one likelihood, one batch shape
  /\ cf.arch # "mtask" => ~(cf.pri[3] = "flat" /\ cf.pri[4] = "batch")    \* a ScaleKernel takes over the batch shape of its base kernel
AsmConfigs ==
  {cf \in [arch : Archs, obj : {"mll", "loo"}, B : Batches, n : Ns, stub : {1},
           pri : [Slots -> {"none", "flat", "batch"}], loss : UNION {LossMenu(B) : B \in Batches}] : AsmOK(cf)}

\* where HEAD's shape inference and memo-less traversal are right: no module with a prior on two paths, and an unbatched
\* parameter shows only singleton dimensions where the objective has batch dimensions
Conventional(cf) ==
  /\ ~(cf.arch = "shared" /\ cf.pri[4] # "none")
  /\ \A k \in Slots : (cf.pri[k] = "flat") =>
        LET tl == SiteTail(cf.arch, k) IN \A i \in 1..IMin(Len(cf.B), Len(tl)) : tl[i] = 1

AsmOut(cf) ==
  [exp |-> [other |-> [q \in 1..IProd(cf.B) |-> DefOther(cf, q)], div |-> NObs(cf), hc |-> IF cf.obj = "loo" THEN -1 ELSE 0],
   code |-> CodeOther(cf, Repairs),
   agree |-> CodeObj(cf, Repairs) = DefObj(cf),                  \* the code as modelled for the tree under test
   repaired |-> CodeObj(cf, AllRepairs) = DefObj(cf),            \* the code with both repairs
   conventional |-> Conventional(cf)]

AssemblyOK == (Part = "assembly" /\ out # <<>>) => out.repaired
ConventionalOK == (Part = "assembly" /\ out # <<>>) => (out.conventional => out.agree)
\* as long as no repair is modelled the cells predicted to fail are exactly the unconventional ones
PredictionsSharp == (Part = "assembly" /\ out # <<>> /\ Repairs = {}) => (out.agree <=> out.conventional)

\* ============================ part "sum" =======================================================
CompMenu ==
  [n : Ns, pri : {<<"none", "none", "none", "none">>, <<"flat", "none", "none", "none">>, <<"flat", "flat", "flat", "flat">>},
   loss : {<<"unreg", "unreg">>, <<"scalar", "unreg">>}]
SumConfigs == [cls : {"mll", "loo"}, comps : UNION {[1..m -> CompMenu] : m \in 1..MaxModels}]
CompCfg(sc, i) ==
  [arch |-> "plain", obj |-> sc.cls, B |-> <<>>, n |-> sc.comps[i].n, stub |-> i, pri |-> sc.comps[i].pri, loss |-> sc.comps[i].loss]
\* sum(mll(output, target) for ...).div_(len(self.mlls))
SumCode(sc) ==
  LET m == Len(sc.comps) vals == [i \in 1..m |-> CodeObj(CompCfg(sc, i), Repairs)]
  IN IF \E i \in 1..m : vals[i].err THEN [err |-> TRUE, v |-> RZero, hc |-> RZero]
     ELSE [err |-> FALSE, v |-> RDiv(RSum([i \in 1..m |-> vals[i].v[1]]), R(m)), hc |-> RDiv(RSum([i \in 1..m |-> vals[i].hc]), R(m))]
\* the mean over the member models of their objectives
SumDef(sc) ==
  LET m == Len(sc.comps) vals == [i \in 1..m |-> DefObj(CompCfg(sc, i))]
  IN [err |-> FALSE, v |-> RMul(RQ(1, m), RSum([i \in 1..m |-> vals[i].v[1]])), hc |-> RMul(RQ(1, m), RSum([i \in 1..m |-> vals[i].hc]))]
SumOut(sc) ==
  [exp |-> [comps |-> [i \in 1..Len(sc.comps) |-> [other |-> DefOther(CompCfg(sc, i), 1), div |-> NObs(CompCfg(sc, i))]],
            m |-> Len(sc.comps), hc |-> IF sc.cls = "loo" THEN -1 ELSE 0],
   agree |-> SumCode(sc) = SumDef(sc)]
SumOK == (Part = "sum" /\ out # <<>>) => out.agree

\* ============================ part "rational" ==================================================
\* instance: X n x d integer inputs (linear kernel K = X X^T), s integer noise per point, mc integer mean constant, y integer targets
InstA(i) == LET X == FromInt(i.X) IN MAdd(MMul(X, Tr(X)), Diag(VFromInt(i.s)))
InstRes(i) == [k \in 1..Len(i.y) |-> R(i.y[k] - i.mc)]
Others(n, k) == [j \in 1..(n - 1) |-> IF j < k THEN j ELSE j + 1]

\* ---- definition: predictive density of y_k given all other observations = the Gaussian conditional on the data set without k
LooMean(i, A, k) ==
  LET n == Len(i.y) o == Others(n, k)
  IN IF n = 1 THEN R(i.mc)
     ELSE CondMean(<<R(i.mc)>>, Sel(A, <<k>>, o), Sel(A, o, o), VSel(VFromInt(i.y), o), [j \in 1..(n - 1) |-> R(i.mc)])[1]
LooVar(i, A, k) ==
  LET n == Len(i.y) o == Others(n, k)
  IN IF n = 1 THEN A[1][1] ELSE CondCov(<< <<A[k][k]>> >>, Sel(A, <<k>>, o), Sel(A, o, o))[1][1]

\* ---- code: sigma2 = 1 / diag(A^-1); mu = y - (A^-1 (y - m)) * sigma2
CodeLoo(i, A) ==
  LET n == Len(i.y) Ai == Inv(A) al == MVec(Ai, InstRes(i))
      s2 == [k \in 1..n |-> RDiv(ROne, Ai[k][k])]
  IN [mu |-> [k \in 1..n |-> RSub(R(i.y[k]), RMul(al[k], s2[k]))], s2 |-> s2]

\* ---- the factorisation path without square roots: pivots of the elimination (squares of the Cholesky diagonal) and the
\*      forward-substituted quadratic form
SchurFirst(M) == Mk(Rows(M) - 1, Rows(M) - 1, LAMBDA a, b : RSub(M[a + 1][b + 1], RDiv(RMul(M[a + 1][1], M[1][b + 1]), M[1][1])))
RECURSIVE Pivots(_)
Pivots(M) == IF Rows(M) = 0 THEN <<>> ELSE <<M[1][1]>> \o Pivots(SchurFirst(M))
RECURSIVE QuadElim(_, _)
QuadElim(M, r) ==
  IF Rows(M) = 0 THEN RZero
  ELSE RAdd(RDiv(RMul(r[1], r[1]), M[1][1]),
            QuadElim(SchurFirst(M), [a \in 1..(Rows(M) - 1) |-> RSub(r[a + 1], RDiv(RMul(M[a + 1][1], r[1]), M[1][1]))]))
RECURSIVE RProd(_)
RProd(q) == IF q = <<>> THEN ROne ELSE RMul(Head(q), RProd(Tail(q)))

RatOut(i) ==
  LET n == Len(i.y) A == InstA(i) r == InstRes(i)
      det == Det(A) quad == Dot(r, Solve(A, r))
      mu == [k \in 1..n |-> LooMean(i, A, k)] s2 == [k \in 1..n |-> LooVar(i, A, k)]
      code == CodeLoo(i, A) piv == Pivots(A)
  IN [det |-> det, quad |-> quad, mu |-> mu, s2 |-> s2,
      pd |-> IsPD(A) /\ \A k \in 1..n : RLt(RZero, s2[k]),
      looAgree |-> code.mu = mu /\ code.s2 = s2,
      elimAgree |-> RProd(piv) = det /\ QuadElim(A, r) = quad /\ \A k \in 1..n : RLt(RZero, piv[k])]
RationalOK == (Part = "rational" /\ out # <<>>) => (out.pd /\ out.looAgree /\ out.elimAgree)

\* ============================ part "lattice" ===================================================
\* prior assignment: (lengthscale, outputscale, noise) -> family of the prior on the CONSTRAINED value
PriorMenu ==
  {<<"none", "none", "none">>, <<"gamma", "gamma", "gamma">>, <<"normal", "lognormal", "gamma">>,
   <<"lognormal", "none", "normal">>, <<"none", "gamma", "none">>, <<"gamma", "normal", "lognormal">>}
CellOK(x) ==
  /\ x.obj = "loo" => x.lik \in {"homo", "fixed"}
  /\ x.lik = "fixed" => x.pri[3] = "none"                \* no learned noise parameter
Cells ==
  {x \in [kernel : {"rbf", "matern", "sum"}, mean : {"const", "linear"}, lik : {"homo", "fixed", "mt0", "mt1"},
          B : {<<>>, <<2>>}, pri : PriorMenu, obj : {"mll", "loo"}, path : {"chol_setting", "default"}] : CellOK(x)}
\* the parameters whose log prior density the definition contains: <<parameter, family>>
KernelParts(x) == IF x.kernel = "sum" THEN <<"1", "2">> ELSE <<"1">>
CellTerms(x) ==
  LET kp == KernelParts(x)
  IN (IF x.pri[1] = "none" THEN <<>> ELSE [i \in 1..Len(kp) |-> <<"lengthscale." \o kp[i], x.pri[1]>>])
     \o (IF x.pri[2] = "none" THEN <<>> ELSE [i \in 1..Len(kp) |-> <<"outputscale." \o kp[i], x.pri[2]>>])
     \o (IF x.pri[3] = "none" THEN <<>>
         ELSE IF x.lik = "mt0" THEN << <<"task_noises", x.pri[3]>>, <<"noise", x.pri[3]>> >>
         ELSE << <<"noise", x.pri[3]>> >>)
CellOut(x) ==
  [terms |-> CellTerms(x), tasks |-> IF x.lik \in {"mt0", "mt1"} THEN 2 ELSE 1, hc |-> IF x.obj = "loo" THEN -1 ELSE 0]
LatticeOK == (Part = "lattice" /\ out # <<>>) => (out.tasks \in {1, 2} /\ \A i \in 1..Len(out.terms) : out.terms[i][2] # "none")

\* ============================ machine =========================================================
Domain ==
  CASE Part = "assembly" -> AsmConfigs
    [] Part = "sum"      -> SumConfigs
    [] Part = "rational" -> Instances
    [] Part = "lattice"  -> Cells
OutOf(x) ==
  CASE Part = "assembly" -> AsmOut(x)
    [] Part = "sum"      -> SumOut(x)
    [] Part = "rational" -> RatOut(x)
    [] Part = "lattice"  -> CellOut(x)

Init == c \in Domain /\ out = <<>>
\* every case is evaluated in a step of its own so that TLC's workers share the cases
Evaluate == out = <<>> /\ out' = OutOf(c) /\ UNCHANGED c
Next == Evaluate \/ UNCHANGED vars

Spec == Init /\ [][Next]_vars
=============================================================================
