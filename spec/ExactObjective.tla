--------------------------- MODULE ExactObjective ---------------------------
(***************************************************************************)
(* Exact marginal log likelihood and leave-one-out objective (property     *)
(* C02), parts selected by Part:                                           *)
(*                                                                         *)
(*  "assembly" objective = (main term + log prior density of every         *)
(*             parameter with a registered prior + every registered added  *)
(*             loss term) / number of observations, per batch element.     *)
(*             Code side: ExactMarginalLogLikelihood.forward /             *)
(*             _add_other_terms, LeaveOneOutPseudoLikelihood.forward and   *)
(*             the traversals Module.named_priors (no memo at HEAD) /      *)
(*             named_added_loss_terms (memo, None entries skipped)         *)
(*             transcribed over a module DAG and over tensors with shapes  *)
(*             (view(shape[:res.ndim] + (-1,)).sum(-1), in-place broadcast *)
(*             add).  Every term is a distinguishable integer stub:        *)
(*             prior of slot k = 10^(k-1) * value of the element,          *)
(*             added loss j = 10^(3+j) * (7 | 3 + batch index), main term  *)
(*             = 10^6 * batch position.  Definition side: the declarative  *)
(*             sum over the SET of registered priors / terms.              *)
(*             The batch shape of the TARGET (cf.tb) is a dimension of its *)
(*             own: it only has to broadcast against the batch shape of    *)
(*             the marginal distribution (cf.B: inputs and batched         *)
(*             parameters).  TargetShapes(B) enumerates the class: equal,  *)
(*             extra leading dimensions (sizes Extras), batch dimensions   *)
(*             missing (every proper suffix, unit dimensions squeezed      *)
(*             out), unit dimensions in place of batch dimensions, the     *)
(*             distribution's unit dimensions widened, both at once.  The  *)
(*             objective has the broadcast shape OB; element q of it reads *)
(*             the batch element of every batched parameter / added loss   *)
(*             that broadcasting assigns to it, and the divisor is the     *)
(*             number of observations of ONE batch element (N x tasks)     *)
(*             whatever the two batch shapes are.                          *)
(*  "sum"      SumMarginalLogLikelihood = mean over the member models of   *)
(*             their objectives.                                           *)
(*  "rational" exact rational instances (K = X X^T, integer noise, mean    *)
(*             constant, targets): determinant and quadratic form of the   *)
(*             log density, elimination (Cholesky path without square      *)
(*             roots) against Laplace / adjugate; the bordered LOO         *)
(*             formulas of the code against the Gaussian conditional on    *)
(*             the data set with point i deleted.                          *)
(*  "lattice"  the cells of the float64 replay (kernel x mean x likelihood *)
(*             x batch x prior assignment x objective x solver setting x   *)
(*             registration form x history of the evaluated object)        *)
(*             with the terms the definition contains in each cell.        *)
(*                                                                         *)
(*  "zoo"      (a) the NOISE STRUCTURE of the likelihood (homoskedastic,     *)
(*             fixed, fixed + learned) x what is forwarded through         *)
(*             objective(output, target, *params, **kwargs): the keyword   *)
(*             noise= (given, as long as the training data / not given)    *)
(*             and the train inputs as *params.  The definition says which *)
(*             components S of log N(y; m, K + S) is the sum of (the       *)
(*             call-time noise REPLACES the stored / the learned           *)
(*             homoskedastic noise, the learned second noise of a fixed    *)
(*             noise likelihood is always added); the transcribed branch   *)
(*             order of FixedGaussianNoise.forward /                       *)
(*             FixedNoiseGaussianLikelihood._shaped_noise_covar /          *)
(*             HomoskedasticNoise.forward must give the same components    *)
(*             (ZooNoiseOK; with the slips "stored_first" /                *)
(*             "second_sees_noise" TLC must find noise= on a fixed noise   *)
(*             likelihood).                                                *)
(*             (b) every library class constructed with *_prior arguments  *)
(*             (ZooClasses: kernels with one, two, three prior arguments,  *)
(*             ScaleKernel, ConstantMean, the likelihoods): the prior      *)
(*             terms of the definition are listed by the PUBLIC parameter  *)
(*             property (dotted name from the model) and every parameter   *)
(*             of the model sits at a value of its own (rank, pairwise     *)
(*             distinct: ZooDistinct) so that a registered closure that    *)
(*             reads a sibling parameter of the same shape changes the     *)
(*             objective (ZooPriorsOK; with the slip "getter_reads_sibling"*)
(*             TLC must find a class with two prior arguments).            *)
(*                                                                         *)
(* Repairs = the repairs present in the tree under test ({} is HEAD).      *)
(* "prior_memo": named_priors yields a registered prior once however many  *)
(* paths lead to its module (as named_added_loss_terms does).              *)
(* "prior_batch_shape": a prior term is reduced over the parameter's own   *)
(* non-batch dimensions (known from the owning module) instead of over     *)
(* whatever follows its first res.ndim dimensions.                         *)
(* "loo_broadcast": LeaveOneOutPseudoLikelihood broadcasts the marginal    *)
(* mean against the target instead of reshaping it to the target's shape   *)
(* (m.reshape(target.shape) raises when the element counts differ and      *)
(* silently pairs the wrong batch elements when they happen to agree).     *)
(* DivSlips = modelled slips of the divisor ({} is the tree): with         *)
(* "num_data_from_target" (the number of observations is read off the      *)
(* target's shape behind the distribution's batch dimensions) TLC must     *)
(* find a configuration whose target batch shape differs from the          *)
(* distribution's.                                                         *)
(* Every state carries the definition (out.exp), the transcribed code of   *)
(* the tree (out.code, out.agree) and of the fully repaired code           *)
(* (out.repaired).  Invariants: AssemblyOK (repaired code = definition on  *)
(* the whole lattice), ConventionalOK (code of the tree = definition on    *)
(* the conventional sub-lattice), PredictionsSharp (at HEAD the cells that *)
(* miss the definition are exactly the unconventional ones), SumOK,        *)
(* RationalOK, LatticeOK.                                                  *)
(*                                                                         *)
(*  "history"  a state machine over HOW a prior was registered (argument   *)
(*             of the module's constructor: a bound method of the module;  *)
(*             register_prior with a closure and a setting closure: plain  *)
(*             functions; register_prior with the NAME of the parameter:   *)
(*             a function made inside register_prior) and over what        *)
(*             happened to the model objects before the objective is       *)
(*             evaluated: hyperparameters changed (through the setters /   *)
(*             in place on the raw parameters), copy.deepcopy, a freshly   *)
(*             built model that loads the state_dict, a pickle round trip. *)
(*             Every object carries the GENERATION of its hyperparameter   *)
(*             values; every registered closure carries what Python keeps  *)
(*             of it (deepcopy / pickle re-bind a bound method to the new  *)
(*             module and keep a function as it is).  Invariant HistoryOK: *)
(*             in every reachable state, for every live model object, each *)
(*             prior term of its objective is the density at the CURRENT   *)
(*             constrained value of the parameter of THIS object.  Slips = *)
(*             modelled slips of the code ({} is the tree): with           *)
(*             "name_captures_self" (the name-made function reads the      *)
(*             registering module instead of its argument) TLC must find   *)
(*             register-by-name, deepcopy, set, evaluate.                  *)
(***************************************************************************)
EXTENDS LinAlg

CONSTANTS Part, Repairs, Archs, Batches, Ns, MaxModels, Instances,
          Extras, PatternBatches, DivSlips,                        \* target batch shapes (parts "assembly", "lattice")
          RegMenu, HistLen, MaxObjs, MaxGen, SetHows, Slips,     \* part "history"
          ZooKernels, NoiseKernels, Rots, ZooSlips               \* part "zoo"

VARIABLES c,       \* the enumerated configuration / instance / cell
          out      \* what the spec says must be observed (+ what the transcribed code computes)
vars == <<c, out>>

\* ---------------------------------------------------------------- integers, sequences
RECURSIVE IProd(_)
IProd(s) == IF s = <<>> THEN 1 ELSE Head(s) * IProd(Tail(s))
RECURSIVE ISum(_)
ISum(s) == IF s = <<>> THEN 0 ELSE Head(s) + ISum(Tail(s))
RECURSIVE Flat(_)
Flat(ss) == IF ss = <<>> THEN <<>> ELSE Head(ss) \o Flat(Tail(ss))
RECURSIVE Pow10(_)
Pow10(k) == IF k = 0 THEN 1 ELSE 10 * Pow10(k - 1)
IMin(a, b) == IF a < b THEN a ELSE b
IMax(a, b) == IF a < b THEN b ELSE a
\* first occurrences only (a memo set during a traversal)
RECURSIVE Dedup(_)
Dedup(s) ==
  IF s = <<>> THEN <<>>
  ELSE LET r == Dedup(SubSeq(s, 1, Len(s) - 1)) l == s[Len(s)]
       IN IF \E i \in 1..Len(r) : r[i] = l THEN r ELSE Append(r, l)

\* ---------------------------------------------------------------- tensors: shape + row-major data
Tn(sh, d) == [sh |-> sh, d |-> d, err |-> FALSE]
TErr == [sh |-> <<>>, d |-> <<>>, err |-> TRUE]
RECURSIVE Unravel(_, _)      \* 0-based multi-index of the 0-based position q
Unravel(q, sh) == IF sh = <<>> THEN <<>> ELSE LET inner == IProd(Tail(sh)) IN <<q \div inner>> \o Unravel(q % inner, Tail(sh))
RECURSIVE Ravel(_, _)
Ravel(idx, sh) == IF sh = <<>> THEN 0 ELSE Head(idx) * IProd(Tail(sh)) + Ravel(Tail(idx), Tail(sh))
PadL(sh, r) == [i \in 1..(r - Len(sh)) |-> 1] \o sh
BroadcastsTo(ts, rs) == Len(ts) <= Len(rs) /\ LET p == PadL(ts, Len(rs)) IN \A i \in 1..Len(rs) : p[i] = rs[i] \/ p[i] = 1
\* 1-based position read in a tensor of shape ts for the 1-based position q of the broadcast result of shape rs
BPos(q, rs, ts) ==
  LET p == PadL(ts, Len(rs)) idx == Unravel(q - 1, rs)
  IN Ravel([i \in 1..Len(rs) |-> IF p[i] = 1 THEN 0 ELSE idx[i]], p) + 1

\* right-aligned broadcast of two shapes
Compatible(a, b) ==
  LET r == IMax(Len(a), Len(b)) pa == PadL(a, r) pb == PadL(b, r) IN \A i \in 1..r : pa[i] = pb[i] \/ pa[i] = 1 \/ pb[i] = 1
Bcast(a, b) ==
  LET r == IMax(Len(a), Len(b)) pa == PadL(a, r) pb == PadL(b, r) IN [i \in 1..r |-> IF pa[i] = 1 THEN pb[i] ELSE pa[i]]

\* ---- the batch shapes a target may have against the batch shape B of the distribution
Wide == 3
HasUnit(B) == \E i \in 1..Len(B) : B[i] = 1
Suffixes(B) == {SubSeq(B, i, Len(B)) : i \in 2..(Len(B) + 1)}                  \* leading batch dimensions missing (all: <<>>)
Squeezed(B) == {SelectSeq(B, LAMBDA d : d # 1)}                                \* unit dimensions dropped
Unitised(B) == {[i \in 1..Len(B) |-> IF i \in S THEN 1 ELSE B[i]] : S \in SUBSET {i \in 1..Len(B) : B[i] # 1}}
Widened(B) == IF HasUnit(B) THEN {[i \in 1..Len(B) |-> IF B[i] = 1 THEN Wide ELSE B[i]]} ELSE {}
Mixed(B) == IF HasUnit(B) /\ (\E i \in 1..Len(B) : B[i] # 1) THEN {[i \in 1..Len(B) |-> IF B[i] = 1 THEN Wide ELSE 1]} ELSE {}
TargetShapes(B) ==
  {tb \in {B} \cup {<<s>> \o B : s \in Extras} \cup Suffixes(B) \cup Squeezed(B) \cup Unitised(B) \cup Widened(B) \cup Mixed(B) : Compatible(B, tb)}
Pattern(B, tb) ==
  IF tb = B THEN "equal" ELSE IF Len(tb) > Len(B) THEN "extra" ELSE IF Len(tb) < Len(B) THEN "lacks"
  ELSE IF Bcast(B, tb) = B THEN "unit" ELSE IF Bcast(B, tb) = tb THEN "widen" ELSE "mixed"
\* the two shapes differ by leading unit dimensions only (reshaping one to the other moves no element to another batch element)
Aligned(B, tb) == LET r == IMax(Len(B), Len(tb)) IN PadL(B, r) = PadL(tb, r)

\* t.view(t.shape[:r] + (-1,)).sum(dim=-1)
ViewLeadSum(t, r) ==
  LET k == IMin(r, Len(t.sh)) lead == SubSeq(t.sh, 1, k) rest == IProd(SubSeq(t.sh, k + 1, Len(t.sh)))
  IN Tn(lead, [i \in 1..IProd(lead) |-> ISum(SubSeq(t.d, (i - 1) * rest + 1, i * rest))])
\* res.add_(t): t must broadcast to the shape of res
AddIn(res, t) ==
  IF res.err \/ t.err \/ ~BroadcastsTo(t.sh, res.sh) THEN TErr
  ELSE Tn(res.sh, [q \in 1..IProd(res.sh) |-> res.d[q] + t.d[BPos(q, res.sh, t.sh)]])
\* res.add(t): out of place, either side broadcasts
AddOut(res, t) ==
  IF res.err \/ t.err THEN TErr
  ELSE IF BroadcastsTo(t.sh, res.sh) THEN AddIn(res, t)
  ELSE IF BroadcastsTo(res.sh, t.sh) THEN AddIn(t, res)
  ELSE TErr

\* ============================ part "assembly" ==================================================
\* configuration: arch, obj, B (batch shape of the marginal distribution: inputs and batched parameters), tb (batch shape of
\*   the target), n (data points), stub (multiplier of the main term),
\*   pri[k] in none | flat (parameter without batch dimensions) | batch (parameter with batch shape B), k = slot,
\*   loss[j] in unreg | pending (registered, never updated: None) | scalar | batch
Slots == 1..4
AllRepairs == {"prior_memo", "prior_batch_shape", "loo_broadcast"}
AllDivSlips == {"num_data_from_target"}
\* batch shape of the objective: one value per broadcast batch element
OB(cf) == Bcast(cf.B, cf.tb)
\* 1-based batch element of the distribution (of a parameter / added loss term with batch shape B) that element q of the objective reads
DistPos(cf, q) == BPos(q, OB(cf), cf.B)
Tasks(arch) == IF arch = "mtask" THEN 2 ELSE 1

\* module DAG.  plain: 1 model, 2 likelihood, 3 likelihood.noise_covar, 4 mean_module, 5 covar_module (ScaleKernel), 8 base_kernel
\* shared: 5 AdditiveKernel of 6, 7 (ScaleKernels) over the SAME base kernel object 8
\* mtask : 2 MultitaskGaussianLikelihood (parameters on itself), 4 MultitaskMean > 6 base_means > 7 ConstantMean,
\*         5 MultitaskKernel > 3 task_covar_module, 8 data_covar_module
Children(arch, nd) ==
  CASE arch = "plain"  -> (CASE nd = 1 -> <<2, 4, 5>> [] nd = 2 -> <<3>> [] nd = 5 -> <<8>> [] OTHER -> <<>>)
    [] arch = "shared" -> (CASE nd = 1 -> <<2, 4, 5>> [] nd = 2 -> <<3>> [] nd = 5 -> <<6, 7>> [] nd = 6 -> <<8>> [] nd = 7 -> <<8>> [] OTHER -> <<>>)
    [] arch = "mtask"  -> (CASE nd = 1 -> <<2, 4, 5>> [] nd = 4 -> <<6>> [] nd = 6 -> <<7>> [] nd = 5 -> <<3, 8>> [] OTHER -> <<>>)
\* slot 1 noise, 2 mean constant, 3 outputscale (mtask: task_noises), 4 ARD lengthscale
SiteNode(arch, k) ==
  CASE arch = "plain" -> <<3, 4, 5, 8>>[k] [] arch = "shared" -> <<3, 4, 6, 8>>[k] [] arch = "mtask" -> <<2, 7, 2, 8>>[k]
SiteTail(arch, k) ==
  IF arch = "mtask" THEN << <<1>>, <<>>, <<2>>, <<1, 2>> >>[k] ELSE << <<1>>, <<>>, <<>>, <<1, 2>> >>[k]
LossNode(j) == <<5, 8>>[j]

OwnBatch(cf, k) == IF cf.pri[k] = "batch" THEN cf.B ELSE <<>>
\* value of the parameter element: 1 + own batch position + position inside the parameter's own dimensions
PriorTerm(cf, k) ==
  LET t == IProd(SiteTail(cf.arch, k)) sh == OwnBatch(cf, k) \o SiteTail(cf.arch, k)
  IN Tn(sh, [p \in 1..IProd(sh) |-> Pow10(k - 1) * (1 + ((p - 1) \div t) + ((p - 1) % t))])
LossTerm(cf, j) ==
  IF cf.loss[j] = "batch" THEN Tn(cf.B, [q \in 1..IProd(cf.B) |-> Pow10(3 + j) * (2 + q)])
  ELSE Tn(<<>>, <<Pow10(3 + j) * 7>>)
MainStub(cf) == Tn(OB(cf), [q \in 1..IProd(OB(cf)) |-> 1000000 * cf.stub * q])

\* ---- code side ----
RECURSIVE Walk(_, _)          \* pre-order over named_children, a module is visited once per path
Walk(arch, nd) == <<nd>> \o Flat([i \in 1..Len(Children(arch, nd)) |-> Walk(arch, Children(arch, nd)[i])])
SlotsAt(cf, nd) == SelectSeq(<<1, 2, 3, 4>>, LAMBDA k : SiteNode(cf.arch, k) = nd /\ cf.pri[k] # "none")
LossesAt(cf, nd) == SelectSeq(<<1, 2>>, LAMBDA j : LossNode(j) = nd /\ cf.loss[j] \in {"scalar", "batch"})
CodePriors(cf, reps) ==
  LET v == Walk(cf.arch, 1) ys == Flat([i \in 1..Len(v) |-> SlotsAt(cf, v[i])])
  IN IF "prior_memo" \in reps THEN Dedup(ys) ELSE ys
CodeLosses(cf) == LET v == Walk(cf.arch, 1) IN Dedup(Flat([i \in 1..Len(v) |-> LossesAt(cf, v[i])]))

RECURSIVE FoldLoss(_, _, _)
FoldLoss(cf, res, js) == IF js = <<>> THEN res ELSE FoldLoss(cf, AddOut(res, LossTerm(cf, Head(js))), Tail(js))
PriorReduce(cf, res, k, reps) ==
  IF "prior_batch_shape" \in reps THEN ViewLeadSum(PriorTerm(cf, k), Len(OwnBatch(cf, k)))
  ELSE ViewLeadSum(PriorTerm(cf, k), Len(res.sh))
RECURSIVE FoldPrior(_, _, _, _)
FoldPrior(cf, res, ks, reps) == IF ks = <<>> THEN res ELSE FoldPrior(cf, AddIn(res, PriorReduce(cf, res, Head(ks), reps)), Tail(ks), reps)
AddOtherTerms(cf, res, reps) == FoldPrior(cf, FoldLoss(cf, res, CodeLosses(cf)), CodePriors(cf, reps), reps)

\* mll: function_dist.event_shape.numel(); loo: target.size(-1)
\* slip "num_data_from_target": target.shape[len(output.batch_shape):].numel()
TargetShape(cf) == cf.tb \o <<cf.n>> \o (IF cf.arch = "mtask" THEN <<2>> ELSE <<>>)
CodeDiv(cf) ==
  IF "num_data_from_target" \in DivSlips /\ cf.obj = "mll" THEN IProd(SubSeq(TargetShape(cf), Len(cf.B) + 1, Len(TargetShape(cf))))
  ELSE IF cf.obj = "mll" THEN cf.n * Tasks(cf.arch) ELSE cf.n
\* loo: m = m.reshape(target.shape) raises when the element counts differ; otherwise element q of the objective reads the
\* mean at the flat batch position its TARGET has, which is its own batch element of the distribution between aligned shapes
\* (and does not matter when the mean is not batched)
LooShapeOK(cf, reps) ==
  cf.obj = "loo" =>
     \/ "loo_broadcast" \in reps
     \/ /\ IProd(cf.B) = IProd(cf.tb)
        /\ cf.pri[2] # "batch" \/ \A q \in 1..IProd(OB(cf)) : BPos(q, OB(cf), cf.tb) = BPos(q, OB(cf), cf.B)
\* value = v + hc * (log(2 pi) / 2), v exact rationals per batch element
CodeObj(cf, reps) ==
  LET r == AddOtherTerms(cf, MainStub(cf), reps)
  IN IF r.err \/ ~LooShapeOK(cf, reps) THEN [err |-> TRUE, v |-> <<>>, hc |-> RZero]
     ELSE [err |-> FALSE, v |-> [q \in 1..IProd(r.sh) |-> RQ(r.d[q], CodeDiv(cf))], hc |-> IF cf.obj = "loo" THEN R(-1) ELSE RZero]
CodeOther(cf, reps) ==
  LET r == AddOtherTerms(cf, MainStub(cf), reps)
  IN IF r.err \/ r.sh # OB(cf) \/ ~LooShapeOK(cf, reps) THEN [err |-> TRUE, other |-> <<>>]
     ELSE [err |-> FALSE, other |-> [q \in 1..IProd(r.sh) |-> r.d[q] - MainStub(cf).d[q]]]

\* ---- definition side ----
PriorSites(cf) == SelectSeq(<<1, 2, 3, 4>>, LAMBDA k : cf.pri[k] # "none")
LossSites(cf) == SelectSeq(<<1, 2>>, LAMBDA j : cf.loss[j] \in {"scalar", "batch"})
\* log prior density of parameter k as seen by batch element q of the objective: every element of the parameter that belongs
\* to the batch element of the distribution that q reads
DefPrior(cf, k, q) ==
  LET t == IProd(SiteTail(cf.arch, k)) own == IF cf.pri[k] = "batch" THEN DistPos(cf, q) - 1 ELSE 0
  IN Pow10(k - 1) * ISum([e \in 1..t |-> own + e])
DefLoss(cf, j, q) == IF cf.loss[j] = "batch" THEN Pow10(3 + j) * (2 + DistPos(cf, q)) ELSE Pow10(3 + j) * 7
DefOther(cf, q) ==
  LET ps == PriorSites(cf) ls == LossSites(cf)
  IN ISum([i \in 1..Len(ps) |-> DefPrior(cf, ps[i], q)]) + ISum([i \in 1..Len(ls) |-> DefLoss(cf, ls[i], q)])
\* the number of observations of ONE batch element: it depends neither on the batch shape of the distribution nor on the
\* batch shape of the target
NObs(cf) == cf.n * Tasks(cf.arch)
\* loo: the main stub is sum_i a_i with log p(y_i | y_-i) = a_i - log(2 pi)/2, so the mean carries -n/n of the constant
DefObj(cf) ==
  [err |-> FALSE,
   v |-> [q \in 1..IProd(OB(cf)) |-> RQ(MainStub(cf).d[q] + DefOther(cf, q), NObs(cf))],
   hc |-> IF cf.obj = "loo" THEN RQ(-cf.n, cf.n) ELSE RZero]

LossMenu(B) ==
  {<<"unreg", "unreg">>, <<"pending", "unreg">>, <<"scalar", "unreg">>, <<"unreg", "scalar">>, <<"pending", "scalar">>}
    \cup (IF B = <<>> THEN {} ELSE {<<"batch", "unreg">>, <<"scalar", "batch">>})
\* away from equal batch shapes without unit dimensions: one module path, two added-loss settings, at most one prior site or
\* all four sites of one kind; the target shapes are varied against the distribution batch shapes of PatternBatches
SiteKinds(cf) == {cf.pri[k] : k \in Slots}
PatternSub(cf) ==
  /\ cf.arch # "shared"
  /\ cf.loss \in {<<"unreg", "unreg">>, IF cf.B = <<>> THEN <<"scalar", "unreg">> ELSE <<"batch", "unreg">>}
  /\ \/ Cardinality({k \in Slots : cf.pri[k] # "none"}) <= 1
     \/ Cardinality(SiteKinds(cf)) = 1
AsmTargets(B) == IF B \in PatternBatches THEN TargetShapes(B) ELSE {B}
AsmOK(cf) ==
  /\ (cf.tb # cf.B \/ HasUnit(cf.B)) => PatternSub(cf)
  /\ cf.obj = "loo" => cf.arch # "mtask"
  /\ cf.B = <<>> => \A k \in Slots : cf.pri[k] # "batch"
  /\ cf.loss \in LossMenu(cf.B)
  /\ cf.arch = "mtask" => {cf.pri[1], cf.pri[3]} # {"flat", "batch"}      \* one likelihood, one batch shape
  /\ cf.arch # "mtask" => ~(cf.pri[3] = "flat" /\ cf.pri[4] = "batch")    \* a ScaleKernel takes over the batch shape of its base kernel
AsmConfigs ==
  UNION {{cf \in [arch : Archs, obj : {"mll", "loo"}, B : {B}, tb : {tb}, n : Ns, stub : {1},
                  pri : [Slots -> IF B = <<>> THEN {"none", "flat"} ELSE {"none", "flat", "batch"}], loss : LossMenu(B)] : AsmOK(cf)}
           : <<B, tb>> \in UNION {{<<B, tb>> : tb \in AsmTargets(B)} : B \in Batches}}

\* where HEAD's shape inference and memo-less traversal are right: no module with a prior on two paths, and a parameter
\* whose own batch shape (own) has fewer dimensions than the objective (rank r) - an unbatched parameter under a batch, any
\* parameter under a target with extra leading dimensions - shows only singleton dimensions where the objective has the
\* dimensions it lacks and has no batch dimension of its own that the shift would pair with the wrong dimension of the
\* objective.  (own = <<>>: the first min(r, |tail|) dimensions of the parameter are 1.)
TermConventional(own, tl, r) ==
  LET t == IMin(r - Len(own), Len(tl))
  IN t = 0 \/ ((\A i \in 1..t : tl[i] = 1) /\ (\A i \in 1..Len(own) : own[i] = 1))
SlotConventional(cf, k) == cf.pri[k] # "none" => TermConventional(OwnBatch(cf, k), SiteTail(cf.arch, k), Len(OB(cf)))
ShapeConventional(cf) == \A k \in Slots : SlotConventional(cf, k)
Conventional(cf) == ~(cf.arch = "shared" /\ cf.pri[4] # "none") /\ ShapeConventional(cf) /\ LooShapeOK(cf, {})

AsmOut(cf) ==
  [exp |-> [other |-> [q \in 1..IProd(OB(cf)) |-> DefOther(cf, q)], div |-> NObs(cf), hc |-> IF cf.obj = "loo" THEN -1 ELSE 0,
            shape |-> OB(cf), pattern |-> Pattern(cf.B, cf.tb)],
   \* which clause of Conventional fails (signatures of the replay)
   why |-> [shape |-> [k \in Slots |-> ~SlotConventional(cf, k)], loo |-> ~LooShapeOK(cf, {}),
            twice |-> cf.arch = "shared" /\ cf.pri[4] # "none"],
   code |-> CodeOther(cf, Repairs),
   agree |-> CodeObj(cf, Repairs) = DefObj(cf),                  \* the code as modelled for the tree under test
   repaired |-> CodeObj(cf, AllRepairs) = DefObj(cf),            \* the code with every repair
   divisor |-> CodeDiv(cf) = NObs(cf),
   conventional |-> Conventional(cf)]

AssemblyOK == (Part = "assembly" /\ out # <<>>) => out.repaired
ConventionalOK == (Part = "assembly" /\ out # <<>>) => (out.conventional => out.agree)
\* as long as no repair is modelled the cells predicted to fail are exactly the unconventional ones
PredictionsSharp == (Part = "assembly" /\ out # <<>> /\ Repairs = {} /\ DivSlips = {}) => (out.agree <=> out.conventional)
\* the divisor of the code of the tree is the number of observations of one batch element for EVERY pair of batch shapes
\* (violated, as it must be, when DivSlips # {})
DivisorOK == (Part = "assembly" /\ out # <<>>) => out.divisor

\* ============================ part "sum" =======================================================
CompMenu ==
  [n : Ns, pri : {<<"none", "none", "none", "none">>, <<"flat", "none", "none", "none">>, <<"flat", "flat", "flat", "flat">>},
   loss : {<<"unreg", "unreg">>, <<"scalar", "unreg">>}]
SumConfigs == [cls : {"mll", "loo"}, comps : UNION {[1..m -> CompMenu] : m \in 1..MaxModels}]
CompCfg(sc, i) ==
  [arch |-> "plain", obj |-> sc.cls, B |-> <<>>, tb |-> <<>>, n |-> sc.comps[i].n, stub |-> i, pri |-> sc.comps[i].pri, loss |-> sc.comps[i].loss]
\* sum(mll(output, target) for ...).div_(len(self.mlls))
SumCode(sc) ==
  LET m == Len(sc.comps) vals == [i \in 1..m |-> CodeObj(CompCfg(sc, i), Repairs)]
  IN IF \E i \in 1..m : vals[i].err THEN [err |-> TRUE, v |-> RZero, hc |-> RZero]
     ELSE [err |-> FALSE, v |-> RDiv(RSum([i \in 1..m |-> vals[i].v[1]]), R(m)), hc |-> RDiv(RSum([i \in 1..m |-> vals[i].hc]), R(m))]
\* the mean over the member models of their objectives
SumDef(sc) ==
  LET m == Len(sc.comps) vals == [i \in 1..m |-> DefObj(CompCfg(sc, i))]
  IN [err |-> FALSE, v |-> RMul(RQ(1, m), RSum([i \in 1..m |-> vals[i].v[1]])), hc |-> RMul(RQ(1, m), RSum([i \in 1..m |-> vals[i].hc]))]
SumOut(sc) ==
  [exp |-> [comps |-> [i \in 1..Len(sc.comps) |-> [other |-> DefOther(CompCfg(sc, i), 1), div |-> NObs(CompCfg(sc, i))]],
            m |-> Len(sc.comps), hc |-> IF sc.cls = "loo" THEN -1 ELSE 0],
   agree |-> SumCode(sc) = SumDef(sc)]
SumOK == (Part = "sum" /\ out # <<>>) => out.agree

\* ============================ part "rational" ==================================================
\* instance: X n x d integer inputs (linear kernel K = X X^T), s integer noise per point, mc integer mean constant, y integer targets
InstA(i) == LET X == FromInt(i.X) IN MAdd(MMul(X, Tr(X)), Diag(VFromInt(i.s)))
InstRes(i) == [k \in 1..Len(i.y) |-> R(i.y[k] - i.mc)]
Others(n, k) == [j \in 1..(n - 1) |-> IF j < k THEN j ELSE j + 1]

\* ---- definition: predictive density of y_k given all other observations = the Gaussian conditional on the data set without k
LooMean(i, A, k) ==
  LET n == Len(i.y) o == Others(n, k)
  IN IF n = 1 THEN R(i.mc)
     ELSE CondMean(<<R(i.mc)>>, Sel(A, <<k>>, o), Sel(A, o, o), VSel(VFromInt(i.y), o), [j \in 1..(n - 1) |-> R(i.mc)])[1]
LooVar(i, A, k) ==
  LET n == Len(i.y) o == Others(n, k)
  IN IF n = 1 THEN A[1][1] ELSE CondCov(<< <<A[k][k]>> >>, Sel(A, <<k>>, o), Sel(A, o, o))[1][1]

\* ---- code: sigma2 = 1 / diag(A^-1); mu = y - (A^-1 (y - m)) * sigma2
CodeLoo(i, A) ==
  LET n == Len(i.y) Ai == Inv(A) al == MVec(Ai, InstRes(i))
      s2 == [k \in 1..n |-> RDiv(ROne, Ai[k][k])]
  IN [mu |-> [k \in 1..n |-> RSub(R(i.y[k]), RMul(al[k], s2[k]))], s2 |-> s2]

\* ---- the factorisation path without square roots: pivots of the elimination (squares of the Cholesky diagonal) and the
\*      forward-substituted quadratic form
SchurFirst(M) == Mk(Rows(M) - 1, Rows(M) - 1, LAMBDA a, b : RSub(M[a + 1][b + 1], RDiv(RMul(M[a + 1][1], M[1][b + 1]), M[1][1])))
RECURSIVE Pivots(_)
Pivots(M) == IF Rows(M) = 0 THEN <<>> ELSE <<M[1][1]>> \o Pivots(SchurFirst(M))
RECURSIVE QuadElim(_, _)
QuadElim(M, r) ==
  IF Rows(M) = 0 THEN RZero
  ELSE RAdd(RDiv(RMul(r[1], r[1]), M[1][1]),
            QuadElim(SchurFirst(M), [a \in 1..(Rows(M) - 1) |-> RSub(r[a + 1], RDiv(RMul(M[a + 1][1], r[1]), M[1][1]))]))
RECURSIVE RProd(_)
RProd(q) == IF q = <<>> THEN ROne ELSE RMul(Head(q), RProd(Tail(q)))

RatOut(i) ==
  LET n == Len(i.y) A == InstA(i) r == InstRes(i)
      det == Det(A) quad == Dot(r, Solve(A, r))
      mu == [k \in 1..n |-> LooMean(i, A, k)] s2 == [k \in 1..n |-> LooVar(i, A, k)]
      code == CodeLoo(i, A) piv == Pivots(A)
  IN [det |-> det, quad |-> quad, mu |-> mu, s2 |-> s2,
      pd |-> IsPD(A) /\ \A k \in 1..n : RLt(RZero, s2[k]),
      looAgree |-> code.mu = mu /\ code.s2 = s2,
      elimAgree |-> RProd(piv) = det /\ QuadElim(A, r) = quad /\ \A k \in 1..n : RLt(RZero, piv[k])]
RationalOK == (Part = "rational" /\ out # <<>>) => (out.pd /\ out.looAgree /\ out.elimAgree)

\* ============================ part "lattice" ===================================================
\* prior assignment: (lengthscale, outputscale, noise) -> family of the prior on the CONSTRAINED value
PriorMenu ==
  {<<"none", "none", "none">>, <<"gamma", "gamma", "gamma">>, <<"normal", "lognormal", "gamma">>,
   <<"lognormal", "none", "normal">>, <<"none", "gamma", "none">>, <<"gamma", "normal", "lognormal">>}
\* reg: how the priors are registered (constructor argument / register_prior by parameter name); hist: what happened to
\* the evaluated object (fresh: built and set; copy_set: deep copy of a model, then other hyperparameters; load: a freshly
\* built model that loaded the state_dict of a model with other hyperparameters).  Away from (ctor, fresh) the solver
\* setting, the mean and the second stationary kernel are not varied again.
\* B: batch shape of every module of the model (kernel, mean, likelihood) = batch shape of the marginal distribution;
\* tb: batch shape of the target (TargetShapes(B)); xb: the inputs carry the batch shape too ("batched") or one set of inputs is
\* shared by the batch of hyperparameter settings ("shared").  Away from (tb = B without unit dimensions, batched inputs) the
\* registration form, the history, the mean and the kernel are not varied again, the prior menu is PatternPriors and shared
\* inputs meet the equal, the scalar (tb = <<>>) and the extra-dimension targets only.
PatternPriors == {<<"none", "none", "none">>, <<"gamma", "gamma", "gamma">>, <<"normal", "lognormal", "gamma">>, <<"none", "gamma", "none">>}
DenseBatches == {<<>>, <<2>>, <<1>>}
\* own dimensions of the parameters of the dense models (ARD lengthscale 1 x 2, outputscale scalar, noise 1, task noises 2)
DenseTail(site) == CASE site = "lengthscale" -> <<1, 2>> [] site = "outputscale" -> <<>> [] site = "noise" -> <<1>> [] site = "task_noises" -> <<2>>
KernelParts(x) == IF x.kernel = "sum" THEN <<"1", "2">> ELSE <<"1">>
CellSites(x) ==
  (IF x.pri[1] = "none" THEN {} ELSE {"lengthscale"}) \cup (IF x.pri[2] = "none" THEN {} ELSE {"outputscale"})
    \cup (IF x.pri[3] = "none" THEN {} ELSE IF x.lik = "mt0" THEN {"noise", "task_noises"} ELSE {"noise"})
\* the float64 cells stay where the shape inference of _add_other_terms is right (part "assembly" decides the others exactly)
DenseConventional(x) == \A site \in CellSites(x) : TermConventional(x.B, DenseTail(site), Len(Bcast(x.B, x.tb)))
CellPlain(x) == x.tb = x.B /\ ~HasUnit(x.B) /\ x.xb = "batched"
CellOK(x) ==
  /\ x.obj = "loo" => x.lik \in {"homo", "fixed"}
  /\ x.lik = "fixed" => x.pri[3] = "none"                \* no learned noise parameter
  /\ (x.reg # "ctor" \/ x.hist # "fresh") =>
        (x.path = "default" /\ x.mean = "const" /\ x.kernel # "matern" /\ x.pri # <<"none", "none", "none">>)
  /\ x.tb \in TargetShapes(x.B)
  /\ x.xb = "shared" => (x.B # <<>> /\ (x.tb = x.B \/ x.tb = <<>> \/ Len(x.tb) > Len(x.B)))
  /\ ~CellPlain(x) => (x.reg = "ctor" /\ x.hist = "fresh" /\ x.mean = "const" /\ x.kernel = "rbf" /\ x.pri \in PatternPriors)
  /\ x.tb = x.B => (CellPlain(x) \/ x.path = "default")
  /\ DenseConventional(x)
Cells ==
  {x \in [kernel : {"rbf", "matern", "sum"}, mean : {"const", "linear"}, lik : {"homo", "fixed", "mt0", "mt1"},
          B : DenseBatches, tb : UNION {TargetShapes(B) : B \in DenseBatches}, xb : {"batched", "shared"},
          pri : PriorMenu, obj : {"mll", "loo"}, path : {"chol_setting", "default"},
          reg : {"ctor", "name"}, hist : {"fresh", "copy_set", "load"}] : CellOK(x)}
\* the parameters whose log prior density the definition contains: <<parameter, family>>
CellTerms(x) ==
  LET kp == KernelParts(x)
  IN (IF x.pri[1] = "none" THEN <<>> ELSE [i \in 1..Len(kp) |-> <<"lengthscale." \o kp[i], x.pri[1]>>])
     \o (IF x.pri[2] = "none" THEN <<>> ELSE [i \in 1..Len(kp) |-> <<"outputscale." \o kp[i], x.pri[2]>>])
     \o (IF x.pri[3] = "none" THEN <<>>
         ELSE IF x.lik = "mt0" THEN << <<"task_noises", x.pri[3]>>, <<"noise", x.pri[3]>> >>
         ELSE << <<"noise", x.pri[3]>> >>)
CellOut(x) ==
  [terms |-> CellTerms(x), tasks |-> IF x.lik \in {"mt0", "mt1"} THEN 2 ELSE 1, hc |-> IF x.obj = "loo" THEN -1 ELSE 0,
   \* one value per broadcast batch element, each divided by N x tasks
   shape |-> Bcast(x.B, x.tb), pattern |-> Pattern(x.B, x.tb), looAligned |-> Aligned(x.B, x.tb)]
LatticeOK ==
  (Part = "lattice" /\ out # <<>>) =>
     /\ out.tasks \in {1, 2} /\ \A i \in 1..Len(out.terms) : out.terms[i][2] # "none"
     /\ Compatible(c.B, c.tb) /\ Compatible(c.B, out.shape) /\ Compatible(c.tb, out.shape) /\ Len(out.shape) = IMax(Len(c.B), Len(c.tb))

\* ============================ part "zoo" =======================================================
\* cell z: kernel (library class, under a ScaleKernel), lik (homo | fixed | fixedlearn), kw ("none" | "noise": noise=v is given
\*   to the objective, v has one entry per training point), args ("none" | "inputs": the train inputs are passed as *params),
\*   B (batch shape of every module, of the data and of v), n (training points), obj, rot (rotation of the prior families)
ZooClasses == {"rbf", "matern", "rq", "pp", "periodic", "cosine", "linear", "poly", "constk", "cyl", "arc"}
\* the public parameter properties of the class that have a *_prior constructor argument (in the constructor's order; a dotted
\* name goes through a sub-module) and those that have none
ZooPriorParams(k) ==
  CASE k \in {"rbf", "matern", "rq", "pp"} -> <<"lengthscale">>
    [] k = "periodic" -> <<"lengthscale", "period_length">>
    [] k = "cosine"   -> <<"period_length">>
    [] k = "linear"   -> <<"variance">>
    [] k = "poly"     -> <<"offset">>
    [] k = "constk"   -> <<"constant">>
    [] k = "cyl"      -> <<"angular_weights", "alpha", "beta", "radial_base_kernel.lengthscale">>
    [] k = "arc"      -> <<"lengthscale", "angle", "radius">>
ZooFreeParams(k) == IF k = "rq" THEN <<"alpha">> ELSE <<>>
ZooLikParams(lik) == CASE lik = "homo" -> <<"likelihood.noise">> [] lik = "fixedlearn" -> <<"likelihood.second_noise">> [] OTHER -> <<>>
Prefixed(pre, names) == [i \in 1..Len(names) |-> pre \o names[i]]
\* every constrained parameter of the model by public name, parameters WITH a prior argument first
ZooWithPrior(z) ==
  Prefixed("covar_module.base_kernel.", ZooPriorParams(z.kernel)) \o <<"covar_module.outputscale", "mean_module.constant">> \o ZooLikParams(z.lik)
ZooParams(z) == ZooWithPrior(z) \o Prefixed("covar_module.base_kernel.", ZooFreeParams(z.kernel))
\* the value of a parameter is identified by its rank; the replay maps ranks to pairwise distinct constrained values
ZooRank(z, i) == i
ZooFams == <<"gamma", "normal", "lognormal">>
ZooFam(z, i) == ZooFams[((i - 1 + z.rot) % 3) + 1]

\* ---- noise components of S (how many times each enters the sum)
NoNoise == [call |-> 0, stored |-> 0, learned |-> 0, second |-> 0]
\* definition: a call-time noise is the observation noise of that evaluation; it replaces the stored (fixed) / the learned
\* (homoskedastic) noise; the learned additional noise of a fixed noise likelihood is added in either case
DefNoise(z) ==
  LET first == IF z.kw = "noise" THEN "call" ELSE IF z.lik = "homo" THEN "learned" ELSE "stored"
      a == [NoNoise EXCEPT ![first] = 1]
  IN IF z.lik = "fixedlearn" THEN [a EXCEPT !.second = 1] ELSE a
\* code: FixedGaussianNoise.forward(*params, shape, noise=None): m = number of points of the evaluated distribution (from
\* shape or from params[0]), ns = length of the stored noise
FixedForward(kw, m, ns, slips) ==
  IF "stored_first" \in slips
  THEN (IF m = ns THEN "stored" ELSE IF kw = "noise" THEN "call" ELSE "zero")
  ELSE (IF kw = "noise" THEN "call" ELSE IF m = ns THEN "stored" ELSE "zero")
\* HomoskedasticNoise.forward: if "noise" in kwargs: that noise is used directly
HomoForward(kw) == IF kw = "noise" THEN "call" ELSE "learned"
Bump(a, f) == IF f = "zero" THEN a ELSE [a EXCEPT ![f] = @ + 1]
CodeNoise(z, slips) ==
  \* the objective is evaluated on the training data: the evaluated distribution has as many points as the stored noise
  LET m == z.n ns == z.n
  IN IF z.lik = "homo" THEN Bump(NoNoise, HomoForward(z.kw))
     ELSE LET a == Bump(NoNoise, FixedForward(z.kw, m, ns, slips))
          IN IF z.lik # "fixedlearn" THEN a
             \* _shaped_noise_covar hides the noise keyword from the second noise model (slip: it does not)
             ELSE IF "second_sees_noise" \in slips /\ z.kw = "noise" THEN Bump(a, "call") ELSE Bump(a, "second")

\* ---- prior terms: <<public name, family, rank of the value the density is taken at>>
ZooTerms(z) == [i \in 1..Len(ZooWithPrior(z)) |-> <<ZooWithPrior(z)[i], ZooFam(z, i), ZooRank(z, i)>>]
\* code: prior.log_prob(closure(module)); the closure a constructor registers reads the parameter it names (slip: the closure
\* of the second, third .. prior argument of a class reads the parameter of the argument before it)
CodeReads(z, slips) ==
  LET np == Len(ZooPriorParams(z.kernel))
  IN [i \in 1..Len(ZooWithPrior(z)) |-> IF "getter_reads_sibling" \in slips /\ i > 1 /\ i <= np THEN ZooRank(z, i - 1) ELSE ZooRank(z, i)]

ZooPlain(z) == z.lik = "homo" /\ z.kw = "none" /\ z.args = "none"
ZooCellOK(z) ==
  /\ z.obj = "loo" => z.kw = "none"               \* LeaveOneOutPseudoLikelihood.forward(function_dist, target, *params) takes no keywords
  /\ ~ZooPlain(z) => (z.kernel \in NoiseKernels /\ z.rot = 0)
ZooCells ==
  {z \in [kernel : ZooKernels, lik : {"homo", "fixed", "fixedlearn"}, kw : {"none", "noise"}, args : {"none", "inputs"},
          B : {<<>>, <<2>>}, n : Ns, obj : {"mll", "loo"}, rot : Rots] : ZooCellOK(z)}
ZooOut(z) ==
  [params |-> [i \in 1..Len(ZooParams(z)) |-> <<ZooParams(z)[i], ZooRank(z, i)>>],
   terms |-> ZooTerms(z), reads |-> CodeReads(z, ZooSlips),
   noise |-> DefNoise(z), codeNoise |-> CodeNoise(z, ZooSlips),
   shape |-> z.B, div |-> z.n, hc |-> IF z.obj = "loo" THEN -1 ELSE 0]
ZooNoiseOK == (Part = "zoo" /\ out # <<>>) => (out.codeNoise = out.noise /\ out.noise.call + out.noise.stored + out.noise.learned = 1)
ZooPriorsOK == (Part = "zoo" /\ out # <<>>) => \A i \in 1..Len(out.terms) : out.reads[i] = out.terms[i][3]
\* every parameter of the model has a value of its own, and every term names a parameter of the model
ZooDistinct ==
  (Part = "zoo" /\ out # <<>>) =>
     /\ \A i, j \in 1..Len(out.params) : i # j => (out.params[i][1] # out.params[j][1] /\ out.params[i][2] # out.params[j][2])
     /\ \A i \in 1..Len(out.terms) : \E j \in 1..Len(out.params) : out.params[j][1] = out.terms[i][1] /\ out.params[j][2] = out.terms[i][3]

\* ============================ part "history" ===================================================
\* configuration h: arch (plain / shared), B, n, reg[k] in none | ctor | closure | name  (how the prior of slot k is registered)
\* state: h, objs (the model objects made so far: generation of the hyperparameter values + the closure of every prior),
\*        hist (the operations so far), ng (next unused generation)
AllSlips == {"name_captures_self"}
\* the assembly configuration the object is an instance of: every registered prior sits on a parameter that carries the
\* batch shape of the objective (conventional shapes: the shape inference of _add_other_terms is not the subject here)
HCf(h) == [arch |-> h.arch, obj |-> "mll", B |-> h.B, tb |-> h.B, n |-> h.n, stub |-> 1,
           pri |-> [k \in Slots |-> IF h.reg[k] = "none" THEN "none" ELSE IF h.B = <<>> THEN "flat" ELSE "batch"],
           loss |-> <<"unreg", "unreg">>]
\* what register_prior stores for object o.  kind: a bound method of the module (constructor form: self._x_param) or a
\* plain function; reads: the module it is CALLED with (closure(module)) or the module it remembers
MkClosure(form, o, slips) ==
  CASE form = "ctor"    -> [kind |-> "method", reads |-> "arg", self |-> o]
    [] form = "closure" -> [kind |-> "function", reads |-> "arg", self |-> o]
    [] form = "name"    -> [kind |-> "function", reads |-> IF "name_captures_self" \in slips THEN "self" ELSE "arg", self |-> o]
    [] OTHER            -> [kind |-> "none", reads |-> "arg", self |-> o]
NewObj(h, o, g) == [gen |-> g, cl |-> [k \in Slots |-> MkClosure(h.reg[k], o, Slips)]]
\* copy.deepcopy / pickle: a bound method is rebuilt around the copy of its module, a function is kept as it is
Rebind(cl, i, j) == IF cl.kind = "method" /\ cl.self = i THEN [cl EXCEPT !.self = j] ELSE cl
Op(name, i, how) == [op |-> name, on |-> i, how |-> how]

\* how in SetHows: "setter" (the public properties), "raw" (in place on the raw parameters through the inverse transform),
\* "state_dict" (the object loads, in place, the state_dict of a scratch model that has the new values)
HSet(s, i, how) == [s EXCEPT !.objs[i].gen = s.ng, !.ng = s.ng + 1, !.hist = Append(@, Op("set", i, how))]
HClone(s, i, name) ==
  LET j == Len(s.objs) + 1
  IN [s EXCEPT !.objs = Append(@, [gen |-> s.objs[i].gen, cl |-> [k \in Slots |-> Rebind(s.objs[i].cl[k], i, j)]]),
               !.hist = Append(@, Op(name, i, "-"))]
\* a model built the same way (its own registrations) that loads the state_dict of object i
HLoad(s, i) ==
  LET j == Len(s.objs) + 1
  IN [s EXCEPT !.objs = Append(@, NewObj(s.h, j, s.objs[i].gen)), !.hist = Append(@, Op("load", i, "-"))]
\* the function register_prior makes for a parameter name is local to it and cannot be pickled (finding of C18): pickling is
\* enumerated for models without name-registered priors
Picklable(h) == \A k \in Slots : h.reg[k] # "name"
LastSetOn(s) == IF s.hist # <<>> /\ s.hist[Len(s.hist)].op = "set" THEN s.hist[Len(s.hist)].on ELSE 0
HSucc(s) ==
  LET os == 1..Len(s.objs) room == Len(s.objs) < MaxObjs
  IN (IF s.ng <= MaxGen THEN {HSet(s, i, how) : i \in os \ {LastSetOn(s)}, how \in SetHows} ELSE {})
     \cup (IF room THEN {HClone(s, i, "copy") : i \in os} \cup {HLoad(s, i) : i \in os} ELSE {})
     \cup (IF room /\ Picklable(s.h) THEN {HClone(s, i, "pickle") : i \in os} ELSE {})

\* ---- what the objective of object o contains
\* log prior density of slot k as seen by batch element q when the hyperparameters have generation g
HPrior(cf, k, q, g) ==
  LET t == IProd(SiteTail(cf.arch, k)) own == IF cf.pri[k] = "batch" THEN q - 1 ELSE 0
  IN Pow10(k - 1) * ISum([e \in 1..t |-> own + e + g])
\* definition: every registered prior at the current value of the parameter of THIS object
HDefOther(s, o, q) ==
  LET cf == HCf(s.h) ps == PriorSites(cf) IN ISum([i \in 1..Len(ps) |-> HPrior(cf, ps[i], q, s.objs[o].gen)])
\* code: named_priors() of object o yields (module, prior, closure); the term is prior.log_prob(closure(module))
HReader(o, cl) == IF cl.reads = "arg" THEN o ELSE cl.self
HCodeOther(s, o, q) ==
  LET cf == HCf(s.h) ps == CodePriors(cf, Repairs)
  IN ISum([i \in 1..Len(ps) |-> HPrior(cf, ps[i], q, s.objs[HReader(o, s.objs[o].cl[ps[i]])].gen)])
HistOut(s) ==
  LET nb == IProd(s.h.B)
  IN [objs |-> [o \in 1..Len(s.objs) |->
                  [gen |-> s.objs[o].gen,
                   exp |-> [q \in 1..nb |-> HDefOther(s, o, q)],
                   code |-> [q \in 1..nb |-> HCodeOther(s, o, q)],
                   reads |-> [k \in Slots |-> HReader(o, s.objs[o].cl[k])]]],
      \* the objective object (ExactMarginalLogLikelihood / LeaveOneOutPseudoLikelihood) made when the model object came into
      \* existence - before the register_prior calls that follow construction and before every later operation - and the one
      \* made when the objective is evaluated: exp is the observation of both
      made |-> <<"built", "evaluated">>,
      div |-> s.h.n, conventional |-> ShapeConventional(HCf(s.h))]
HistDomain ==
  {[h |-> h, objs |-> <<NewObj(h, 1, 0)>>, hist |-> <<>>, ng |-> 1] :
     h \in [arch : Archs \ {"mtask"}, B : Batches, n : Ns, reg : RegMenu]}
\* each prior term is evaluated at the CURRENT constrained value of the parameter of THIS model, for every live object
HistoryOK ==
  (Part = "history") =>
     /\ out.conventional
     /\ \A o \in 1..Len(out.objs) : out.objs[o].code = out.objs[o].exp
\* (stronger, about the closures themselves) no registered closure of an object reads another object
ReadsThis == (Part = "history") => \A o \in 1..Len(out.objs) : \A k \in Slots : out.objs[o].reads[k] = o

\* ============================ machine =========================================================
Domain ==
  CASE Part = "assembly" -> AsmConfigs
    [] Part = "sum"      -> SumConfigs
    [] Part = "rational" -> Instances
    [] Part = "lattice"  -> Cells
    [] Part = "zoo"      -> ZooCells
    [] Part = "history"  -> HistDomain
OutOf(x) ==
  CASE Part = "assembly" -> AsmOut(x)
    [] Part = "sum"      -> SumOut(x)
    [] Part = "rational" -> RatOut(x)
    [] Part = "lattice"  -> CellOut(x)
    [] Part = "zoo"      -> ZooOut(x)
    [] Part = "history"  -> HistOut(x)

Init == c \in Domain /\ out = IF Part = "history" THEN HistOut(c) ELSE <<>>
\* every case is evaluated in a step of its own so that TLC's workers share the cases
Evaluate == Part # "history" /\ out = <<>> /\ out' = OutOf(c) /\ UNCHANGED c
\* part "history": one operation on one of the model objects; the observation is re-made in every state
Operate == Part = "history" /\ Len(c.hist) < HistLen /\ \E s2 \in HSucc(c) : c' = s2 /\ out' = HistOut(s2)
Next == Evaluate \/ Operate \/ UNCHANGED vars

Spec == Init /\ [][Next]_vars
=============================================================================
