------------------------------- MODULE Fantasy -------------------------------
(***************************************************************************)
(* get_fantasy_model (property C04), three parts selected by Part:         *)
(*                                                                         *)
(*  "shapes"  the batch-shape reconciliation of ExactGP.get_fantasy_model  *)
(*            transcribed (tbdim / ibdim rule, model batch taking over     *)
(*            shorter shapes, expansion of shared inputs) against the      *)
(*            documented meaning: inputs and targets are b1..bk x m (x d)  *)
(*            or f x b1..bk x m (x d); the fantasy model is a batch GP     *)
(*            over f x b1..bk (or b1..bk) holding n + m points.            *)
(*  "update"  the bordered-system update of the mean cache in              *)
(*            DefaultPredictionStrategy.get_fantasy_strategy, evaluated    *)
(*            exactly over rationals, against the solve of the             *)
(*            concatenated system and the Gaussian conditional on the      *)
(*            concatenated data (also twice: fantasies of fantasies).      *)
(*  "list"    IndependentModelList.get_fantasy_model: per-member routing   *)
(*            of the noise list (None entries) - member k is fantasized    *)
(*            with its own arguments only.                                 *)
(*  "machine" source model + fantasy models as data versions: creating a   *)
(*            fantasy leaves the source untouched; the data of a fantasy   *)
(*            of a fantasy is the concatenation in order.                  *)
(***************************************************************************)
EXTENDS LinAlg, TLC

CONSTANTS Part, Dims, MaxRank, Instances,
          FantasyFollowsSource   \* TRUE: the defect repaired in the tree - the strategy of a fantasy model evaluates the SOURCE's kernel lazily

VARIABLES c,       \* the enumerated case (shapes / update) or the machine state
          out      \* what the spec says must be observed (recorded for replay)
vars == <<c, out>>

\* ============================ part "shapes" ===================================================
Shapes(r) == UNION {[1..k -> Dims] : k \in 0..r}
FMax(a, b) == IF a > b THEN a ELSE b
Pad(s, r) == [i \in 1..(r - Len(s)) |-> 1] \o s
Bcastable(a, b) ==
  LET r == FMax(Len(a), Len(b)) pa == Pad(a, r) pb == Pad(b, r)
  IN \A i \in 1..r : pa[i] = pb[i] \/ pa[i] = 1 \/ pb[i] = 1
Bcast(a, b) ==
  LET r == FMax(Len(a), Len(b)) pa == Pad(a, r) pb == Pad(b, r)
  IN [i \in 1..r |-> FMax(pa[i], pb[i])]
\* tensor.expand(target): existing dims must be 1 or equal, rank may grow on the left
Expandable(s, target) == Len(s) <= Len(target) /\ LET ps == Pad(s, Len(target)) IN \A i \in 1..Len(target) : ps[i] = target[i] \/ ps[i] = 1

\* code-shaped: returns [ok, xb (batch shape of the new model's train inputs), yb (of its train targets)]
CodeShapes(MB, IB, TB) ==
  LET tb == Len(TB) ib == Len(IB)
  IN IF ~(tb = ib + 1 \/ tb = ib) THEN [ok |-> FALSE, xb |-> <<>>, yb |-> <<>>]
     ELSE IF ~Bcastable(MB, TB) THEN [ok |-> FALSE, xb |-> <<>>, yb |-> <<>>]
     ELSE
       LET IB2 == IF Len(MB) > Len(IB) THEN MB ELSE IB
           TB2 == IF Len(MB) > Len(TB) THEN MB ELSE TB
       IN IF ~(Expandable(MB, IB2) /\ Expandable(IB, IB2) /\ Expandable(MB, TB2) /\ Expandable(TB, TB2))
            THEN [ok |-> FALSE, xb |-> <<>>, yb |-> <<>>]
          ELSE [ok |-> TRUE,
                xb |-> IF tb = ib + 1 THEN (IF Expandable(IB2, TB2) THEN TB2 ELSE <<0>>) ELSE IB2,
                yb |-> TB2]

\* documented: with model batch B, inputs are B or <<f>> \o B, targets are B or <<f>> \o B, inputs not longer than targets
\* ("If inputs is of the same (or lesser) dimension as targets ... the fantasy points are the same for each target
\* batch": the inputs may also lack the leading dimension of a target batch that is the MODEL's own batch)
Supported(MB, IB, TB) ==
  \/ IB = MB /\ TB = MB
  \/ IB = MB /\ Len(TB) = Len(MB) + 1 /\ Tail(TB) = MB
  \/ Len(IB) = Len(MB) + 1 /\ Tail(IB) = MB /\ TB = IB
  \/ Len(MB) >= 1 /\ TB = MB /\ IB = Tail(MB)
Meaning(MB, IB, TB) == IF Len(TB) > Len(MB) THEN TB ELSE MB      \* batch shape of the fantasy model

ShapeCases == {q \in Shapes(MaxRank) \X Shapes(MaxRank + 1) \X Shapes(MaxRank + 1) : Supported(q[1], q[2], q[3])}

ShapesOK ==
  Part = "shapes" =>
    LET r == CodeShapes(c[1], c[2], c[3])
    IN r.ok /\ r.xb = Meaning(c[1], c[2], c[3]) /\ r.yb = Meaning(c[1], c[2], c[3])

\* ============================ part "update" ===================================================
\* instance: G (n+m) x 2 integer feature matrix (linear kernel K = G G^T), noise s2, targets y, n
Kfull(i) == LET G == FromInt(i.G) IN MAdd(MMul(G, Tr(G)), MScale(R(i.s2), Ident(Len(i.G))))
Gram(i)  == LET G == FromInt(i.G) IN MMul(G, Tr(G))

\* code-shaped: alpha = A^-1 y; Q = A^-1 U; b = (S - U'Q)^-1 (yf - U' alpha); a = alpha - Q b
UpdatedCache(i) ==
  LET n == i.n N == Len(i.G) K == Kfull(i) y == VFromInt(i.y)
      A == Block(K, 1, n, 1, n)
      U == Block(K, 1, n, n + 1, N)            \* train x fant
      S == Block(K, n + 1, N, n + 1, N)
      alpha == Solve(A, SubSeq(y, 1, n))
      Q == MMul(Inv(A), U)
      schur == MSub(S, MMul(Tr(U), Q))
      rhs == VSub(SubSeq(y, n + 1, N), MVec(Tr(U), alpha))
      b == Solve(schur, rhs)
      a == VSub(alpha, MVec(Q, b))
  IN a \o b

FullSolve(i) == Solve(Kfull(i), VFromInt(i.y))

\* prediction at the test feature row t* through the updated cache vs the conditional on all n+m points
PredMean(i, cache) ==
  LET G == FromInt(i.G) ts == FromInt(<<i.t>>) Ksx == MMul(ts, Tr(G)) IN MVec(Ksx, cache)
CondOnAll(i) ==
  LET G == FromInt(i.G) ts == FromInt(<<i.t>>) Ksx == MMul(ts, Tr(G))
  IN CondMean(<<RZero>>, Ksx, Kfull(i), VFromInt(i.y), [k \in 1..Len(i.G) |-> RZero])

UpdateOK ==
  Part = "update" =>
    /\ IsPD(Kfull(c))
    /\ UpdatedCache(c) = FullSolve(c)
    /\ PredMean(c, UpdatedCache(c)) = CondOnAll(c)

\* ============================ part "list" =====================================================
\* members: likelihood kinds; noise: <<"-", "-">> (no noise keyword) or a sequence of entries "v" (a tensor) / "N" (None)
ListKinds == {"homo", "fixed", "fixed+learned"}
NoKwd == <<"-", "-">>
ListCases ==
  {[members |-> <<k1, k2>>, noise |-> nz] : k1 \in ListKinds, k2 \in ListKinds, nz \in {NoKwd} \cup [1..2 -> {"v", "N"}]}
\* a fixed-noise member needs the noise of its fantasy points; a homoskedastic member is given none
ListSupported(q) ==
  IF q.noise = NoKwd THEN \A k \in 1..2 : q.members[k] = "homo"
  ELSE \A k \in 1..2 : (q.members[k] = "homo") <=> (q.noise[k] = "N")
\* documented: member k receives its own entry (and nothing when the entry is None)
OwnKw(q, k) == IF q.noise = NoKwd \/ q.noise[k] = "N" THEN "none" ELSE "v" \o ToString(k)
\* code-shaped (model_list.py): kwargs = [{**kwargs, "noise": noise_} if noise_ is not None else kwargs for noise_ in noise]
CodeKw(q, k) == IF q.noise = NoKwd THEN "none" ELSE IF q.noise[k] # "N" THEN "v" \o ToString(k) ELSE "none"
ListOK == Part = "list" => \A k \in 1..2 : CodeKw(c, k) = OwnKw(c, k)

\* ============================ part "machine" ==================================================
\* c = [models |-> sequence of [data, parent, psExists], next id]; model 1 is the source
\* hv: version of the model's OWN hyperparameters (a fantasy model starts with a copy of its parent's current values)
MInit == [models |-> << [data |-> <<"train">>, parent |-> 0, ps |-> TRUE, touched |-> 0, hv |-> <<0>>] >>, nf |-> 0, nr |-> 0]
MaxModels == 4
MaxOps == 5
GetFantasy(k) ==
  /\ Part = "machine" /\ Len(c.models) < MaxModels /\ c.models[k].ps /\ Len(out) < MaxOps
  /\ c' = [models |-> Append(c.models, [data |-> Append(c.models[k].data, "f" \o ToString(c.nf + 1)), parent |-> k, ps |-> TRUE, touched |-> 0,
                                        hv |-> c.models[k].hv]),
           nf |-> c.nf + 1, nr |-> c.nr]
  /\ out' = Append(out, [a |-> "GetFantasy", of |-> k, new |-> Len(c.models) + 1, data |-> Append(c.models[k].data, "f" \o ToString(c.nf + 1))])

\* evaluating a model fills its own caches ("touched" counts its evaluations) and nothing else; a fantasy may be created from a
\* model that has never been evaluated itself (it carries a strategy from its creation) - every interleaving of creations and
\* evaluations over the family tree is a history
Predict(k) ==
  /\ Part = "machine" /\ Len(out) < MaxOps
  /\ c' = [c EXCEPT !.models[k].touched = 1]
  /\ out' = Append(out, [a |-> "Predict", of |-> k, new |-> 0, data |-> c.models[k].data])
\* the hyperparameters of model k are re-fitted (train(), new values, eval(), one prediction): only model k changes - its earlier
\* fantasies keep the values they were created with, its later fantasies get the new ones
Refit(k) ==
  /\ Part = "machine" /\ Len(out) < MaxOps /\ c.nr < 1
  /\ c' = [c EXCEPT !.nr = @ + 1,
                    !.models = [j \in 1..Len(c.models) |->
                                  IF j = k \/ (FantasyFollowsSource /\ c.models[j].parent = k)
                                  THEN [c.models[j] EXCEPT !.hv = Append(@, c.nr + 1), !.touched = IF j = k THEN 1 ELSE @]
                                  ELSE c.models[j]]]
  /\ out' = Append(out, [a |-> "Refit", of |-> k, new |-> 0, data |-> c.models[k].data])
HyperOwn == [][ Part = "machine" => \A k \in 1..Len(c.models) :
                 c'.models[k].hv # c.models[k].hv => (Len(out') = Len(out) + 1 /\ out'[Len(out')].a = "Refit" /\ out'[Len(out')].of = k) ]_vars
\* the denotation of every model is fixed at its creation: (hyperparameters, data)
DataFixed == [][ Part = "machine" => \A k \in 1..Len(c.models) : c'.models[k].data = c.models[k].data /\ c'.models[k].parent = c.models[k].parent ]_vars

SourceUntouched == [][ Part = "machine" /\ Len(c'.models) > Len(c.models) => \A k \in 1..Len(c.models) : c'.models[k] = c.models[k] ]_vars
DataIsConcatenation ==
  Part = "machine" => \A k \in 2..Len(c.models) :
     LET p == c.models[k].parent IN SubSeq(c.models[k].data, 1, Len(c.models[p].data)) = c.models[p].data
                                    /\ Len(c.models[k].data) = Len(c.models[p].data) + 1

Init ==
  /\ out = <<>>
  /\ CASE Part = "shapes"  -> c \in ShapeCases
       [] Part = "update"  -> c \in Instances
       [] Part = "list"    -> c \in {q \in ListCases : ListSupported(q)}
       [] Part = "machine" -> c = MInit

Next ==
  IF Part = "machine" THEN \E k \in 1..Len(c.models) : GetFantasy(k) \/ Predict(k) \/ Refit(k)
  ELSE UNCHANGED vars

Spec == Init /\ [][Next]_vars
=============================================================================
