------------------------------ MODULE Settings ------------------------------
(***************************************************************************)
(* gpytorch.settings / linear_operator.settings / gpytorch.beta_features:  *)
(* process-global flags and values manipulated by context managers.        *)
(*                                                                         *)
(* Two machines run side by side.                                          *)
(*  - the CODE-SHAPED machine: `glob` (the class attributes), `stack` (the  *)
(*    context objects that have been entered, each holding exactly what    *)
(*    the code saves in __init__), `pend` (an object that has been         *)
(*    constructed but not entered: the code captures the "previous" value  *)
(*    in __init__, not in __enter__).                                      *)
(*  - the SEMANTIC machine of property C20: `ideal`, a shadow stack of the  *)
(*    values each active block asked for, and `seen`, what was observable  *)
(*    immediately before each block was entered.                           *)
(* The properties say the two agree (InnermostWins, DefaultsOutside) and   *)
(* that every exit - normal or by an exception unwinding k frames - gives  *)
(* back what was observable before the block(s) (RestoredOnExit).          *)
(*                                                                         *)
(* Kinds (the base class a setting derives from):                          *)
(*   flag     _feature_flag        field state in {None,T,F}; on() reads   *)
(*                                 the default when state is None          *)
(*   value    _value_context       field v                                 *)
(*   dtypeGP  gpytorch._dtype_value_context   fields f,d,h; __init__       *)
(*            replaces a None argument by the current value                *)
(*   dtypeLO  linear_operator._dtype_value_context  fields f,d,h; keeps    *)
(*            None arguments; _set_value skips None                        *)
(*   fpv      fast_pred_var        fields state, probes                    *)
(*   fc       fast_computations    three private flags root,logprob,solves *)
(*   ld       linalg_dtypes        two private values symeig, chol         *)
(***************************************************************************)
EXTENDS Integers, Sequences, FiniteSets, TLC

CONSTANTS Setting,      \* set of setting names
          Kind,         \* [Setting -> kind string]
          DefOn,        \* [Setting -> "T"|"F"]  _default of flag-like settings (ignored otherwise)
          HalfNone,     \* [Setting -> BOOLEAN]  dtype settings whose half default is None
          ExitSkipsNone,\* [kind -> BOOLEAN]     does __exit__ go through the None-skipping setter?
          WarnsOnEnter, \* set of settings whose __enter__ may raise (a warning escalated to an error)
          WarnBeforeSet,\* BOOLEAN code shape: the warning is issued BEFORE the global is written (current code: TRUE)
          LibReusesObject, \* BOOLEAN: library code enters a context OBJECT it built once (at import) instead of constructing one per use
                        \*          (current code: FALSE); such an object restores what was visible when it was constructed
          WithLibOp,    \* BOOLEAN: include the LibOp action (off in most history-generation runs: it multiplies the histories)
          MaxDepth,     \* nesting bound
          MaxLen,       \* program length bound (only used when history is recorded)
          RecordHist    \* BOOLEAN: carry the history variable (generation configs)

VARIABLES glob, stack, pend, ideal, hist

vars == <<glob, stack, pend, ideal, hist>>

None == "None"

FieldsOf(k) ==
  CASE k = "flag"    -> {"state"}
    [] k = "value"   -> {"v"}
    [] k = "dtypeGP" -> {"f", "d", "h"}
    [] k = "dtypeLO" -> {"f", "d", "h"}
    [] k = "fpv"     -> {"state", "probes"}
    [] k = "fc"      -> {"root", "logprob", "solves"}
    [] k = "ld"      -> {"symeig", "chol"}

FlagField(k, f) == (k = "flag" /\ f = "state") \/ (k = "fpv" /\ f = "state") \/ k = "fc"

\* what the class attributes hold in a fresh interpreter
DefaultRaw(s) ==
  [f \in FieldsOf(Kind[s]) |->
     IF FlagField(Kind[s], f) THEN None
     ELSE IF Kind[s] \in {"dtypeGP", "dtypeLO"} /\ f = "h" /\ HalfNone[s] THEN None
     ELSE "d0"]

\* what the public read API returns for raw attribute value x of field f
ObsOf(s, f, x) == IF FlagField(Kind[s], f) /\ x = None THEN DefOn[s] ELSE x

Obs(g) == [s \in Setting |-> [f \in FieldsOf(Kind[s]) |-> ObsOf(s, f, g[s][f])]]

DefaultObs == Obs([s \in Setting |-> DefaultRaw(s)])

\* ---- the arguments a program can pass -------------------------------------------------
\* a request names a value for a field or leaves it unnamed (None)
ArgsOf(k) ==
  CASE k = "flag"    -> [state : {"T", "F"}]
    \* "d0": the block asks for the value that is also the documented default (it is a block like any other: inside an
    \* enclosing non-default block it must win, and leaving it must give the enclosing value back)
    [] k = "value"   -> [v : {"d0", "v1", "v2"}]
    [] k = "dtypeGP" -> [f : {None, "d0", "v1", "v2"}, d : {None, "v1"}, h : {None, "v1", "v2"}]
    [] k = "dtypeLO" -> [f : {None, "d0", "v1", "v2"}, d : {None, "v1"}, h : {None, "v1", "v2"}]
    [] k = "fpv"     -> [state : {"T", "F"}, probes : {"d0", "v1", "v2"}]  \* num_probe_vectors defaults to 1 = d0: always named
    [] k = "fc"      -> [root : {"T", "F"}, logprob : {"T", "F"}, solves : {"T", "F"}]
    [] k = "ld"      -> [symeig : {"d0", "v1", "v2"}, chol : {"d0", "v1"}]     \* after default/None resolution: both always named

\* ---- code-shaped pieces ------------------------------------------------------------------
\* what __init__ stores as the instance value
InstOf(k, args, cur) ==
  IF k = "dtypeGP" THEN [f \in FieldsOf(k) |-> IF args[f] # None THEN args[f] ELSE cur[f]]
  ELSE args

SkipsNone(k) == k \in {"dtypeGP", "dtypeLO"}

\* the setter used by __enter__
SetEnter(k, cur, new) ==
  IF SkipsNone(k) THEN [f \in FieldsOf(k) |-> IF new[f] # None THEN new[f] ELSE cur[f]]
  ELSE new

\* the setter used by __exit__
SetExit(k, cur, saved) ==
  IF SkipsNone(k) /\ ExitSkipsNone[k] THEN [f \in FieldsOf(k) |-> IF saved[f] # None THEN saved[f] ELSE cur[f]]
  ELSE saved

\* ---- the semantic machine --------------------------------------------------------------
\* innermost active block of s that names field f decides; otherwise the documented default
Visible(id, s, f) ==
  LET hits == {i \in 1..Len(id) : id[i].s = s /\ id[i].req[f] # None}
  IN IF hits = {} THEN DefaultObs[s][f]
     ELSE id[CHOOSE i \in hits : \A j \in hits : j <= i].req[f]

VisibleP(id) == [s \in Setting |-> [f \in FieldsOf(Kind[s]) |-> Visible(id, s, f)]]

Init ==
  /\ glob  = [s \in Setting |-> DefaultRaw(s)]
  /\ stack = <<>>
  /\ pend  = <<>>
  /\ ideal = <<>>
  /\ hist  = <<>>

Rec(e) == IF RecordHist THEN hist' = Append(hist, e) ELSE hist' = hist
Room   == RecordHist => Len(hist) < MaxLen

\* `with S(args):` evaluates S(args) first ...
Construct(s, args) ==
  /\ pend = <<>> /\ Len(stack) < MaxDepth /\ Room
  /\ (RecordHist => Len(hist) + 1 < MaxLen)       \* leave room for the Enter
  /\ pend' = << [s |-> s, saved |-> glob[s], inst |-> InstOf(Kind[s], args, glob[s]), req |-> args] >>
  /\ UNCHANGED <<glob, stack, ideal>>
  /\ Rec([a |-> "Construct", s |-> s, args |-> args, k |-> 0, obs |-> Obs(glob)])

\* ... and then calls __enter__
Enter ==
  /\ pend # <<>>
  /\ LET p == pend[1] IN
       /\ glob'  = [glob EXCEPT ![p.s] = SetEnter(Kind[p.s], @, p.inst)]
       /\ stack' = Append(stack, [s |-> p.s, saved |-> p.saved])
       /\ ideal' = Append(ideal, [s |-> p.s, req |-> p.req, seen |-> Obs(glob)])
       /\ Rec([a |-> "Enter", s |-> p.s, args |-> p.req, k |-> 0, obs |-> VisibleP(ideal')])
  /\ pend'  = <<>>

\* __enter__ raises: the `with` statement never calls __exit__, so the block must not have left any effect
EnterFails ==
  /\ pend # <<>> /\ pend[1].s \in WarnsOnEnter
  /\ LET p == pend[1] IN
       /\ glob' = IF WarnBeforeSet THEN glob ELSE [glob EXCEPT ![p.s] = SetEnter(Kind[p.s], @, p.inst)]
       /\ Rec([a |-> "EnterFails", s |-> p.s, args |-> p.req, k |-> 0, obs |-> VisibleP(ideal)])
  /\ UNCHANGED <<stack, ideal>>
  /\ pend' = <<>>

\* k frames are unwound, innermost first, each by its own __exit__
RECURSIVE Unwind(_, _, _)
Unwind(g, st, k) ==
  IF k = 0 THEN g
  ELSE LET fr == st[Len(st)]
       IN Unwind([g EXCEPT ![fr.s] = SetExit(Kind[fr.s], @, fr.saved)], SubSeq(st, 1, Len(st) - 1), k - 1)

Pop(k, how) ==
  /\ pend = <<>> /\ k \in 1..Len(stack) /\ Room
  /\ glob'  = Unwind(glob, stack, k)
  /\ stack' = SubSeq(stack, 1, Len(stack) - k)
  /\ ideal' = SubSeq(ideal, 1, Len(ideal) - k)
  /\ pend'  = <<>>
  /\ Rec([a |-> how, s |-> stack[Len(stack)].s, args |-> [x \in {} |-> None], k |-> k, obs |-> VisibleP(ideal')])

\* library code that needs a setting for the duration of one internal computation (`with settings.X(v): ...` inside a method):
\* construct, enter and exit happen within one call of the user's program - whatever blocks the user has open
LibOp(s, args) ==
  /\ WithLibOp /\ pend = <<>> /\ Room
  /\ LET saved   == IF LibReusesObject THEN DefaultRaw(s) ELSE glob[s]
         inst    == InstOf(Kind[s], args, saved)
         entered == [glob EXCEPT ![s] = SetEnter(Kind[s], @, inst)]
     IN glob' = [entered EXCEPT ![s] = SetExit(Kind[s], @, saved)]
  /\ UNCHANGED <<stack, pend, ideal>>
  /\ Rec([a |-> "LibOp", s |-> s, args |-> args, k |-> 0, obs |-> VisibleP(ideal)])

ExitNormal  == Pop(1, "Exit")
\* an exception raised inside the innermost block and caught outside the k-th enclosing block
ExitByException == \E k \in 1..Len(stack) : Pop(k, "Raise")

Next ==
  \/ \E s \in Setting : \E args \in ArgsOf(Kind[s]) : Construct(s, args)
  \/ Enter
  \/ EnterFails
  \/ ExitNormal
  \/ ExitByException
  \/ \E s \in Setting : \E args \in ArgsOf(Kind[s]) : Kind[s] \in {"flag", "value"} /\ LibOp(s, args)

Spec == Init /\ [][Next]_vars

\* ---- properties ------------------------------------------------------------------------
TypeOK ==
  /\ Len(stack) = Len(ideal) /\ Len(stack) <= MaxDepth
  /\ \A i \in 1..Len(stack) : stack[i].s = ideal[i].s

InnermostWins   == Obs(glob) = VisibleP(ideal)          \* in every state, also between construct and enter

DefaultsOutside == (stack = <<>>) => Obs(glob) = DefaultObs

\* every exit (of k >= 1 frames) restores every field of every setting to what was observable
\* immediately before the outermost of the exited blocks was entered
RestoredOnExit ==
  [][ Len(stack') < Len(stack) => Obs(glob') = ideal[Len(stack') + 1].seen ]_vars

\* entering a block changes only the named fields of that one setting
EnterIsLocal ==
  [][ Len(stack') > Len(stack) =>
        \A s \in Setting : \A f \in FieldsOf(Kind[s]) :
           Obs(glob')[s][f] = IF s = pend[1].s /\ pend[1].req[f] # None THEN pend[1].req[f] ELSE Obs(glob)[s][f] ]_vars

\* a library call leaves every visible setting as it found it, inside any block of the user
LibOpIsInvisible == [][ (stack' = stack /\ pend' = pend) => Obs(glob') = Obs(glob) ]_vars

\* constructing a context object has no visible effect
ConstructIsPure == [][ (pend = <<>> /\ pend' # <<>>) => glob' = glob ]_vars
=============================================================================
