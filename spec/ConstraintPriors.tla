-------------------------- MODULE ConstraintPriors --------------------------
(***************************************************************************)
(* Property C17, priors: the finite lattice of (family, parameters, point)  *)
(* cases at which prior.log_prob is compared with the documented density.   *)
(* Numbers are rationals <<num, den>> with den > 0.  TLC enumerates the     *)
(* lattice (every case is an initial state) and checks the exact parts:    *)
(*   - support classification of the point,                                *)
(*   - SmoothedBoxPrior: the code's distance  max(|x - c| - r, 0)  with    *)
(*     c = (a+b)/2, r = (b-a)/2  is the documented  d(x, B) = min_{x' in B} *)
(*     |x - x'|,                                                           *)
(*   - UniformPrior: density * (b - a) = 1 on the support (normalised),    *)
(*   - MultivariateNormalPrior: |S| > 0 and the quadratic form numerator is *)
(*     non-negative (the covariance grid is positive definite),            *)
(*   - LKJ: the grid matrix is a correlation matrix iff its leading minors *)
(*     are positive; |Sigma| = prod_i L_ii^2 with the Cholesky pivots      *)
(*     L_22^2 = 1 - a^2, L_33^2 = |Sigma| / (1 - a^2) (the documented      *)
(*     density |Sigma|^(eta-1) is a function of the determinant alone).    *)
(* The transcendental part of each density is evaluated by the replay in   *)
(* mpmath from the rationals emitted here.                                 *)
(***************************************************************************)
EXTENDS Integers, Sequences, FiniteSets, TLC

CONSTANTS Pts,      \* numerators of the evaluation points over denominator 4
          Thorough  \* BOOLEAN: larger parameter sets

VARIABLE case
vars == <<case>>

\* ---- rationals with positive denominators ---------------------------------------------------
Q(n, d)   == <<n, d>>
Add(p, q) == <<p[1] * q[2] + q[1] * p[2], p[2] * q[2]>>
Sub(p, q) == <<p[1] * q[2] - q[1] * p[2], p[2] * q[2]>>
Mul(p, q) == <<p[1] * q[1], p[2] * q[2]>>
Half(p)   == <<p[1], 2 * p[2]>>
Lt(p, q)  == p[1] * q[2] < q[1] * p[2]
Le(p, q)  == p[1] * q[2] <= q[1] * p[2]
Eq(p, q)  == p[1] * q[2] = q[1] * p[2]
AbsQ(p)   == IF p[1] < 0 THEN <<-p[1], p[2]>> ELSE p
Zero      == <<0, 1>>
MaxQ(p, q) == IF Lt(p, q) THEN q ELSE p

X == {Q(k, 4) : k \in Pts}

Locs   == {Q(-1, 1), Q(0, 1), Q(1, 2)}
Scales == IF Thorough THEN {Q(1, 2), Q(1, 1), Q(2, 1), Q(1, 4)} ELSE {Q(1, 2), Q(1, 1), Q(2, 1)}
Concs  == IF Thorough THEN {Q(1, 2), Q(1, 1), Q(2, 1), Q(3, 1), Q(9, 2)} ELSE {Q(1, 2), Q(1, 1), Q(3, 1)}
Rates  == {Q(1, 2), Q(1, 1), Q(2, 1)}
Boxes  == {<<Q(0, 1), Q(1, 1)>>, <<Q(-1, 1), Q(1, 2)>>, <<Q(1, 4), Q(3, 1)>>}
Sigmas == IF Thorough THEN {Q(1, 100), Q(1, 10), Q(1, 2), Q(1, 1)} ELSE {Q(1, 100), Q(1, 2)}
Etas   == IF Thorough THEN {Q(1, 2), Q(1, 1), Q(3, 2), Q(3, 1)} ELSE {Q(1, 1), Q(3, 2), Q(3, 1)}
Corr   == IF Thorough THEN -3..3 ELSE {-2, 0, 1, 2}         \* correlation numerators over 4

Rec(fam, par, x, supp, aux) == [fam |-> fam, par |-> par, x |-> x, supp |-> supp, aux |-> aux]

\* code-shaped box distance and the documented one
BoxDistCode(a, b, x) == MaxQ(Sub(AbsQ(Sub(x, Half(Add(a, b)))), Half(Sub(b, a))), Zero)
BoxDistDoc(a, b, x)  == IF Lt(x, a) THEN Sub(a, x) ELSE IF Lt(b, x) THEN Sub(x, b) ELSE Zero

\* 3 x 3 correlation matrix [[1,a,b],[a,1,c],[b,c,1]] with a = A/4 ...: 64 |Sigma| and the pivots
Det64(A, B, C)  == 64 + 2 * A * B * C - 4 * (A * A + B * B + C * C)
Piv2x16(A)      == 16 - A * A                                            \* 16 L_22^2
Piv3x256(A, B, C) == (16 - A * A) * (16 - B * B) - (4 * C - A * B) * (4 * C - A * B)   \* 256 L_22^2 L_33^2
IsCorr3(A, B, C) == Piv2x16(A) > 0 /\ Det64(A, B, C) > 0

Scalar ==
  {Rec("Normal", <<l, s>>, x, TRUE, <<>>) : l \in Locs, s \in Scales, x \in X}
  \cup {Rec("LogNormal", <<l, s>>, x, Lt(Zero, x), <<>>) : l \in Locs, s \in Scales, x \in X}
  \cup {Rec("HalfNormal", <<s>>, x, Le(Zero, x), <<>>) : s \in Scales, x \in X}
  \cup {Rec("HalfCauchy", <<s>>, x, Le(Zero, x), <<>>) : s \in Scales, x \in X}
  \cup {Rec("Gamma", <<c, r>>, x, Lt(Zero, x), <<>>) : c \in Concs, r \in Rates, x \in X}
  \cup {Rec("Uniform", <<b[1], b[2]>>, x, Le(b[1], x) /\ Lt(x, b[2]), <<Sub(b[2], b[1])>>) : b \in Boxes, x \in X}
  \cup {Rec("SmoothedBox", <<b[1], b[2], s>>, x, TRUE, <<BoxDistCode(b[1], b[2], x), BoxDistDoc(b[1], b[2], x)>>) : b \in Boxes, s \in Sigmas, x \in X}
  \cup {Rec("Horseshoe", <<s>>, x, ~Eq(x, Zero), <<>>) : s \in Scales, x \in X}

Matrix ==
  {Rec("LKJ2", <<e>>, <<A>>, 16 - A * A > 0, <<16 - A * A>>) : e \in Etas, A \in Corr}
  \cup {Rec("LKJ3", <<e>>, <<A, B, C>>, IsCorr3(A, B, C), <<Det64(A, B, C), Piv2x16(A), Piv3x256(A, B, C)>>) : e \in Etas, A \in Corr, B \in Corr, C \in Corr}

\* bivariate normal: integer covariance <<v11, v12, v22>>; |S| and the numerator of the quadratic form
\* (x-m)' S^-1 (x-m) = (v22 dx^2 - 2 v12 dx dy + v11 dy^2) / |S| are exact
Covs  == {<<1, 0, 1>>, <<2, 1, 1>>, <<4, -1, 2>>}
Locs2 == {<<Q(0, 1), Q(0, 1)>>, <<Q(1, 2), Q(-1, 1)>>}
XS    == {Q(-1, 1), Q(0, 1), Q(1, 2), Q(2, 1)}
DetS(S) == S[1] * S[3] - S[2] * S[2]
QNum(S, dx, dy) == Add(Sub(Mul(Q(S[3], 1), Mul(dx, dx)), Mul(Q(2 * S[2], 1), Mul(dx, dy))), Mul(Q(S[1], 1), Mul(dy, dy)))
Vector ==
  {Rec("MVN2", <<m[1], m[2], S>>, <<x, y>>, TRUE, <<DetS(S), QNum(S, Sub(x, m[1]), Sub(y, m[2]))>>) : m \in Locs2, S \in Covs, x \in XS, y \in XS}

Cases == Scalar \cup Matrix \cup Vector

Init == case \in Cases
Next == UNCHANGED case
Spec == Init /\ [][Next]_vars

\* ---- exact parts of the documented densities --------------------------------------------------
BoxDistanceIsDistance == case.fam = "SmoothedBox" => Eq(case.aux[1], case.aux[2]) /\ Le(Zero, case.aux[1])
BoxSupport == case.fam = "SmoothedBox" => (Eq(case.aux[2], Zero) <=> (Le(case.par[1], case.x) /\ Le(case.x, case.par[2])))
UniformNormalised == case.fam = "Uniform" => Lt(Zero, case.aux[1])       \* density 1/(b-a) times the length b-a is 1
DetIsPivotProduct == case.fam = "LKJ3" => 4 * case.aux[1] = case.aux[3]      \* |Sigma| = L_22^2 L_33^2 (L_11 = 1)
CovPositiveDefinite == case.fam = "MVN2" => case.aux[1] > 0 /\ case.par[3][1] > 0 /\ Le(Zero, case.aux[2])
CorrIffMinors == case.fam = "LKJ3" => (case.supp <=> (case.aux[2] > 0 /\ case.aux[3] > 0))
=============================================================================
