-------------------------- MODULE ConstraintPriors --------------------------
(***************************************************************************)
(* Property C17, priors: the finite lattice of (family, parameters, point)  *)
(* cases at which prior.log_prob is compared with the documented density.   *)
(* Numbers are rationals <<num, den>> with den > 0.  TLC enumerates the     *)
(* lattice (every case is an initial state) and checks the exact parts:    *)
(*   - support classification of the point,                                *)
(*   - SmoothedBoxPrior: the code's distance  max(|x - c| - r, 0)  with    *)
(*     c = (a+b)/2, r = (b-a)/2  is the documented  d(x, B) = min_{x' in B} *)
(*     |x - x'|,                                                           *)
(*   - UniformPrior: density * (b - a) = 1 on the support (normalised),    *)
(*   - MultivariateNormalPrior: |S| > 0 and the quadratic form numerator is *)
(*     non-negative (the covariance grid is positive definite),            *)
(*   - LKJ: the grid matrix is a correlation matrix iff its leading minors *)
(*     are positive; |Sigma| = prod_i L_ii^2 with the Cholesky pivots      *)
(*     L_22^2 = 1 - a^2, L_33^2 = |Sigma| / (1 - a^2) (the documented      *)
(*     density |Sigma|^(eta-1) is a function of the determinant alone).    *)
(* The transcendental part of each density is evaluated by the replay in   *)
(* mpmath from the rationals emitted here.                                 *)
(*                                                                         *)
(* HISTORY OF THE PRIOR OBJECT (second machine, HSpec).  The density        *)
(* lattice above evaluates freshly constructed priors only.  A prior is a   *)
(* torch Module whose hyper-parameters are state: they are reported by its  *)
(* attributes and by state_dict(), and they change under                    *)
(*   Assign   prior.<attr> = t  for the public attributes of the class      *)
(*   Load     prior.load_state_dict(state of a prior with other values)     *)
(*   ModLoad  owner.load_state_dict(state of an owner whose prior has other *)
(*            values): the prior is a CHILD of the module it is registered  *)
(*            on and is restored by torch's in-place _load_from_state_dict  *)
(*   Copy     copy.deepcopy (0) / pickle round trip (1) of the owner        *)
(*   Conv     .double() (0: identity on float64 state) / .float().double()  *)
(*            (1: the buffers are re-created; all lattice values are dyadic *)
(*            so the values survive float32)                                *)
(* Two machines side by side, as in Constraint.tla:                         *)
(*  - SEMANTIC: hp = <<m, x>>, the hyper-parameters the object HAS (indices *)
(*    into HPar(fam); x is the part no public attribute can assign: sigma   *)
(*    of SmoothedBoxPrior, the covariance of MultivariateNormalPrior).      *)
(*    Classes that keep their hyper-parameters outside the state dict       *)
(*    (UniformPrior, LKJ*: "plain") are not changed by Load / ModLoad.      *)
(*  - CODE-SHAPED: buf (what state_dict reports), base (what log_prob       *)
(*    reads), alias (buf and base share storage).  For the priors that are  *)
(*    torch TransformedDistributions (LogNormal, HalfNormal, HalfCauchy)    *)
(*    the buffers _transformed_<attr> are the tensors of base_dist, so the  *)
(*    in-place ModLoad reaches base_dist only while alias holds.            *)
(*    AliasSurvivesConv = FALSE is the code as it is (Module._apply         *)
(*    replaces the buffers), TRUE the repaired design.                      *)
(* Property HAgree: log_prob is the documented density at hp, and the       *)
(* attributes and state_dict report hp, after every history.  Every step of *)
(* hist carries hp (the replay's oracle: mpmath at HParOf(fam, hp)) and the *)
(* code-shaped prediction `stale`.                                          *)
(***************************************************************************)
EXTENDS Integers, Sequences, FiniteSets, TLC

CONSTANTS Pts,      \* numerators of the evaluation points over denominator 4
          Thorough, \* BOOLEAN: larger parameter sets
          HMaxLen,  \* history machine: number of operations after the construction
          HIdx,     \* history machine: indices of HPar(fam) offered to Assign / Load / ModLoad
          AliasSurvivesConv   \* code-shaped: a dtype conversion keeps _transformed_<attr> and base_dist.<attr> one tensor

VARIABLES case,                          \* density lattice
          hfam, hp, buf, base, alias, hist   \* history machine
vars == <<case, hfam, hp, buf, base, alias, hist>>

\* ---- rationals with positive denominators ---------------------------------------------------
Q(n, d)   == <<n, d>>
Add(p, q) == <<p[1] * q[2] + q[1] * p[2], p[2] * q[2]>>
Sub(p, q) == <<p[1] * q[2] - q[1] * p[2], p[2] * q[2]>>
Mul(p, q) == <<p[1] * q[1], p[2] * q[2]>>
Half(p)   == <<p[1], 2 * p[2]>>
Lt(p, q)  == p[1] * q[2] < q[1] * p[2]
Le(p, q)  == p[1] * q[2] <= q[1] * p[2]
Eq(p, q)  == p[1] * q[2] = q[1] * p[2]
AbsQ(p)   == IF p[1] < 0 THEN <<-p[1], p[2]>> ELSE p
Zero      == <<0, 1>>
MaxQ(p, q) == IF Lt(p, q) THEN q ELSE p

X == {Q(k, 4) : k \in Pts}

Locs   == {Q(-1, 1), Q(0, 1), Q(1, 2)}
Scales == IF Thorough THEN {Q(1, 2), Q(1, 1), Q(2, 1), Q(1, 4)} ELSE {Q(1, 2), Q(1, 1), Q(2, 1)}
Concs  == IF Thorough THEN {Q(1, 2), Q(1, 1), Q(2, 1), Q(3, 1), Q(9, 2)} ELSE {Q(1, 2), Q(1, 1), Q(3, 1)}
Rates  == {Q(1, 2), Q(1, 1), Q(2, 1)}
Boxes  == {<<Q(0, 1), Q(1, 1)>>, <<Q(-1, 1), Q(1, 2)>>, <<Q(1, 4), Q(3, 1)>>}
Sigmas == IF Thorough THEN {Q(1, 100), Q(1, 10), Q(1, 2), Q(1, 1)} ELSE {Q(1, 100), Q(1, 2)}
Etas   == IF Thorough THEN {Q(1, 2), Q(1, 1), Q(3, 2), Q(3, 1)} ELSE {Q(1, 1), Q(3, 2), Q(3, 1)}
Corr   == IF Thorough THEN -3..3 ELSE {-2, 0, 1, 2}         \* correlation numerators over 4

Rec(fam, par, x, supp, aux) == [fam |-> fam, par |-> par, x |-> x, supp |-> supp, aux |-> aux]

\* code-shaped box distance and the documented one
BoxDistCode(a, b, x) == MaxQ(Sub(AbsQ(Sub(x, Half(Add(a, b)))), Half(Sub(b, a))), Zero)
BoxDistDoc(a, b, x)  == IF Lt(x, a) THEN Sub(a, x) ELSE IF Lt(b, x) THEN Sub(x, b) ELSE Zero

\* 3 x 3 correlation matrix [[1,a,b],[a,1,c],[b,c,1]] with a = A/4 ...: 64 |Sigma| and the pivots
Det64(A, B, C)  == 64 + 2 * A * B * C - 4 * (A * A + B * B + C * C)
Piv2x16(A)      == 16 - A * A                                            \* 16 L_22^2
Piv3x256(A, B, C) == (16 - A * A) * (16 - B * B) - (4 * C - A * B) * (4 * C - A * B)   \* 256 L_22^2 L_33^2
IsCorr3(A, B, C) == Piv2x16(A) > 0 /\ Det64(A, B, C) > 0

Scalar ==
  {Rec("Normal", <<l, s>>, x, TRUE, <<>>) : l \in Locs, s \in Scales, x \in X}
  \cup {Rec("LogNormal", <<l, s>>, x, Lt(Zero, x), <<>>) : l \in Locs, s \in Scales, x \in X}
  \cup {Rec("HalfNormal", <<s>>, x, Le(Zero, x), <<>>) : s \in Scales, x \in X}
  \cup {Rec("HalfCauchy", <<s>>, x, Le(Zero, x), <<>>) : s \in Scales, x \in X}
  \cup {Rec("Gamma", <<c, r>>, x, Lt(Zero, x), <<>>) : c \in Concs, r \in Rates, x \in X}
  \cup {Rec("Uniform", <<b[1], b[2]>>, x, Le(b[1], x) /\ Lt(x, b[2]), <<Sub(b[2], b[1])>>) : b \in Boxes, x \in X}
  \cup {Rec("SmoothedBox", <<b[1], b[2], s>>, x, TRUE, <<BoxDistCode(b[1], b[2], x), BoxDistDoc(b[1], b[2], x)>>) : b \in Boxes, s \in Sigmas, x \in X}
  \cup {Rec("Horseshoe", <<s>>, x, ~Eq(x, Zero), <<>>) : s \in Scales, x \in X}

Matrix ==
  {Rec("LKJ2", <<e>>, <<A>>, 16 - A * A > 0, <<16 - A * A>>) : e \in Etas, A \in Corr}
  \cup {Rec("LKJ3", <<e>>, <<A, B, C>>, IsCorr3(A, B, C), <<Det64(A, B, C), Piv2x16(A), Piv3x256(A, B, C)>>) : e \in Etas, A \in Corr, B \in Corr, C \in Corr}

\* bivariate normal: integer covariance <<v11, v12, v22>>; |S| and the numerator of the quadratic form
\* (x-m)' S^-1 (x-m) = (v22 dx^2 - 2 v12 dx dy + v11 dy^2) / |S| are exact
Covs  == {<<1, 0, 1>>, <<2, 1, 1>>, <<4, -1, 2>>}
Locs2 == {<<Q(0, 1), Q(0, 1)>>, <<Q(1, 2), Q(-1, 1)>>}
XS    == {Q(-1, 1), Q(0, 1), Q(1, 2), Q(2, 1)}
DetS(S) == S[1] * S[3] - S[2] * S[2]
QNum(S, dx, dy) == Add(Sub(Mul(Q(S[3], 1), Mul(dx, dx)), Mul(Q(2 * S[2], 1), Mul(dx, dy))), Mul(Q(S[1], 1), Mul(dy, dy)))
Vector ==
  {Rec("MVN2", <<m[1], m[2], S>>, <<x, y>>, TRUE, <<DetS(S), QNum(S, Sub(x, m[1]), Sub(y, m[2]))>>) : m \in Locs2, S \in Covs, x \in XS, y \in XS}

Cases == Scalar \cup Matrix \cup Vector

NoCase == Rec("none", <<>>, Zero, FALSE, <<>>)
Init == case \in Cases /\ hfam = "none" /\ hp = <<0, 0>> /\ buf = <<0, 0>> /\ base = <<0, 0>> /\ alias = TRUE /\ hist = <<>>
Next == UNCHANGED vars
Spec == Init /\ [][Next]_vars

\* ---- history of the prior object ---------------------------------------------------------------
\* three hyper-parameter tuples per class, all dyadic (exact in float32; the covariances <<v11, v12, v22>> have dyadic Cholesky
\* factors), pairwise different in every component
HPar(fam) ==
  CASE fam = "Normal"      -> <<<<Q(1, 2), Q(2, 1)>>, <<Q(-1, 1), Q(1, 2)>>, <<Q(0, 1), Q(1, 1)>>>>
    [] fam = "LogNormal"   -> <<<<Q(1, 2), Q(2, 1)>>, <<Q(-1, 1), Q(1, 2)>>, <<Q(0, 1), Q(1, 1)>>>>
    [] fam = "HalfNormal"  -> <<<<Q(1, 2)>>, <<Q(2, 1)>>, <<Q(1, 1)>>>>
    [] fam = "HalfCauchy"  -> <<<<Q(1, 2)>>, <<Q(2, 1)>>, <<Q(1, 1)>>>>
    [] fam = "Horseshoe"   -> <<<<Q(1, 2)>>, <<Q(2, 1)>>, <<Q(1, 1)>>>>
    [] fam = "Gamma"       -> <<<<Q(1, 2), Q(2, 1)>>, <<Q(3, 1), Q(1, 2)>>, <<Q(1, 1), Q(1, 1)>>>>
    [] fam = "Uniform"     -> <<<<Q(0, 1), Q(1, 1)>>, <<Q(1, 4), Q(3, 1)>>, <<Q(-1, 1), Q(4, 1)>>>>
    [] fam = "SmoothedBox" -> <<<<Q(0, 1), Q(1, 1), Q(1, 2)>>, <<Q(1, 4), Q(3, 1), Q(1, 8)>>, <<Q(-1, 1), Q(1, 2), Q(1, 4)>>>>
    [] fam = "MVN2"        -> <<<<Q(0, 1), Q(0, 1), <<1, 0, 1>>>>, <<Q(1, 2), Q(-1, 1), <<4, 2, 2>>>>, <<Q(-1, 1), Q(1, 4), <<4, -2, 5>>>>>>
    [] fam = "LKJ2"        -> <<<<Q(1, 2)>>, <<Q(3, 1)>>, <<Q(3, 2)>>>>
HFams == {"Normal", "LogNormal", "HalfNormal", "HalfCauchy", "Horseshoe", "Gamma", "Uniform", "SmoothedBox", "MVN2", "LKJ2"}

\* where the class keeps its hyper-parameters
HStore(fam) == IF fam \in {"LogNormal", "HalfNormal", "HalfCauchy"} THEN "transformed"
               ELSE IF fam \in {"Uniform", "LKJ2"} THEN "plain" ELSE "buffer"
\* the last component is not assignable through a public attribute
HPartial(fam) == fam \in {"SmoothedBox", "MVN2"}
\* the tuple <<m, x>> denotes: HPar[m] with its last component taken from HPar[x]
HParOf(fam, h) == LET p == HPar(fam)[h[1]] IN IF HPartial(fam) THEN [p EXCEPT ![Len(p)] = HPar(fam)[h[2]][Len(p)]] ELSE p
\* evaluation points (scalars: numerators over 4; MVN2: pairs of them; LKJ2: the correlation numerator over 4)
HPts(fam) == CASE fam \in {"Normal", "SmoothedBox"} -> <<-5, 1, 3, 9>>
               [] fam = "Uniform" -> <<2, 3, 5>>
               [] fam = "MVN2" -> <<<<-4, 2>>, <<3, 1>>>>
               [] fam = "LKJ2" -> <<-2, 1, 3>>
               [] OTHER -> <<1, 3, 9>>

\* one step of hist: operation, argument, hp after it, the code-shaped prediction, the hyper-parameter tuple hp denotes
HStep(fam, op, a, h, stale) == <<op, a, h, stale, HParOf(fam, h)>>
\* does the code-shaped machine disagree with the semantic one (prediction; never a verdict)
Stale(fam, h, bf, bs) == bs # h \/ (HStore(fam) # "plain" /\ bf # h)

\* hist[1] is the construction; it also carries the evaluation points and the table the arguments index
HInit == /\ case = NoCase
         /\ hfam \in HFams
         /\ hp = <<1, 1>> /\ buf = <<1, 1>> /\ base = <<1, 1>> /\ alias = TRUE
         /\ hist = <<HStep(hfam, "Construct", 1, <<1, 1>>, FALSE) \o <<HPts(hfam), HPar(hfam)>>>>

HCommit(op, a, h, bf, bs, al) ==
  /\ Len(hist) < HMaxLen + 1
  /\ hp' = h /\ buf' = bf /\ base' = bs /\ alias' = al
  /\ hist' = Append(hist, HStep(hfam, op, a, h, Stale(hfam, h, bf, bs)))
  /\ UNCHANGED <<case, hfam>>

\* prior.<attr> = t for every public attribute (Prior.__setattr__ gives base_dist and the buffer the same tensor)
HAssign(j) == j \in HIdx /\
              LET h == <<j, IF HPartial(hfam) THEN hp[2] ELSE j>>
                  b == <<j, IF HPartial(hfam) THEN base[2] ELSE j>>
                  f == <<j, IF HPartial(hfam) THEN buf[2] ELSE j>>
              IN HCommit("Assign", j, h, f, b, IF HPartial(hfam) THEN alias ELSE TRUE)
\* prior.load_state_dict: copies into the buffers, then re-points base_dist at them (Prior.load_state_dict)
HLoad(j) == IF HStore(hfam) = "plain" THEN HCommit("Load", j, hp, buf, base, alias)
            ELSE HCommit("Load", j, <<j, j>>, <<j, j>>, <<j, j>>, TRUE)
\* owner.load_state_dict: in place into the buffers of the child; base_dist follows only through the shared storage
HModLoad(j) == IF HStore(hfam) = "plain" THEN HCommit("ModLoad", j, hp, buf, base, alias)
               ELSE HCommit("ModLoad", j, <<j, j>>, <<j, j>>, IF HStore(hfam) = "transformed" /\ ~alias THEN base ELSE <<j, j>>, alias)
HCopy(k) == k \in {0, 1} /\ HCommit("Copy", k, hp, buf, base, alias)
HConv(k) == k \in {0, 1} /\ HCommit("Conv", k, hp, buf, base, IF k = 1 /\ HStore(hfam) = "transformed" THEN alias /\ AliasSurvivesConv ELSE alias)

HNext == \/ \E j \in HIdx : HAssign(j)
         \/ \E j \in HIdx : HLoad(j)
         \/ \E j \in HIdx : HModLoad(j)
         \/ \E k \in (IF Thorough THEN {0, 1} ELSE {0}) : HCopy(k)
         \/ \E k \in {0, 1} : HConv(k)
HSpec == HInit /\ [][HNext]_vars

\* the property: what log_prob reads and what the object reports are the hyper-parameters it has
HAgree == hfam # "none" => ~Stale(hfam, hp, buf, base)
\* the prediction recorded in hist is the one of the current state; hp is always a pair of lattice indices
HWellFormed == hfam # "none" =>
  /\ hp[1] \in (HIdx \cup {1}) /\ hp[2] \in (HIdx \cup {1})
  /\ hist[Len(hist)][3] = hp /\ hist[Len(hist)][4] = Stale(hfam, hp, buf, base) /\ hist[Len(hist)][5] = HParOf(hfam, hp)
  /\ (HStore(hfam) = "plain" => hp = <<1, 1>> \/ \E i \in 1..Len(hist) : hist[i][1] = "Assign")
\* on the code as it is: every history without a buffer-replacing conversion (.float().double()) satisfies the property
HAgreeUnlessConverted == hfam # "none" /\ Stale(hfam, hp, buf, base) => \E i \in 1..Len(hist) : hist[i][1] = "Conv" /\ hist[i][2] = 1
\* a stale object needs a broken alias: only the TransformedDistribution priors, only after a buffer-replacing conversion
HStaleOnlyByAlias == hfam # "none" /\ Stale(hfam, hp, buf, base) => HStore(hfam) = "transformed" /\ ~alias

\* ---- exact parts of the documented densities --------------------------------------------------
BoxDistanceIsDistance == case.fam = "SmoothedBox" => Eq(case.aux[1], case.aux[2]) /\ Le(Zero, case.aux[1])
BoxSupport == case.fam = "SmoothedBox" => (Eq(case.aux[2], Zero) <=> (Le(case.par[1], case.x) /\ Le(case.x, case.par[2])))
UniformNormalised == case.fam = "Uniform" => Lt(Zero, case.aux[1])       \* density 1/(b-a) times the length b-a is 1
DetIsPivotProduct == case.fam = "LKJ3" => 4 * case.aux[1] = case.aux[3]      \* |Sigma| = L_22^2 L_33^2 (L_11 = 1)
CovPositiveDefinite == case.fam = "MVN2" => case.aux[1] > 0 /\ case.par[3][1] > 0 /\ Le(Zero, case.aux[2])
CorrIffMinors == case.fam = "LKJ3" => (case.supp <=> (case.aux[2] > 0 /\ case.aux[3] > 0))
=============================================================================
