------------------------------ MODULE Validity ------------------------------
(***************************************************************************)
(* Every covariance handed out is a valid covariance (property C07).       *)
(* Four parts, selected by Part ("growth", "lattice", "noise"; the paths   *)
(* are a dimension of "growth").                                           *)
(*                                                                         *)
(* Part "growth": the data-growth machine over exact rationals.            *)
(*                                                                         *)
(* A linear-kernel GP over a pool of integer feature rows (duplicates      *)
(* allowed: the same point may be observed twice).  The machine ranges     *)
(* over                                                                    *)
(*   WHAT is observed   obs: a sequence of [p, l]: pool point p observed   *)
(*                      with its OWN noise level Levels[l];                *)
(*   HOW it is added    every step adds a chunk of 1..MaxChunk             *)
(*                      observations by one of Hows:                       *)
(*         "fresh"        a new model on all the data,                     *)
(*         "set"          set_train_data on the model at hand (+ the       *)
(*                        likelihood's fixed noise replaced as a whole),   *)
(*         "fantasy"      get_fantasy_model (hence fantasies of fantasies  *)
(*                        when two such steps follow each other),          *)
(*         "listfantasy"  get_fantasy_model of an IndependentModelList     *)
(*                        holding the model,                               *)
(*   the NOISE STRUCTURE of the likelihood (Liks):                         *)
(*         "homo"           one learned noise S2 for every observation,    *)
(*         "fixed"          each observation carries its own fixed noise,  *)
(*         "fixed+learned"  own fixed noise plus the learned noise S2      *)
(*                          (learn_additional_noise=True),                 *)
(*         "hetero"         noise is a function of the input (level of the *)
(*                          pool point),                                   *)
(*   the COMPUTATIONAL PATH the settings select (Modes, a set of path      *)
(*   records, see Paths): fast_pred_var on (root cache the fantasy steps   *)
(*   update) / off (solve against K + noise) x the test/test block kept    *)
(*   LAZY (joint size > max_eager_kernel_size) / evaluated eagerly x the   *)
(*   solver (Cholesky / CG + Lanczos: size > max_cholesky_size) x          *)
(*   detach_test_caches on / off.  Every combination is a different branch *)
(*   of exact_prediction / exact_predictive_covar.  The denotation does    *)
(*   not mention the path: every invariant below holds on every path.      *)
(* The state carries the likelihood's BOOKKEEPING in code shape: `fixed`   *)
(* is the vector stored by FixedGaussianNoise.  "fresh" / "set" store the  *)
(* levels of all observations; the fantasy steps append the new levels to  *)
(* the OLD STORED vector (get_fantasy_likelihood: cat([old_noise_covar.    *)
(* noise, new_noise])); the learned noise is added on top when the         *)
(* likelihood is applied.  The posterior covariance `cov` at the test      *)
(* points is computed from that bookkeeping (NoiseVec), not from the       *)
(* denotation.                                                             *)
(*                                                                         *)
(* In every reachable state:                                               *)
(*   NoiseIsOwn       the noise attached to observation k is its own noise *)
(*                    (OwnNoise): it does not depend on how or when the    *)
(*                    observation - or any later one - was added; in       *)
(*                    particular the learned noise is counted once;        *)
(*   NoiseFloor       it is at least the smallest admissible noise;        *)
(*   PriorPSD         K(x,x) of train and test points is symmetric PSD,    *)
(*                    K + noise is PD;                                     *)
(*   PosteriorPSD     the posterior covariance at the test points is PSD;  *)
(*   ReductionPSD     prior - posterior covariance is PSD;                 *)
(*   StepReductionPSD cov(before the step) - cov(after the step) is PSD    *)
(*                    (conditioning never adds uncertainty, in any         *)
(*                    direction);                                          *)
(* and across every step                                                   *)
(*   VarianceMonotone adding observations never increases a posterior      *)
(*                    variance.                                            *)
(* Hows fall into two bookkeeping classes ("fresh" / "set" replace the      *)
(* stored vector, the fantasy steps append to it).  The exact run ranges   *)
(* over one representative of each class with Arith = TRUE (posterior      *)
(* covariances over rationals); the history run ranges over all of Hows    *)
(* with Arith = FALSE (NoiseIsOwn / NoiseFloor only: by NoiseIsOwn the     *)
(* covariance is a function of lik and obs alone) and generates the        *)
(* histories that are replayed.                                            *)
(* The formulas are the denotation (LinAlg.tla CondCov).  The replay walks *)
(* every generated history on real models (kernels x geometries x          *)
(* likelihood classes) and checks the same invariants after every step     *)
(* through eigenvalues in float64.                                         *)
(*                                                                         *)
(* Part "noise": the noise a likelihood ADDS (difference of marginal and    *)
(* latent covariance; variance of p(y | f)) over the Gaussian family x its *)
(* switches: has_global_noise x has_task_noise x rank 0 / 1 / full of the  *)
(* multitask likelihood, fixed / fixed + learned / Dirichlet (+ learned) / *)
(* input dependent noise, x the class of the constraint (default, custom   *)
(* GreaterThan, Interval) x the class of the RAW parameter value: "edge"   *)
(* (strongly negative: the transform underflows to the bound), "mid",      *)
(* "large".  Every constrained component that is switched on contributes   *)
(* bound + excess(raw) with excess >= 0, the unconstrained parts (a fixed  *)
(* noise vector, the low-rank task covariance F F') contribute a PSD term: *)
(*   NoiseAtLeastBound  added - (number of constrained components) * bound *)
(*                      is PSD for every raw value, with equality on the   *)
(*                      diagonal at the edge when nothing else is added;   *)
(*   NoiseSwitches      the two switches off is refused (no noise at all). *)
(*                                                                         *)
(* Part "lattice": the kernel PSD lattice - kernel family x every valid    *)
(* value of its discrete constructor argument x input dimension 1..MaxDim  *)
(* x ARD / shared lengthscale x lengthscale scale x geometry class, on the *)
(* documented domain only (InDomain).  The geometry classes include the    *)
(* ones that make indefiniteness VISIBLE: "dense" (a cloud of many points  *)
(* per support / lengthscale volume with exact and near duplicates) and    *)
(* "grid" (a regular lattice).  Compact-support kernels are positive       *)
(* definite in R^d only if the exponent j is large enough:                 *)
(*      j >= floor(d / 2) + q + 1        (Wendland; R&W 4.21)              *)
(* The spec carries the exponent the code uses (CodeJ: from the dimension  *)
(* of the INPUTS, not from the number of lengthscales, which is 1 without  *)
(* ARD), states SupportOK over all cells, and evaluates the documented     *)
(* function with that exponent exactly at rational radii (the PD           *)
(* certificate the replay compares the real kernel with, since sampling    *)
(* Gram matrices cannot see a too small j for q >= 2).                     *)
(***************************************************************************)
EXTENDS LinAlg, TLC

CONSTANTS Part,
          Pool,      \* sequence of integer feature rows (train candidates)
          Test,      \* sequence of integer feature rows (test points)
          S2,        \* learned noise variance (positive integer)
          Levels,    \* sequence of positive rationals <<n, d>>: the fixed noise levels an observation can carry
          Liks, Hows, MaxChunk,
          Modes,     \* the computational paths predictions are made on: a subset of Paths
          Arith,     \* TRUE: posterior covariances are evaluated (exact rationals); FALSE: bookkeeping only
          MaxN,      \* number of observations of a complete history
          MaxDim, Scales

VARIABLES lik,       \* noise structure of the likelihood
          mode,      \* prediction mode: the DENOTATION (PostCov) does not mention it
          obs,       \* observations so far: sequence of [p, l]
          fixed,     \* the per-observation noise vector the likelihood STORES (code-shaped)
          hist,      \* how the observations were added: sequence of [how, m]
          cov, prev, \* posterior covariance at the test points now / before the last step
          c, out     \* part "lattice": the cell and what the spec says about it
vars == <<lik, mode, obs, fixed, hist, cov, prev, c, out>>

\* ============================ part "growth" ===================================================
\* computational paths: which branch of exact_prediction / exact_predictive_covar the settings select
Path(f, l, s, d) == [fast |-> f, lazy |-> l, cg |-> s, detach |-> d, steps |-> ~s]
Paths == {Path(f, l, s, d) : f \in BOOLEAN, l \in BOOLEAN, s \in BOOLEAN, d \in BOOLEAN}
PathExact == Path(FALSE, FALSE, FALSE, TRUE)      \* the defaults of a small problem
PathFast  == Path(TRUE, FALSE, FALSE, TRUE)
\* which clauses a path decides: Cholesky paths compute the denotation up to rounding (all clauses); on the CG / Lanczos
\* paths the inverse is a Galerkin approximation Q (Q'AQ)^-1 Q' <= A^-1: the posterior is still PSD and prior - posterior
\* is still PSD (conditioning never adds uncertainty), but two approximations are not ordered among themselves
\* (field `steps`: the path also decides the clauses that compare two posteriors - StepReductionPSD, VarianceMonotone)
Points(o) == [k \in 1..Len(o) |-> o[k].p]
Feat(seq) == FromInt([k \in 1..Len(seq) |-> Pool[seq[k]]])
TestF == FromInt(Test)
Kxx(seq) == LET G == Feat(seq) IN MMul(G, Tr(G))
Kss == MMul(TestF, Tr(TestF))
Ksx(seq) == MMul(TestF, Tr(Feat(seq)))

HasFixed(lk) == lk \in {"fixed", "fixed+learned"}
\* "hetero": the noise model is a function of the input - here the level of the pool point
HLevel(p) == ((p - 1) % Len(Levels)) + 1
\* an observation's level is a free choice only when the likelihood stores it
LevelChoices(lk, p) == IF HasFixed(lk) THEN 1..Len(Levels) ELSE IF lk = "hetero" THEN {HLevel(p)} ELSE {1}

\* DENOTATION: the noise of an observation is a function of the observation and the likelihood's parameters alone
OwnNoise(lk, o) ==
  CASE lk = "homo"          -> R(S2)
    [] lk = "fixed"         -> Levels[o.l]
    [] lk = "fixed+learned" -> RAdd(Levels[o.l], R(S2))
    [] lk = "hetero"        -> Levels[HLevel(o.p)]

\* CODE-SHAPED: what the likelihood adds to K(X, X) given its bookkeeping (_shaped_noise_covar)
NoiseVec(lk, o, fx) ==
  [k \in 1..Len(o) |->
     CASE lk = "homo"          -> R(S2)
       [] lk = "fixed"         -> fx[k]
       [] lk = "fixed+learned" -> RAdd(fx[k], R(S2))            \* second_noise_covar on top of the stored noise
       [] lk = "hetero"        -> Levels[HLevel(o[k].p)]]

Anoise(lk, o, fx) == MAdd(Kxx(Points(o)), Diag(NoiseVec(lk, o, fx)))
PostCov(lk, o, fx) == IF o = <<>> THEN Kss ELSE CondCov(Kss, Ksx(Points(o)), Anoise(lk, o, fx))

LevelsOf(ch) == [k \in 1..Len(ch) |-> Levels[ch[k].l]]
\* the stored vector after a step
StoredAfter(how, lk, o2, fx, ch) ==
  IF ~HasFixed(lk) THEN <<>>
  ELSE IF how \in {"fresh", "set"} THEN LevelsOf(o2)          \* constructor / lik.noise = all the levels
  ELSE fx \o LevelsOf(ch)                                    \* get_fantasy_likelihood: cat([old stored noise, new noise])

Chunks(lk) == UNION {[1..m -> [p : 1..Len(Pool), l : 1..Len(Levels)]] : m \in 1..MaxChunk}
ValidChunk(lk, ch) == \A k \in 1..Len(ch) : ch[k].l \in LevelChoices(lk, ch[k].p)

Add(how, ch) ==
  /\ Part = "growth"
  /\ Len(obs) + Len(ch) <= MaxN
  /\ ValidChunk(lik, ch)
  /\ (obs = <<>> => how = "fresh")                           \* there is no model to update yet
  /\ LET o2 == obs \o ch
         f2 == StoredAfter(how, lik, o2, fixed, ch)
     IN /\ obs' = o2
        /\ fixed' = f2
        /\ cov' = IF Arith THEN PostCov(lik, o2, f2) ELSE cov
  /\ prev' = cov
  /\ hist' = Append(hist, [how |-> how, m |-> Len(ch)])
  /\ UNCHANGED <<lik, mode, c, out>>

GrowthInit ==
  /\ lik \in Liks /\ mode \in Modes /\ obs = <<>> /\ fixed = <<>> /\ hist = <<>> /\ cov = Kss /\ prev = Kss
  /\ c = "-" /\ out = "-"

\* ---- invariants ----
InGrowth == Part = "growth"
PathKnown        == InGrowth => mode \in Paths /\ Modes \subseteq Paths
NoiseIsOwn       == InGrowth => NoiseVec(lik, obs, fixed) = [k \in 1..Len(obs) |-> OwnNoise(lik, obs[k])]
MinNoise         == LET all == {Levels[k] : k \in 1..Len(Levels)} \cup {R(S2)} IN CHOOSE a \in all : \A b \in all : RLe(a, b)
NoiseFloor       == InGrowth => \A k \in 1..Len(obs) : RLe(MinNoise, NoiseVec(lik, obs, fixed)[k])
PriorPSD         == InGrowth => IsSym(Kss) /\ IsPSD(Kss)
                         /\ (obs # <<>> /\ Arith => IsSym(Kxx(Points(obs))) /\ IsPSD(Kxx(Points(obs))) /\ IsPD(Anoise(lik, obs, fixed)))
PosteriorPSD     == InGrowth => IsSym(cov) /\ IsPSD(cov)
ReductionPSD     == InGrowth => IsPSD(MSub(Kss, cov))
\* prev - cov mixes two denominators (det of the old and of the new system): subtract over the least common denominator and
\* decide PSD on the integer matrix L * (prev - cov), L > 0, so that TLC's 32-bit integers suffice (small pools only)
Lcm(a, b) == (a \div Gcd(a, b)) * b
RECURSIVE LcmSeq(_)
LcmSeq(q) == IF q = <<>> THEN 1 ELSE Lcm(Head(q)[2], LcmSeq(Tail(q)))
DenLcm(M) == LcmSeq([k \in 1..(Rows(M) * Cols(M)) |-> M[((k - 1) \div Cols(M)) + 1][((k - 1) % Cols(M)) + 1]])
ScaledInt(M, L) == Mk(Rows(M), Cols(M), LAMBDA i, j : M[i][j][1] * (L \div M[i][j][2]))
StepDiffInt == LET L == Lcm(DenLcm(prev), DenLcm(cov)) A == ScaledInt(prev, L) B == ScaledInt(cov, L)
               IN Mk(Rows(A), Cols(A), LAMBDA i, j : R(A[i][j] - B[i][j]))
StepReductionPSD == InGrowth => IsPSD(StepDiffInt)
VarNonNegative   == InGrowth => \A k \in 1..Rows(cov) : RLe(RZero, cov[k][k])
VarianceMonotone == [][ InGrowth => \A k \in 1..Rows(cov) : RLe(cov'[k][k], cov[k][k]) ]_vars

\* ============================ part "lattice" ==================================================
\* family: discrete constructor-argument values (0 = no such argument), whether it takes ard_num_dims, documented domain,
\* translation invariance (only those are exercised at a large common offset)
Fam(n, a, ard, dom, stat) == [name |-> n, args |-> a, ard |-> ard, dom |-> dom, stat |-> stat]
Families == {
  Fam("rbf", {0}, TRUE, "any", TRUE),
  Fam("matern", {1, 3, 5}, TRUE, "any", TRUE),                 \* nu = arg / 2
  Fam("rq", {0}, TRUE, "any", TRUE),
  Fam("periodic", {0}, TRUE, "any", TRUE),
  Fam("cosine", {0}, FALSE, "d1", TRUE),
  Fam("linear", {0}, TRUE, "any", FALSE),
  Fam("poly", {1, 2, 3, 4}, FALSE, "any", FALSE),              \* power
  Fam("pwpoly", {0, 1, 2, 3}, TRUE, "any", TRUE),              \* q
  Fam("sm", {1, 2, 3}, FALSE, "any", TRUE),                    \* num_mixtures
  Fam("sdelta", {2, 5}, FALSE, "any", TRUE),                   \* num_deltas
  Fam("cylindrical", {1, 2, 3, 4}, FALSE, "unitball", FALSE),  \* num_angular_weights
  Fam("rff", {4, 8}, FALSE, "any", FALSE),                     \* num_samples
  Fam("constant", {0}, FALSE, "any", FALSE),
  Fam("arc", {0}, TRUE, "any", FALSE),
  Fam("hamming", {2, 3}, FALSE, "onehot", FALSE),              \* vocab_size
  Fam("scale", {0}, TRUE, "any", TRUE),
  Fam("sum", {0}, TRUE, "any", TRUE),
  Fam("prod", {0}, TRUE, "any", TRUE),
  Fam("addstruct", {0}, FALSE, "any", FALSE),
  Fam("prodstruct", {0}, FALSE, "any", FALSE),
  Fam("newton", {1, 2, 3}, FALSE, "any", FALSE),               \* max_degree (capped at d)
  Fam("rbfgrad", {0}, TRUE, "any", FALSE),
  Fam("rbfgradgrad", {0}, TRUE, "any", FALSE),
  Fam("matern52grad", {0}, TRUE, "any", FALSE),
  Fam("polygrad", {1, 2, 3}, FALSE, "any", FALSE),             \* power
  Fam("multitask", {1, 2}, FALSE, "any", FALSE),               \* rank
  Fam("lcm", {1, 2}, FALSE, "any", FALSE),                     \* rank
  Fam("gridinterp", {0}, FALSE, "box3", FALSE),
  Fam("inducing", {0}, TRUE, "any", FALSE) }

Geoms == {"spread", "duplicates", "near-coincident", "clustered", "far-offset", "dense", "grid"}
DimsOf(f) == CASE f.dom = "d1" -> {1} [] f.dom = "box3" -> 1..(IF MaxDim < 3 THEN MaxDim ELSE 3) [] OTHER -> 1..MaxDim
GeomsOf(f) == IF f.stat THEN Geoms ELSE Geoms \ {"far-offset"}
ArdOf(f) == IF f.ard THEN {FALSE, TRUE} ELSE {FALSE}
\* "dense" / "grid" are stated relative to the lengthscale (points per support volume): they are scaled with it, one scale suffices
ScalesOf(g) == IF g \in {"dense", "grid"} THEN {0} ELSE Scales
CellsOf(f) == UNION {{[fam |-> f.name, arg |-> a, d |-> d, ard |-> r, geom |-> g, ls |-> s, dom |-> f.dom] :
                        a \in f.args, d \in DimsOf(f), r \in ArdOf(f), s \in ScalesOf(g)} : g \in GeomsOf(f)}
Cells == UNION {CellsOf(f) : f \in Families}

FamilyOf(cell) == CHOOSE f \in Families : f.name = cell.fam
InDomain(cell) ==
  LET f == FamilyOf(cell)
  IN /\ cell.arg \in f.args /\ cell.d \in DimsOf(f) /\ (cell.ard => f.ard)
     /\ (cell.fam = "cosine" => cell.d = 1)
     /\ (cell.geom = "far-offset" => f.stat)
     /\ cell.ls \in ScalesOf(cell.geom)

\* ---- compact support: the Wendland exponent ----
InputDim(cell) == cell.d                                      \* x1.shape[-1]
NumLengthscales(cell) == IF cell.ard THEN cell.d ELSE 1       \* lengthscale.shape[-1]: NOT the dimension of the inputs
CodeJ(cell) == (InputDim(cell) \div 2) + cell.arg + 1         \* j = floor(D / 2) + q + 1 with D from the inputs
MinJ(d, q)  == (d \div 2) + q + 1                             \* positive definite in R^d iff j >= MinJ(d, q)

RECURSIVE IPow(_, _)
IPow(a, n) == IF n = 0 THEN 1 ELSE a * IPow(a, n - 1)
\* the documented piecewise polynomial (1 - r)_+^(j+q) * p_q(j, r) at r = a / b, over the common denominator (integers
\* throughout: TLC's integers are 32 bit)
PolyNum(j, q, a, b) ==
  CASE q = 0 -> 1
    [] q = 1 -> (j + 1) * a + b
    [] q = 2 -> 3 * b * b + 3 * (j + 2) * a * b + (j * j + 4 * j + 3) * a * a
    [] q = 3 -> 15 * b * b * b + 15 * (j + 3) * a * b * b + (6 * j * j + 36 * j + 45) * a * a * b
                + (j * j * j + 9 * j * j + 23 * j + 15) * a * a * a
PolyDen(q, b) == CASE q = 0 -> 1 [] q = 1 -> b [] q = 2 -> 3 * b * b [] q = 3 -> 15 * b * b * b
Wend(j, q, r) ==
  LET a == r[1] b == r[2]
  IN IF a >= b THEN RZero ELSE RQ(IPow(b - a, j + q) * PolyNum(j, q, a, b), IPow(b, j + q) * PolyDen(q, b))
Radii == << <<0, 1>>, <<1, 4>>, <<1, 2>>, <<3, 4>>, <<1, 1>>, <<5, 4>> >>

\* ---- assemblies of a joint covariance ----
\* A prediction above max_eager_kernel_size requests the blocks of the joint covariance over [x1; x2] separately - K(x1, x1),
\* K(x1, x2), K(x2, x2).  The assembled matrix must be THE Gram matrix of the stacked points (and therefore symmetric PSD like it).
\* Entries as labels: <<p, q>> = k(point p, point q) of the stacked sequence.
Splits == {<<2, 2>>, <<1, 3>>, <<3, 3>>, <<2, 4>>}             \* (n1, n2) in units of points: equal and unequal block sizes
AsmEntry(byShape, s, i, j) ==                                  \* entry (i, j) of the cross block K(x1, x2)
  IF byShape /\ s[1] = s[2] /\ i = j THEN <<i, i>>             \* the slip "x1 is x2" decided from the shapes: the diagonal is k(x, x)
  ELSE <<i, s[1] + j>>
AssembledIsGram(byShape, s) == \A i \in 1..s[1], j \in 1..s[2] : AsmEntry(byShape, s, i, j) = <<i, s[1] + j>>

Says(cell) ==
  [psd |-> TRUE,                                              \* in its documented domain every cell is PSD
   splits |-> Splits,                                         \* ... and so is the joint assembled from separately requested blocks
   j   |-> IF cell.fam = "pwpoly" THEN CodeJ(cell) ELSE 0,
   phi |-> IF cell.fam = "pwpoly" THEN [k \in 1..Len(Radii) |-> Wend(CodeJ(cell), cell.arg, Radii[k])] ELSE <<>>]

LatticeInit ==
  /\ c \in Cells /\ out = Says(c)
  /\ lik = "-" /\ mode = "-" /\ obs = <<>> /\ fixed = <<>> /\ hist = <<>> /\ cov = <<>> /\ prev = <<>>

DomainOK  == Part = "lattice" => InDomain(c) /\ out.psd
AssemblyOK == Part = "lattice" => /\ \A s \in out.splits : AssembledIsGram(FALSE, s)
                                  /\ \A s \in out.splits : (AssembledIsGram(TRUE, s) <=> s[1] # s[2])   \* only equal block sizes expose the slip
                                  /\ \E s \in out.splits : s[1] = s[2]
                                  /\ \E s \in out.splits : s[1] # s[2]
SupportOK == Part = "lattice" /\ c.fam = "pwpoly" =>
               /\ CodeJ(c) >= MinJ(c.d, c.arg)
               /\ out.phi[1] = ROne /\ out.phi[5] = RZero /\ out.phi[6] = RZero      \* k(0) = 1, support = unit ball
               /\ \A k \in 2..4 : RLt(RZero, out.phi[k]) /\ RLt(out.phi[k], ROne)     \* a correlation strictly inside the support

\* ============================ part "noise" ====================================================
NoiseTasks == 3                                               \* tasks of the multitask cells; rank NoiseTasks = full
RawClasses == {"edge", "mid", "large"}
BoundClasses == {"default", "custom", "interval"}
NShape(f, g, t, r, fx) == [lik |-> f, glob |-> g, task |-> t, rank |-> r, fixed |-> fx]
\* glob: a learned homoskedastic (global / second) noise with a constraint; task: per-task noises (rank 0: constrained
\* diagonal, rank > 0: F F' unconstrained); fixed: a stored noise vector (no constraint: it is added as it is stored)
NoiseShapes ==
  {NShape("gaussian", TRUE, FALSE, 0, FALSE), NShape("missingobs", TRUE, FALSE, 0, FALSE),
   NShape("fixed", FALSE, FALSE, 0, TRUE), NShape("fixed+learned", TRUE, FALSE, 0, TRUE),
   NShape("dirichlet", FALSE, FALSE, 0, TRUE), NShape("dirichlet+learned", TRUE, FALSE, 0, TRUE),
   NShape("hetero", TRUE, FALSE, 0, FALSE)}
  \cup {NShape("multitask", g, t, r, FALSE) : g \in BOOLEAN, t \in BOOLEAN, r \in {0, 1, NoiseTasks}}
NoiseCells == {[shape |-> sh, raw |-> r, bound |-> b] : sh \in NoiseShapes, r \in RawClasses, b \in BoundClasses}

BoundOf(b)  == CASE b = "default" -> <<1, 10000>> [] b = "custom" -> <<1, 100>> [] b = "interval" -> <<1, 50>>
\* the transform of a raw value is bound + excess, excess >= 0 whatever the raw value (0 in float64 at the edge)
ExcessOf(r) == CASE r = "edge" -> RZero [] r = "mid" -> <<7, 10>> [] r = "large" -> <<5, 1>>
NoiseValid(sh) == sh.glob \/ sh.task \/ sh.fixed               \* "At least one of has_task_noise or has_global_noise"
NConstrained(sh) == (IF sh.glob THEN 1 ELSE 0) + (IF sh.task /\ sh.rank = 0 THEN 1 ELSE 0)
\* the unconstrained PSD remainder has a zero direction unless it is a fixed vector / a full-rank F F'
HasRemainder(sh) == sh.fixed \/ (sh.task /\ sh.rank > 0)
\* smallest diagonal entry of what is added beyond the remainder
AddedMin(cell) == RMul(R(NConstrained(cell.shape)), RAdd(BoundOf(cell.bound), ExcessOf(cell.raw)))
FloorOf(cell)  == RMul(R(NConstrained(cell.shape)), BoundOf(cell.bound))
NoiseSays(cell) ==
  [valid |-> NoiseValid(cell.shape), ncon |-> NConstrained(cell.shape), floor |-> FloorOf(cell), added |-> AddedMin(cell),
   tight |-> cell.raw = "edge" /\ ~HasRemainder(cell.shape)]

NoiseInit ==
  /\ c \in NoiseCells /\ out = NoiseSays(c)
  /\ lik = "-" /\ mode = "-" /\ obs = <<>> /\ fixed = <<>> /\ hist = <<>> /\ cov = <<>> /\ prev = <<>>

NoiseAtLeastBound == Part = "noise" /\ out.valid =>
                       /\ RLe(out.floor, out.added)
                       /\ (out.tight => out.added = out.floor)
                       /\ (out.ncon > 0 => RLt(RZero, out.floor))
                       /\ (out.ncon = 0 => HasRemainder(c.shape))   \* no constraint reports a bound: only PSD is stated
NoiseSwitches     == Part = "noise" => (out.valid <=> (c.shape.glob \/ c.shape.task \/ c.shape.fixed))

\* ==============================================================================================
Init == IF Part = "growth" THEN GrowthInit ELSE IF Part = "noise" THEN NoiseInit ELSE LatticeInit
Next == \E how \in Hows : \E ch \in Chunks(lik) : Add(how, ch)
Spec == Init /\ [][Next]_vars
=============================================================================
