------------------------------ MODULE Validity ------------------------------
(***************************************************************************)
(* Every covariance handed out is a valid covariance (property C07), as a  *)
(* data-growth machine over exact rationals.                               *)
(*                                                                         *)
(* State: the training set as a sequence of indices into a pool of         *)
(* integer feature rows (duplicates allowed: the same point may be         *)
(* observed twice), for a linear-kernel GP with noise s2.  Action          *)
(* AddObservation(p) appends pool point p.  In every reachable state:      *)
(*   PriorPSD        K(x,x) of train and test points is symmetric PSD      *)
(*   PosteriorPSD    the posterior covariance at the test points is PSD    *)
(*   ReductionPSD    prior - posterior covariance is PSD (conditioning     *)
(*                   never adds uncertainty)                               *)
(* and across every step                                                   *)
(*   VarianceMonotone   adding an observation never increases a posterior  *)
(*                      variance                                           *)
(* The formulas are the denotation (LinAlg.tla CondCov); this is the       *)
(* design-level statement.  The replay walks the same growth histories on  *)
(* real kernels and geometries and checks eigenvalues in float64.          *)
(***************************************************************************)
EXTENDS LinAlg, TLC

CONSTANTS Pool,      \* sequence of integer feature rows (train candidates)
          Test,      \* sequence of integer feature rows (test points)
          S2,        \* noise variance (positive integer)
          MaxN

VARIABLES train, var
vars == <<train, var>>

Feat(seq) == FromInt([k \in 1..Len(seq) |-> Pool[seq[k]]])
TestF == FromInt(Test)
Kxx(seq) == LET G == Feat(seq) IN MMul(G, Tr(G))
Kss == MMul(TestF, Tr(TestF))
Ksx(seq) == MMul(TestF, Tr(Feat(seq)))
Anoise(seq) == MAdd(Kxx(seq), MScale(R(S2), Ident(Len(seq))))

PostCov(seq) == IF seq = <<>> THEN Kss ELSE CondCov(Kss, Ksx(seq), Anoise(seq))
Variances(seq) == DiagOf(PostCov(seq))

Init == train = <<>> /\ var = Variances(<<>>)
AddObservation(p) ==
  /\ Len(train) < MaxN
  /\ train' = Append(train, p)
  /\ var' = Variances(train')
Next == \E p \in 1..Len(Pool) : AddObservation(p)
Spec == Init /\ [][Next]_vars

PriorPSD     == IsSym(Kss) /\ IsPSD(Kss) /\ (train # <<>> => IsSym(Kxx(train)) /\ IsPSD(Kxx(train)) /\ IsPD(Anoise(train)))
PosteriorPSD == IsSym(PostCov(train)) /\ IsPSD(PostCov(train))
ReductionPSD == IsPSD(MSub(Kss, PostCov(train)))
VarianceMonotone == [][ \A k \in 1..Len(var) : RLe(var'[k], var[k]) ]_vars
VarNonNegative == \A k \in 1..Len(var) : RLe(RZero, var[k])
=============================================================================
