---------------------------- MODULE VarObjective ----------------------------
(***************************************************************************)
(* Variational objectives (property C15), five parts selected by Part.     *)
(*                                                                         *)
(*  "assembly" objective = (1/B) sum_{i in minibatch} ell_i                *)
(*                         - (beta/N) KL + (1/N) sum_k log prior_k         *)
(*                         - sum_j added loss_j                            *)
(*             with ell_i = E_q[log p(y_i|f_i)] (VariationalELBO),         *)
(*             log E_q[p(y_i|f_i)] (PredictiveLogLikelihood) or the        *)
(*             gamma-robust per-point term (GammaRobustVariationalELBO).   *)
(*             Code side: _ApproximateMarginalLogLikelihood.forward        *)
(*             transcribed (num_batch = event_shape[0], .sum(-1),          *)
(*             .div(num_batch), kl.div(num_data / beta), the added loss    *)
(*             loop, log_prior.add_(....sum().div(num_data)), the          *)
(*             combine_terms tuple) over DISTINGUISHABLE stub values:      *)
(*             per-point term 2^i (3 * 2^i when it comes from              *)
(*             log_marginal), KL = 1000, prior k = 10^(k+4) spread over k  *)
(*             parameter elements registered on the model, on the          *)
(*             likelihood or split between them (the objective module      *)
(*             reaches both, the ApproximateGP does not own the            *)
(*             likelihood), added loss 7 * 10^6.  Rational                 *)
(*             arithmetic, whole lattice.                                  *)
(*             Repairs = {} is the code at HEAD: `num_data / beta` is a    *)
(*             Python float division and raises for beta = 0.              *)
(*             "beta_mul": kl.mul(beta / num_data).                        *)
(*                                                                         *)
(*  "bound"    exact rational instances (linear kernel on integer inputs   *)
(*             Z, X, integer noise, mean constant, targets) x a family of  *)
(*             q(u) = N(m, S).  Everything except one final logarithm is   *)
(*             rational:  N * ELBO   = -n/2 log 2pi - 1/2 log ea + er      *)
(*                        collapsed  = -n/2 log 2pi - 1/2 log ca + cr      *)
(*                        marginal   = -n/2 log 2pi - 1/2 log ma + mr      *)
(*             TLC checks: the closed form of the optimal q(u)             *)
(*             (Sopt = Kzz (Kzz + Kzx D^-1 Kxz)^-1 Kzz, ...) is the Gaussian *)
(*             conditional u | y of the projected model; ELBO(qopt) is the   *)
(*             collapsed (Titsias) bound, piece by piece; and for EVERY q  *)
(*             of the family N * ELBO(q) = collapsed - KL(q || qopt), again  *)
(*             piece by piece (so the collapsed bound is the maximum).     *)
(*             The pieces are handed to the replay.                        *)
(*                                                                         *)
(*  "ngd"      state machine of the natural-gradient loop on a rational    *)
(*             instance: th = natural parameters (S^-1 m, -1/2 S^-1);      *)
(*             NGDStep(lr): forward natural -> (m, S), gradient of         *)
(*             loss = -ELBO (per datum) w.r.t. (m, S), the backward of     *)
(*             _NaturalToMuVarSqrt (d/d eta1 = d/dm - 2 (d/dS) m,          *)
(*             d/d eta2 = d/dS), NGD.step: th += -lr * num_data * grad.    *)
(*             HyperStep: an ordinary optimizer step with lr 0 on the      *)
(*             hyperparameters (changes nothing).  Abstract label of th:   *)
(*             "optimum" (= qopt, defined by the Gaussian conditional),      *)
(*             "init", "other".  Invariants: a step of size one reaches    *)
(*             the optimum from every state; every step from the optimum   *)
(*             is a fixed point.  The natural parameters of the whitened   *)
(*             strategy are a linear image of these (u = mz + L u_w), so   *)
(*             the statement is parametrisation free.                      *)
(*                                                                         *)
(*  "lattice"  the cells of the float64 replay and the relation the        *)
(*             property requires in each ("equal": the inducing points are *)
(*             the batch inputs themselves), plus                          *)
(*             "noise" cells: which noise variance enters the per-point    *)
(*             term of minibatch point k for a likelihood with known       *)
(*             per-point noise (FixedNoiseGaussianLikelihood, with and     *)
(*             without learn_additional_noise) when the minibatch is an    *)
(*             arbitrary index sequence into the data set (subset,         *)
(*             permutation, resample, B < / = / > number of stored values) *)
(*             and the per-call keyword `noise=` is given / not given:     *)
(*             declarative definition vs the transcription of              *)
(*             FixedGaussianNoise.forward / _shaped_noise_covar, and       *)
(*             "hist" cells: a state machine over the HISTORY of the raw   *)
(*             variational parameters (fresh, optimiser steps, dense       *)
(*             tensors loaded through state_dict / assignment) for every   *)
(*             variational distribution class: in every reachable state    *)
(*             the objective is the definition evaluated at the q(u) that  *)
(*             variational_distribution() reports.                         *)
(*                                                                         *)
(*  Instances carry a per-point noise vector nv (homoskedastic: constant); *)
(*  a non-constant nv is a FixedNoiseGaussianLikelihood.                   *)
(*                                                                         *)
(*  "tree"     the MODULE TREE below the objective (objective -> likelihood *)
(*             L, model M -> sub-modules A, B; A -> C) and WHERE the added *)
(*             loss terms and the priors are registered in it: a layout is *)
(*             a partial map (module object, local name) -> term / prior   *)
(*             OBJECT, with 0..3 registrations, equal and different local  *)
(*             names in different sub-modules, one object under several    *)
(*             (module, name) slots, registered-but-never-updated terms     *)
(*             (None), and tree shapes in which one sub-module object is   *)
(*             reachable along two paths ("alias": twice below the same    *)
(*             parent, "diamond": below two parents).  Definition: every   *)
(*             added loss term OBJECT reachable from the model is          *)
(*             subtracted once; every prior REGISTRATION (module object,   *)
(*             local name) reachable from the objective adds (1/N) of the  *)
(*             log density of its own parameter once (one prior object on  *)
(*             two parameters counts for both).  Code side: the generators *)
(*             _extract_named_added_loss_terms (memo of term objects) and  *)
(*             _extract_named_priors (memo of (module, name)) over          *)
(*             torch's named_children (each child object once per parent). *)
(*             Walkers with other memo keys (local name, prior object, no  *)
(*             memo) are evaluated next to the code's: the lattice must    *)
(*             separate each of them from the definition (out.alt).        *)
(*             "comp" cells of part "lattice": the same dimension on real  *)
(*             components (VariationalLatentVariable blocks, which all     *)
(*             register "x_kl"; additive kernels whose parts carry priors  *)
(*             under equal local names).                                   *)
(***************************************************************************)
EXTENDS LinAlg, TLC

CONSTANTS Part, Repairs, Instances, MaxSteps,
          TreeLevel   \* "full": every layout of <= 3 registrations in every shape; "quick": layouts of 3 registrations only in the plain shape without None

VARIABLES c,      \* configuration / instance / cell
          out,    \* what must be observed (+ what the transcribed code computes)
          th,     \* "ngd": natural parameters <<vector, matrix>>
          hist    \* "ngd": sequence of actions taken
vars == <<c, out, th, hist>>

RECURSIVE IPow(_, _)
IPow(b, k) == IF k = 0 THEN 1 ELSE b * IPow(b, k - 1)
RECURSIVE RPowN(_, _)
RPowN(a, k) == IF k = 0 THEN ROne ELSE RMul(a, RPowN(a, k - 1))
Half == RQ(1, 2)
\* TLC keeps [i \in S |-> e] unevaluated and re-evaluates e at every application: nested matrix expressions must be
\* materialised (TLCEval) or the cost is exponential in the nesting depth
EV(v) == TLCEval([k \in 1..Len(v) |-> v[k]])
E(M)  == TLCEval([a \in 1..Len(M) |-> TLCEval([b \in 1..Len(M[a]) |-> M[a][b]])])
VScale(a, v) == [k \in 1..Len(v) |-> RMul(a, v[k])]
TraceOf(M) == RSum(DiagOf(M))

\* ============================ part "assembly" ==================================================
Betas == {<<1, 1>>, <<1, 2>>, <<0, 1>>}
\* psite: the module the priors are registered on.  "model": all on the ApproximateGP (kernel / mean / its own parameters);
\* "likelihood": all on the likelihood (e.g. GaussianLikelihood(noise_prior = ...)); "split": prior 1 on the model, prior 2 on the
\* likelihood.  An ApproximateGP does NOT own its likelihood: only the objective module (children: likelihood, model) reaches both.
\* kw: the keywords the caller hands to the objective besides (q(f), y); every one of them must reach the likelihood method that
\* defines the per-point term ("noise": per-point noise of the minibatch, "extra": any other keyword).  The stub likelihood
\* multiplies its per-point value by 5 when it receives "noise" and by 7 when it receives "extra".
KwSets == SUBSET {"noise", "extra"}
Configs == {cf \in [obj : {"elbo", "pll", "gamma"}, B : 1..4, Nk : {"B", "2B", "10"}, beta : Betas, combine : BOOLEAN,
                    np : 0..2, psite : {"model", "likelihood", "split"}, nl : 0..1, rank : {1, 2}, kw : KwSets] :
              /\ (cf.obj = "gamma" => cf.rank = 1 /\ cf.kw = {})
              /\ (cf.kw # {} => cf.np = 0 /\ cf.nl = 0 /\ cf.beta = <<1, 2>>)
              /\ (cf.np = 0 => cf.psite = "model") /\ (cf.np = 1 => cf.psite # "split")}
PriorSite(cf, k) == IF cf.psite = "split" THEN (IF k = 1 THEN "model" ELSE "likelihood") ELSE cf.psite
NumData(cf) == CASE cf.Nk = "B" -> cf.B [] cf.Nk = "2B" -> 2 * cf.B [] OTHER -> 10

\* stubs: the value returned for data point i by the likelihood method the objective is defined with
StubEll(i)   == R(IPow(2, i))          \* expected_log_prob   (also the abstract gamma-robust term)
StubLogE(i)  == R(3 * IPow(2, i))      \* log_marginal
KwFactor(kw) == R((IF "noise" \in kw THEN 5 ELSE 1) * (IF "extra" \in kw THEN 7 ELSE 1))
StubKL       == R(1000)
StubPrior(k) == R(IPow(10, k + 4))
PriorElems(k) == [e \in 1..k |-> RDiv(StubPrior(k), R(k))]     \* log_prob of a k-element parameter, element by element
StubAdded    == R(7000000)

\* ---- definition
PointTerm(cf, i) == RMul(KwFactor(cf.kw), IF cf.obj = "pll" THEN StubLogE(i) ELSE StubEll(i))    \* the likelihood's term GIVEN the caller's keywords
DefTerms(cf) ==
  LET N == R(NumData(cf))
  IN [lik   |-> RDiv(RSum([i \in 1..cf.B |-> PointTerm(cf, i)]), R(cf.B)),
      kl    |-> RMul(RDiv(cf.beta, N), StubKL),
      prior |-> RDiv(RSum([k \in 1..cf.np |-> StubPrior(k)]), N),
      added |-> RSum([j \in 1..cf.nl |-> StubAdded])]
DefValue(cf) == LET t == DefTerms(cf) IN RSub(RAdd(RSub(t.lik, t.kl), t.prior), t.added)
\* the scale factor of every ingredient (for objectives whose per-point term is not a stub)
DefCoef(cf) == LET N == R(NumData(cf)) IN [lik |-> RDiv(ROne, R(cf.B)), kl |-> RDiv(cf.beta, N), prior |-> RDiv(ROne, N), added |-> ROne]

\* ---- transcription of _ApproximateMarginalLogLikelihood.forward
EventShape(cf) == IF cf.rank = 1 THEN <<cf.B>> ELSE <<cf.B, 2>>           \* approximate_dist_f.event_shape
\* likelihood.expected_log_prob / log_marginal: one value per data point (a multitask likelihood has summed over the tasks)
\* forward(approximate_dist_f, target, **kwargs) -> _log_likelihood_term(approximate_dist_f, target, **kwargs) -> likelihood.<method>(target, dist, **kwargs)
Forwarded(cf) == cf.kw
PerPoint(cf) == [i \in 1..cf.B |-> RMul(KwFactor(Forwarded(cf)), IF cf.obj = "pll" THEN StubLogE(i) ELSE StubEll(i))]
CodeLik(cf) == LET num_batch == EventShape(cf)[1] IN RDiv(RSum(PerPoint(cf)), R(num_batch))      \* .sum(-1) ... .div(num_batch)
CodeKL(cf) ==
  LET N == R(NumData(cf))
  IN IF "beta_mul" \in Repairs THEN [err |-> FALSE, v |-> RMul(StubKL, RDiv(cf.beta, N))]
     ELSE IF IsZero(cf.beta) THEN [err |-> TRUE, v |-> RZero]                  \* self.num_data / self.beta: ZeroDivisionError
     ELSE [err |-> FALSE, v |-> RDiv(StubKL, RDiv(N, cf.beta))]               \* .div(self.num_data / self.beta)
RECURSIVE AddedLoop(_, _)
AddedLoop(acc, j) == IF j = 0 THEN acc ELSE RAdd(AddedLoop(acc, j - 1), StubAdded)                 \* added_loss.add_(term.loss())
\* self.named_priors(): Module.named_priors walks the module tree of the OBJECTIVE: its children are likelihood, then model
RECURSIVE PriorsOn(_, _, _)
PriorsOn(cf, site, k) == IF k = 0 THEN <<>> ELSE PriorsOn(cf, site, k - 1) \o (IF PriorSite(cf, k) = site THEN <<k>> ELSE <<>>)
NamedPriors(cf) == PriorsOn(cf, "likelihood", cf.np) \o PriorsOn(cf, "model", cf.np)
RECURSIVE PriorLoop(_, _, _)
PriorLoop(acc, ks, N) == IF ks = <<>> THEN acc ELSE PriorLoop(RAdd(acc, RDiv(RSum(PriorElems(Head(ks))), N)), Tail(ks), N)   \* .sum().div(self.num_data)
CodeResult(cf) ==
  LET lik == CodeLik(cf)  kl == CodeKL(cf)
      added == AddedLoop(RZero, cf.nl)  had == cf.nl > 0
      prior == PriorLoop(RZero, NamedPriors(cf), R(NumData(cf)))
  IN IF kl.err THEN [err |-> TRUE, res |-> <<>>]
     ELSE [err |-> FALSE,
           res |-> IF cf.combine THEN <<RSub(RAdd(RSub(lik, kl.v), prior), added)>>
                   ELSE IF had THEN <<lik, kl.v, prior, added>> ELSE <<lik, kl.v, prior>>]

\* the tuple of combine_terms = False lists the definition's terms (likelihood, KL, prior[, added]); a missing fourth
\* component stands for "no added loss"
TupleOK(cf, res) ==
  LET t == DefTerms(cf)
  IN /\ Len(res) \in {3, 4}
     /\ res[1] = t.lik /\ res[2] = t.kl /\ res[3] = t.prior
     /\ IF Len(res) = 4 THEN res[4] = t.added ELSE t.added = RZero
AssemblyOut(cf) ==
  LET code == CodeResult(cf)  t == DefTerms(cf)
  IN [val |-> DefValue(cf), terms |-> <<t.lik, t.kl, t.prior, t.added>>, coef |-> DefCoef(cf), code |-> code,
      agree |-> ~code.err /\ (IF cf.combine THEN code.res = <<DefValue(cf)>> ELSE TupleOK(cf, code.res))]

AssemblyOK       == Part = "assembly" => out.agree
PositiveBetaOK   == Part = "assembly" => (~IsZero(c.beta) => out.agree)
PredictionsSharp == (Part = "assembly" /\ Repairs = {}) => (out.agree <=> ~IsZero(c.beta))

\* ============================ part "tree" ======================================================
\* module OBJECTS: "O" the objective, "L" its likelihood, "M" the ApproximateGP, "A" and "B" sub-modules of M, "C" a sub-module of A.
\* A registration slot is (module object, local name); an added-loss layout maps <= 3 of the 8 slots of M, A, B, C to a term object
\* 1..3 or to 0 (register_added_loss_term without update_added_loss_term: None); a prior layout maps <= 3 of the 10 slots of L, M, A, B,
\* C to a prior object 1..3.  Objects are labelled in order of first use, so <<1, 1>> is "one object in two slots" and <<1, 2>> "two
\* objects"; equal local names in different modules and different local names in one module are both in the lattice.
TObjs  == {"elbo", "pll", "gamma"}
TMods  == <<"L", "M", "A", "B", "C">>
TNames == <<"x", "y">>
TSlot(k) == [mod |-> TMods[(k + 1) \div 2], name |-> TNames[2 - (k % 2)]]          \* k in 1..10
TShapes == {"plain", "alias", "diamond"}
\* module._modules in registration order: <<attribute name, child object>>.  "alias": A is registered twice below M; "diamond": C
\* is a child of A and of B (one kernel / latent block object used in two places)
Kids(shape, m) ==
  CASE m = "O" -> << <<"likelihood", "L">>, <<"model", "M">> >>
    [] m = "M" -> << <<"a", "A">>, <<"b", "B">> >> \o (IF shape = "alias" THEN << <<"a2", "A">> >> ELSE <<>>)
    [] m = "A" -> << <<"c", "C">> >>
    [] m = "B" -> IF shape = "diamond" THEN << <<"c", "C">> >> ELSE <<>>
    [] OTHER -> <<>>
RECURSIVE ReachFrom(_, _)
ReachFrom(shape, m) == {m} \cup UNION {ReachFrom(shape, Kids(shape, m)[i][2]) : i \in 1..Len(Kids(shape, m))}

MaxOfSet(S) == CHOOSE x \in S : \A y \in S : y <= x
RECURSIVE SortedSeq(_)
SortedSeq(S) == IF S = {} THEN <<>> ELSE LET m == CHOOSE x \in S : \A y \in S : x <= y IN <<m>> \o SortedSeq(S \ {m})
FirstUse(f, n) == \A k \in 1..n : f[k] <= 1 + MaxOfSet({0} \cup {f[j] : j \in 1..(k - 1)})
LayoutsOver(slots, lo) ==
  UNION {IF S = {} THEN {<<>>}
         ELSE LET sq == SortedSeq(S)  n == Len(sq)
              IN {[k \in 1..n |-> [mod |-> TSlot(sq[k]).mod, name |-> TSlot(sq[k]).name, id |-> f[k]]] : f \in {g \in [1..n -> lo..3] : FirstUse(g, n)}}
         : S \in {T \in SUBSET slots : Cardinality(T) <= 3}}
NoneFree(lay) == \A k \in 1..Len(lay) : lay[k].id # 0
OnMods(lay) == {lay[k].mod : k \in 1..Len(lay)}
TreeCfgs ==
  LET added == [obj : TObjs, shape : TShapes, fam : {"added"}, al : LayoutsOver(3..10, 0), pl : {<<>>}]
      prior == [obj : TObjs, shape : TShapes, fam : {"prior"}, al : {<<>>}, pl : LayoutsOver(1..10, 1)]
      both  == [obj : TObjs, shape : {"plain"}, fam : {"both"}, al : LayoutsOver({5, 7}, 1) \ {<<>>}, pl : LayoutsOver({1, 5, 7}, 1) \ {<<>>}]
  IN {cf \in added \cup prior \cup both :
        LET lay == cf.al \o cf.pl
        IN /\ (cf.shape = "alias" => OnMods(lay) \cap {"A", "C"} # {})           \* a shape is listed where it can matter
           /\ (cf.shape = "diamond" => "C" \in OnMods(lay))
           /\ (TreeLevel = "full" \/ Len(lay) <= 2 \/ cf.fam = "both" \/ (cf.shape = "plain" /\ NoneFree(lay)))}
\* the rest of the call is one fixed cell of the assembly lattice: minibatch of 2 out of 10 data points, beta = 1/2
TreeBase(cf) == [obj |-> cf.obj, B |-> 2, Nk |-> "10", beta |-> <<1, 2>>, combine |-> TRUE, np |-> 0, psite |-> "model", nl |-> 0, rank |-> 1, kw |-> {}]

\* stubs: loss() of term object j; prior object p has log density PriorV(p) * value, element by element; every element of a parameter
\* of module m has the value ParVal(m); the parameter behind local name "x" has one element, behind "y" two
TermV(j)  == R(7 * IPow(10, j + 2))
PriorV(p) == R(IPow(10, p + 1))
ParVal(m) == CASE m = "L" -> 1 [] m = "M" -> 3 [] m = "A" -> 5 [] m = "B" -> 7 [] OTHER -> 11
ParElems(name) == IF name = "x" THEN 1 ELSE 2
PriorElemsT(r) == [e \in 1..ParElems(r.name) |-> RMul(R(ParVal(r.mod)), PriorV(r.id))]          \* prior.log_prob(closure(module))
RECURSIVE OnlyMods(_, _)
OnlyMods(lay, mods) == IF lay = <<>> THEN <<>> ELSE (IF Head(lay).mod \in mods THEN <<Head(lay)>> ELSE <<>>) \o OnlyMods(Tail(lay), mods)

\* ---- definition: a SET of term objects, a SET of (module object, local name) registrations
DefAddedT(cf) ==
  LET reg == OnlyMods(cf.al, ReachFrom(cf.shape, "M"))
      ids == SortedSeq({reg[k].id : k \in 1..Len(reg)} \ {0})
  IN RSum([k \in 1..Len(ids) |-> TermV(ids[k])])
DefPriorT(cf) ==
  LET reg == OnlyMods(cf.pl, ReachFrom(cf.shape, "O"))          \* a layout has one entry per (module object, local name)
  IN RDiv(RSum([k \in 1..Len(reg) |-> RSum(PriorElemsT(reg[k]))]), R(NumData(TreeBase(cf))))
DefTermsT(cf) == LET t == DefTerms(TreeBase(cf)) IN [lik |-> t.lik, kl |-> t.kl, prior |-> DefPriorT(cf), added |-> DefAddedT(cf)]
DefValueT(cf) == LET t == DefTermsT(cf) IN RSub(RAdd(RSub(t.lik, t.kl), t.prior), t.added)

\* ---- transcription of the generators of gpytorch/module.py; a generator with a shared memo = (memo, yielded values) threaded
\* through the traversal.  torch.nn.Module.named_children(): every child OBJECT of one parent once (under its first attribute name)
RECURSIVE DedupKids(_, _)
DedupKids(ks, seen) == IF ks = <<>> THEN <<>> ELSE IF Head(ks)[2] \in seen THEN DedupKids(Tail(ks), seen)
                       ELSE <<Head(ks)>> \o DedupKids(Tail(ks), seen \cup {Head(ks)[2]})
NamedChildren(shape, m) == DedupKids(Kids(shape, m), {})
\* key: what the generator remembers as "already yielded".  _extract_named_added_loss_terms: "object" (the term); _extract_named_priors:
\* "modname" (module object, local name).  The other keys are NOT the code: they are evaluated to show that the lattice tells them apart
WKey(key, m, r) == CASE key = "object" -> r.id [] key = "name" -> r.name [] key = "modname" -> <<m, r.name>> [] OTHER -> 0
RECURSIVE WalkLocal(_, _, _, _), WalkKids(_, _, _, _, _), WalkMod(_, _, _, _, _)
WalkLocal(key, m, rs, memo) ==                                   \* for name, x in module.<registry>.items(): if x is not None and k not in memo
  IF rs = <<>> THEN [memo |-> memo, out |-> <<>>]
  ELSE LET r == Head(rs)
           take == r.id # 0 /\ (key = "nomemo" \/ WKey(key, m, r) \notin memo)
           rest == WalkLocal(key, m, Tail(rs), IF take /\ key # "nomemo" THEN memo \cup {WKey(key, m, r)} ELSE memo)
       IN [memo |-> rest.memo, out |-> (IF take THEN <<r>> ELSE <<>>) \o rest.out]
WalkMod(key, shape, lay, m, memo) ==
  LET loc == WalkLocal(key, m, OnlyMods(lay, {m}), memo)
      kids == WalkKids(key, shape, lay, NamedChildren(shape, m), loc.memo)
  IN [memo |-> kids.memo, out |-> loc.out \o kids.out]
WalkKids(key, shape, lay, ks, memo) ==                           \* for mname, module_ in module.named_children(): yield from ...
  IF ks = <<>> THEN [memo |-> memo, out |-> <<>>]
  ELSE LET h == WalkMod(key, shape, lay, Head(ks)[2], memo)
           t == WalkKids(key, shape, lay, Tail(ks), h.memo)
       IN [memo |-> t.memo, out |-> h.out \o t.out]
RECURSIVE AddedLoopT(_, _)
AddedLoopT(acc, rs) == IF rs = <<>> THEN acc ELSE AddedLoopT(RAdd(acc, TermV(Head(rs).id)), Tail(rs))            \* added_loss.add_(term.loss())
RECURSIVE PriorLoopT(_, _, _)
PriorLoopT(acc, rs, N) == IF rs = <<>> THEN acc ELSE PriorLoopT(RAdd(acc, RDiv(RSum(PriorElemsT(Head(rs))), N)), Tail(rs), N)
CodeAddedT(key, cf) == LET rs == WalkMod(key, cf.shape, cf.al, "M", {}).out IN [had |-> rs # <<>>, v |-> AddedLoopT(RZero, rs)]    \* self.model.added_loss_terms()
CodePriorT(key, cf) == PriorLoopT(RZero, WalkMod(key, cf.shape, cf.pl, "O", {}).out, R(NumData(TreeBase(cf))))                      \* self.named_priors()
CodeResultT(cf, combine) ==
  LET b == TreeBase(cf)  lik == CodeLik(b)  kl == CodeKL(b)
      added == CodeAddedT("object", cf)  prior == CodePriorT("modname", cf)
  IN IF kl.err THEN [err |-> TRUE, res |-> <<>>]
     ELSE [err |-> FALSE,
           res |-> IF combine THEN <<RSub(RAdd(RSub(lik, kl.v), prior), added.v)>>
                   ELSE IF added.had THEN <<lik, kl.v, prior, added.v>> ELSE <<lik, kl.v, prior>>]
TupleOKT(t, res) ==
  /\ Len(res) \in {3, 4}
  /\ res[1] = t.lik /\ res[2] = t.kl /\ res[3] = t.prior
  /\ IF Len(res) = 4 THEN res[4] = t.added ELSE t.added = RZero
\* both values of combine_terms are observations of one cell
TreeOut(cf) ==
  LET t == DefTermsT(cf)
      one == CodeResultT(cf, TRUE)  tup == CodeResultT(cf, FALSE)
  IN [val |-> DefValueT(cf), terms |-> <<t.lik, t.kl, t.prior, t.added>>, coef |-> DefCoef(TreeBase(cf)),
      nterms |-> Cardinality({cf.al[k].id : k \in 1..Len(cf.al)} \ {0}), npriors |-> Len(cf.pl),
      code |-> [combined |-> one, tuple |-> tup],
      agree |-> ~one.err /\ ~tup.err /\ one.res = <<DefValueT(cf)>> /\ TupleOKT(t, tup.res),
      \* does a generator with another memo key give the definition's term on this cell?
      alt |-> [added_name |-> CodeAddedT("name", cf).v = t.added, added_nomemo |-> CodeAddedT("nomemo", cf).v = t.added,
               prior_name |-> CodePriorT("name", cf) = t.prior, prior_object |-> CodePriorT("object", cf) = t.prior,
               prior_nomemo |-> CodePriorT("nomemo", cf) = t.prior]]
TreeOK == Part = "tree" => out.agree
\* reaching a sub-module along a second path changes nothing
SharingNeutral == Part = "tree" => (out.val = DefValueT([c EXCEPT !.shape = "plain"]))
\* without sharing (plain shape, every term object in one slot) a generator without memo gives the definition; a memo of local
\* names does when, in addition, all local names differ: the alternatives go wrong only on the new dimension
AltSane == Part = "tree" =>
  LET plain == c.shape = "plain"
      oneSlotEach == \A i, j \in 1..Len(c.al) : (i # j /\ c.al[i].id # 0) => c.al[i].id # c.al[j].id
      namesDiffer(lay) == \A i, j \in 1..Len(lay) : i # j => lay[i].name # lay[j].name
  IN /\ (plain /\ oneSlotEach => out.alt.added_nomemo)
     /\ (plain => out.alt.prior_nomemo)
     /\ (plain /\ oneSlotEach /\ namesDiffer(c.al) => out.alt.added_name)
     /\ (plain /\ namesDiffer(c.pl) => out.alt.prior_name)

\* ============================ parts "bound" and "ngd": rational instances ======================
\* instance [Z |-> M x d integers, X |-> n x d integers, y |-> n integers, nv |-> n integer noise variances (constant vector:
\* GaussianLikelihood; otherwise the known per-point noise of a FixedNoiseGaussianLikelihood), mc |-> integer mean constant]
\* prior: u = f(Z) ~ N(mc, Z Z^T), f(X) | u Gaussian conditional, y_k = f(X_k) + N(0, nv[k])
\* "raw": q(u) given through a DENSE raw factor C (RawC): the covariance is Tril(C) Tril(C)^T, the entries above the diagonal are
\* not parameters of q(u) (CholeskyVariationalDistribution: "we only consider the lower triangle"); the replay loads C as it is
QFamily == {"prior", "post", "wide", "shift", "ident", "thin", "tilt", "raw"}
RawForms == {"tri", "dense"}     \* form of the raw factor the replay hands to the distribution; BoundOut does not depend on it
RECURSIVE RProd(_)
RProd(q) == IF q = <<>> THEN ROne ELSE RMul(Head(q), RProd(Tail(q)))
RawC(M) == Mk(M, M, LAMBDA a, b : IF a = b THEN R(a) ELSE IF a > b THEN R(-1) ELSE R(a + b))
TrilOf(C) == Mk(Len(C), Len(C), LAMBDA a, b : IF a >= b THEN C[a][b] ELSE RZero)

Geo(i) ==
  LET Zr == FromInt(i.Z)  Xr == FromInt(i.X)
      M == Len(i.Z)  n == Len(i.X)
      nv == VFromInt(i.nv)
      K == E(MMul(Zr, Tr(Zr)))
      Kzx == E(MMul(Zr, Tr(Xr)))
      Kxx == E(MMul(Xr, Tr(Xr)))
      Ki == E(Inv(K))
      A == E(MMul(Ki, Kzx))                                 \* Kzz^-1 Kzx
      Qxx == E(MMul(Tr(Kzx), A))                            \* Nystrom
      mz == [k \in 1..M |-> R(i.mc)]
      mx == [k \in 1..n |-> R(i.mc)]
      yv == VFromInt(i.y)
      C == E(MAdd(Qxx, Diag(nv)))
      Ci == E(Inv(C))
  IN [M |-> M, n |-> n, nv |-> nv, K |-> K, Kzx |-> Kzx, Kxx |-> Kxx, Ki |-> Ki, A |-> A, Qxx |-> Qxx, mz |-> mz, mx |-> mx,
      yv |-> yv, C |-> C, Ci |-> Ci,
      \* the optimal q(u), declaratively: u | y in the projected model y | u ~ N(mx + Kxz Kzz^-1 (u - mz), diag(nv))
      qsm |-> EV(VAdd(mz, MVec(Kzx, MVec(Ci, VSub(yv, mx))))),               \* = LinAlg!CondMean(mz, Kzx, C, yv, mx)
      qsS |-> E(MSub(K, E(MMul(Kzx, E(MMul(Ci, Tr(Kzx)))))))]                \* = LinAlg!CondCov(K, Kzx, C)

\* the closed form quoted by the property's proof obligations
ClosedForm(g) ==
  LET KD == E(Mk(g.M, g.n, LAMBDA a, b : RDiv(g.Kzx[a][b], g.nv[b])))                       \* Kzx diag(nv)^-1
      Sg == E(Inv(E(MAdd(g.K, E(MMul(KD, Tr(g.Kzx)))))))
      r == EV([k \in 1..g.n |-> RDiv(RSub(g.yv[k], g.mx[k]), g.nv[k])])
      KSg == E(MMul(g.K, Sg))
  IN <<EV(VAdd(g.mz, MVec(E(MMul(KSg, g.Kzx)), r))), E(MMul(KSg, g.K))>>

Family(g, ql) ==
  CASE ql = "prior" -> <<g.mz, g.K>>
    [] ql = "post"  -> <<g.qsm, g.qsS>>
    [] ql = "wide"  -> <<g.qsm, E(MScale(R(2), g.qsS))>>
    [] ql = "shift" -> <<EV([k \in 1..g.M |-> RAdd(g.qsm[k], ROne)]), g.qsS>>
    [] ql = "ident" -> <<EV([k \in 1..g.M |-> RZero]), E(Ident(g.M))>>
    [] ql = "thin"  -> <<g.mz, E(Diag([k \in 1..g.M |-> IF k = 1 THEN RQ(1, 10) ELSE ROne]))>>
    [] ql = "tilt"  -> <<EV([k \in 1..g.M |-> IF k = 1 THEN ROne ELSE R(-1)]),
                         IF g.M = 1 THEN << <<R(3)>> >> ELSE E(Mk(g.M, g.M, LAMBDA a, b : IF a = b THEN (IF a = 1 THEN R(2) ELSE ROne) ELSE IF a + b = 3 THEN ROne ELSE RZero))>>
    [] ql = "raw"   -> <<EV([k \in 1..g.M |-> IF k = 1 THEN ROne ELSE RZero]), LET T == E(TrilOf(RawC(g.M))) IN E(MMul(T, Tr(T)))>>

\* pieces of the ELBO of q(u) = N(m, S) on the full data set
Pieces(g, m, S) ==
  LET dm == EV(VSub(m, g.mz))
      mu == EV(VAdd(g.mx, MVec(Tr(g.A), dm)))                                       \* q(f) mean
      ASA == E(MMul(Tr(g.A), E(MMul(S, g.A))))
      v == EV([k \in 1..g.n |-> RAdd(RSub(g.Kxx[k][k], g.Qxx[k][k]), ASA[k][k])])   \* q(f) marginal variances
      ell == EV([k \in 1..g.n |-> LET e == RSub(g.yv[k], mu[k]) IN RNeg(RDiv(RAdd(RMul(e, e), v[k]), RMul(R(2), g.nv[k])))])
      klr == RMul(Half, RSub(RAdd(TraceOf(E(MMul(g.Ki, S))), Dot(dm, EV(MVec(g.Ki, dm)))), R(g.M)))
      kla == RDiv(Det(g.K), Det(S))
  IN [mu |-> mu, v |-> v,
      ell |-> ell,                    \* E_q[log p(y_k|f_k)] = -1/2 log(2 pi nv[k]) + ell[k]
      klr |-> klr, kla |-> kla,       \* KL(q(u) || p(u)) = klr + 1/2 log kla
      er |-> RSub(RSum(ell), klr), ea |-> RMul(RProd(g.nv), kla)]

KLrat(m, S, m0, S0) ==       \* KL(N(m,S) || N(m0,S0)) = this + 1/2 log(det S0 / det S)
  LET P0 == E(Inv(S0))  d == EV(VSub(m, m0))
  IN RMul(Half, RSub(RAdd(TraceOf(E(MMul(P0, S))), Dot(d, EV(MVec(P0, d)))), R(Len(m))))

BoundOut(i, ql) ==
  LET g == Geo(i)
      q == Family(g, ql)
      P == Pieces(g, q[1], q[2])
      Ps == Pieces(g, g.qsm, g.qsS)
      r == EV(VSub(g.yv, g.mx))
      G == E(MAdd(g.Kxx, Diag(g.nv)))
      cr == RSub(RMul(RQ(-1, 2), Dot(r, EV(MVec(g.Ci, r)))), RSum([k \in 1..g.n |-> RDiv(RSub(g.Kxx[k][k], g.Qxx[k][k]), RMul(R(2), g.nv[k]))]))
      ca == Det(g.C)
      mr == RMul(RQ(-1, 2), Dot(r, EV(MVec(E(Inv(G)), r))))
      ma == Det(G)
  IN [qm |-> q[1], qS |-> q[2], rawC |-> RawC(g.M), mu |-> P.mu, v |-> P.v, ell |-> P.ell, klr |-> P.klr, kla |-> P.kla, er |-> P.er, ea |-> P.ea,
      cr |-> cr, ca |-> ca, mr |-> mr, ma |-> ma, qsm |-> g.qsm, qsS |-> g.qsS,
      pd |-> IsPD(g.K) /\ IsPD(q[2]) /\ IsSym(q[2]) /\ IsPD(g.qsS) /\ IsPSD(E(MSub(g.Kxx, g.Qxx))),
      closed |-> ClosedForm(g) = <<g.qsm, g.qsS>>,
      tight |-> Ps.er = cr /\ Ps.ea = ca,                                                    \* ELBO(qopt) = collapsed bound
      gap |-> /\ RSub(P.er, cr) = RNeg(KLrat(q[1], q[2], g.qsm, g.qsS))                      \* N ELBO(q) = collapsed - KL(q || qopt)
              /\ RDiv(P.ea, ca) = RDiv(Det(g.qsS), Det(q[2])),
      attained |-> (ql = "post") => (P.er = cr /\ P.ea = ca)]

BoundOK == Part = "bound" => out.pd /\ out.closed /\ out.tight /\ out.gap /\ out.attained

\* ============================ part "ngd" =======================================================
FromNat(t) == LET S == E(Inv(E(MScale(R(-2), t[2])))) IN <<EV(MVec(S, t[1])), S>>          \* _NaturalToMuVarSqrt.forward
ToNat(m, S) == LET P == E(Inv(S)) IN <<EV(MVec(P, m)), E(MScale(RQ(-1, 2), P))>>

\* gradient of loss = -ELBO w.r.t. (m, S); ELBO per datum on the full batch with num_data = n
LossGrad(g, m, S) ==
  LET dm == EV(VSub(m, g.mz))
      mu == EV(VAdd(g.mx, MVec(Tr(g.A), dm)))
      res == EV([k \in 1..g.n |-> RDiv(RSub(g.yv[k], mu[k]), g.nv[k])])
      dLdm == EV(VSub(MVec(g.A, res), MVec(g.Ki, dm)))
      AD == E(Mk(g.M, g.n, LAMBDA a, b : RDiv(g.A[a][b], g.nv[b])))                             \* A diag(nv)^-1
      dLdS == E(MScale(Half, MSub(E(Inv(S)), MAdd(g.Ki, E(MMul(AD, Tr(g.A)))))))
      sc == RDiv(R(-1), R(g.n))
  IN <<EV(VScale(sc, dLdm)), E(MScale(sc, dLdS))>>
\* _NaturalToMuVarSqrt._backward: gradient w.r.t. the expectation parameters (eta1 = m, eta2 = m m^T + S)
NatBackward(gm, gS, m) == <<EV(VSub(gm, MVec(MScale(R(2), gS), m))), gS>>
\* NGD.step: p.add_(p.grad, alpha = -lr * num_data)
NGDUpdate(g, t, lr) ==
  LET q == FromNat(t)
      gr == LossGrad(g, q[1], q[2])
      nb == NatBackward(gr[1], gr[2], q[1])
      al == RNeg(RMul(lr, R(g.n)))
  IN <<EV(VAdd(t[1], VScale(al, nb[1]))), E(MAdd(t[2], MScale(al, nb[2])))>>

NgdInits == {"prior", "tilt", "post"}
Init0(i, q0) == LET g == Geo(i) q == Family(g, q0) IN ToNat(q[1], q[2])
Label(cc, t) ==
  LET g == Geo(cc.inst)
  IN IF FromNat(t) = <<g.qsm, g.qsS>> THEN "optimum" ELSE IF t = Init0(cc.inst, cc.q0) THEN "init" ELSE "other"
NgdOut(cc, t) == LET q == FromNat(t) IN [m |-> q[1], S |-> q[2], lab |-> Label(cc, t)]

LrOf(a) == IF a = "ngd1" THEN ROne ELSE Half
NGDStep(a) ==
  /\ Len(hist) < MaxSteps
  /\ th' = NGDUpdate(Geo(c.inst), th, LrOf(a))
  /\ hist' = Append(hist, a)
  /\ out' = NgdOut(c, th')
  /\ UNCHANGED c
HyperStep ==                        \* ordinary optimizer, lr = 0, on the hyperparameters: the geometry and th stay
  /\ Len(hist) < MaxSteps
  /\ hist' = Append(hist, "hyper")
  /\ UNCHANGED <<c, th, out>>

OneStepOptimal == Part = "ngd" => ((\E k \in 1..Len(hist) : hist[k] = "ngd1") => out.lab = "optimum")
LabelOK        == Part = "ngd" => out = NgdOut(c, th)
InitLabel      == Part = "ngd" => (hist = <<>> => out.lab \in {"init", "optimum"} /\ (c.q0 = "post" => out.lab = "optimum"))
FixedPoint     == [][Part = "ngd" /\ out.lab = "optimum" => th' = th]_vars
HalfStepMoves  == [][Part = "ngd" /\ out.lab # "optimum" /\ hist' = Append(hist, "ngdhalf") => out'.lab = "other"]_vars

\* ============================ part "lattice" ===================================================
\* cells of the float64 replay on seeded SVGP models
\* priors: the modules that carry registered priors (real GammaPrior / NormalPrior objects on noise, lengthscale, outputscale, mean
\* constant); batch: batch shape of the whole model, () / (1,) / (2,): independent GPs, each with its own optimum
BoundCells == [sec : {"bound"}, strat : {"whitened", "unwhitened"}, kern : {"rbf", "matern", "rbf_ard"}, mean : {"constant", "zero"},
               qfam : {"init", "prior", "post", "wide", "shift", "random", "thin"}, priors : {"none", "model", "likelihood", "both"}]
NgdCells == [sec : {"ngd"}, strat : {"whitened", "unwhitened"}, kern : {"rbf", "matern", "rbf_ard"}, mean : {"constant", "zero"},
             dist : {"natural", "tril"}, start : {"init", "random"}, batch : {0, 1, 2}]
PriorSitesOf(cell) == CASE cell.priors = "none" -> {} [] cell.priors = "both" -> {"model", "likelihood"} [] OTHER -> {cell.priors}
\* the inducing set IS the (mini)batch: UnwhitenedVariationalStrategy.forward then returns q(u) itself
EqualCells == [sec : {"equal"}, strat : {"whitened", "unwhitened"}, kern : {"rbf", "matern"}, mean : {"constant", "zero"},
               qfam : {"prior", "post", "random"}]
LatticeOut(cell) ==
  IF cell.sec \in {"bound", "equal"}
  THEN [value |-> "definition", bound |-> "N*ELBO <= log marginal", collapsed |-> IF cell.qfam = "post" THEN "attained" ELSE "below",
        priorsites |-> IF cell.sec = "bound" THEN PriorSitesOf(cell) ELSE {}]     \* every site's log densities enter with 1/N
  ELSE [value |-> "definition", bound |-> "N*ELBO <= log marginal",
        step1 |-> IF cell.dist = "natural" THEN "optimum" ELSE "vector-optimal, matrix first order",
        step2 |-> IF cell.dist = "natural" THEN "fixed point" ELSE "not stated"]

\* ---- "noise" cells: the noise variance of minibatch point k ------------------------------------------------------------------
\* The data set has Ns points with KNOWN per-point noise, stored in a FixedNoiseGaussianLikelihood (StoredVal(j), j in 1..Ns).
\* The minibatch is the index sequence idx into the data set: B = Len(idx) < Ns (subset), = Ns (stored order, a permutation, a
\* resample with replacement), = Ns + 1.  kw: what the caller passes as `noise=` through the objective: "none"; "gathered" = the
\* minibatch's own noise values StoredVal(idx[k]) (DataLoader over (x, y, noise)); "fresh" = values unrelated to the stored ones (a
\* held-out batch).  learn: learn_additional_noise, a homoskedastic term added to every point.  The symbolic values are resolved to
\* real noise levels by the replay.
NoiseIdx == UNION {[1..B -> 1..3] : B \in 1..4}
NoiseCells == {cf \in [sec : {"noise"}, strat : {"whitened", "unwhitened"}, Ns : 2..3, idx : NoiseIdx, kw : {"none", "gathered", "fresh"}, learn : BOOLEAN] :
                 Len(cf.idx) <= cf.Ns + 1 /\ \A k \in 1..Len(cf.idx) : cf.idx[k] <= cf.Ns}
StoredVal(j) == j
FreshVal(k)  == 10 + k
KwVal(cf, k) == IF cf.kw = "gathered" THEN StoredVal(cf.idx[k]) ELSE FreshVal(k)
\* definition: the caller's per-point values in the caller's order; without them the likelihood's own values, which are only
\* defined for a batch of the stored size (by position); otherwise the term is not defined (defined = FALSE: not replayed)
DefNoise(cf) ==
  LET B == Len(cf.idx)
  IN IF cf.kw # "none" THEN [defined |-> TRUE, base |-> [k \in 1..B |-> KwVal(cf, k)], second |-> cf.learn]
     ELSE IF B = cf.Ns THEN [defined |-> TRUE, base |-> [k \in 1..B |-> StoredVal(k)], second |-> cf.learn]
     ELSE [defined |-> FALSE, base |-> <<>>, second |-> cf.learn]
\* transcription: FixedGaussianNoise.forward (if noise is not None / elif shape[-1] == self.noise.shape[-1] / else Zero) and
\* FixedNoiseGaussianLikelihood._shaped_noise_covar (res + second_noise_covar(..., kwargs without "noise"))
CodeNoise(cf) ==
  LET B == Len(cf.idx)
      base == IF cf.kw # "none" THEN [k \in 1..B |-> KwVal(cf, k)]
              ELSE IF B = cf.Ns THEN [k \in 1..B |-> StoredVal(k)]
              ELSE [k \in 1..B |-> 0]
  IN [base |-> base, second |-> cf.learn]
\* every point carries the noise of ITS data point whenever the caller gathered the values with the batch
OwnNoise(cf) == cf.kw = "gathered" => \A k \in 1..Len(cf.idx) : DefNoise(cf).base[k] = StoredVal(cf.idx[k])
NoiseOut(cf) == LET d == DefNoise(cf)  cd == CodeNoise(cf)
                IN [defined |-> d.defined, base |-> d.base, second |-> d.second, code |-> cd,
                    agree |-> (d.defined => (cd.base = d.base /\ cd.second = d.second)), own |-> OwnNoise(cf),
                    value |-> "definition with the per-point noise", bound |-> "N*ELBO <= log marginal with diag(noise)"]

\* ---- "hist" cells: history of the raw variational parameters (a state machine) ------------------------------------------------
\* The objective is a function of q(u) as the variational distribution REPORTS it; the raw tensors behind it may be in any
\* position.  th.pos: "fresh" (initialised by the strategy from its prior at the first call), "moved" (optimiser steps from
\* there), "generic" (arbitrary dense tensors were loaded: a non-triangular Cholesky factor, a non-symmetric natural matrix,
\* negative standard deviations; stays generic under optimiser steps).  th.opt: q(u) is the optimal one (a natural-gradient
\* step of size one was the last move of the variational parameters and the hyperparameters have not moved since).
\* Actions: load_dense (load_state_dict of dense raw tensors), assign_dense (in-place assignment of dense raw tensors),
\* sgd (SGD step on the variational parameters), adam (Adam step on every parameter), ngd / ngd1 (natural-gradient step of size
\* 3/10 / 1 on the natural parameters), hyper (Adam step on the hyperparameters only).
HDists == {"cholesky", "meanfield", "delta", "natural", "tril"}
HistCells == [sec : {"hist"}, strat : {"whitened", "unwhitened"}, dist : HDists, lik : {"gaussian", "fixed"}]
LoadActs == {"load_dense", "assign_dense"}
HistActs(d) == LoadActs \cup (CASE d = "natural" -> {"ngd", "ngd1", "hyper"} [] d = "tril" -> {"ngd", "sgd", "adam"} [] OTHER -> {"sgd", "adam"})
AllHistActs == UNION {HistActs(d) : d \in HDists}
HistOut(cell, t) ==
  [value |-> "definition at the reported q(u)",
   kl    |-> IF cell.dist = "delta" THEN "-log p(u) at the point" ELSE "KL(reported q(u) || p(u))",
   bound |-> IF cell.dist = "delta" THEN "not stated" ELSE "N*ELBO <= log marginal",
   gap   |-> IF cell.dist = "delta" THEN "not stated" ELSE IF t.opt THEN "attained" ELSE "collapsed - KL(q || q_opt)",
   pos   |-> t.pos]
HistStep(a) ==
  /\ c.sec = "hist" /\ a \in HistActs(c.dist) /\ Len(hist) < MaxSteps
  /\ th' = [pos |-> IF a \in LoadActs THEN "generic" ELSE IF th.pos = "generic" THEN "generic" ELSE "moved",
            opt |-> IF a = "ngd1" /\ c.dist = "natural" THEN TRUE ELSE IF a = "ngd" /\ c.dist = "natural" THEN th.opt ELSE FALSE]
  /\ hist' = Append(hist, a)
  /\ out' = HistOut(c, th')
  /\ UNCHANGED c
HistOK == (Part = "lattice" /\ c.sec = "hist") =>
            /\ out = HistOut(c, th)
            /\ (th.pos = "fresh" <=> hist = <<>>)
            /\ (th.pos = "generic" <=> \E k \in 1..Len(hist) : hist[k] \in LoadActs)
            /\ (th.opt => \E k \in 1..Len(hist) : hist[k] = "ngd1" /\ \A j \in (k + 1)..Len(hist) : hist[j] = "ngd")
GenericSticky == [][(Part = "lattice" /\ c.sec = "hist" /\ th.pos = "generic") => th'.pos = "generic"]_vars

\* ---- "comp" cells: the registration dimension of part "tree" on REAL components -----------------------------------------------
\* blocks: number of VariationalLatentVariable blocks whose samples are concatenated to the GP input; every block registers its
\* KL(q(x) || p(x)) under the same local name "x_kl" in its own sub-module.  reuse: the first block object is also attached below a
\* second parent (one object reachable along two paths).  kern: "single" scaled kernel; "sum" of two scaled kernels, each of which
\* carries a lengthscale and an outputscale prior under the same local names; "sum_shared": as "sum", and ONE prior object serves both
\* lengthscales (two registrations, two parameters).  priors: the sites that carry priors (model: every kernel part and the constant
\* mean; likelihood: the noise).  Definition: minus the KL of every block once, plus (1/N) the log density of every registered prior
\* on its own parameter once.
\* resample: the latent inputs are sampled twice before the objective is evaluated; every sample REPLACES the block's term
\* (update_added_loss_term), so each block still contributes its current KL once.
CompCells == {cf \in [sec : {"comp"}, strat : {"whitened", "unwhitened"}, blocks : 0..3, reuse : BOOLEAN, resample : BOOLEAN,
                      kern : {"single", "sum", "sum_shared"}, priors : {"none", "model", "likelihood", "both"}] :
                /\ (cf.reuse => cf.blocks > 0)
                /\ (cf.resample => cf.blocks > 0 /\ ~cf.reuse)
                /\ (cf.kern = "sum_shared" => cf.priors \in {"model", "both"})}
CompOut(cell) ==
  [value |-> "definition", nadded |-> cell.blocks,
   npriors |-> (IF cell.priors \in {"model", "both"} THEN (IF cell.kern = "single" THEN 2 ELSE 4) + 1 ELSE 0) + (IF cell.priors \in {"likelihood", "both"} THEN 1 ELSE 0),
   nprior_objects |-> (IF cell.priors \in {"model", "both"} THEN (CASE cell.kern = "single" -> 2 [] cell.kern = "sum" -> 4 [] OTHER -> 3) + 1 ELSE 0)
                      + (IF cell.priors \in {"likelihood", "both"} THEN 1 ELSE 0)]

Lattice2Out(cell) == IF cell.sec = "noise" THEN NoiseOut(cell) ELSE IF cell.sec = "hist" THEN HistOut(cell, [pos |-> "fresh", opt |-> FALSE])
                     ELSE IF cell.sec = "comp" THEN CompOut(cell) ELSE LatticeOut(cell)
NoiseOK == (Part = "lattice" /\ c.sec = "noise") => (out.agree /\ out.own)
LatticeOK == Part = "lattice" => (c.sec \in {"ngd", "noise", "hist", "comp"} \/ (out.collapsed = "attained" <=> c.qfam = "post"))
CompOK == (Part = "lattice" /\ c.sec = "comp") => (out.nadded = c.blocks /\ (c.priors = "none" <=> out.npriors = 0))

\* ============================ machine ==========================================================
Init ==
  \/ Part = "assembly" /\ c \in Configs /\ out = AssemblyOut(c) /\ th = <<>> /\ hist = <<>>
  \/ Part = "tree"     /\ c \in TreeCfgs /\ out = TreeOut(c) /\ th = <<>> /\ hist = <<>>
  \/ Part = "bound"    /\ c \in [inst : Instances, q : QFamily] /\ out = BoundOut(c.inst, c.q) /\ th = <<>> /\ hist = <<>>
  \/ Part = "ngd"      /\ c \in [inst : Instances, q0 : NgdInits] /\ th = Init0(c.inst, c.q0) /\ hist = <<>> /\ out = NgdOut(c, th)
  \/ Part = "lattice"  /\ c \in (BoundCells \cup NgdCells \cup EqualCells \cup NoiseCells \cup HistCells \cup CompCells) /\ out = Lattice2Out(c)
                        /\ th = (IF c.sec = "hist" THEN [pos |-> "fresh", opt |-> FALSE] ELSE <<>>) /\ hist = <<>>
Next ==
  IF Part = "ngd" THEN NGDStep("ngd1") \/ NGDStep("ngdhalf") \/ HyperStep
  ELSE IF Part = "lattice" THEN (\E a \in AllHistActs : HistStep(a)) \/ UNCHANGED vars
  ELSE UNCHANGED vars
Spec == Init /\ [][Next]_vars
=============================================================================
