----------------------------- MODULE Structured -----------------------------
(***************************************************************************)
(* Structure-exploiting kernels and prediction strategies (property C09):  *)
(* every structured object must equal the dense object it abbreviates.     *)
(* Parts (constant Part):                                                  *)
(*                                                                         *)
(*  exact index maps over whole small domains (integers, labelled          *)
(*  matrices, so that a transposed / re-ordered entry changes the value):  *)
(*   "kron"   MultitaskKernel = KroneckerProductLinearOperator(K_data,     *)
(*            B_task), LCMKernel = sum of such terms, against the meaning  *)
(*            entry((i,a),(j,b)) = sum_q K_q[i,j] B_q[a,b] in the          *)
(*            point-major (interleaved) layout row = i*t + a               *)
(*   "index"  IndexKernel: B = F F^T + diag(v) looked up through an        *)
(*            InterpolatedLinearOperator with one index per row; the       *)
(*            Hadamard multitask kernel K[r,c] * B[task_r, task_c]         *)
(*   "grid"   GridKernel: per-dimension (Toeplitz) matrices, ragged grids  *)
(*            padded and un-padded, KroneckerProductLinearOperator(        *)
(*            *covars[::-1]) against the product kernel on the points of   *)
(*            create_data_from_grid (dimension 0 varies fastest)           *)
(*   "ski"    GridInterpolationKernel composes interpolate()'s flat grid   *)
(*            index with the GridKernel matrix: both must enumerate the    *)
(*            grid points in the same order                                *)
(*                                                                         *)
(*  exact rational instances (LinAlg.tla), code-shaped formula = dense     *)
(*  Gaussian conditional:                                                  *)
(*   "sgpr"   InducingPointKernel (k_ux1 @ inv_root, inv_root inv_root^T = *)
(*            Kzz^-1) = Nystrom; SGPRPredictionStrategy (Woodbury          *)
(*            covar_cache) = conditional of the Nystrom (+ diagonal        *)
(*            correction) matrix = Titsias' predictive equations; pieces   *)
(*            of the collapsed bound.  The observation noise is the        *)
(*            diagonal matrix of a Gaussian-family noise model (field nk): *)
(*            "homo" (one variance), "fixed" (a known variance per         *)
(*            training point), "fixedadd" (known per-point + one learned   *)
(*            variance), "hetero" (a function of the input); the           *)
(*            collapsed bound is stated as the ELBO at the optimal q(u)    *)
(*   "rff"    RFFPredictionStrategy (feature-space cache) = conditional    *)
(*            for Phi Phi^T = weight-space posterior                       *)
(*   "wiski"  InterpolatedPredictionStrategy fantasy caches (W' D^-1 W,    *)
(*            W' D^-1 y) and their low-rank update = conditional on        *)
(*            train + fantasy data for W K_uu W'                           *)
(*                                                                         *)
(*  a state machine (histories, not single calls):                         *)
(*   "gridsm" the eval-mode cache of K_UU in GridKernel /                  *)
(*            GridInterpolationKernel under evaluate / update_grid /       *)
(*            load_state_dict / growth of a data-dependent grid /          *)
(*            train-eval switches: every evaluation answers from the       *)
(*            CURRENT grid                                                 *)
(*   "gridpred" MODEL-level predictions of a KISS-GP exact GP whose grid   *)
(*            is data-driven (no grid_bounds): one prediction is a short   *)
(*            history of kernel evaluations (strategy creation on the      *)
(*            training inputs, test/test block, test/train block), each of *)
(*            which may re-lay the grid; the test extent takes every       *)
(*            position relative to the training extent (well inside, a     *)
(*            fraction of a cell inside the extremes, equal, outside) on   *)
(*            either side: all blocks and the strategy's caches must live  *)
(*            on ONE grid (then the prediction is the dense conditional of *)
(*            covar_module(cat(train, test)))                              *)
(*                                                                         *)
(*  the access forms of a structured kernel:                               *)
(*   "access" every structured kernel family x train/eval mode x the       *)
(*            setting that it reads (sgpr_diagonal_correction,             *)
(*            use_toeplitz) x x1 is x2 or not x every way of reading the   *)
(*            kernel (full matrix, diag = True, diagonal of the lazily     *)
(*            evaluated kernel, diagonal of the evaluated operator,        *)
(*            variance of a distribution holding the lazy kernel): every   *)
(*            form is the projection of ONE dense meaning, and only the    *)
(*            diagonal correction (eval mode, setting on, x1 = x2) changes *)
(*            that meaning                                                 *)
(***************************************************************************)
EXTENDS LinAlg, TLC

CONSTANTS Part, Instances,
          MaxN, MaxT, MaxQ,      \* "kron", "index": points, tasks, LCM terms
          GridSizes,             \* "grid", "ski": set of size sequences (one entry per dimension)
          Order,                 \* "ski": how interpolate() flattens a multi-index: "lex" (last dimension fastest) | "colmajor"
          SkiKron,               \* "ski": Kronecker order of K_uu in interpolation mode: "reversed" | "forward"
          GsmKind, GsmDepth,     \* "gridsm": "fixed" | "dyn" | "plain" kernel, length of the histories
          GsmWide,               \* "gridsm": BOOLEAN, the wide alphabet (every pair of data ranges; both kinds of evaluation at every step)
          GsmClear,              \* "gridsm": what update_grid invalidates: "always" (the code) | "noninterp" (a model of a stale-cache variant)
          GpDepth,               \* "gridpred": length of the histories (predictions / strategy resets)
          GpTight,               \* "gridpred": how far INSIDE the extent a grid was fitted to the kernel's "tight bounds" lie (0: the code;
                                 \*             > 0: a model of a kernel that re-lays its grid for data it already covers)
          GpOutside,             \* "gridpred": BOOLEAN, test extents that stick out of the training extent are part of the alphabet
          AccessModel            \* "access": "code" | "shortcut" (a model of a diag = True path that skips the settings; must violate AccessOK)

VARIABLES c, out
vars == <<c, out>>

\* ============================== integer matrices =================================================
IMk(r, k, f(_, _)) == [i \in 1..r |-> [j \in 1..k |-> f(i, j)]]
IRows(M) == Len(M)
ICols(M) == IF Len(M) = 0 THEN 0 ELSE Len(M[1])
RECURSIVE ISum(_)
ISum(q) == IF q = <<>> THEN 0 ELSE Head(q) + ISum(Tail(q))
RECURSIVE IProd(_)
IProd(q) == IF q = <<>> THEN 1 ELSE Head(q) * IProd(Tail(q))
IMMulT(A, B) == IMk(IRows(A), IRows(B), LAMBDA i, j : ISum([k \in 1..ICols(A) |-> A[i][k] * B[j][k]]))      \* A B^T
IMAdd(A, B) == IMk(IRows(A), ICols(A), LAMBDA i, j : A[i][j] + B[i][j])

\* the Kronecker product as the library's operator represents it: block (i, j) of the result is A[i][j] * B
Kron(A, B) ==
  LET rb == IRows(B) cb == ICols(B)
  IN IMk(IRows(A) * rb, ICols(A) * cb, LAMBDA r, s : A[((r - 1) \div rb) + 1][((s - 1) \div cb) + 1] * B[((r - 1) % rb) + 1][((s - 1) % cb) + 1])
RECURSIVE KronList(_)
KronList(Ms) == IF Len(Ms) = 1 THEN Ms[1] ELSE Kron(Ms[1], KronList(Tail(Ms)))

\* InterpolatedLinearOperator(base, left indices/values, right indices/values).to_dense() = Wl base Wr^T
InterpDense(B, li, lv, ri, rv) ==
  IMk(Len(li), Len(ri), LAMBDA r, s :
        ISum([a \in 1..Len(li[r]) |-> ISum([b \in 1..Len(ri[s]) |-> lv[r][a] * rv[s][b] * B[li[r][a] + 1][ri[s][b] + 1]])]))

\* ============================== "kron" ===========================================================
\* labelled data matrices (a stub data kernel on labelled points) and integer task parameters
DataK(q, n, m) == IMk(n, m, LAMBDA i, j : 100 * q + 10 * i + j)
Factor(q, t, r) == IMk(t, r, LAMBDA a, rho : a + 2 * rho + q - 3)             \* covar_factor (t x rank), may be t x 0
VarOf(q, t) == [a \in 1..t |-> a + q]
TaskB(q, t, r) == IMk(t, t, LAMBDA a, b : ISum([rho \in 1..r |-> Factor(q, t, r)[a][rho] * Factor(q, t, r)[b][rho]]) + (IF a = b THEN VarOf(q, t)[a] ELSE 0))

MultitaskDense(q, n, m, t, r) == Kron(DataK(q, n, m), TaskB(q, t, r))     \* KroneckerProductLinearOperator(covar_x, covar_i)
RECURSIVE LCMDense(_, _, _, _, _)
LCMDense(Q, n, m, t, r) == IF Q = 1 THEN MultitaskDense(1, n, m, t, r) ELSE IMAdd(LCMDense(Q - 1, n, m, t, r), MultitaskDense(Q, n, m, t, r))

Pos(i, a, t) == (i - 1) * t + a              \* 1-based position of (point i, task a) in the interleaved layout
KronCases == {k \in [n : 1..MaxN, m : 1..MaxN, t : 1..MaxT, r : 0..MaxT, Q : 1..MaxQ] : k.r <= k.t}
KronOK ==
  Part = "kron" =>
    LET M == LCMDense(c.Q, c.n, c.m, c.t, c.r)
    IN /\ IRows(M) = c.n * c.t /\ ICols(M) = c.m * c.t
       /\ \A i \in 1..c.n, j \in 1..c.m, a \in 1..c.t, b \in 1..c.t :
            M[Pos(i, a, c.t)][Pos(j, b, c.t)] = ISum([q \in 1..c.Q |-> DataK(q, c.n, c.m)[i][j] * TaskB(q, c.t, c.r)[a][b]])
       \* the same layout MultitaskMultivariateNormal (interleaved) reads: flat position k holds (point k \div t, task k % t)
       /\ \A k \in 0..(c.n * c.t - 1) : Pos((k \div c.t) + 1, (k % c.t) + 1, c.t) = k + 1

\* ============================== "index" ==========================================================
IdxVecs(t, lens) == UNION {[1..n -> 0..(t - 1)] : n \in lens}
IndexCases == {k \in [t : 1..MaxT, r : 0..MaxT, i1 : IdxVecs(MaxT, 1..MaxN), i2 : IdxVecs(MaxT, 1..2)] :
                 k.r <= k.t /\ (\A p \in 1..Len(k.i1) : k.i1[p] < k.t) /\ (\A p \in 1..Len(k.i2) : k.i2[p] < k.t)}
Ones(v) == [p \in 1..Len(v) |-> <<1>>]
AsCol(v) == [p \in 1..Len(v) |-> <<v[p]>>]
IndexDense(k) == InterpDense(TaskB(1, k.t, k.r), AsCol(k.i1), Ones(k.i1), AsCol(k.i2), Ones(k.i2))
HadamardDense(k) == LET A == DataK(1, Len(k.i1), Len(k.i2)) I == IndexDense(k) IN IMk(Len(k.i1), Len(k.i2), LAMBDA p, s : A[p][s] * I[p][s])
IndexOK ==
  Part = "index" =>
    LET B == TaskB(1, c.t, c.r) F == Factor(1, c.t, c.r)
    IN /\ B = IMAdd(IMMulT(F, F), IMk(c.t, c.t, LAMBDA a, b : IF a = b THEN VarOf(1, c.t)[a] ELSE 0))       \* covar_factor covar_factor^T + diag(var)
       /\ \A p \in 1..Len(c.i1), s \in 1..Len(c.i2) :
            /\ IndexDense(c)[p][s] = B[c.i1[p] + 1][c.i2[s] + 1]
            /\ HadamardDense(c)[p][s] = DataK(1, Len(c.i1), Len(c.i2))[p][s] * B[c.i1[p] + 1][c.i2[s] + 1]

\* ============================== "grid" ===========================================================
\* dimension i (1-based here, 0-based in the code) has the equally spaced integer grid Off(i) + a * Step(i), a = 0..size-1, and
\* the 1-D stationary kernel KD(i, delta) = Prime(i) + |delta|; the kernel on points is the product over dimensions
Off(i) == i
Step(i) == i
Prime(i) == <<11, 101, 1009>>[i]
KD(i, delta) == Prime(i) + Abs(delta)
GridVal(i, a) == Off(i) + a * Step(i)
FMaxOf(s) == CHOOSE x \in {s[i] : i \in 1..Len(s)} : \A i \in 1..Len(s) : s[i] <= x
Padded(sizes, i) == [k \in 1..FMaxOf(sizes) |-> IF k <= sizes[i] THEN GridVal(i, k - 1) ELSE 0]       \* ragged grids are padded with zeros

\* use_toeplitz: first row against the padded grid, un-padded, expanded as a symmetric Toeplitz matrix
ToeplitzOf(sizes, i) ==
  LET col == [k \in 1..FMaxOf(sizes) |-> KD(i, Padded(sizes, i)[1] - Padded(sizes, i)[k])]
  IN IMk(sizes[i], sizes[i], LAMBDA a, b : col[Abs(a - b) + 1])
\* otherwise: the full matrix on the padded grid, sliced to the first size x size entries
DenseOf(sizes, i) == IMk(sizes[i], sizes[i], LAMBDA a, b : KD(i, Padded(sizes, i)[a] - Padded(sizes, i)[b]))
Reversed(s) == [i \in 1..Len(s) |-> s[Len(s) + 1 - i]]
GridDense(sizes, toep) ==
  KronList(Reversed([i \in 1..Len(sizes) |-> IF toep THEN ToeplitzOf(sizes, i) ELSE DenseOf(sizes, i)]))   \* KroneckerProductLinearOperator(*covars[::-1])

\* create_data_from_grid: meshgrid(indexing = "ij"), stack, permute(reversed), reshape(ndims, -1), transpose: row f (0-based) of the
\* result has coordinate i equal to grid_i[digit_i(f)] with dimension 1 varying fastest
NPoints(sizes) == IProd(sizes)
Below(sizes, i) == IProd(SubSeq(sizes, 1, i - 1))
Above(sizes, i) == IProd(SubSeq(sizes, i + 1, Len(sizes)))
Digit(sizes, i, f) == (f \div Below(sizes, i)) % sizes[i]
FullGrid(sizes, f) == [i \in 1..Len(sizes) |-> GridVal(i, Digit(sizes, i, f))]

GridCases == [sizes : GridSizes, toep : BOOLEAN]
GridOK ==
  Part = "grid" =>
    LET N == NPoints(c.sizes) M == GridDense(c.sizes, c.toep)
    IN /\ IRows(M) = N /\ ICols(M) = N
       \* full_grid enumerates every grid point exactly once
       /\ Cardinality({FullGrid(c.sizes, f) : f \in 0..(N - 1)}) = N
       /\ \A f \in 0..(N - 1), i \in 1..Len(c.sizes) : \E a \in 0..(c.sizes[i] - 1) : FullGrid(c.sizes, f)[i] = GridVal(i, a)
       \* the structured matrix is the product kernel on the points of full_grid
       /\ \A f, h \in 0..(N - 1) :
            M[f + 1][h + 1] = IProd([i \in 1..Len(c.sizes) |-> KD(i, FullGrid(c.sizes, f)[i] - FullGrid(c.sizes, h)[i])])

\* ============================== "ski" ============================================================
\* GridInterpolationKernel = InterpolatedLinearOperator(K_uu, indices / weights from interpolate()).  K_uu is the GridKernel matrix in
\* interpolation mode: KroneckerProductLinearOperator over the per-dimension matrices, SkiKron = "reversed" (*covars[::-1], dimension 1
\* fastest) or "forward" (*covars, last dimension fastest).  interpolate() flattens the per-dimension node indices j_i (0-based) with
\* index_coeff: Order = "lex" (prod(sizes[i+1:]), last dimension fastest) or "colmajor" (prod(sizes[:i]), dimension 1 fastest).
Coeff(sizes, i) == IF Order = "lex" THEN Above(sizes, i) ELSE Below(sizes, i)
InterpFlat(sizes, j) == ISum([i \in 1..Len(sizes) |-> j[i] * Coeff(sizes, i)])
MultiIdx(sizes) == {j \in [1..Len(sizes) -> 0..(FMaxOf(sizes) - 1)] : \A i \in 1..Len(sizes) : j[i] < sizes[i]}
SkiKuu(sizes) == LET Ms == [i \in 1..Len(sizes) |-> ToeplitzOf(sizes, i)] IN KronList(IF SkiKron = "reversed" THEN Reversed(Ms) ELSE Ms)
SkiDigit(sizes, i, f) == IF SkiKron = "reversed" THEN Digit(sizes, i, f) ELSE (f \div Above(sizes, i)) % sizes[i]
SkiPoint(sizes, f) == [i \in 1..Len(sizes) |-> GridVal(i, SkiDigit(sizes, i, f))]          \* the grid point row / column f of K_uu belongs to
SKIKuuOK ==
  Part = "ski" => \A f, h \in 0..(NPoints(c.sizes) - 1) :
                    SkiKuu(c.sizes)[f + 1][h + 1] = IProd([i \in 1..Len(c.sizes) |-> KD(i, SkiPoint(c.sizes, f)[i] - SkiPoint(c.sizes, h)[i])])
\* W K_uu W^T is the interpolated kernel only if row/column InterpFlat(j) of K_uu belongs to the grid point (grid_i[j_i])_i
SKIOrderOK ==
  Part = "ski" => \A j \in MultiIdx(c.sizes) : SkiPoint(c.sizes, InterpFlat(c.sizes, j)) = [i \in 1..Len(c.sizes) |-> GridVal(i, j[i])]
\* what holds instead under "lex" x "reversed" when all dimensions have the same size: the point with the index tuple reversed (harmless
\* only if the grids and the 1-D kernels of all dimensions coincide)
SKIReversalOK ==
  Part = "ski" /\ Order = "lex" /\ SkiKron = "reversed" /\ (\A i \in 1..Len(c.sizes) : c.sizes[i] = c.sizes[1]) =>
    \A j \in MultiIdx(c.sizes) : SkiPoint(c.sizes, InterpFlat(c.sizes, j)) = [i \in 1..Len(c.sizes) |-> GridVal(i, j[Len(c.sizes) + 1 - i])]
SKICases == [sizes : GridSizes]

\* ============================== "sgpr" ===========================================================
\* instance: L (m x m integer lower triangular, positive diagonal), X (n x (m+1)), Xs (ns x (m+1)) integer, y, mc, corr, and the
\* noise model nk with s2 (integer variance), nv (integer variance per training point);
\* linear kernel k(a, b) = a . b, inducing points Z = [L | 0]: Kzz = L L^T.
\* (Every intermediate matrix is bound ONCE in a LET, as an explicit tuple (StrictM / StrictV): TLC re-evaluates operator arguments and the
\* bodies of function constructors at every use.  The ...L operators cancel common factors before multiplying: TLC integers are 32 bit.)
Gm(A, B) == MMul(A, Tr(B))
RMax0(a) == IF RLt(a, RZero) THEN RZero ELSE a
RECURSIVE RPow(_, _)
RPow(a, k) == IF k = 0 THEN ROne ELSE RMul(a, RPow(a, k - 1))
RECURSIVE RProdS(_)
RProdS(q) == IF q = <<>> THEN ROne ELSE RMul(Head(q), RProdS(Tail(q)))
\* rational sums / products that cancel common factors BEFORE multiplying (TLC integers are 32 bit; Rational.tla multiplies the denominators first)
RAddL(a, b) == LET g == Gcd(a[2], b[2]) IN Norm(a[1] * (b[2] \div g) + b[1] * (a[2] \div g), (a[2] \div g) * b[2])
RMulL(a, b) == LET g1 == Gcd(Abs(a[1]), b[2]) g2 == Gcd(Abs(b[1]), a[2])
                   h1 == IF g1 = 0 THEN 1 ELSE g1 h2 == IF g2 = 0 THEN 1 ELSE g2
               IN Norm((a[1] \div h1) * (b[1] \div h2), (a[2] \div h2) * (b[2] \div h1))
RECURSIVE RSumL(_)
RSumL(q) == IF q = <<>> THEN RZero ELSE RAddL(Head(q), RSumL(Tail(q)))
DotL(u, v) == RSumL([k \in 1..Len(u) |-> RMulL(u[k], v[k])])
MTrace(M) == RSumL([p \in 1..Len(M) |-> M[p][p]])
RSubL(a, b) == RAddL(a, RNeg(b))
MMulL(A, B) == Mk(Rows(A), Cols(B), LAMBDA i, j : RSumL([k \in 1..Cols(A) |-> RMulL(A[i][k], B[k][j])]))
MVecL(A, v) == [i \in 1..Rows(A) |-> RSumL([k \in 1..Cols(A) |-> RMulL(A[i][k], v[k])])]
MAddL(A, B) == Mk(Rows(A), Cols(A), LAMBDA i, j : RAddL(A[i][j], B[i][j]))
MSubL(A, B) == Mk(Rows(A), Cols(A), LAMBDA i, j : RSubL(A[i][j], B[i][j]))
VAddL(u, v) == [i \in 1..Len(u) |-> RAddL(u[i], v[i])]
VSubL(u, v) == [i \in 1..Len(u) |-> RSubL(u[i], v[i])]
GmL(A, B) == MMulL(A, Tr(B))
RECURSIVE DetL(_)
DetL(M) ==
  IF Rows(M) = 0 THEN ROne
  ELSE IF Rows(M) = 1 THEN M[1][1]
  ELSE RSumL([j \in 1..Rows(M) |-> LET t == RMulL(M[1][j], DetL(Minor(M, 1, j))) IN IF j % 2 = 1 THEN t ELSE RNeg(t)])
IsPSDL(M) == \A S \in SUBSET (1..Rows(M)) :
               S = {} \/ LET q == CHOOSE q \in [1..Cardinality(S) -> S] : \A a, b \in 1..Cardinality(S) : a < b => q[a] < q[b]
                         IN RLe(RZero, DetL(Sel(M, q, q)))
InvL(M) ==
  LET n == Rows(M) d == RDiv(ROne, DetL(M))
  IN Mk(n, n, LAMBDA i, j : LET cf == DetL(Minor(M, j, i)) IN RMulL(IF (i + j) % 2 = 0 THEN cf ELSE RNeg(cf), d))
CondMeanL(ms, Ksx, A, y, mx) == VAddL(ms, MVecL(Ksx, MVecL(InvL(A), VSubL(y, mx))))
CondCovL(Kss, Ksx, A)        == MSubL(Kss, MMulL(Ksx, MMulL(InvL(A), Tr(Ksx))))
\* TLC evaluates a function constructor to a closure whose body is re-evaluated at EVERY application (a chain of matrix products costs
\* inner-dimension ^ depth per element): every intermediate vector / matrix is rebuilt with Append into an explicit tuple, once
RECURSIVE StrictTo(_, _)
StrictTo(f, k) == IF k = 0 THEN <<>> ELSE Append(StrictTo(f, k - 1), f[k])
StrictV(v) == StrictTo(v, Len(v))
StrictM(M) == StrictTo([p \in 1..Len(M) |-> StrictV(M[p])], Len(M))

\* the Gaussian-family noise models: the observation noise covariance is diag(NoiseVec)
NoiseKinds == {"homo", "fixed", "fixedadd", "hetero"}
NoiseVec(i) == [p \in 1..Len(i.X) |-> CASE i.nk = "homo"     -> R(i.s2)                 \* GaussianLikelihood
                                        [] i.nk = "fixedadd" -> R(i.nv[p] + i.s2)       \* FixedNoiseGaussianLikelihood(learn_additional_noise)
                                        [] OTHER             -> R(i.nv[p])]             \* FixedNoiseGaussianLikelihood; HeteroskedasticNoise

SgprAll(i) ==
  LET m == Len(i.L) n == Len(i.X) ns == Len(i.Xs)
      Lq == StrictM(FromInt(i.L))
      Z == StrictM([p \in 1..m |-> Lq[p] \o <<RZero>>])
      Xq == StrictM(FromInt(i.X))
      Xsq == StrictM(FromInt(i.Xs))
      kzz == StrictM(GmL(Z, Z))
      kxz == StrictM(GmL(Xq, Z))
      ksz == StrictM(GmL(Xsq, Z))
      kxx == StrictM(GmL(Xq, Xq))
      kss == StrictM(GmL(Xsq, Xsq))
      kzx == StrictM(Tr(kxz))
      kzs == StrictM(Tr(ksz))
      nz == StrictV(NoiseVec(i))
      invn == StrictM(Diag([p \in 1..n |-> RDiv(ROne, nz[p])]))
      mx == StrictV([p \in 1..n |-> R(i.mc)])
      ms == StrictV([p \in 1..ns |-> R(i.mc)])
      resid == StrictV(VSubL(VFromInt(i.y), mx))
      \* ---- code: chol = psd_safe_cholesky(Kzz, upper = True) = L^T; inv_root = chol^-1
      U == StrictM(Tr(Lq))
      ir == StrictM(InvL(U))
      irirT == StrictM(GmL(ir, ir))
      rx == StrictM(MMulL(kxz, ir))                           \* k_ux1 @ inv_root (training inputs)
      rs == StrictM(MMulL(ksz, ir))                           \* (test inputs)
      rxT == StrictM(Tr(rx))
      rsT == StrictM(Tr(rs))
      qxx == StrictM(MMulL(rx, rxT))                          \* LowRankRootLinearOperator(root)
      qsx == StrictM(MMulL(rs, rxT))                          \* MatmulLinearOperator(k_ux1 inv_root, (k_ux2 inv_root)^T)
      gap == StrictV([p \in 1..n |-> RSub(kxx[p][p], qxx[p][p])])
      dg == StrictV([p \in 1..n |-> IF i.corr THEN RAdd(nz[p], RMax0(gap[p])) ELSE nz[p]])      \* noise (+ diagonal correction)
      A == StrictM(MAddL(qxx, Diag(dg)))
      Ai == StrictM(InvL(A))
      \* ---- code: Woodbury covar_cache = R^T (D^-1 - D^-1 R (I + R^T D^-1 R)^-1 R^T D^-1) R
      invd == StrictM(Diag([p \in 1..n |-> RDiv(ROne, dg[p])]))
      t1 == StrictM(MMulL(invd, rx))
      t1T == StrictM(Tr(t1))
      t2 == StrictM(MMulL(rxT, t1))
      cap == StrictM(MAddL(Ident(m), t2))
      capi == StrictM(InvL(cap))
      t3 == StrictM(MMulL(t1, capi))
      t4 == StrictM(MMulL(t3, t1T))
      wood == StrictM(MSubL(invd, t4))
      t5 == StrictM(MMulL(wood, rx))
      cache == StrictM(MMulL(rxT, t5))
      \* ---- code: mean = Q*x (A^-1 (y - m)) + m*; covariance = K** (BASE kernel) - L covar_cache L^T, L = k_u* inv_root
      alpha == StrictV(MVecL(Ai, resid))
      qa == StrictV(MVecL(qsx, alpha))
      mean == StrictV(VAddL(qa, ms))
      t6 == StrictM(MMulL(cache, rsT))
      t7 == StrictM(MMulL(rs, t6))
      cov == StrictM(MSubL(kss, t7))
      \* ---- Nystrom and Titsias (2009) with noise covariance N = diag(nz): Sigma = (Kzz + Kzx N^-1 Kxz)^-1
      kzzi == StrictM(InvL(kzz))
      n1 == StrictM(MMulL(kzzi, kzx))
      nys == StrictM(MMulL(kxz, n1))
      nsx == StrictM(MMulL(ksz, n1))
      g1 == StrictM(MMulL(invn, kxz))
      g2 == StrictM(MMulL(kzx, g1))
      sig0 == StrictM(MAddL(kzz, g2))
      sig == StrictM(InvL(sig0))
      tm1 == StrictM(MMulL(sig, kzx))
      tm2 == StrictM(MMulL(tm1, invn))                        \* Sigma Kzx N^-1
      tm3 == StrictM(MMulL(ksz, tm2))
      tm4 == StrictV(MVecL(tm3, resid))
      tmean == StrictV(VAddL(ms, tm4))
      tc1 == StrictM(MMulL(kzzi, kzs))
      tc2 == StrictM(MMulL(ksz, tc1))
      tc3 == StrictM(MMulL(sig, kzs))
      tc4 == StrictM(MMulL(ksz, tc3))
      tc5 == StrictM(MSubL(kss, tc2))
      tcov == StrictM(MAddL(tc5, tc4))
      \* ---- collapsed bound, training mode (no correction): log N(y; m, Qxx + N) - tr(N^-1 (Kxx - Qxx)) / 2
      ab == StrictM(MAddL(qxx, Diag(nz)))
      abi == StrictM(InvL(ab))
      abr == StrictV(MVecL(abi, resid))
      t8 == StrictM(MMulL(invn, rx))
      t9 == StrictM(MMulL(rxT, t8))
      t10 == StrictM(MAddL(Ident(m), t9))
      quad == DotL(resid, abr)
      tr == RSumL([p \in 1..n |-> RDiv(gap[p], nz[p])])         \* code: (diag / noise_diag).sum()
      \* ---- the KERNEL itself (InducingPointKernel.forward) on the training and on the test inputs, per mode, as a full matrix and
      \* through diag = True (covar.diagonal(): row norms of the root, + the correction of LowRankRootAddedDiagLinearOperator)
      corrx == StrictV([p \in 1..n |-> RMax0(gap[p])])
      qss == StrictM(MMulL(rs, rsT))
      gaps == StrictV([p \in 1..ns |-> RSub(kss[p][p], qss[p][p])])
      corrs == StrictV([p \in 1..ns |-> RMax0(gaps[p])])
      kxtrain == qxx                                          \* training mode: never corrected
      kxeval == StrictM(IF i.corr THEN MAddL(qxx, Diag(corrx)) ELSE qxx)
      kseval == StrictM(IF i.corr THEN MAddL(qss, Diag(corrs)) ELSE qss)
      dxroot == StrictV([p \in 1..n |-> RSumL([k \in 1..m |-> RMulL(rx[p][k], rx[p][k])])])
      dsroot == StrictV([p \in 1..ns |-> RSumL([k \in 1..m |-> RMulL(rs[p][k], rs[p][k])])])
      dxeval == StrictV([p \in 1..n |-> IF i.corr THEN RAddL(dxroot[p], corrx[p]) ELSE dxroot[p]])
      dseval == StrictV([p \in 1..ns |-> IF i.corr THEN RAddL(dsroot[p], corrs[p]) ELSE dsroot[p]])
      nss == StrictM(MMulL(ksz, MMulL(kzzi, kzs)))           \* Nystrom on the test inputs
  IN [kxtrain |-> kxtrain, kxeval |-> kxeval, kseval |-> kseval, dxroot |-> dxroot, dxeval |-> dxeval, dseval |-> dseval, nss |-> nss, gaps |-> gaps,
      kzz |-> kzz, kzzi |-> kzzi, irirT |-> irirT, qxx |-> qxx, qsx |-> qsx, nys |-> nys, nsx |-> nsx, gap |-> gap, A |-> A, Ai |-> Ai, wood |-> wood,
      kss |-> kss, ms |-> ms, mx |-> mx, mean |-> mean, cov |-> cov, tmean |-> tmean, tcov |-> tcov, nz |-> nz,
      quad |-> quad, det |-> DetL(ab), detlemma |-> RMulL(RProdS(nz), DetL(t10)), tr |-> tr,
      kxx |-> kxx, kxz |-> kxz, sig |-> sig, sig0 |-> sig0, tm1 |-> tm1, tm2 |-> tm2, resid |-> resid]

\* The meaning of the collapsed bound: the evidence lower bound E_q[log p(y | f)] - KL(q(u) || p(u)) at the optimal q(u) = N(mu, S),
\* S = Kzz Sigma Kzz, mu = Kzz Sigma Kzx N^-1 (y - m); q(f_p) has mean a_p and variance vq_pp + gapD_p with gapD the variance of f_p given u
\* (the dense Gaussian conditional).  -2 ELBO = elbo2 + log terms; -2 bound = quad + tr + log terms, and the log terms agree iff
\* det(Qxx + N) = det(N) det(Kzz) / det(S) = det(N) / (det(Kzz) det(Sigma)).
\* (Separate from SgprAll, whose record is also built for the expected observation `out` in the initial predicate.)
SgprElbo(a) ==
  LET n == Len(a.nz) m == Len(a.kzz)
      gapD == StrictV([p \in 1..n |-> RSub(a.kxx[p][p], a.nys[p][p])])    \* K_pp - K_pz Kzz^-1 K_zp
      muw == StrictV(MVecL(a.tm2, a.resid))                   \* Kzz^-1 mu
      av == StrictV(MVecL(a.kxz, muw))
      kmu == StrictV(MVecL(a.kzz, muw))
      vq == StrictM(MMulL(a.kxz, a.tm1))                      \* Kxz Kzz^-1 S Kzz^-1 Kzx
      skz == StrictM(MMulL(a.sig, a.kzz))                     \* Kzz^-1 S
      dev == StrictV([p \in 1..n |-> RSub(a.resid[p], av[p])])
      fit == RSumL([p \in 1..n |-> RMulL(RAddL(RAddL(RMulL(dev[p], dev[p]), vq[p][p]), gapD[p]), RDiv(ROne, a.nz[p]))])
  IN [gapD |-> gapD, elbo2 |-> RAddL(RAddL(RAddL(fit, MTrace(skz)), DotL(muw, kmu)), R(0 - m)), detelbo |-> RMulL(a.det, RMulL(DetL(a.kzz), RDiv(ROne, DetL(a.sig0))))]

SgprOK ==
  Part = "sgpr" =>
    LET a == SgprAll(c)
        e == SgprElbo(a)
    IN /\ c.nk \in NoiseKinds
       /\ \A p \in 1..Len(c.X) : RLt(RZero, a.nz[p])
       /\ IsPD(a.kzz)
       /\ a.irirT = a.kzzi                                                \* inv_root inv_root^T = Kzz^-1
       /\ a.qxx = a.nys /\ a.qsx = a.nsx                                  \* Nystrom: Kxz Kzz^-1 Kzx
       \* the kernel as a matrix, per mode: Nystrom, + diag(K - Q) exactly when (eval mode, correction on); and the diag = True route
       \* (lazy diagonal, variance of a distribution holding the lazy kernel) is the diagonal of THAT matrix - in particular the base
       \* kernel's diagonal only when the correction is on
       /\ a.kxtrain = a.nys
       /\ a.kxeval = (IF c.corr THEN MAddL(a.nys, Diag([p \in 1..Len(c.X) |-> RSub(a.kxx[p][p], a.nys[p][p])])) ELSE a.nys)
       /\ a.kseval = (IF c.corr THEN MAddL(a.nss, Diag([p \in 1..Len(c.Xs) |-> RSub(a.kss[p][p], a.nss[p][p])])) ELSE a.nss)
       /\ \A p \in 1..Len(c.Xs) : RLe(RZero, a.gaps[p])
       /\ \A p \in 1..Len(c.X) : a.dxroot[p] = a.kxtrain[p][p] /\ a.dxeval[p] = a.kxeval[p][p]
                                   /\ (c.corr => a.dxeval[p] = a.kxx[p][p]) /\ (~c.corr => a.dxeval[p] = a.nys[p][p])
       /\ \A p \in 1..Len(c.Xs) : a.dseval[p] = a.kseval[p][p]
                                    /\ (c.corr => a.dseval[p] = a.kss[p][p]) /\ (~c.corr => a.dseval[p] = a.nss[p][p])
       /\ \A p \in 1..Len(c.X) : RLe(RZero, a.gap[p])                     \* Kxx - Qxx has a non-negative diagonal (clamp inactive)
       /\ a.gap = e.gapD                                                  \*   = the variance of f_p given u
       /\ a.wood = a.Ai                                                   \* Woodbury
       /\ a.mean = CondMeanL(a.ms, a.qsx, a.A, VFromInt(c.y), a.mx)        \* = the dense conditional of the joint prior
       /\ a.cov = CondCovL(a.kss, a.qsx, a.A)                              \*   [[A, Qx*], [Q*x, K**]]
       /\ IsPSDL(a.cov)
       /\ (~c.corr => a.mean = a.tmean /\ a.cov = a.tcov)                 \* = Titsias' predictive equations
       /\ a.det = a.detlemma                                              \* determinant lemma (LowRankRootAddedDiag log det)
       /\ RLe(RZero, a.tr)
       /\ RAddL(a.quad, a.tr) = e.elbo2                                    \* the collapsed bound IS the ELBO at the optimal q(u): rational part
       /\ e.detelbo = RProdS(a.nz)                                        \*   and log part: det(Qxx + N) = det(N) det(Kzz) / det(S)
SgprOut(i) == LET a == SgprAll(i) IN [mean |-> a.mean, cov |-> a.cov, quad |-> a.quad, det |-> a.det, tr |-> a.tr, nz |-> a.nz,
                                      kxtrain |-> a.kxtrain, kxeval |-> a.kxeval, kseval |-> a.kseval, gap |-> a.gap, gaps |-> a.gaps]

\* ============================== "rff" ============================================================
\* instance: F (n x f), Fs (ns x f) integer feature matrices (z / sqrt(D) scaled to integers), y, s2, mc
RffOK ==
  Part = "rff" =>
    LET n == Len(c.F) ns == Len(c.Fs) f == Len(c.F[1])
        F == FromInt(c.F) Fs == FromInt(c.Fs)
        FT == Tr(F) FsT == Tr(Fs)
        s2 == R(c.s2) is2 == RDiv(ROne, R(c.s2))
        mx == [p \in 1..n |-> R(c.mc)] ms == [p \in 1..ns |-> R(c.mc)]
        resid == VSub(VFromInt(c.y), mx)
        kxx == MMul(F, FT) ksx == MMul(Fs, FT) kss == MMul(Fs, FsT)
        s2I == MScale(s2, Ident(n))
        A == MAdd(kxx, s2I)
        Ai == Inv(A)
        \* code: covar_cache covar_cache^T = I - F^T A^-1 F; covariance = Fs (that) Fs^T; mean = K*x A^-1 (y - m) + m*
        t1 == MMul(Ai, F)
        t2 == MMul(FT, t1)
        inner == MSub(Ident(f), t2)
        t3 == MMul(inner, FsT)
        cov == MMul(Fs, t3)
        alpha == MVec(Ai, resid)
        ka == MVec(ksx, alpha)
        mean == VAdd(ka, ms)
        \* weight space: w ~ N(0, I), y = F w + noise: Sigma_w = (I + F^T F / s2)^-1, E w = Sigma_w F^T (y - m) / s2
        g1 == MMul(FT, F)
        g2 == MScale(is2, g1)
        g3 == MAdd(Ident(f), g2)
        sw == Inv(g3)
        w1 == MVec(FT, resid)
        w2 == MVec(sw, w1)
        w3 == MVec(Fs, w2)
        wmean == VAdd(ms, [p \in 1..ns |-> RMul(is2, w3[p])])
    IN /\ mean = CondMean(ms, ksx, A, VFromInt(c.y), mx)
       /\ cov = CondCov(kss, ksx, A)
       /\ inner = sw
       /\ mean = wmean
       /\ IsPSD(cov)

\* ============================== "wiski" ==========================================================
\* instance: W (n x g), Ws (ns x g), Wf (nf x g) integer interpolation matrices, L (g x g): K_uu = L L^T, y, yf, s2; zero mean.
\* caches: C = W' D^-1 W (interp_inner_prod), r = W' D^-1 y (interp_response_cache).  The code factors C = Lc Lc' (Cholesky, irrational)
\* and uses Lc (I + Lc' K Lc)^-1 Lc' which equals C (I + K C)^-1 (push-through); the rational form is evaluated here.
\* fantasy_mean_cache = K r - K Sh K r, fantasy_covar_cache: K Sh K with Sh = C (I + K C)^-1
WiskiPred(K, Ws, C, r) ==
  LET g == Len(K)
      KC == MMul(K, C)
      IKC == MAdd(Ident(g), KC)
      IKCi == Inv(IKC)
      Sh == MMul(C, IKCi)
      ShK == MMul(Sh, K)
      inner == MMul(K, ShK)
      Kr == MVec(K, r)
      ir == MVec(inner, r)
      mcache == VSub(Kr, ir)
      WsT == Tr(Ws)
      KWsT == MMul(K, WsT)
      kss == MMul(Ws, KWsT)
      iWsT == MMul(inner, WsT)
      corr == MMul(Ws, iWsT)
  IN [mean |-> MVec(Ws, mcache), cov |-> MSub(kss, corr)]
SkiCond(K, Ws, W, y, s2) ==
  LET WT == Tr(W) WsT == Tr(Ws)
      KWT == MMul(K, WT)
      kxx == MMul(W, KWT)
      ksx == MMul(Ws, KWT)
      KWsT == MMul(K, WsT)
      kss == MMul(Ws, KWsT)
      s2I == MScale(R(s2), Ident(Len(W)))
      A == MAdd(kxx, s2I)
      z == [p \in 1..Len(W) |-> RZero] zs == [p \in 1..Len(Ws) |-> RZero]
  IN [mean |-> CondMean(zs, ksx, A, y, z), cov |-> CondCov(kss, ksx, A)]
WiskiOK ==
  Part = "wiski" =>
    LET Lq == FromInt(c.L)
        K == Gm(Lq, Lq)
        is2 == RDiv(ROne, R(c.s2))
        W == FromInt(c.W) Wf == FromInt(c.Wf) Ws == FromInt(c.Ws) Wall == FromInt(c.W \o c.Wf)
        y == VFromInt(c.y) yf == VFromInt(c.yf) yall == VFromInt(c.y \o c.yf)
        WT == Tr(W) WfT == Tr(Wf) WallT == Tr(Wall)
        wtw == MMul(WT, W)
        C0 == MScale(is2, wtw)
        wty == MVec(WT, y)
        r0 == [p \in 1..Len(wty) |-> RMul(is2, wty[p])]
        \* fantasy update: add_low_rank(Wf' Df^-1/2) and r + Wf' Df^-1 yf
        wftwf == MMul(WfT, Wf)
        Cf == MScale(is2, wftwf)
        C1 == MAdd(C0, Cf)
        wfty == MVec(WfT, yf)
        r1 == [p \in 1..Len(wty) |-> RAdd(r0[p], RMul(is2, wfty[p]))]
        wallt == MMul(WallT, Wall)
        Call == MScale(is2, wallt)
        wally == MVec(WallT, yall)
        p0 == WiskiPred(K, Ws, C0, r0) p1 == WiskiPred(K, Ws, C1, r1)
        before == SkiCond(K, Ws, W, y, c.s2) after == SkiCond(K, Ws, Wall, yall, c.s2)
    IN /\ p0.mean = before.mean /\ p0.cov = before.cov
       /\ p1.mean = after.mean /\ p1.cov = after.cov
       /\ C1 = Call /\ r1 = [p \in 1..Len(wally) |-> RMul(is2, wally[p])]

\* ============================== "gridsm" =========================================================
\* The eval-mode cache of K_UU (GridKernel._cached_kernel_mat) along histories.  A kernel of kind
\*   "fixed"  GridInterpolationKernel with grid_bounds: the grid changes through update_grid(g) / load_state_dict (grid g, g = 0 the constructor's)
\*   "dyn"    GridInterpolationKernel without grid_bounds: the grid is laid over the data of the first call and re-laid over the data of
\*            any later call that is not covered by it (forward calls update_grid itself)
\*   "plain"  GridKernel (not interpolating): update_grid / load_state_dict also refresh full_grid
\* A grid is a tuple (<<g>>, or <<lo, hi>> = the data range it was fitted to); <<>> = no cached matrix.  Data ranges in half units.
\* Code: Module.train(mode) clears the cache on every switch; _load_from_state_dict clears it; update_grid clears it (GsmClear = "always");
\* forward in eval mode answers from the cache when it is filled and fills it otherwise; in training mode it never caches.
\* Property: every evaluation answers with K_UU of the grid the kernel has NOW (used = grid), i.e. the result is W K_UU(current grid) W^T.
GsmNone == <<>>
GsmRange(r) == CASE r = "A" -> <<0, 2>> [] r = "B" -> <<-2, 4>> [] OTHER -> <<6, 10>>
GsmHull(a, b) == <<IF a[1] < b[1] THEN a[1] ELSE b[1], IF a[2] > b[2] THEN a[2] ELSE b[2]>>
GsmCovers(g, h) == g[1] <= h[1] /\ h[2] <= g[2]
GsmPairs == IF GsmWide THEN {<<"A", "A">>, <<"B", "B">>, <<"C", "C">>, <<"A", "B">>, <<"C", "A">>}         \* (x1 from, x2 from); equal = the same tensor
            ELSE {<<"A", "A">>, <<"A", "B">>, <<"C", "C">>}
\* "fixed": flag = (x1 is x2); "plain": flag = on the full grid (off it the base kernel answers, no cache involved)
GsmFlags == IF GsmWide THEN BOOLEAN ELSE {IF c.kind = "plain" THEN TRUE ELSE Len(out) % 2 = 0}
GsmGridIds == 1..2
GsmClears == GsmClear = "always" \/ c.kind = "plain"
GsmFill(mode, cache, grid) == IF mode = "eval" THEN (IF cache = GsmNone THEN grid ELSE cache) ELSE GsmNone
GsmUsed(mode, cache, grid) == IF mode = "eval" /\ cache # GsmNone THEN cache ELSE grid
GsmLog(e) == out' = Append(out, e)

GsmEvalDyn(pr) ==
  LET h == GsmHull(GsmRange(pr[1]), GsmRange(pr[2]))
      refit == ~c.init \/ ~GsmCovers(c.grid, h)
      grid1 == IF refit THEN h ELSE c.grid
      cache1 == IF refit /\ GsmClears THEN GsmNone ELSE c.cache
  IN /\ c.kind = "dyn"
     /\ c' = [c EXCEPT !.grid = grid1, !.init = TRUE, !.cache = GsmFill(c.mode, cache1, grid1)]
     /\ GsmLog([a |-> "eval", x |-> pr, refit |-> refit, grid |-> grid1, used |-> GsmUsed(c.mode, cache1, grid1), mode |-> c.mode])
\* "fixed": x = <<same>> (x1 is x2 or not); "plain": x = <<on>> (on the full grid: the structured path; off it: the base kernel, no cache)
GsmEvalStatic(flag) ==
  LET structured == c.kind = "fixed" \/ flag
  IN /\ c.kind # "dyn"
     /\ c' = [c EXCEPT !.cache = IF structured THEN GsmFill(c.mode, c.cache, c.grid) ELSE c.cache]
     /\ GsmLog([a |-> "eval", x |-> <<flag>>, refit |-> FALSE, grid |-> c.grid, used |-> IF structured THEN GsmUsed(c.mode, c.cache, c.grid) ELSE c.grid, mode |-> c.mode])
GsmUpdate(g) ==
  /\ c.kind # "dyn"
  /\ c' = [c EXCEPT !.grid = <<g>>, !.cache = IF GsmClears THEN GsmNone ELSE c.cache]
  /\ GsmLog([a |-> "update", g |-> g])
GsmLoad(g) ==
  /\ c.kind # "dyn"
  /\ c' = [c EXCEPT !.grid = <<g>>, !.cache = GsmNone]
  /\ GsmLog([a |-> "load", g |-> g])
GsmSwitch ==
  /\ c' = [c EXCEPT !.mode = IF c.mode = "eval" THEN "train" ELSE "eval", !.cache = GsmNone]
  /\ GsmLog([a |-> "switch", mode |-> IF c.mode = "eval" THEN "train" ELSE "eval"])
GsmNext ==
  \/ /\ Len(out) < GsmDepth
     /\ \/ \E pr \in GsmPairs : GsmEvalDyn(pr)
        \/ \E flag \in GsmFlags : GsmEvalStatic(flag)
        \/ \E g \in GsmGridIds : GsmUpdate(g)
        \/ GsmLoad(1)
        \/ GsmSwitch
  \/ Len(out) >= GsmDepth /\ UNCHANGED vars
GsmInit == [kind : {GsmKind}, mode : {"train", "eval"}, grid : {IF GsmKind = "dyn" THEN <<-2, 2>> ELSE <<0>>}, init : {GsmKind # "dyn"}, cache : {GsmNone}]
GsmOK ==
  Part = "gridsm" =>
    /\ \A k \in 1..Len(out) : out[k].a = "eval" => out[k].used = out[k].grid
    /\ (c.cache # GsmNone => c.cache = c.grid)
    /\ (c.mode = "train" => c.cache = GsmNone)
    /\ (c.kind = "dyn" /\ c.init => \A k \in 1..Len(out) : (out[k].a = "eval" /\ \A j \in (k + 1)..Len(out) : out[j].a # "eval") =>
                                      GsmCovers(c.grid, GsmHull(GsmRange(out[k].x[1]), GsmRange(out[k].x[2]))))     \* the grid covers the last data

\* ============================== "gridpred" =======================================================
\* MODEL-level predictions of an exact GP whose kernel is a GridInterpolationKernel without grid_bounds ("dyn" above).  Extents in
\* abstract units; the training inputs span GpTrain.  A test set is described by the position of its lower and of its upper extreme
\* relative to the training extent: "in" (well inside), "sl" (strictly inside, within a fraction of a grid cell of the training
\* extreme), "eq" (equal to it), "out" (outside).  The kernel re-lays its grid over the data of an evaluation iff these are not covered by
\* the tight bounds of the current grid (= the extent the grid was fitted to when GpTight = 0).
\* One prediction in eval mode (ExactGP.__call__ / InterpolatedPredictionStrategy.exact_prediction):
\*   (1) only when the model has no strategy: K(train, train) is evaluated, the strategy's caches (grid space) are computed from it;
\*   (2) the test/test block is evaluated (data: the test inputs);  (3) the test/train block (data: test and training inputs).
\* The reference is covar_module(cat(train, test)) evaluated after the prediction.  train(); eval() drops the strategy.
\* Property: the caches, both blocks and the reference live on ONE grid.  (On one grid the interpolation strategy IS the dense conditional:
\* parts "wiski" and the float cells.)  Known finding C03/ext/gridi: the strategy survives a grid move, which test extents outside
\* the training extent cause - those histories (clean = FALSE until the next reset) are a class of their own (GpAllOK is violated).
GpTrain == <<0, 100>>
GpLo(p) == CASE p = "in" -> 30 [] p = "sl" -> 1 [] p = "eq" -> 0 [] OTHER -> 0 - 20
GpHi(p) == CASE p = "in" -> 70 [] p = "sl" -> 99 [] p = "eq" -> 100 [] OTHER -> 120
GpPos == IF GpOutside THEN {"in", "sl", "eq", "out"} ELSE {"in", "sl", "eq"}
GpCovered(g, h) == g # GsmNone /\ g[1] + GpTight <= h[1] /\ h[2] <= g[2] - GpTight
GpLay(g, h) == IF GpCovered(g, h) THEN g ELSE h              \* the grid after an evaluation on data of extent h
GpPredict(pl, pu) ==
  LET e == <<GpLo(pl), GpHi(pu)>>
      j == GsmHull(e, GpTrain)
      g0 == IF c.strat = GsmNone THEN GpLay(c.grid, GpTrain) ELSE c.grid
      s1 == IF c.strat = GsmNone THEN g0 ELSE c.strat
      g1 == GpLay(g0, e)
      g2 == GpLay(g1, j)
      g3 == GpLay(g2, j)
      clean == c.clean /\ pl # "out" /\ pu # "out"
  IN /\ c' = [c EXCEPT !.grid = g2, !.strat = s1, !.clean = clean]
     /\ GsmLog([a |-> "predict", pos |-> <<pl, pu>>, gs |-> s1, gtt |-> g1, gtx |-> g2, gref |-> g3, clean |-> clean])
GpReset ==
  /\ c' = [c EXCEPT !.strat = GsmNone, !.clean = TRUE]
  /\ GsmLog([a |-> "reset"])
GpNext ==
  \/ /\ Len(out) < GpDepth
     /\ \/ \E pl \in GpPos, pu \in GpPos : GpPredict(pl, pu)
        \/ GpReset
  \/ Len(out) >= GpDepth /\ UNCHANGED vars
GpInit == [grid : {GsmNone}, strat : {GsmNone}, clean : {TRUE}]
GpOneGrid(e) == e.gs = e.gtt /\ e.gtt = e.gtx /\ e.gtx = e.gref
GpOK    == Part = "gridpred" => \A k \in 1..Len(out) : (out[k].a = "predict" /\ out[k].clean) => GpOneGrid(out[k])
GpAllOK == Part = "gridpred" => \A k \in 1..Len(out) : out[k].a = "predict" => GpOneGrid(out[k])
\* the grid always covers the last data it was asked about
GpCoverOK == Part = "gridpred" => \A k \in 1..Len(out) : out[k].a = "predict" =>
                 GsmCovers(out[k].gref, GsmHull(<<GpLo(out[k].pos[1]), GpHi(out[k].pos[2])>>, GpTrain))

\* ============================== "access" =========================================================
\* Every way of READING a structured kernel is a projection of one dense meaning.  Forms:
\*   "full"      kernel(x1, x2).to_dense()
\*   "diagarg"   kernel(x1, x2, diag = True)
\*   "lazydiag"  kernel(x1, x2).diagonal() on the lazily evaluated kernel (LazyEvaluatedKernelTensor calls forward(diag = True))
\*   "evaldiag"  kernel(x1, x2).evaluate_kernel().diagonal() (the structured operator's own diagonal)
\*   "variance"  MultivariateNormal(0, kernel(x)).variance (reads the lazy diagonal)
\* Stub algebra (labelled integers): the family's matrix on three points is A; the inducing-point families have a gap
\* G = diag(K - Q) > 0; the diagonal correction belongs to the meaning exactly when (eval mode, setting on, x1 = x2).
\* use_toeplitz selects an assembly, never the meaning; train / eval selects a cache, never the meaning (but for the correction).
AccessForms == {"full", "diagarg", "lazydiag", "evaldiag", "variance"}
AccessFamilies == {"nystrom", "mtask-nystrom", "ski", "ski-dyn", "grid", "mtask", "lcm", "index", "index-product", "rff"}
AccessInducing(f) == f \in {"nystrom", "mtask-nystrom"}
AccessSetting(f) == IF AccessInducing(f) THEN "sgpr_diagonal_correction" ELSE IF f \in {"ski", "ski-dyn", "grid"} THEN "use_toeplitz" ELSE "none"
AccessCases == {k \in [fam : AccessFamilies, mode : {"train", "eval"}, on : BOOLEAN, same : BOOLEAN, form : AccessForms] :
                  /\ (k.form = "variance" => k.same)                               \* a distribution holds a square PSD matrix
                  /\ (AccessSetting(k.fam) = "none" => k.on)                       \* no setting: one value
                  /\ (AccessInducing(k.fam) /\ k.mode = "train" => k.same)}        \* documented: the training mode wants x1 = x2
AccN == 3
AccA(k) == IMk(AccN, AccN, LAMBDA i, j : IF k.same THEN 10 * (IF i < j THEN i ELSE j) + (IF i < j THEN j ELSE i) ELSE 100 + 10 * i + j)
AccG(i) == i
AccCorrected(k) == AccessInducing(k.fam) /\ k.mode = "eval" /\ k.on /\ k.same
AccMeaning(k) == IMk(AccN, AccN, LAMBDA i, j : AccA(k)[i][j] + (IF AccCorrected(k) /\ i = j THEN AccG(i) ELSE 0))
AccDiagOf(M) == [i \in 1..AccN |-> M[i][i]]
\* the code: forward assembles the covariance under its own reading of mode and setting and takes the diagonal of THAT for diag = True
AccForward(k, diag) ==
  LET covar == IMk(AccN, AccN, LAMBDA i, j : AccA(k)[i][j] + (IF AccessInducing(k.fam) /\ k.mode # "train" /\ k.on /\ k.same /\ i = j THEN AccG(i) ELSE 0))
  IN IF ~diag THEN covar
     ELSE IF AccessModel = "shortcut" /\ AccessInducing(k.fam) /\ k.mode # "train" /\ k.same THEN [i \in 1..AccN |-> AccA(k)[i][i] + AccG(i)]   \* "the base diagonal"
     ELSE AccDiagOf(covar)
AccRoute(f) == IF f \in {"full", "evaldiag"} THEN "forward-full" ELSE "forward-diag"
AccObserved(k) == CASE k.form = "full" -> AccForward(k, FALSE)
                    [] k.form = "evaldiag" -> AccDiagOf(AccForward(k, FALSE))
                    [] OTHER -> AccForward(k, TRUE)
AccProject(k) == IF k.form = "full" THEN AccMeaning(k) ELSE AccDiagOf(AccMeaning(k))
AccessOK == Part = "access" => AccObserved(c) = AccProject(c)
AccessOut(k) == [proj |-> IF k.form = "full" THEN "full" ELSE "diag", corrected |-> AccCorrected(k), route |-> AccRoute(k.form), setting |-> AccessSetting(k.fam)]

\* ============================== machine ==========================================================
Init ==
  /\ CASE Part = "kron"  -> c \in KronCases
       [] Part = "index" -> c \in IndexCases
       [] Part = "grid"  -> c \in GridCases
       [] Part = "ski"   -> c \in SKICases
       [] Part = "gridsm" -> c \in GsmInit
       [] Part = "gridpred" -> c \in GpInit
       [] Part = "access" -> c \in AccessCases
       [] OTHER          -> c \in Instances
  /\ out = CASE Part = "kron"  -> LCMDense(c.Q, c.n, c.m, c.t, c.r)
             [] Part = "index" -> [index |-> IndexDense(c), hadamard |-> HadamardDense(c)]
             [] Part = "grid"  -> GridDense(c.sizes, c.toep)
             [] Part = "sgpr"  -> SgprOut(c)
             [] Part = "access" -> AccessOut(c)
             [] OTHER          -> <<>>
Next == IF Part = "gridsm" THEN GsmNext ELSE IF Part = "gridpred" THEN GpNext ELSE UNCHANGED vars
Spec == Init /\ [][Next]_vars
=============================================================================
