----------------------------- MODULE GPCacheExt -----------------------------
(***************************************************************************)
(* Extension of GPCache.tla (property C03: evaluation-mode output depends  *)
(* only on current parameters, data and the settings active at the call)   *)
(* to further objects of the library that keep state between calls.        *)
(*                                                                         *)
(* SEMANTIC machine: a version vector  ver = [p, d1, d2, z, g]             *)
(*   p   parameters (optimizer step, load_state_dict, initialisation)      *)
(*   d1  training data of the (first) model, d2 of the second member /     *)
(*       of the noise model                                                *)
(*   z   inducing locations of NNVariationalStrategy (a buffer)            *)
(*   g   the interpolation / kernel grid                                   *)
(* CODE-SHAPED machine: one SLOT per piece of hidden state; a filled slot  *)
(* carries a TAG = the version entries its content was computed from       *)
(* (Dep(slot)) and, for the deep GP, the sample count that fixed its       *)
(* shape.  Slots are filled / read / cleared where the code does it.       *)
(*                                                                         *)
(*  family   slots                     code                                *)
(*  mlist    ps1, ps2                  IndependentModelList: member        *)
(*                                     ExactGP.prediction_strategy         *)
(*  hetero   ps, nps                   ExactGP + HeteroskedasticNoise:     *)
(*                                     strategy of the outer model and of  *)
(*                                     the noise model; aux.nmode = the    *)
(*                                     noise model's `training` flag       *)
(*  nnvs     knn                       NNVariationalStrategy: nn_util      *)
(*                                     index + nn_xinduce_idx (built in    *)
(*                                     __init__/_compute_nn); aux.it =     *)
(*                                     _training_indices_iter              *)
(*  lmc,imt  prior, vardist, chol      memo of the wrapped batched         *)
(*                                     VariationalStrategy                 *)
(*  deepgp   prior1..chol1,            memo of the two DeepGPLayer         *)
(*           prior2..chol2             strategies; chol2's shape has the   *)
(*                                     sample dimension                    *)
(*  gridi    ps, kern                  GridInterpolationKernel without     *)
(*                                     grid_bounds: _cached_kernel_mat,    *)
(*                                     has_initialized_grid (aux.ginit),   *)
(*                                     extent covered (aux.gc)             *)
(*  gridk    ps, kern                  GridKernel + public update_grid     *)
(*  rff, sm  ps                        RFFKernel / SpectralMixtureKernel   *)
(*                                                                         *)
(* The family is a variable `fam` fixed in the initial state (one TLC run  *)
(* covers all families).  Invalidation sites are constants so that a       *)
(* variant with a missing site can be checked to FAIL.  Two invariants     *)
(* are PREDICTED to fail on the model of the current code:                 *)
(*   NoStaleGrid (gridi)  update_grid clears _cached_kernel_mat but not    *)
(*                        the model's prediction strategy, whose caches    *)
(*                        live in grid space (even within ONE call: the    *)
(*                        strategy is created from the grid fitted to the  *)
(*                        training inputs, the joint evaluation moves it)  *)
(*   NoStaleKnn  (nnvs)   load_state_dict replaces inducing_points but the *)
(*                        k-NN structures are only built in __init__       *)
(* The replay (checks/c03_ext.py) confirms or refutes each prediction on   *)
(* the real objects; every history record carries the slots the model      *)
(* expects to be read stale (`stale`, `post`), used to name the cell.      *)
(***************************************************************************)
EXTENDS Integers, Sequences, FiniteSets, TLC

CONSTANTS Families,        \* the families explored (the family is chosen in the initial state)
          MaxV, MaxLen, RecordHist,
          TrainClears,      \* slots cleared by Module.train on a mode change        (current: every memo slot)
          LoadClears,       \* slots cleared by _load_from_state_dict               (current: every memo slot)
          SetDataClears,    \* slots set_train_data may clear (the owner's strategy) (current: ps, ps1, ps2)
          GridMoveClears,   \* slots cleared by GridKernel.update_grid               (current: {"kern"})
          NoiseFinally,     \* HeteroskedasticNoise.forward restores the flag in a `finally`   (current: TRUE)
          KnnOnLoad,        \* k-NN structures rebuilt by load_state_dict            (current: FALSE)
          ShapePop          \* cholesky_factor popped when its shape does not fit    (current: TRUE)

VARIABLES fam, mode, ver, mem, aux, served, hist
vars == <<fam, mode, ver, mem, aux, served, hist>>

Keys == {"p", "d1", "d2", "z", "g"}

Slots == CASE fam = "mlist"           -> {"ps1", "ps2"}
           [] fam = "hetero"          -> {"ps", "nps"}
           [] fam = "nnvs"            -> {"knn"}
           [] fam \in {"lmc", "imt"}  -> {"prior", "vardist", "chol"}
           [] fam = "deepgp"          -> {"prior1", "vardist1", "chol1", "prior2", "vardist2", "chol2"}
           [] fam \in {"gridi", "gridk"} -> {"ps", "kern"}
           [] OTHER                      -> {"ps"}

Dep(s) == CASE s = "ps1"  -> {"p", "d1"}
            [] s = "ps2"  -> {"p", "d2"}
            [] s = "ps"   -> IF fam = "gridi" THEN {"p", "d1", "g"}
                             ELSE IF fam = "hetero" THEN {"p", "d1", "d2"} ELSE {"p", "d1"}
            [] s = "nps"  -> {"p", "d2"}
            [] s = "knn"  -> {"z"}
            [] s = "kern" -> {"p", "g"}
            [] OTHER      -> {"p"}

ExactLike == fam \in {"mlist", "hetero", "gridi", "gridk", "rff", "sm"}
VarLike   == fam \in {"lmc", "imt", "deepgp"}
StratSlots == Slots \cap {"ps", "ps1", "ps2", "nps"}
VarSlots   == Slots \ (StratSlots \cup {"kern", "knn"})

At(s, vv)  == [k \in Keys |-> IF k \in Dep(s) THEN vv[k] ELSE -1]
Clr(m, S)  == [s \in Slots |-> IF s \in S THEN <<>> ELSE m[s]]
Fill(m, S, vv, n) == [s \in Slots |-> IF s \in S /\ m[s] = <<>> THEN <<[v |-> At(s, vv), ns |-> n]>> ELSE m[s]]
Serve(m, S, vv, n) == {[slot |-> s, got |-> m[s][1].v, want |-> At(s, vv), gotns |-> m[s][1].ns, wantns |-> n] : s \in {t \in S : m[t] # <<>>}}

Init ==
  /\ fam \in Families
  /\ mode = "eval"                     \* the history starts from a freshly constructed model put in eval mode
  /\ ver = [k \in Keys |-> 0]
  /\ mem = [s \in Slots |-> IF s = "knn" THEN <<[v |-> At(s, [k \in Keys |-> 0]), ns |-> 0]>> ELSE <<>>]
  /\ aux = [initd |-> FALSE, nmode |-> "eval", it |-> 0, ginit |-> FALSE, gc |-> 0, de |-> 1, hooked |-> {}]
  /\ served = {} /\ hist = <<>>

Stale(x) == x.got # x.want \/ x.gotns # x.wantns
\* ---- the dynamic grid of GridInterpolationKernel ---------------------------------------------------------------
\* extents of input sets: 1 training inputs, 2 + test points just outside them, 3 wider training inputs, 4 + far test
\* points.  A kernel evaluation on inputs of extent e moves the grid (update_grid) iff the grid is not initialised or
\* something lies outside what it was last fitted to.  It never shrinks.
GSt(v, a) == [g |-> v.g, ginit |-> a.ginit, gc |-> a.gc, moved |-> FALSE]
GEval(st, e) == IF fam = "gridi" /\ (~st.ginit \/ e > st.gc)
                THEN [g |-> st.g + 1, ginit |-> TRUE, gc |-> e, moved |-> TRUE]
                ELSE [st EXCEPT !.moved = FALSE]
Max(a, b) == IF a > b THEN a ELSE b

\* ---- evaluation-mode prediction -----------------------------------------------------------------------------------
\* s = [fpv, detach, lik, which, far, ns, ti, alt]
Members(s) == IF s.which = "all" THEN {"ps1", "ps2"} ELSE {s.which}

\* m, v, a: the slot memory, version vector and flags the call starts from
PredictSlotsAt(m, v, a, s) ==
  CASE fam = "mlist" ->
         LET S == Members(s)
         IN [mem |-> Fill(m, S, v, 0), served |-> Serve(m, S, v, 0), ver |-> v, aux |-> a, touched |-> IF s.detach THEN {} ELSE S]
    [] fam = "hetero" ->
         \* creating the outer strategy evaluates the likelihood, hence the noise model, on the training inputs;
         \* likelihood(model(x*), x*) evaluates the noise model on the test inputs (always with attached caches)
         LET useN == m["ps"] = <<>> \/ s.lik
             S == {"ps"} \cup (IF useN THEN {"nps"} ELSE {})
         IN [mem |-> Fill(m, S, v, 0), served |-> Serve(m, S, v, 0), ver |-> v, aux |-> a,
             touched |-> (IF s.detach THEN {} ELSE {"ps"}) \cup (IF useN THEN {"nps"} ELSE {})]
    [] fam = "gridi" ->
         \* (1) no strategy yet: the train-train kernel is evaluated (grid fitted to the training inputs if needed),
         \*     _cached_kernel_mat filled, strategy created from THAT grid
         \* (2) the joint train+test kernel is evaluated: the grid moves if a test point lies outside
         \* (3) the strategy's caches (grid space) are combined with the test interpolation on the CURRENT grid
         LET st0 == GSt(v, a)
             st1 == IF m["ps"] = <<>> THEN GEval(st0, a.de) ELSE st0
             v1  == [v EXCEPT !.g = st1.g]
             m1  == IF m["ps"] = <<>>
                    THEN Fill(Fill(IF st1.moved THEN Clr(m, GridMoveClears) ELSE m, {"kern"}, v1, 0), {"ps"}, v1, 0)
                    ELSE m
             k1  == IF m["ps"] = <<>> /\ ~st1.moved THEN Serve(m, {"kern"}, v1, 0) ELSE {}
             st2 == GEval(st1, Max(a.de, IF s.far THEN 4 ELSE 2))
             v2  == [v EXCEPT !.g = st2.g]
             m2  == IF st2.moved THEN Clr(m1, GridMoveClears) ELSE m1
         IN [mem |-> Fill(m2, {"kern"}, v2, 0),
             served |-> k1 \cup Serve(m2, {"kern"}, v2, 0) \cup Serve(m2, {"ps"}, v2, 0),
             ver |-> v2, aux |-> [a EXCEPT !.ginit = st2.ginit, !.gc = st2.gc], touched |-> IF s.detach THEN {} ELSE {"ps"}]
    [] fam = "gridk" ->
         \* only the train-train covariance (inputs = the full grid) goes through _cached_kernel_mat
         LET S == IF m["ps"] = <<>> THEN {"kern", "ps"} ELSE {"ps"}
         IN [mem |-> Fill(m, S, v, 0), served |-> Serve(m, S, v, 0), ver |-> v, aux |-> a,
             touched |-> IF s.detach THEN {} ELSE {"ps"}]
    [] fam = "nnvs" ->
         [mem |-> m, served |-> Serve(m, {"knn"}, v, 0), ver |-> v, aux |-> a, touched |-> {}]
    [] fam \in {"lmc", "imt"} ->
         [mem |-> Fill(m, Slots, v, 0), served |-> Serve(m, Slots, v, 0), ver |-> v,
          aux |-> [a EXCEPT !.initd = TRUE], touched |-> {}]
    [] fam = "deepgp" ->
         \* layer 1 sees the deterministic inputs; layer 2 sees ns samples: its cholesky factor has shape ns x M x M and
         \* is popped and recomputed when the shape does not fit
         LET pop == ShapePop /\ m["chol2"] # <<>> /\ m["chol2"][1].ns # s.ns
             m1  == IF pop THEN Clr(m, {"chol2"}) ELSE m
             nsof(t) == IF t = "chol2" THEN s.ns ELSE 0
         IN [mem |-> [t \in Slots |-> IF m1[t] = <<>> THEN <<[v |-> At(t, v), ns |-> nsof(t)]>> ELSE m1[t]],
             served |-> UNION {Serve(m1, {t}, v, nsof(t)) : t \in Slots},
             ver |-> v, aux |-> [a EXCEPT !.initd = TRUE], touched |-> {}]
    [] OTHER ->
         [mem |-> Fill(m, {"ps"}, v, 0), served |-> Serve(m, {"ps"}, v, 0), ver |-> v, aux |-> a,
          touched |-> IF s.detach THEN {} ELSE {"ps"}]

PredictSlots(s) == PredictSlotsAt(mem, ver, aux, s)

DefaultS == [fpv |-> FALSE, detach |-> TRUE, lik |-> TRUE, which |-> "all", far |-> FALSE, ns |-> 3, ti |-> FALSE, alt |-> FALSE]
Post == LET m0 == IF mode' = "train" THEN Clr(mem', TrainClears) ELSE mem'
        IN {x.slot : x \in {y \in PredictSlotsAt(m0, ver', aux', DefaultS).served : Stale(y)}}

\* every history record also carries what a closing default prediction (after eval() if needed) would read stale
Rec(e) == IF RecordHist THEN hist' = Append(hist, e @@ [post |-> Post]) ELSE hist' = hist
Room   == (RecordHist => Len(hist) < MaxLen) /\ fam' = fam

\* ---- mode switches ---------------------------------------------------------------------------------------------
Train ==
  /\ Room
  /\ mode' = "train"
  /\ mem' = Clr(mem, TrainClears)
  /\ aux' = [aux EXCEPT !.nmode = "train", !.hooked = @ \ TrainClears]
  /\ UNCHANGED ver /\ served' = {}
  /\ Rec([a |-> "Train"])

Eval ==
  /\ Room
  /\ mode' = "eval"
  /\ mem' = IF mode = "train" THEN Clr(mem, TrainClears) ELSE mem
  /\ aux' = [aux EXCEPT !.nmode = "eval", !.hooked = IF mode = "train" THEN @ \ TrainClears ELSE @]
  /\ UNCHANGED ver /\ served' = {}
  /\ Rec([a |-> "Eval"])

\* ---- training-mode step: forward + backward + optimizer.step -------------------------------------------------
OptStep ==
  /\ Room /\ mode = "train" /\ ver.p < MaxV
  /\ LET gs == GEval(GSt(ver, aux), aux.de)         \* gridi: the training forward evaluates the kernel on the inputs
         m1 == IF VarLike THEN Fill(Clr(mem, VarSlots), VarSlots, ver, 0)      \* __call__ clears, the forward refills
               ELSE IF fam = "hetero" THEN Clr(mem, {"nps"})                 \* eval()/train() toggle inside forward
               ELSE IF gs.moved THEN Clr(mem, GridMoveClears) ELSE mem
     IN /\ mem' = m1
        /\ ver' = [ver EXCEPT !.p = @ + 1, !.g = gs.g]
        /\ aux' = [aux EXCEPT !.initd = IF VarLike \/ fam = "nnvs" THEN TRUE ELSE @,
                              !.it = IF fam = "nnvs" THEN (@ + 1) % 3 ELSE @,
                              !.ginit = gs.ginit, !.gc = gs.gc]
  /\ UNCHANGED mode /\ served' = {}
  /\ Rec([a |-> "OptStep"])

\* NNVariationalStrategy: model(x=None) in training mode draws the next minibatch of inducing points
TrainCall ==
  /\ Room /\ fam = "nnvs" /\ mode = "train" /\ (aux.initd \/ ver.p < MaxV)
  /\ ver' = [ver EXCEPT !.p = IF aux.initd THEN @ ELSE @ + 1]     \* first call initialises the variational parameters
  /\ aux' = [aux EXCEPT !.it = (@ + 1) % 3, !.initd = TRUE]
  /\ UNCHANGED <<mode, mem>> /\ served' = {}
  /\ Rec([a |-> "TrainCall"])

\* SpectralMixtureKernel.initialize_from_data (sets parameters from the data; a parameter edit: training mode only)
InitFromData ==
  /\ Room /\ fam = "sm" /\ mode = "train" /\ ver.p < MaxV
  /\ ver' = [ver EXCEPT !.p = @ + 1]
  /\ UNCHANGED <<mode, mem, aux>> /\ served' = {}
  /\ Rec([a |-> "InitFromData"])

\* ---- evaluation-mode prediction (action) ---------------------------------------------------------------------------
Predict(s) ==
  /\ Room /\ mode = "eval" /\ UNCHANGED mode
  /\ LET r == PredictSlots(s)
     IN /\ mem' = r.mem /\ served' = r.served /\ ver' = r.ver
        /\ aux' = [r.aux EXCEPT !.hooked = @ \cup r.touched]
        /\ Rec([a |-> "Predict", fpv |-> s.fpv, detach |-> s.detach, lik |-> s.lik, which |-> s.which, far |-> s.far,
                ns |-> s.ns, ti |-> s.ti, alt |-> s.alt, stale |-> {x.slot : x \in {y \in r.served : Stale(y)}}])

\* prior-mode call in eval mode: no prediction strategy is involved; the interpolation kernel is evaluated on x* alone
PriorPredict(far) ==
  /\ Room /\ mode = "eval" /\ ExactLike /\ UNCHANGED mode
  /\ LET gs == GEval(GSt(ver, aux), IF far THEN 4 ELSE 2)
         v1 == [ver EXCEPT !.g = gs.g]
         m1 == IF gs.moved THEN Clr(mem, GridMoveClears) ELSE mem
         K  == IF fam = "gridi" THEN {"kern"} ELSE {}
     IN /\ mem' = Fill(m1, K, v1, 0)
        /\ served' = Serve(m1, K, v1, 0)
        /\ ver' = v1
        /\ aux' = [aux EXCEPT !.ginit = gs.ginit, !.gc = gs.gc]
        /\ Rec([a |-> "PriorPredict", far |-> far, stale |-> {x.slot : x \in {y \in Serve(m1, K, v1, 0) : Stale(y)}}])

\* ---- state-changing public operations ------------------------------------------------------------------------------
\* set_train_data on the model (member h of the list): every form changes the data and drops that model's strategy
SetTrainData(h, which, wide) ==
  /\ Room /\ ExactLike /\ ver[h] < MaxV
  /\ ver' = [ver EXCEPT ![h] = @ + 1]
  /\ mem' = Clr(mem, SetDataClears \cap (IF fam = "mlist" THEN (IF h = "d1" THEN {"ps1"} ELSE {"ps2"}) ELSE {"ps"}))
  \* gridi: every new input set is strictly wider than the earlier ones of its kind (narrow / wide), so a grid that was
  \* fitted exactly to the old set no longer covers it
  /\ aux' = [aux EXCEPT !.de = IF fam = "gridi" /\ which # "targets" THEN (IF wide THEN 3 ELSE 1) ELSE @,
                        !.gc = IF fam = "gridi" /\ which # "targets" /\ @ = (IF wide THEN 3 ELSE 1) THEN 0 ELSE @,
                        !.hooked = @ \ (SetDataClears \cap (IF fam = "mlist" THEN (IF h = "d1" THEN {"ps1"} ELSE {"ps2"}) ELSE {"ps"}))]
  /\ UNCHANGED mode /\ served' = {}
  /\ Rec([a |-> "SetTrainData", h |-> h, which |-> which, wide |-> wide])

\* GridKernel: update_grid(new grid) followed by set_train_data(new grid points, new targets)
Regrid ==
  /\ Room /\ fam = "gridk" /\ ver.g < MaxV /\ ver.d1 < MaxV
  /\ ver' = [ver EXCEPT !.g = @ + 1, !.d1 = @ + 1]
  /\ mem' = Clr(mem, GridMoveClears \cup (SetDataClears \cap {"ps"}))
  /\ aux' = [aux EXCEPT !.hooked = @ \ (SetDataClears \cap {"ps"})]
  /\ UNCHANGED mode /\ served' = {}
  /\ Rec([a |-> "Regrid"])

\* load_state_dict of another parameter set of the same architecture (newz: with other inducing locations, nnvs)
LoadStateDict(newz) ==
  /\ Room /\ ver.p < MaxV /\ (newz => ver.z < MaxV)
  /\ LET v1 == [ver EXCEPT !.p = @ + 1, !.z = IF newz THEN @ + 1 ELSE @]
         m1 == Clr(mem, LoadClears)
     IN /\ ver' = v1
        /\ mem' = IF fam = "nnvs" /\ KnnOnLoad THEN Fill(Clr(m1, {"knn"}), {"knn"}, v1, 0) ELSE m1
  /\ aux' = [aux EXCEPT !.initd = TRUE, !.hooked = @ \ LoadClears]      \* the loaded state comes from an initialised model
  /\ UNCHANGED mode /\ served' = {}
  /\ Rec([a |-> "LoadStateDict", newz |-> newz])

\* IndependentModelList.get_fantasy_model: needs every member's strategy; leaves the source untouched
GetFantasy ==
  /\ Room /\ fam = "mlist" /\ mode = "eval" /\ \A s \in Slots : mem[s] # <<>>
  /\ UNCHANGED <<mode, ver, mem, aux>> /\ served' = {}
  /\ Rec([a |-> "GetFantasy"])

\* loss.backward() through a prediction whose caches carry clear_cache_hook: the strategy's memo is emptied, the
\* strategy object (with the train-train covariance it was created from) stays
Backward ==
  /\ Room /\ ExactLike /\ mode = "eval" /\ aux.hooked # {}
  /\ aux' = [aux EXCEPT !.hooked = {}]
  /\ UNCHANGED <<mode, ver, mem>> /\ served' = {}
  /\ Rec([a |-> "Backward"])

\* a call of the heteroskedastic noise module that raises inside the noise model (after noise_model.eval())
FailNoise ==
  /\ Room /\ fam = "hetero"
  /\ aux' = [aux EXCEPT !.nmode = IF NoiseFinally THEN @ ELSE "eval"]
  /\ mem' = IF mode = "train" THEN Clr(mem, {"nps"} \cap TrainClears) ELSE mem       \* leaving training mode clears
  /\ UNCHANGED <<mode, ver>> /\ served' = {}
  /\ Rec([a |-> "FailNoise"])

Settings == [fpv : IF ExactLike THEN BOOLEAN ELSE {FALSE},
             detach : IF ExactLike THEN BOOLEAN ELSE {TRUE},
             lik : IF fam = "hetero" THEN BOOLEAN ELSE {FALSE},
             which : IF fam = "mlist" THEN {"all", "ps1", "ps2"} ELSE {"all"},
             far : IF fam = "gridi" THEN BOOLEAN ELSE {FALSE},
             ns : IF fam = "deepgp" THEN {3, 5} ELSE {0},
             ti : IF fam \in {"lmc", "imt"} THEN BOOLEAN ELSE {FALSE},
             alt : IF fam \in {"nnvs", "lmc", "imt"} THEN BOOLEAN ELSE {FALSE}]      \* other test inputs

Next ==
  \/ Train \/ Eval \/ OptStep \/ TrainCall \/ InitFromData \/ GetFantasy \/ Backward \/ FailNoise \/ Regrid
  \/ \E far \in (IF fam = "gridi" THEN BOOLEAN ELSE {FALSE}) : PriorPredict(far)
  \/ \E h \in (IF fam = "mlist" THEN {"d1", "d2"} ELSE {"d1"}), w \in {"both", "targets"},
        wide \in (IF fam = "gridi" THEN BOOLEAN ELSE {FALSE}) : (wide => w = "both") /\ SetTrainData(h, w, wide)
  \/ \E nz \in (IF fam = "nnvs" THEN BOOLEAN ELSE {FALSE}) : LoadStateDict(nz)
  \/ \E s \in Settings : (fam = "mlist" /\ s.which # "all" => ~s.fpv) /\ Predict(s)

Spec == Init /\ [][Next]_vars

\* ---- properties -----------------------------------------------------------------------------------------------------
\* every piece of hidden state a prediction reads was computed from the current parameters and data
NoStaleServe == \A x \in served : \A k \in {"p", "d1", "d2"} : x.got[k] = x.want[k]
\* ... from the current grid
NoStaleGrid  == \A x \in served : x.got["g"] = x.want["g"]
NoStaleGridK == fam = "gridk" => NoStaleGrid
\* ... from the current inducing locations
NoStaleKnn   == \A x \in served : x.got["z"] = x.want["z"]
\* ... and has the shape the current call needs
NoStaleShape == \A x \in served : x.gotns = x.wantns
\* in training mode no prediction strategy exists (so optimizer steps cannot make one stale)
NoStrategyWhileTraining == mode = "train" => \A s \in StratSlots : mem[s] = <<>>
\* the noise model's training flag follows the outer model after every public operation
NoiseModeRestored == aux.nmode = mode

TypeOK == /\ \A k \in Keys : ver[k] \in 0..(MaxV + 6)
          /\ \A s \in Slots : Len(mem[s]) <= 1
          /\ aux.it \in 0..2 /\ aux.gc \in 0..4
=============================================================================
