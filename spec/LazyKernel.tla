------------------------------ MODULE LazyKernel ------------------------------
(***************************************************************************)
(* LazyEvaluatedKernelTensor and Kernel.__getitem__ / expand_batch as      *)
(* exact functions on LABELLED tensors (property C06).                     *)
(*                                                                         *)
(* SEMANTICS.  A lazily evaluated kernel tensor is (x1, x2, kernel): x1,   *)
(* x2 are tensors of row labels of shape  batch \o <<rows, 1>>  (the last  *)
(* axis stands for the feature axis), the kernel is a family of parameter  *)
(* tensors of shape  batch_shape \o tail  (tail = the non-batch axes, e.g. *)
(* <<1,1>> for a lengthscale, <<>> for an outputscale), an optional        *)
(* active_dims buffer (1-d, NOT batch shaped) and T outputs per input.     *)
(* Its dense value Dense(L) has, at batch element b, row i*T+a, column     *)
(* j*T+c, the label  <<parameters at b, x1 row i at b, a, x2 row j at b,   *)
(* c>>  (encoded as one integer), everything broadcast the numpy way.      *)
(* "Requesting the same covariance entries" = obtaining the same labels.   *)
(*                                                                         *)
(* DECLARATIVE side: numpy-style indexing (PyIndex!TIndex), transposition, *)
(* unsqueeze, repeat and diagonal of the dense label tensor.               *)
(*                                                                         *)
(* CODE-SHAPED side, transcribed from the pinned sources:                  *)
(*   LOGetItem   linear_operator LinearOperator.__getitem__ (ellipsis /    *)
(*               padding / int -> slice(i, i+1) + squeeze / absorbed       *)
(*               tensor indices) behind LazyEvaluatedKernelTensor.         *)
(*               __getitem__ with its [..., slice, slice] fast path        *)
(*   LKGetItem   LazyEvaluatedKernelTensor._getitem                        *)
(*   LKSize      ._size            LKTranspose  ._transpose_nonbatch       *)
(*   LKUnsqueeze .unsqueeze/_unsqueeze_batch    LKRepeat  .repeat          *)
(*   LKDiagonal  ._diagonal                                                *)
(*   KGetItem    Kernel.__getitem__   KExpand   Kernel.expand_batch        *)
(*               (both act on EVERY parameter and buffer)                  *)
(*                                                                         *)
(* The machine starts from one lazy tensor per broadcast pattern and       *)
(* applies one operation (or a chain of index operations).  Every step     *)
(* records the declarative expectation in `hist` for the replay.           *)
(*                                                                         *)
(* Kernels are VALUES here.  That the code's kernels are mutable objects   *)
(* which every derivation must leave untouched ("indexing is pure":        *)
(* evaluate -> derive -> evaluate the original again), and the layout of   *)
(* the diag=True branch of the derivative kernels, are KernelPure.tla.     *)
(* The replay of THIS module re-reads the parameters / buffers of the      *)
(* original kernel object after every case as well (checks/c06.py purity). *)
(*                                                                         *)
(* DATA LATTICE.  In every family but "geo" the rows of x1 / x2 carry      *)
(* pairwise distinct labels (Iota): the most discriminating data for the   *)
(* index algebra.  The relations of the property (diag = diagonal,         *)
(* transposition, lazy = eager, blocks of stacked inputs, row / column     *)
(* slices) quantify over the input POINTS as well, and the points that     *)
(* decide them are not generic: a row can be the ORIGIN of the input       *)
(* space, a UNIT point (on the unit sphere / a one-hot row: the boundary   *)
(* of a ball-shaped domain), a LATTICE point of the kernel's own           *)
(* resonance structure (a period multiple of another row, an exact grid    *)
(* node, an inducing point, the antipode), two rows of an input can be the *)
(* SAME point (coincident), and a row of x1 can be a row of x2 (shared).   *)
(* A geometry (family "geo", CONSTANT Geos) assigns a point id to every    *)
(* row; PointClass gives the class of an id, equality of ids is identity   *)
(* of points.  The label of a row is its point (per batch element), so     *)
(* coincident / shared rows carry EQUAL labels.  GeoCover states that the  *)
(* enumerated geometries put every class into x1 and into x2, contain      *)
(* coincident and shared rows and an x2 = cat(new rows, x1) (a sub-block   *)
(* of kernel(x1, x2) with equal inputs); the relations are actions (Rel,   *)
(* Op("transpose"), Index on rows / columns / the whole tensor) and Agree  *)
(* is checked on them like on every other operation.  The replay           *)
(* realises the point classes in the input space of EVERY zoo kernel       *)
(* (checks/c06_kernels.py geo_inputs) and evaluates every zoo relation on  *)
(* every (broadcast pattern, geometry) TLC enumerates.  In the other       *)
(* families the REAL data follows DataGeo (distinct points, the origin and *)
(* the unit point, the last rows of x1 are the first rows of x2), the stub *)
(* keeps Iota.                                                             *)
(*                                                                         *)
(* SETTINGS AND MODE (the environment).  What a kernel MEANS depends on    *)
(* the environment it is evaluated in: train / eval mode of the module and *)
(* the global settings sgpr_diagonal_correction and use_toeplitz (and       *)
(* lazily_evaluate_kernels, which every relation of the replay already     *)
(* crosses).  An environment is <<mode, correction, toeplitz>>; the kernel *)
(* value carries the code of the environment it is evaluated in (EnvCode,  *)
(* restricted to the components in Sens the modelled kernel reads) and the *)
(* code is part of EVERY label of its dense value: a relation (diag =      *)
(* diagonal, transpose, blocks, slices) is stated between two readings     *)
(* under the SAME environment and must hold under each of them.  Family    *)
(* "geo" enumerates (pattern, geometry, environment) for the aligned       *)
(* patterns (EnvPattern); EnvCover states that the enumerated family       *)
(* contains the default and every PAIR of setting values (all of AllEnvs   *)
(* in the thorough tier), EnvVisible that two environments which differ in *)
(* a component of Sens give different labels.  The replay evaluates the    *)
(* stub (whose forward reads the three components at evaluation time) and  *)
(* every zoo kernel x relation under every enumerated environment.         *)
(*                                                                         *)
(* DIAGONAL CLASS OF THE ZOO.  A relation about diagonals (diag=True, the  *)
(* Kronecker / block layout of a multi-output diagonal) holds by symmetry  *)
(* when the diagonal of the member kernel is CONSTANT over the points      *)
(* (stationary kernels).  CONSTANT Zoo lists <<name, structure, class of   *)
(* the diagonal, outputs per input>> of every zoo kernel; ZooDiagCover     *)
(* states that every composite / multi-output structure occurs with a      *)
(* member whose diagonal VARIES over the points (the replay probes the     *)
(* declared class on the real kernel).                                     *)
(*                                                                         *)
(* RELATION BETWEEN THE INPUTS OF A DIAGONAL REQUEST.  'diag=True equals   *)
(* the diagonal of the full matrix' is stated for kernel(x1, x2) with the   *)
(* same number of rows, not only for x1 = x2: kernel(x1, x2).diagonal() is  *)
(* a valid request on every square lazy tensor and asks the kernel for      *)
(* diag=True with the two inputs it holds.  The implementations branch on   *)
(* the relation (torch.equal(x1, x2) shortcuts, x2 = None), so the relation *)
(* is a dimension of the case lattice: action Diag12(r), r in XRels =       *)
(* 'same' (one tensor object twice), 'clone' (an equal copy), 'rows' (x2' = *)
(* the first N1 rows of x2: another tensor with as many rows), and - when   *)
(* the batch shapes of x1 and x2 differ - 'bcast' (XRelClass).  The replay  *)
(* crosses it with the REQUEST FORM (kernel(x1, x2, diag=True) lazy and     *)
(* eager, kernel(x1, x2).diagonal(), kernel.forward(.., diag=True)) on the  *)
(* stub and on every zoo kernel.  DiagRelCover: the enumerated patterns and *)
(* geometries reach every class, with x2' sharing NO and SOME rows with x1  *)
(* at the same position.  REJECTED VARIANT: LKDiagShortcut, the diagonal of *)
(* kernel(x1, x1) (the x1 = x2 branch answering every request): the         *)
(* invariant DiagRelDiscriminates states that it agrees on 'same' / 'clone' *)
(* and is refuted by EVERY 'rows' / 'bcast' case whose rows are not equal.  *)
(*                                                                         *)
(* PROPERTIES.  Agree: the label tensor the code produces is the           *)
(* declarative one, for every operation valid for the shape.  The model    *)
(* violates it; TLC's counterexamples are predictions which the replay     *)
(* confirms on the real code.  AgreeExceptKnown: the model deviates        *)
(* ONLY in the syntactic classes of StepClass / OpClass below              *)
(*   row-or-col-int(-1)       K[..., -1, :]: linear_operator turns the int *)
(*                            i into slice(i, i+1), empty for i = -1       *)
(*   slice-stop-0             t > 1: `stop or size` reads stop = 0 as None *)
(*   slice-on-broadcast-data-axis   x[1:2] on a size-1 batch axis of x1/x2 *)
(*                            raises no IndexError, so nothing is expanded *)
(*   param-batch-rank<output-batch-rank / slice-on-broadcast-param-axis    *)
(*                            Kernel.__getitem__ indexes parameter axes    *)
(*                            that are not aligned with the output batch   *)
(*   active_dims              the buffer is indexed / expanded like a      *)
(*                            batch-shaped parameter                       *)
(*   param-batch, x1-x2-batch-differ (unsqueeze, repeat)  the kernel batch *)
(*                            or a lower-rank input does not follow        *)
(* and holds on the model for every value of Repairs (a repaired class no  *)
(* longer deviates and is no longer a class): it is the invariant of the   *)
(* generation runs, and the class is the cell signature of the replay.     *)
(* checks/c06.py sets Repairs to the fix: commits present in the tree; a    *)
(* prediction the real code refutes is reported as drift (a repair landed  *)
(* that Repairs does not name yet).                                        *)
(***************************************************************************)
EXTENDS PyIndex, TLC

CONSTANTS N1, N2,        \* rows of x1, x2
          T,             \* outputs per input (num_outputs_per_input)
          Tails,         \* sequence of parameter tails, e.g. << <<1,1>> >> or << <<>>, <<1,1>> >>
          AD,            \* the active_dims buffer as a sequence (<<>> = the kernel has none)
          Repairs,       \* subset of {"slice_stop_0", "active_dims_buffer", "product_expand_batch", "index_diag",
                         \* "multitask_active_dims", "call_diag"}: the fix: commits present in the modelled tree.  Repairs = {} is
                         \* the pinned code.  The first two switch the transcription below; the other four repair kernel classes
                         \* (Additive/Product expand_batch, IndexKernel diag, MultitaskKernel active_dims, the diag heuristic of
                         \* Kernel.__call__) that this module does not model - they are decided by the zoo relations only
          Jobs,          \* set of << <<param batch shape, x1 batch shape, x2 batch shape>>, family of operations >> enumerated by this run
          Geos,          \* family "geo": the data geometries enumerated by this run, each << point ids of the N1 rows of x1, point ids of
                         \* the N2 rows of x2 >> (see "the data lattice" below)
          MaxSteps,      \* chain length (1 = single operations)
          Pad,           \* how far slice bounds reach beyond the axis (rs / cs families)
          NChunks,       \* the index expressions of a (pattern, family) are split over this many initial states (parallelism)
          ChunkSet,      \* the chunks this run explores (a subset of 0..NChunks-1; the others belong to parallel runs)
          Envs,          \* family "geo": the environments <<mode, sgpr_diagonal_correction, use_toeplitz>> enumerated by this run
          Sens,          \* the components of the environment the modelled kernel reads (subset of {"mode", "corr", "toep"})
          Zoo            \* <<name, structure, "varying" | "constant" (diagonal over the points), outputs per input>> of every zoo kernel

VARIABLES pat, fam, chunk, geo, env, cur, steps, hist
vars == <<pat, fam, chunk, geo, env, cur, steps, hist>>

\* ---- environments -----------------------------------------------------------------------------
DefaultEnv == <<"train", "on", "on">>
AllEnvs == {<<m, c, t>> : m \in {"train", "eval"}, c \in {"on", "off"}, t \in {"on", "off"}}
\* the part of an environment the modelled kernel can see, as a number (0 for the default environment)
EnvCode(e) == (IF "mode" \in Sens /\ e[1] = "eval" THEN 1 ELSE 0) + (IF "corr" \in Sens /\ e[2] = "off" THEN 2 ELSE 0)
              + (IF "toep" \in Sens /\ e[3] = "off" THEN 4 ELSE 0)
EnvPairs(E) == {<<i, e[i], j, e[j]>> : i \in 1..3, j \in 1..3, e \in E}

\* ---- items ------------------------------------------------------------------------------------
Sl(a, b, s) == [k |-> "slice", a |-> a, b |-> b, s |-> s]
IntI(v)     == [k |-> "int", v |-> v]
LstI(q)     == [k |-> "list", v |-> q]
EllI        == [k |-> "ell"]
IsFullSl(it) == it.k = "slice" /\ it.a = NoneI /\ it.b = NoneI /\ it.s = NoneI

\* ---- shapes -----------------------------------------------------------------------------------
NoBC == <<-1>>                                   \* "shapes are not broadcastable" (torch raises RuntimeError)
Ones(k) == [j \in 1..k |-> 1]
BatchOf(sh) == SubSeq(sh, 1, Len(sh) - 2)
\* Python's seq[:k] and seq[k:] for any integer k
PyHead(q, k) == IF k >= 0 THEN SubSeq(q, 1, Min(k, Len(q))) ELSE SubSeq(q, 1, Max(Len(q) + k, 0))
PyTail(q, k) == SubSeq(q, Min(k, Len(q)) + 1, Len(q))                                  \* k >= 0

\* torch.broadcast_shapes of two shapes (sizes 0 follow torch: 0 broadcasts with 1 and 0 only)
BC2(a, b) ==
  IF a = NoBC \/ b = NoBC THEN NoBC
  ELSE LET r == Max(Len(a), Len(b))
           A(j) == IF j + Len(a) - r >= 1 THEN a[j + Len(a) - r] ELSE 1
           B(j) == IF j + Len(b) - r >= 1 THEN b[j + Len(b) - r] ELSE 1
       IN IF \A j \in 1..r : A(j) = B(j) \/ A(j) = 1 \/ B(j) = 1
          THEN [j \in 1..r |-> IF A(j) = 1 THEN B(j) ELSE A(j)] ELSE NoBC
RECURSIVE BCAll(_)
BCAll(ss) == IF ss = <<>> THEN <<>> ELSE BC2(Head(ss), BCAll(Tail(ss)))

\* 0-based flat position in a tensor of shape s (right aligned, size-1 axes broadcast) of the 0-based flat
\* position q of the broadcast shape B
UnbFlat(s, B, q) ==
  LET r == Len(s) R == Len(B)
      RECURSIVE Sum(_, _, _)                                   \* axis j of s, stride of s, stride of B (right to left)
      Sum(j, ss, sb) == IF j < 1 THEN 0
                        ELSE (IF s[j] = 1 THEN 0 ELSE ((q \div sb) % B[j + R - r]) * ss) + Sum(j - 1, ss * s[j], sb * B[j + R - r])
  IN Sum(r, 1, 1)

\* ---- label tensors: torch operations ---------------------------------------------------------------
Tn(shape, data) == [shape |-> shape, data |-> data, err |-> FALSE]

\* Tensor.expand(new)
TExpandTo(X, new) ==
  LET s == X.shape r == Len(s) R == Len(new)
  IN IF X.err \/ new = NoBC \/ R < r THEN Err
     ELSE IF ~(\A j \in 1..r : s[j] = new[j + R - r] \/ s[j] = 1) THEN Err
     ELSE Tn(new, [p \in 1..Prod(new) |-> X.data[UnbFlat(s, new, p - 1) + 1]])

\* Tensor.unsqueeze(pd), 0 <= pd <= rank
TUnsqueeze(X, pd) ==
  IF X.err \/ pd < 0 \/ pd > Len(X.shape) THEN Err
  ELSE Tn(SubSeq(X.shape, 1, pd) \o <<1>> \o SubSeq(X.shape, pd + 1, Len(X.shape)), X.data)

\* Tensor.squeeze(-e): removes the e-th axis from the end when its size is 1
TSqueezeEnd(X, e) ==
  LET r == Len(X.shape)
  IN IF X.err \/ r < e THEN X
     ELSE IF X.shape[r - e + 1] # 1 THEN X
     ELSE Tn(SubSeq(X.shape, 1, r - e) \o SubSeq(X.shape, r - e + 2, r), X.data)

\* Tensor.repeat(*reps)
TRepeat(X, reps) ==
  LET r == Len(X.shape) R == Len(reps)
  IN IF X.err \/ R < r THEN Err
     ELSE LET ps  == Ones(R - r) \o X.shape
              new == [j \in 1..R |-> ps[j] * reps[j]]
              sn  == [j \in 1..R |-> Stride(new, j)]
              sp  == [j \in 1..R |-> Stride(ps, j)]
              Src(q) == LET RECURSIVE Sum(_)
                            Sum(j) == IF j > R THEN 0 ELSE (((q \div sn[j]) % new[j]) % ps[j]) * sp[j] + Sum(j + 1)
                        IN Sum(1)
          IN Tn(new, [p \in 1..Prod(new) |-> X.data[Src(p - 1) + 1]])

\* swap of the last two axes
TTransposeLast(X) ==
  LET r == Len(X.shape)
  IN IF X.err \/ r < 2 THEN Err
     ELSE LET R == X.shape[r - 1] C == X.shape[r]
          IN Tn(SubSeq(X.shape, 1, r - 2) \o <<C, R>>,
                [p \in 1..Prod(X.shape) |-> LET q == (p - 1) \div (R * C) j == ((p - 1) \div R) % C i == (p - 1) % R
                                            IN X.data[q * R * C + i * C + j + 1]])

\* diagonal over the last two axes (square)
TDiagLast(X) ==
  LET r == Len(X.shape)
  IN IF X.err \/ r < 2 THEN Err
     ELSE IF X.shape[r - 1] # X.shape[r] THEN Err
     ELSE LET n == X.shape[r]
          IN Tn(SubSeq(X.shape, 1, r - 1), [p \in 1..(Prod(X.shape) \div Max(n, 1)) |-> X.data[((p - 1) \div n) * n * n + ((p - 1) % n) * (n + 1) + 1]])

\* torch.cat([X, Y], -2) of two tensors of shape b \o <<n, f>>, b \o <<m, f>>
TCatRows(X, Y) ==
  LET r == Len(X.shape)
  IN IF X.err \/ Y.err \/ r < 2 \/ Len(Y.shape) # r THEN Err
     ELSE IF BatchOf(X.shape) # BatchOf(Y.shape) \/ X.shape[r] # Y.shape[r] THEN Err
     ELSE LET n == X.shape[r - 1] m == Y.shape[r - 1] f == X.shape[r]
          IN Tn(BatchOf(X.shape) \o <<n + m, f>>,
                [p \in 1..(Prod(BatchOf(X.shape)) * (n + m) * f) |->
                   LET q == (p - 1) \div ((n + m) * f) w == (p - 1) % ((n + m) * f)
                   IN IF w < n * f THEN X.data[q * n * f + w + 1] ELSE Y.data[q * m * f + (w - n * f) + 1]])

MapT(X, F(_)) == IF X.err THEN Err ELSE Tn(X.shape, [p \in DOMAIN X.data |-> F(X.data[p])])

\* tensor whose entry is its own 0-based coordinate along axis d
CoordT(shape, d) == Tn(shape, [p \in 1..Prod(shape) |-> ((p - 1) \div Stride(shape, d)) % shape[d]])

SameT(X, Y) == (X.err /\ Y.err) \/ (~X.err /\ ~Y.err /\ X.shape = Y.shape /\ X.data = Y.data)

\* torch indexing again, for the CODE-SHAPED side (x1[...], x2[...], parameter[...]): the same function as
\* PyIndex!TIndex, computed axis by axis instead of entry by entry (TLC evaluates it ~10x faster).  The
\* declarative side of every comparison uses TIndex itself; FastIsTIndex below states that the two agree.
LKIndex(X, items) ==
  LET rank == Len(X.shape)
      ex   == Expand(items, rank)
  IN IF X.err \/ (rank > 0 /\ ex = <<>>) \/ Len(ex) # rank THEN Err
     ELSE IF ~(\A a \in 1..rank : ItemOK(ex[a], X.shape[a])) \/ ~ListsOK(ex) THEN Err
     ELSE
       LET L     == Lists(ex)
           first == IF L = {} THEN 0 ELSE CHOOSE i \in L : \A j \in L : i <= j
           zl    == ZipLen(ex)
           st    == [a \in 1..rank |-> Stride(X.shape, a)]
           pos   == [a \in 1..rank |-> ItemPos(ex[a], X.shape[a])]
           RECURSIVE C0(_)
           C0(a) == IF a > rank THEN 0 ELSE (IF ex[a].k = "int" THEN pos[a][1] * st[a] ELSE 0) + C0(a + 1)
           RECURSIVE ZipOff(_, _)                      \* offset contributed by the zipped index tensors at position j
           ZipOff(a, j) == IF a > rank THEN 0
                           ELSE (IF ex[a].k = "list" THEN (IF Len(pos[a]) = 1 THEN pos[a][1] ELSE pos[a][j]) * st[a] ELSE 0) + ZipOff(a + 1, j)
           rd    == SelectSeq([a \in 1..rank |-> a], LAMBDA a : ex[a].k = "slice" \/ a = first)
           Vs    == [d \in 1..Len(rd) |-> IF rd[d] = first THEN [j \in 1..zl |-> ZipOff(1, j)]
                                           ELSE [j \in 1..Len(pos[rd[d]]) |-> pos[rd[d]][j] * st[rd[d]]]]
           nrd   == Len(rd)
           RECURSIVE Build(_, _)
           RECURSIVE CatFrom(_, _, _)
           CatFrom(d, base, j) == IF j > Len(Vs[d]) THEN <<>> ELSE Build(d + 1, base + Vs[d][j]) \o CatFrom(d, base, j + 1)
           Build(d, base) == IF d > nrd THEN <<X.data[base + 1]>>
                             ELSE IF d = nrd THEN [j \in 1..Len(Vs[d]) |-> X.data[base + Vs[d][j] + 1]]
                             ELSE CatFrom(d, base, 1)
       IN Tn([d \in 1..nrd |-> Len(Vs[d])], Build(1, C0(1)))

\* ---- labels ------------------------------------------------------------------------------------------
\* <<p, u, a, v, c>>: parameter label p, x1 row label u, output a, x2 row label v, output c
LabEnc(p, u, a, v, c) == (((p * 32 + u) * 4 + a) * 32 + v) * 4 + c
\* the label of the transposed entry: k_{a,c}(u, v) = k_{c,a}(v, u)
SymLab(l) == LET c == l % 4 v == (l \div 4) % 32 a == (l \div 128) % 4 u == (l \div 512) % 32 p == l \div 16384
             IN LabEnc(p, v, c, u, a)

\* ---- kernels ---------------------------------------------------------------------------------------------
KErr == [bs |-> <<>>, pars |-> <<>>, ad |-> Err, env |-> 0, err |-> TRUE]
\* env: the code of the environment the kernel is evaluated in (it belongs to the evaluation, every derived kernel keeps it)
MkKernel(pb, ec) == [bs |-> pb, pars |-> [i \in DOMAIN Tails |-> Iota(pb \o Tails[i], 0)],
                     ad |-> Tn(<<Len(AD)>>, AD), env |-> ec, err |-> FALSE]
HasAD == AD # <<>>
\* the active_dims buffer takes part in Kernel.__getitem__ / expand_batch (pinned code); the repair skips it
ADIndexed == HasAD /\ "active_dims_buffer" \notin Repairs

\* the batch axes a parameter contributes when the kernel is evaluated by broadcasting against the data
ParPrefix(P, tail) ==
  LET r == Len(P.shape) m == Len(tail)
  IN IF r >= m /\ SubSeq(P.shape, r - m + 1, r) = tail THEN SubSeq(P.shape, 1, r - m)
     ELSE IF Prod(P.shape) = 1 THEN <<>>            \* a scalar however it is shaped
     ELSE NoBC                                      \* garbage: the tail axes were indexed away

\* Kernel.__getitem__(index): index every parameter, then every buffer; the batch shape is recomputed after each
KGetItem(k, idx) ==
  IF k.err THEN KErr
  ELSE IF Len(k.bs) = 0 THEN k
  ELSE LET newp == [i \in DOMAIN k.pars |-> LKIndex(k.pars[i], idx)]
           newad == LKIndex(k.ad, idx)
           BsAfter(old, new) == PyHead(new.shape, Len(k.bs) - (Len(old.shape) - Len(new.shape)))
       IN IF \E i \in DOMAIN newp : newp[i].err THEN KErr                 \* IndexError
          ELSE IF ADIndexed /\ newad.err THEN KErr                            \* IndexError
          ELSE [bs |-> IF ADIndexed THEN BsAfter(k.ad, newad)
                       ELSE IF Len(k.pars) > 0 THEN BsAfter(k.pars[Len(k.pars)], newp[Len(newp)]) ELSE k.bs,
                pars |-> newp, ad |-> IF ADIndexed THEN newad ELSE k.ad, env |-> k.env, err |-> FALSE]

\* Kernel.expand_batch(new)
KExpand(k, new) ==
  IF k.err \/ new = NoBC THEN KErr
  ELSE IF new = k.bs THEN k
  ELSE IF BC2(new, k.bs) = NoBC THEN KErr                                 \* RuntimeError
  ELSE LET Ex(P) == TExpandTo(P, new \o PyTail(P.shape, Len(k.bs)))
           newp == [i \in DOMAIN k.pars |-> Ex(k.pars[i])]
           newad == Ex(k.ad)
       IN IF (\E i \in DOMAIN newp : newp[i].err) \/ (ADIndexed /\ newad.err) THEN KErr   \* RuntimeError from Tensor.expand
          ELSE [bs |-> new, pars |-> newp, ad |-> IF ADIndexed THEN newad ELSE k.ad, env |-> k.env, err |-> FALSE]

\* what kernel[idx] / kernel.expand_batch(new) MEAN: the parameter family is indexed / broadcast, active_dims is untouched
KGetItemExpected(k, idx) ==
  LET lab == TIndex(Iota(k.bs, 0), idx)
  IN IF Len(k.bs) = 0 THEN k
     ELSE IF lab.err THEN KErr
     ELSE [bs |-> lab.shape, pars |-> [i \in DOMAIN k.pars |-> TIndex(k.pars[i], idx)], ad |-> k.ad, env |-> k.env, err |-> FALSE]
KExpandExpected(k, new) ==
  IF BC2(new, k.bs) # new THEN KErr
  ELSE [bs |-> new, pars |-> [i \in DOMAIN k.pars |-> TExpandTo(k.pars[i], new \o Tails[i])], ad |-> k.ad, env |-> k.env, err |-> FALSE]
SameK(a, b) == (a.err /\ b.err) \/ (~a.err /\ ~b.err /\ a.bs = b.bs /\ a.ad = b.ad /\ a.env = b.env
                                     /\ \A i \in DOMAIN a.pars : SameT(a.pars[i], b.pars[i]))

\* ---- lazy tensors -------------------------------------------------------------------------------------------
LErr == [x1 |-> Err, x2 |-> Err, k |-> KErr, err |-> TRUE]
MkLazy(x1, x2, k) == IF x1.err \/ x2.err \/ k.err THEN LErr ELSE [x1 |-> x1, x2 |-> x2, k |-> k, err |-> FALSE]
Rows(x) == x.shape[Len(x.shape) - 1]
Feat(x) == x.shape[Len(x.shape)]

\* _size: the shape the lazy tensor announces
LKSize(L) ==
  LET b1 == BatchOf(L.x1.shape) b2 == BatchOf(L.x2.shape)
      R == Rows(L.x1) * T  C == Rows(L.x2) * T
  IN IF L.err THEN NoBC
     ELSE IF b1 = b2 /\ b1 = L.k.bs THEN L.k.bs \o <<R, C>>
     ELSE IF Feat(L.x1) # Feat(L.x2) THEN NoBC
     ELSE LET B == BC2(BC2(b1, b2), L.k.bs) IN IF B = NoBC THEN NoBC ELSE B \o <<R, C>>

\* to_dense(): the kernel evaluated by broadcasting; with debug on the result must have the announced shape.
\* (per batch element: the parameter label and the offsets of the x1 / x2 blocks, computed once)
Dense(L) ==
  IF L.err THEN Err
  ELSE
  LET x1 == L.x1 x2 == L.x2 k == L.k
      b1 == BatchOf(x1.shape) b2 == BatchOf(x2.shape)
      n1 == Rows(x1) n2 == Rows(x2)
      prefs == [i \in DOMAIN k.pars |-> ParPrefix(k.pars[i], Tails[i])]
      EB == BCAll(<<b1, b2>> \o prefs)
      R == n1 * T C == n2 * T
      nb == Prod(EB)
      ParLab(q) == LET RECURSIVE Sum(_)
                       Sum(i) == IF i > Len(k.pars) THEN 0
                                 ELSE k.pars[i].data[UnbFlat(prefs[i], EB, q) * Prod(Tails[i]) + 1] + 8 * Sum(i + 1)
                   IN Sum(1) + 64 * k.env          \* (parameter labels stay below 64: at most two parameters of at most 8 batch elements)
      PL == [q \in 1..nb |-> ParLab(q - 1)]
      O1 == [q \in 1..nb |-> UnbFlat(b1, EB, q - 1) * n1]
      O2 == [q \in 1..nb |-> UnbFlat(b2, EB, q - 1) * n2]
      \* row part ((p*32+u)*4+a) and column part (v*4+c) of the label, per batch element
      RP == [m \in 1..(nb * R) |-> LET q == ((m - 1) \div R) + 1 i == (m - 1) % R IN (PL[q] * 32 + x1.data[O1[q] + (i \div T) + 1]) * 4 + (i % T)]
      CP == [m \in 1..(nb * C) |-> LET q == ((m - 1) \div C) + 1 j == (m - 1) % C IN x2.data[O2[q] + (j \div T) + 1] * 4 + (j % T)]
      RC == R * C
  IN IF Feat(x1) # 1 \/ Feat(x2) # 1 \/ EB = NoBC \/ LKSize(L) = NoBC THEN Err
     ELSE IF LKSize(L) # EB \o <<R, C>> THEN Err
     ELSE Tn(EB \o <<R, C>>, [p \in 1..(nb * RC) |-> RP[((p - 1) \div C) + 1] * 128 + CP[((p - 1) \div RC) * C + ((p - 1) % C) + 1]])

\* _getitem(row_index, col_index, *batch_indices): row/col are slices or index tensors.
\* Result: [L, den, isden, br] - a new lazy tensor, or (fallback through evaluate_kernel) a dense tensor.
LKGetItem(L, row, col, bidx) ==
  LET b1 == BatchOf(L.x1.shape) b2 == BatchOf(L.x2.shape)
      B  == BC2(BC2(b1, b2), L.k.bs)
      size == LKSize(L)
      Fallback(why) == [L |-> LErr, den |-> LKIndex(Dense(L), bidx \o <<row, col>>), isden |-> TRUE, br |-> <<why, "-", "-">>]
  IN IF L.err \/ B = NoBC \/ size = NoBC THEN [L |-> LErr, den |-> Err, isden |-> FALSE, br |-> <<"raise", "-", "-">>]
     ELSE IF T # 1 /\ (row.k # "slice" \/ col.k # "slice") THEN Fallback("mt-nonslice")
     ELSE IF T # 1 /\ (row.s # NoneI \/ col.s # NoneI) THEN Fallback("mt-step")
     ELSE
       LET OrElse(v, d) == IF v = NoneI \/ v = 0 THEN d ELSE v              \* Python's `v or d`
           \* pinned: `stop or size`; repaired: `size if stop is None else stop`
           Stop(v, d) == IF "slice_stop_0" \in Repairs THEN (IF v = NoneI THEN d ELSE v) ELSE OrElse(v, d)
           rs == OrElse(row.a, 0) re == Stop(row.b, size[Len(size) - 1])
           cs == OrElse(col.a, 0) ce == Stop(col.b, size[Len(size)])
       IN IF T # 1 /\ (rs % T # 0 \/ cs % T # 0 \/ re % T # 0 \/ ce % T # 0) THEN Fallback("mt-indivisible")
          ELSE
            LET row2 == IF T = 1 THEN row ELSE Sl(rs \div T, re \div T, NoneI)
                col2 == IF T = 1 THEN col ELSE Sl(cs \div T, ce \div T, NoneI)
                a1 == LKIndex(L.x1, bidx \o <<row2, Full>>)
                x1n == IF ~a1.err THEN a1 ELSE LKIndex(TExpandTo(L.x1, B \o PyTail(L.x1.shape, Len(b1))), bidx \o <<row2, Full>>)
                a2 == LKIndex(L.x2, bidx \o <<col2, Full>>)
                x2n == IF ~a2.err THEN a2 ELSE LKIndex(TExpandTo(L.x2, B \o PyTail(L.x2.shape, Len(b2))), bidx \o <<col2, Full>>)
                noBatch == Len(bidx) = 0 \/ \A i \in DOMAIN bidx : IsFullSl(bidx[i])
                g == KGetItem(L.k, bidx)
                kn == IF noBatch THEN L.k ELSE IF ~g.err THEN g ELSE KGetItem(KExpand(L.k, B), bidx)
                br == <<IF T = 1 THEN "t1" ELSE "mt-divided",
                        IF a1.err \/ a2.err THEN "x-expanded" ELSE "x-direct",
                        IF noBatch THEN "k-same" ELSE IF ~g.err THEN "k-getitem" ELSE "k-expanded">>
            IN [L |-> MkLazy(x1n, x2n, kn), den |-> Err, isden |-> FALSE, br |-> br]

\* the absorbed path of LinearOperator.__getitem__ (_get_indices): every index is turned into a broadcast index
\* tensor (linear_operator's conversion is taken to be numpy's), the batch axes are indexed with those tensors
\* through _getitem, and one entry is read per result position
LKAbsorbed(L, items) ==
  LET size == LKSize(L)
      nd == Len(size)
      sel == [d \in 1..nd |-> LKIndex(CoordT(size, d), items)]
  IN IF size = NoBC THEN [den |-> Err, br |-> <<"raise", "-", "-">>]
     ELSE IF sel[nd].err THEN [den |-> Err, br |-> <<"raise", "-", "-">>]
     ELSE LET total == Prod(sel[nd].shape)
              rsh == sel[nd].shape
              \* the batch index tensors keep the caller's RAW values (a negative int / entry stays negative: on a broadcasting
              \* size-1 axis -2 raises IndexError and triggers the expansion where 0 would not); slices become arange values.
              \* zd = result axis of the zipped index tensors, j = position along it
              Lsts == {a \in 1..nd : items[a].k = "list"}
              firstL == IF Lsts = {} THEN 0 ELSE CHOOSE a \in Lsts : \A b \in Lsts : a <= b
              zd == 1 + Cardinality({a \in 1..(firstL - 1) : items[a].k = "slice"})
              ZipPos(p) == ((p - 1) \div Stride(rsh, zd)) % rsh[zd]
              Raw(d) == IF items[d].k = "int" THEN [p \in 1..total |-> items[d].v]
                        ELSE IF items[d].k = "list"
                             THEN [p \in 1..total |-> IF Len(items[d].v) = 1 THEN items[d].v[1] ELSE items[d].v[ZipPos(p) + 1]]
                             ELSE sel[d].data
              base == LKGetItem(L, Full, Full, [d \in 1..(nd - 2) |-> LstI(Raw(d))])
              D == Dense(base.L)
              R == size[nd - 1] C == size[nd]
          IN IF base.L.err \/ D.err THEN [den |-> Err, br |-> base.br]
             ELSE IF nd > 2 /\ D.shape # <<total, R, C>> THEN [den |-> Err, br |-> base.br]
             ELSE IF nd = 2
                  THEN [den |-> Tn(sel[nd].shape, [p \in 1..total |-> D.data[sel[1].data[p] * C + sel[2].data[p] + 1]]), br |-> base.br]
                  ELSE [den |-> Tn(sel[nd].shape, [p \in 1..total |-> D.data[(p - 1) * R * C + sel[nd - 1].data[p] * C + sel[nd].data[p] + 1]]),
                        br |-> base.br]

\* LazyEvaluatedKernelTensor.__getitem__(index) -> [L, den, isden, br]; `den` is the value when the code returns a
\* tensor (isden), otherwise L is the lazy result
LOGetItem(L, items) ==
  LET size == LKSize(L)
      nd == Len(size)
  IN IF L.err \/ size = NoBC THEN [L |-> LErr, den |-> Err, isden |-> FALSE, br |-> <<"raise", "-", "-">>, path |-> "raise"]
     ELSE IF Len(items) = 3 /\ items[1].k = "ell" /\ items[2].k = "slice" /\ items[3].k = "slice"
       THEN LET r == LKGetItem(L, items[2], items[3], [d \in 1..(nd - 2) |-> Full])
            IN [L |-> r.L, den |-> r.den, isden |-> r.isden, br |-> r.br, path |-> "fast"]
     ELSE
       LET ex == Expand(items, nd)
       IN IF Len(ex) # nd THEN [L |-> LErr, den |-> Err, isden |-> FALSE, br |-> <<"raise", "-", "-">>, path |-> "raise"]
          ELSE
            LET batch == SubSeq(ex, 1, nd - 2) row == ex[nd - 1] col == ex[nd]
                bt == \E d \in DOMAIN batch : batch[d].k = "list"
                rt == row.k = "list" ct == col.k = "list"
                absorbed == (bt /\ (rt \/ ct)) \/ (~bt /\ rt /\ ct)
                sqr == row.k = "int" sqc == col.k = "int"
                row1 == IF sqr THEN Sl(row.v, row.v + 1, NoneI) ELSE row
                col1 == IF sqc THEN Sl(col.v, col.v + 1, NoneI) ELSE col
                Sq(X) == LET y == IF sqr THEN TSqueezeEnd(X, 2) ELSE X IN IF sqc THEN TSqueezeEnd(y, 1) ELSE y
            IN IF absorbed
               THEN LET a == LKAbsorbed(L, batch \o <<row1, col1>>)
                    IN [L |-> LErr, den |-> Sq(a.den), isden |-> TRUE, br |-> a.br, path |-> "absorbed"]
               ELSE LET r == LKGetItem(L, row1, col1, batch)
                    IN IF sqr \/ sqc
                       THEN [L |-> LErr, den |-> Sq(IF r.isden THEN r.den ELSE Dense(r.L)), isden |-> TRUE, br |-> r.br, path |-> "squeeze"]
                       ELSE [L |-> r.L, den |-> r.den, isden |-> r.isden, br |-> r.br, path |-> "getitem"]

\* _transpose_nonbatch
LKTranspose(L) == IF L.err THEN LErr ELSE MkLazy(L.x2, L.x1, L.k)

\* unsqueeze(dim) -> _unsqueeze_batch(positive_dim): both inputs are unsqueezed at the same position, the kernel is kept
LKUnsqueeze(L, dim) ==
  LET size == LKSize(L)
      pd == IF dim < 0 THEN Len(size) + dim + 1 ELSE dim
  IN IF L.err \/ size = NoBC THEN LErr
     ELSE IF pd > Len(size) - 2 \/ pd < 0 THEN LErr                       \* ValueError
     ELSE MkLazy(TUnsqueeze(L.x1, pd), TUnsqueeze(L.x2, pd), L.k)

\* repeat(*batch_repeat, row_repeat, col_repeat)
LKRepeat(L, reps) ==
  IF L.err \/ Len(reps) < 2 THEN LErr
  ELSE LET br == SubSeq(reps, 1, Len(reps) - 2)
       IN MkLazy(TRepeat(L.x1, br \o <<reps[Len(reps) - 1], 1>>), TRepeat(L.x2, br \o <<reps[Len(reps)], 1>>), L.k)

\* _diagonal: forward(x1, x2, diag=True) viewed as self.shape[:-1]; forward pairs row i of x1 with row i of x2
LKDiagonal(L) ==
  LET size == LKSize(L)
      D == Dense(L)
  IN IF L.err \/ size = NoBC \/ D.err THEN Err
     ELSE IF size[Len(size) - 1] # size[Len(size)] THEN Err               \* "only implemented for square operators"
     ELSE TDiagLast(D)

\* ---- the enumerated operations --------------------------------------------------------------------------------
Bound(n) == {NoneI} \cup (-(n + Pad))..(n + Pad)             \* slice starts / stops: None, in range, and Pad positions out of range on both sides
SlicesAll(n) == {Sl(a, b, s) : a \in Bound(n), b \in Bound(n), s \in {NoneI, 1, 2, 3}}
SlicesFew(n) == {Sl(a, b, s) : a \in {NoneI, -1, 0, 1}, b \in {NoneI, -1, 0, n}, s \in {NoneI, 2}}
SlicesDiv(n) == {Sl(a, b, NoneI) : a \in {NoneI, 0, T, -T, 1}, b \in {NoneI, 0, T, -T, n, n + T}}
SlProbe == {Full, Sl(1, NoneI, NoneI), Sl(NoneI, -1, NoneI), Sl(NoneI, NoneI, 2), Sl(T, 2 * T, NoneI)}
IntsAll(n) == {IntI(i) : i \in (-(n + 1))..n}
IntsOK(n) == {IntI(i) : i \in (-n)..(n - 1)}
ListsAll(n) == {LstI(q) : q \in UNION {[1..m -> (-n)..(n - 1)] : m \in 1..2}}
ListsMid(n) == {LstI(q) : q \in UNION {[1..m -> {-1, 0, 1 % n, n - 1}] : m \in 1..2}} \cup {LstI(<<0, n - 1, 0>>)}
ListsFew(n) == {LstI(<<0>>), LstI(<<n - 1, 0>>), LstI(<<-1, -1>>), LstI(<<0, n - 1, 0>>)}

\* index expressions for the two matrix axes (R rows, C columns)
EventIdx(f, R, C) ==
  CASE f = "rs" -> {<<EllI, r, c>> : r \in SlicesAll(R), c \in SlProbe}
    [] f = "cs" -> {<<EllI, r, c>> : r \in SlProbe, c \in SlicesAll(C)}
    [] f = "ss" -> {<<r, c>> : r \in SlicesFew(R) \cup SlicesDiv(R), c \in SlicesFew(C) \cup SlicesDiv(C)}
    [] f = "ix" -> {<<i, j>> : i \in IntsAll(R), j \in IntsAll(C)} \cup {<<i, c>> : i \in IntsAll(R), c \in SlicesFew(C)}
                     \cup {<<r, j>> : r \in SlicesFew(R), j \in IntsAll(C)} \cup {<<i>> : i \in IntsAll(R)}
    [] f = "lx" -> {<<p, q>> : p \in ListsMid(R), q \in ListsMid(C)} \cup {<<p, c>> : p \in ListsAll(R), c \in SlProbe}
                     \cup {<<r, q>> : r \in SlProbe, q \in ListsAll(C)} \cup {<<i, q>> : i \in IntsOK(R), q \in ListsFew(C)}
                     \cup {<<p, j>> : p \in ListsFew(R), j \in IntsOK(C)} \cup {<<p>> : p \in ListsAll(R)}
    [] f = "el" -> {<<EllI>>, <<>>} \cup {<<EllI, c>> : c \in SlicesFew(C) \cup IntsAll(C) \cup ListsFew(C)}
                     \cup {<<r, EllI>> : r \in SlicesFew(R) \cup IntsAll(R) \cup ListsFew(R)}
                     \cup {<<r, EllI, c>> : r \in SlProbe \cup IntsOK(R) \cup ListsFew(R), c \in SlProbe \cup IntsOK(C) \cup ListsFew(C)}
                     \cup {<<EllI, r, c>> : r \in IntsOK(R) \cup ListsFew(R), c \in SlProbe \cup IntsOK(C) \cup ListsFew(C)}
    [] OTHER -> {}

\* a small representative set for the matrix axes, used under every batch index
EvProbe(R, C) ==
  {<<>>, <<Full, Full>>, <<IntI(0)>>, <<IntI(-1), Full>>, <<IntI(-2), Full>>, <<Full, IntI(1)>>, <<IntI(1), IntI(0)>>,
   <<Sl(1, NoneI, NoneI), Full>>, <<Full, Sl(NoneI, -1, NoneI)>>, <<Sl(NoneI, NoneI, 2), Sl(1, NoneI, NoneI)>>,
   <<Sl(T, 2 * T, NoneI), Sl(NoneI, T, NoneI)>>, <<Sl(NoneI, 0, NoneI), Full>>,
   <<LstI(<<1, 0>>)>>, <<Full, LstI(<<0, 1>>)>>, <<LstI(<<1, 0>>), LstI(<<0, 1>>)>>, <<IntI(0), LstI(<<1, 0>>)>>, <<LstI(<<-1, 0>>), IntI(1)>>}

BSlices(n) == {Full, Sl(0, 1, NoneI), Sl(1, 2, NoneI), Sl(1, NoneI, NoneI), Sl(NoneI, -1, NoneI), Sl(NoneI, NoneI, 2), Sl(-5, 5, NoneI), Sl(1, 1, NoneI)}
BLists(n) == {LstI(<<0>>), LstI(<<n - 1>>), LstI(<<0, n - 1>>), LstI(<<n - 1, 0>>), LstI(<<-1, -1>>), LstI(<<0, 0, n - 1>>)}
BItems(n) == IntsAll(n) \cup BSlices(n) \cup BLists(n)
BItemsFew(n) == {IntI(0), IntI(n - 1), IntI(-1), Full, Sl(1, 2, NoneI), Sl(NoneI, 1, NoneI), LstI(<<n - 1, 0>>)}

RECURSIVE BPrefixes(_, _)
BPrefixes(B, few) == IF B = <<>> THEN {<<>>}
                     ELSE {<<b>> \o rest : b \in (IF few THEN BItemsFew(Head(B)) ELSE BItems(Head(B))), rest \in BPrefixes(Tail(B), few)}

\* index expressions for a tensor of shape B \o <<R, C>>
IndexExprs(f, B, R, C) ==
  CASE f \in {"rs", "cs"} -> EventIdx(f, R, C)                                       \* the [..., slice, slice] fast path
    [] f \in {"ss", "ix", "lx", "el"} ->
         IF B = <<>> THEN EventIdx(f, R, C)
         ELSE {bp \o ev : bp \in BPrefixes(B, TRUE), ev \in {e \in EventIdx(f, R, C) : NumEll(e) = 0}}
    [] f = "bx" -> {bp \o ev : bp \in BPrefixes(B, FALSE), ev \in EvProbe(R, C)}
                     \cup UNION {{SubSeq(bp, 1, m) : bp \in BPrefixes(B, FALSE)} : m \in 1..Len(B)}
    [] f = "bf" -> {bp \o ev : bp \in BPrefixes(B, TRUE), ev \in EvProbe(R, C)}
    [] f = "be" -> IF B = <<>> THEN {} ELSE
                   {<<b, EllI>> : b \in BItems(B[1])} \cup {<<b, EllI, c>> : b \in BItems(B[1]), c \in {IntI(1), IntI(-1), Sl(NoneI, -1, NoneI), LstI(<<1, 0>>)}}
                     \cup {<<EllI, r, c>> : r \in SlicesFew(R), c \in SlProbe}
                     \cup {<<EllI, c>> : c \in IntsAll(C) \cup ListsFew(C)}
    [] OTHER -> {}

\* PyIndex defines index tensors only in adjacent positions (where numpy and torch agree)
AdjOK(idx, nd) == LET ex == Expand(idx, nd) L == Lists(ex) IN Len(ex) # nd \/ \A i, j \in L : \A m \in i..j : m \in L
ItemH(it) == CASE it.k = "int" -> it.v + 7 [] it.k = "slice" -> it.a + 3 * it.b + 5 * it.s [] it.k = "list" -> Len(it.v) + 2 * it.v[1] [] OTHER -> 1
RECURSIVE IdxH(_)
IdxH(idx) == IF idx = <<>> THEN 0 ELSE ItemH(Head(idx)) + 7 * IdxH(Tail(idx))
Offered(f, sh) == {i \in IndexExprs(f, BatchOf(sh), sh[Len(sh) - 1], sh[Len(sh)]) : AdjOK(i, Len(sh)) /\ IdxH(i) % NChunks = chunk}

\* index expressions offered at later links of a chain
ChainIdx(shape) ==
  LET nd == Len(shape)
  IN IF nd = 0 THEN {}
     ELSE IF nd = 1 THEN {<<IntI(0)>>, <<IntI(-1)>>, <<Sl(1, NoneI, NoneI)>>, <<LstI(<<0, 0>>)>>}
     ELSE {<<EllI, Sl(1, NoneI, NoneI), Full>>, <<EllI, Full, Sl(NoneI, -1, NoneI)>>, <<EllI, IntI(0)>>, <<IntI(-1)>>, <<IntI(0)>>,
           <<Sl(NoneI, 1, NoneI)>>, <<EllI, LstI(<<0, 0>>), Full>>, <<EllI, Sl(NoneI, NoneI, 2), Sl(T, NoneI, NoneI)>>}

RepeatArgs(nd) == UNION {[1..m -> {1, 2}] : m \in {nd, nd + 1}} \cup {[j \in 1..nd |-> IF j = nd - 1 THEN 3 ELSE 1]}
UnsqArgs(nd) == (0..(nd - 2)) \cup ((-(nd + 1))..(-3))          \* the batch positions (the code rejects the matrix axes)

KIdx(pb) == UNION {{SubSeq(bp, 1, m) : bp \in BPrefixes(pb, FALSE)} : m \in 1..Len(pb)}
KShapes(pb) == {s \in UNION {[1..m -> {1, 2, 3}] : m \in 0..(Len(pb) + 1)} : BC2(s, pb) = s}

\* every broadcast pattern <<parameter batch, x1 batch, x2 batch>> with data batch shapes of rank <= maxRank over `dims`
ShapesUpTo(dims, maxRank) == UNION {[1..r -> dims] : r \in 0..maxRank}
BroadcastablePatterns(pbs, dims, maxRank) ==
  {<<pb, a, b>> : pb \in pbs, a \in ShapesUpTo(dims, maxRank), b \in ShapesUpTo(dims, maxRank)} \ 
  {p \in {<<pb, a, b>> : pb \in pbs, a \in ShapesUpTo(dims, maxRank), b \in ShapesUpTo(dims, maxRank)} : BC2(BC2(p[2], p[3]), p[1]) = NoBC}

\* ---- the deviation classes of the pinned code ------------------------------------------------------------------------
\* Which syntactic feature of a case makes the transcribed code deviate from the declarative meaning.  The invariant
\* AgreeExceptKnown states that there is no deviation outside these classes; every class is confirmed (or refuted) on the
\* real code by the replay, which uses the class as the cell signature.
StepClass(L, idx) ==
  LET size == LKSize(L)
      nd == Len(size)
      ex == Expand(idx, nd)
  IN IF L.err \/ size = NoBC THEN "none"
     ELSE IF Len(ex) # nd THEN "none"
     ELSE LET B == BatchOf(size)
              b1 == BatchOf(L.x1.shape) b2 == BatchOf(L.x2.shape) pb == L.k.bs
              batch == SubSeq(ex, 1, nd - 2) row == ex[nd - 1] col == ex[nd]
              \* the batch axes are really indexed: by the caller, or by the absorbed path (row and column index tensors turn
              \* every batch slice into an index tensor as well)
              nontriv == (\E d \in DOMAIN batch : ~IsFullSl(batch[d])) \/ (Len(batch) > 0 /\ row.k = "list" /\ col.k = "list")
              OnB(sh, d) == Len(sh) = Len(B) /\ sh[d] = 1 /\ B[d] > 1                    \* axis d of sh broadcasts
              PartSl(d) == batch[d].k = "slice" /\ ~IsFullSl(batch[d])
          IN IF ADIndexed /\ nontriv /\ pb # <<>> THEN "active_dims"
             ELSE IF nontriv /\ pb # <<>> /\ Len(pb) < Len(B) THEN "param-batch-rank<output-batch-rank"
             ELSE IF \E d \in DOMAIN batch : PartSl(d) /\ OnB(pb, d) THEN "slice-on-broadcast-param-axis"
             ELSE IF \E d \in DOMAIN batch : PartSl(d) /\ (OnB(b1, d) \/ OnB(b2, d)) THEN "slice-on-broadcast-data-axis"
             ELSE IF (row.k = "int" /\ row.v = -1) \/ (col.k = "int" /\ col.v = -1) THEN "row-or-col-int(-1)"
             ELSE IF "slice_stop_0" \notin Repairs /\ T # 1 /\ row.k = "slice" /\ col.k = "slice" /\ (row.b = 0 \/ col.b = 0) THEN "slice-stop-0"
             ELSE "none"
OpClass(L) ==
  IF L.err THEN "none"
  ELSE IF L.k.bs # <<>> THEN "param-batch"
  ELSE IF BatchOf(L.x1.shape) # BatchOf(L.x2.shape) THEN "x1-x2-batch-differ"
  ELSE "none"

\* ---- the data lattice: geometry of the input rows ---------------------------------------------------------------
\* Point ids and their classes.  Two rows with the same id are the same point.
PointIds == 0..4
PointClass(id) == CASE id = 0 -> "origin"       \* every coordinate 0 (the centre of a ball-shaped domain, the zero vector of a dot product; the first word of a one-hot vocabulary)
                    [] id = 1 -> "unit"         \* a point of norm exactly 1 / a one-hot row (the boundary of the unit ball)
                    [] id = 2 -> "lattice"      \* kernel specific: generic point 3 moved by whole periods / an exact grid node / an inducing point /
                                                \* the boundary of the support around point 3 / the antipode of point 3
                    [] OTHER  -> "generic"      \* ids 3, 4
SpecialClasses == {"origin", "unit", "lattice"}
AllGeos(n1, n2) == {<<a, b>> : a \in [1..n1 -> PointIds], b \in [1..n2 -> PointIds]}

\* the label of a point in batch element b (flat, 0-based): the origin is the same point everywhere, every other point is
\* realised per batch element (so that no two batch elements of the data are exchangeable)
PointLab(id, b) == IF id = 0 THEN 0 ELSE id + 8 * b
\* x of batch shape bsh with the rows r: batch element b holds r rotated by b positions (the special rows do not sit at the same
\* position in every batch element)
GeoX(bsh, r) == LET n == Len(r)
                IN Tn(bsh \o <<n, 1>>, [q \in 1..(Prod(bsh) * n) |-> LET b == (q - 1) \div n i == (q - 1) % n IN PointLab(r[((i + b) % n) + 1], b)])

\* what a geometry exhibits
GeoFeatures(g) ==
  {<<"x1", PointClass(g[1][i])>> : i \in DOMAIN g[1]} \cup {<<"x2", PointClass(g[2][j])>> : j \in DOMAIN g[2]}
  \cup {<<"coincident", "x1">> : i \in {i \in DOMAIN g[1] : \E i2 \in DOMAIN g[1] : i2 # i /\ g[1][i2] = g[1][i]}}
  \cup {<<"coincident", "x2">> : j \in {j \in DOMAIN g[2] : \E j2 \in DOMAIN g[2] : j2 # j /\ g[2][j2] = g[2][j]}}
  \cup {<<"shared", IF PointClass(g[1][i]) = "generic" THEN "generic" ELSE "special">> : i \in {i \in DOMAIN g[1] : \E j \in DOMAIN g[2] : g[2][j] = g[1][i]}}
  \* x2 = cat(new rows, x1): the block K[..., :, o*T:] of kernel(x1, x2) is kernel(x1, x1) - a sub-block with EQUAL inputs (distinct points)
  \cup {<<"block", "x1-in-x2">> : o \in {o \in 1..(Len(g[2]) - Len(g[1])) : (\A i \in DOMAIN g[1] : g[2][o + i] = g[1][i])
                                                                            /\ (\A i, i2 \in DOMAIN g[1] : i # i2 => g[1][i] # g[1][i2])}}
RequiredFeatures == {<<w, c>> : w \in {"x1", "x2"}, c \in SpecialClasses \cup {"generic"}}
                      \cup {<<"coincident", "x1">>, <<"coincident", "x2">>, <<"shared", "generic">>, <<"shared", "special">>, <<"block", "x1-in-x2">>}
\* the geometry of the REAL data in the families whose stub rows are labelled with Iota: pairwise distinct points inside an input,
\* the origin and the unit point present (the lattice point where N2 = 3), the last rows of x1 are the first rows of x2 (N1, N2 <= 3)
DataGeo == <<SubSeq(<<0, 3, 1>>, 1, N1), SubSeq(<<3, 1, 2>>, 1, N2)>>

\* ---- the machine ------------------------------------------------------------------------------------------------
Start(p, f, g, e) == IF f = "geo" THEN MkLazy(GeoX(p[2], g[1]), GeoX(p[3], g[2]), MkKernel(p[1], EnvCode(e)))
                     ELSE MkLazy(Iota(p[2] \o <<N1, 1>>, 0), Iota(p[3] \o <<N2, 1>>, 0), MkKernel(p[1], EnvCode(e)))
\* the patterns on which the environment is enumerated: x1, x2 (and the parameters, when batched) share one batch shape without broadcasting axes
EnvPattern(p) == p[2] = p[3] /\ (p[1] = <<>> \/ p[1] = p[2]) /\ \A d \in DOMAIN p[2] : p[2][d] > 1
EnvOf(p, f) == IF f = "geo" /\ EnvPattern(p) THEN Envs ELSE {DefaultEnv}

NoTensor == [shape |-> <<>>, data |-> <<>>, err |-> FALSE]
Obj(L, den, isden) == [L |-> L, den |-> den, isden |-> isden]

\* dense value of the initial lazy tensor of every (pattern, family, geometry) (a constant: TLC evaluates it once)
GeoOf(f) == IF f = "geo" THEN Geos ELSE {DataGeo}
StartKeys == UNION {{<<j[1], j[2], g, e>> : g \in GeoOf(j[2]), e \in EnvOf(j[1], j[2])} : j \in Jobs}
D0F == [key \in StartKeys |-> Dense(Start(key[1], key[2], key[3], key[4]))]
d0 == D0F[<<pat, fam, geo, env>>]

Init == /\ \E j \in Jobs : pat = j[1] /\ fam = j[2] /\ geo \in GeoOf(j[2]) /\ env \in EnvOf(j[1], j[2])
        /\ chunk \in ChunkSet
        /\ cur = Obj(Start(pat, fam, geo, env), NoTensor, FALSE)
        /\ steps = 0 /\ hist = <<>>

\* the declarative value of the object before this step
Before == IF hist = <<>> THEN d0 ELSE Tn(hist[Len(hist)].eshape, hist[Len(hist)].edata)

Record(op, idx, arg, e, m, lazyShape, br, path, cls) ==
  [op |-> op, cls |-> cls, idx |-> idx, arg |-> arg, eerr |-> e.err, eshape |-> e.shape, edata |-> e.data,
   merr |-> m.err, mshape |-> m.shape, agree |-> SameT(e, m) /\ (m.err \/ lazyShape = m.shape), br |-> br, path |-> path]

\* cur[idx]
Index(idx) ==
  /\ steps < MaxSteps
  /\ LET e == TIndex(Before, idx)
         r == IF cur.isden THEN [L |-> LErr, den |-> LKIndex(cur.den, idx), isden |-> TRUE, br |-> <<"dense", "-", "-">>, path |-> "dense"]
              ELSE LOGetItem(cur.L, idx)
         m == IF r.isden THEN r.den ELSE Dense(r.L)
         ls == IF r.isden \/ m.err THEN m.shape ELSE LKSize(r.L)
     IN /\ cur' = Obj(r.L, IF r.isden THEN m ELSE IF m.err THEN Err ELSE NoTensor, r.isden)
        /\ hist' = Append(hist, Record("getitem", idx, <<>>, e, m, ls, r.br, r.path, IF cur.isden THEN "none" ELSE StepClass(cur.L, idx)))
  /\ steps' = steps + 1 /\ UNCHANGED <<pat, fam, chunk, geo, env>>

\* transposition, unsqueeze, repeat, diagonal of the initial lazy tensor
Op(op, arg) ==
  /\ steps = 0 /\ MaxSteps >= 1
  /\ LET D == d0
         e == CASE op = "transpose" -> MapT(TTransposeLast(D), SymLab)
                [] op = "unsqueeze" -> TUnsqueeze(D, IF arg[1] < 0 THEN Len(D.shape) + arg[1] + 1 ELSE arg[1])
                [] op = "repeat"    -> TRepeat(D, arg)
                [] op = "diagonal"  -> TDiagLast(D)
         r == CASE op = "transpose" -> LKTranspose(cur.L)
                [] op = "unsqueeze" -> LKUnsqueeze(cur.L, arg[1])
                [] op = "repeat"    -> LKRepeat(cur.L, arg)
                [] op = "diagonal"  -> LErr
         m == IF op = "diagonal" THEN LKDiagonal(cur.L) ELSE Dense(r)
         ls == IF op = "diagonal" \/ m.err THEN m.shape ELSE LKSize(r)
     IN /\ cur' = Obj(r, IF op = "diagonal" THEN m ELSE IF m.err THEN Err ELSE NoTensor, op = "diagonal")
        /\ hist' = Append(hist, Record(op, <<>>, arg, e, m, ls, <<"-", "-", "-">>, op, IF op \in {"unsqueeze", "repeat"} THEN OpClass(cur.L) ELSE "none"))
  /\ steps' = steps + 1 /\ UNCHANGED <<pat, fam, chunk, geo, env>>

\* kernel[idx] and kernel.expand_batch(shape) on the kernel alone: recorded as the tensor of parameter labels
\* (first parameter), with the active_dims buffer appended to the shape record
KOp(op, idx, arg) ==
  /\ steps = 0 /\ MaxSteps >= 1
  /\ LET k == cur.L.k
         e == IF op = "kgetitem" THEN KGetItemExpected(k, idx) ELSE KExpandExpected(k, arg)
         m == IF op = "kgetitem" THEN KGetItem(k, idx) ELSE KExpand(k, arg)
         AsT(x) == IF x.err THEN Err ELSE Tn(x.bs, IF Len(x.pars) = 0 THEN <<>> ELSE x.pars[1].data)
     IN /\ cur' = Obj(LErr, AsT(m), TRUE)
        /\ hist' = Append(hist, [op |-> op, cls |-> IF ADIndexed THEN "active_dims" ELSE "none", idx |-> idx, arg |-> arg, eerr |-> e.err, eshape |-> AsT(e).shape, edata |-> AsT(e).data,
                                 merr |-> m.err, mshape |-> AsT(m).shape, agree |-> SameK(e, m),
                                 br |-> <<IF m.err THEN "raise" ELSE IF m.ad = k.ad THEN "ad-kept" ELSE "ad-changed", "-", "-">>, path |-> op])
  /\ steps' = steps + 1 /\ UNCHANGED <<pat, fam, chunk, geo, env>>

\* the relations that need more than the lazy tensor kernel(x1, x2) itself (family "geo"):
\*   diag11     kernel(x1, x1).diagonal() / kernel(x1, x1, diag=True)        = the diagonal of dense kernel(x1, x1)
\*   diagstack  the same on xs = cat(x1, x2) (every row of the geometry on one diagonal)
\*   stack      kernel(xs, xs)[..., :N1*T, N1*T:]                            = dense kernel(x1, x2)
StackX(L) == LET bd == BC2(BatchOf(L.x1.shape), BatchOf(L.x2.shape))
             IN TCatRows(TExpandTo(L.x1, bd \o <<N1, 1>>), TExpandTo(L.x2, bd \o <<N2, 1>>))
StackL(L) == LET xs == StackX(L) IN MkLazy(xs, xs, L.k)
StackBlock == <<EllI, Sl(0, N1 * T, NoneI), Sl(N1 * T, NoneI, NoneI)>>
Rel(op) ==
  /\ steps = 0 /\ MaxSteps >= 1
  /\ LET L == cur.L
         L11 == MkLazy(L.x1, L.x1, L.k)
         LS == StackL(L)
         r == IF op = "stack" THEN LOGetItem(LS, StackBlock) ELSE [L |-> LErr, den |-> Err, isden |-> TRUE, br |-> <<"-", "-", "-">>, path |-> op]
         e == CASE op = "diag11"    -> TDiagLast(Dense(L11))
                [] op = "diagstack" -> TDiagLast(Dense(LS))
                [] op = "stack"     -> d0
         m == CASE op = "diag11"    -> LKDiagonal(L11)
                [] op = "diagstack" -> LKDiagonal(LS)
                [] op = "stack"     -> IF r.isden THEN r.den ELSE Dense(r.L)
         ls == IF op = "stack" /\ ~r.isden /\ ~m.err THEN LKSize(r.L) ELSE m.shape
     IN /\ cur' = Obj(LErr, m, TRUE)
        /\ hist' = Append(hist, Record(op, <<>>, <<>>, e, m, ls, r.br, op, "none"))
  /\ steps' = steps + 1 /\ UNCHANGED <<pat, fam, chunk, geo, env>>

\* ---- the relation between the two inputs of a diagonal request ------------------------------------------------------
\* diag12(r): kernel(x1, xr, diag=True) / kernel(x1, xr).diagonal() / kernel.forward(x1, xr, diag=True) = the diagonal of dense kernel(x1, xr),
\*   r = "same"   xr is the tensor object x1          r = "clone"  xr is an equal copy of x1 (the label algebra cannot tell them apart: the
\*   replay builds the two objects)                   r = "rows"   xr = x2[..., :N1, :], another tensor with the same number of rows
XRels == {"same", "clone", "rows"}
HeadRows(X, n) == TIndex(X, <<EllI, Sl(0, n, NoneI), Full>>)
DiagPair(L, r) == IF r = "rows" THEN MkLazy(L.x1, HeadRows(L.x2, N1), L.k) ELSE MkLazy(L.x1, L.x1, L.k)
\* the class of the case: different tensors whose batch shapes differ are paired by broadcasting
XRelClass(L, r) == IF r = "rows" /\ BatchOf(L.x1.shape) # BatchOf(L.x2.shape) THEN "bcast" ELSE r
XRelClasses == {"same", "clone", "rows", "bcast"}
XRelTag(c) == CASE c = "same" -> "rel:same" [] c = "clone" -> "rel:clone" [] c = "rows" -> "rel:rows" [] OTHER -> "rel:bcast"
\* how the rows of a geometry are related position by position (row i of x1 against row i of x2, i <= N1)
RowsRel(g) == LET eq == {i \in DOMAIN g[1] : i \in DOMAIN g[2] /\ g[2][i] = g[1][i]}
              IN IF eq = DOMAIN g[1] THEN "equal" ELSE IF eq = {} THEN "disjoint" ELSE "partial"
\* REJECTED VARIANT of the code-shaped side: the x1 = x2 branch of a diag=True implementation answers every request (x2 is not read)
LKDiagShortcut(L) == LKDiagonal(MkLazy(L.x1, L.x1, L.k))
Diag12(r) ==
  /\ steps = 0 /\ MaxSteps >= 1 /\ N2 >= N1
  /\ LET P == DiagPair(cur.L, r)
         e == TDiagLast(Dense(P))
         m == LKDiagonal(P)
         v == LKDiagShortcut(P)
     IN /\ cur' = Obj(LErr, m, TRUE)
        /\ hist' = Append(hist, Record("diag12", <<>>, <<r>>, e, m, m.shape,
                                       <<XRelTag(XRelClass(cur.L, r)), IF SameT(e, v) THEN "shortcut-agrees" ELSE "shortcut-differs", "-">>, "diag12", "none"))
  /\ steps' = steps + 1 /\ UNCHANGED <<pat, fam, chunk, geo, env>>

\* index expressions of the geometry family: the whole tensor (lazy = eager), row / column slices without an explicit stop on
\* the other axis, the first row, one entry
GeoIdx == {<<EllI>>, <<EllI, Sl(0, T, NoneI), Full>>, <<EllI, Full, Sl(T, NoneI, NoneI)>>, <<EllI, IntI(0), Full>>, <<EllI, IntI(0), IntI(1)>>}

ShapeNow == IF cur.isden THEN cur.den.shape ELSE LKSize(cur.L)

Next ==
  \/ /\ steps = 0 /\ fam \notin {"ops", "kern", "chain"}
     /\ \E idx \in Offered(fam, LKSize(cur.L)) : Index(idx)
  \/ /\ fam = "chain" /\ ~cur.den.err /\ (IF hist = <<>> THEN TRUE ELSE hist[Len(hist)].agree)
     /\ IF steps = 0 THEN \E idx \in Offered("bf", LKSize(cur.L)) \cup (IF chunk = 0 THEN ChainIdx(LKSize(cur.L)) ELSE {}) : Index(idx)
        ELSE (ShapeNow # NoBC /\ \E idx \in ChainIdx(ShapeNow) : Index(idx))
  \/ /\ fam = "ops" /\ chunk = 0
     /\ LET nd == Len(LKSize(cur.L))
        IN \/ Op("transpose", <<>>)
           \/ Op("diagonal", <<>>)
           \/ \E d \in UnsqArgs(nd) : Op("unsqueeze", <<d>>)
           \/ \E reps \in RepeatArgs(nd) : Op("repeat", reps)
  \/ /\ fam = "geo" /\ chunk = 0
     /\ \/ Op("transpose", <<>>)
        \/ \E o \in {"diag11", "diagstack", "stack"} : Rel(o)
        \/ \E r \in XRels : Diag12(r)
        \/ (steps = 0 /\ \E idx \in GeoIdx : Index(idx))
  \/ /\ fam = "kern" /\ chunk = 0
     /\ \/ \E idx \in KIdx(pat[1]) : KOp("kgetitem", idx, <<>>)
        \/ \E s \in KShapes(pat[1]) : KOp("kexpand", <<>>, s)

Spec == Init /\ [][Next]_vars

\* ---- the property ---------------------------------------------------------------------------------------------------
\* every operation yields the labels the declarative reading of the operation selects (and raises exactly when it does)
Agree == \A i \in DOMAIN hist : hist[i].eerr \/ hist[i].agree                 \* quantifier: index expressions VALID for the shape

\* ... and the transcribed code deviates only in the known classes (this one holds on the model of the pinned code)
AgreeExceptKnown == \A i \in DOMAIN hist : hist[i].eerr \/ hist[i].agree \/ hist[i].cls # "none"

\* the axis-by-axis index function is PyIndex!TIndex (checked on the dense tensor for every enumerated index expression)
FastIsTIndex == \A i \in DOMAIN hist : hist[i].op = "getitem" /\ i = 1 => SameT(LKIndex(d0, hist[i].idx), TIndex(d0, hist[i].idx))

\* _size announces the shape of the dense value for every broadcast pattern
SizeIsDenseShape == steps = 0 => (~d0.err /\ LKSize(cur.L) = d0.shape)

\* ---- the data lattice is covered, and the block relation is a fact of the label algebra -----------------------------------
\* the geometries of a "geo" run have the sizes of the run and exhibit every special class in x1 and in x2, coincident rows in
\* both inputs, rows shared by x1 and x2, and an x2 that ends with the rows of x1
GeoCover == ("geo" \in {j[2] : j \in Jobs}) =>
              /\ \A g \in Geos : Len(g[1]) = N1 /\ Len(g[2]) = N2 /\ \A i \in DOMAIN g[1] : g[1][i] \in PointIds
              /\ \A g \in Geos : \A j \in DOMAIN g[2] : g[2][j] \in PointIds
              /\ RequiredFeatures \subseteq UNION {GeoFeatures(g) : g \in Geos}
\* the environments of a "geo" run: the default, every pair of setting values (a pairwise covering family; AllEnvs covers trivially),
\* and the modelled kernel SEES every component it reads (two environments that differ there give different labels everywhere)
HasGeo == "geo" \in {j[2] : j \in Jobs}
EnvCover == HasGeo => /\ Envs \subseteq AllEnvs /\ DefaultEnv \in Envs
                      /\ EnvPairs(AllEnvs) \subseteq EnvPairs(Envs)
                      /\ \E j \in Jobs : j[2] = "geo" /\ EnvPattern(j[1]) /\ j[1][2] # <<>>       \* ... also on batched data
EnvVisible == (fam = "geo" /\ steps = 0 /\ Sens = {"mode", "corr", "toep"}) =>
                \A e \in EnvOf(pat, fam) : e # env => \A q \in DOMAIN d0.data : D0F[<<pat, fam, geo, e>>].data[q] # d0.data[q]
\* every composite / multi-output structure of the zoo has a member whose diagonal varies over the points (and of this run's T
\* when it is a multi-output structure): a diag relation of such a structure cannot hold by the symmetry of a stationary member
CompositeStructs == {"scale", "sum", "product", "nested", "multitask", "lcm", "gridinterp", "inducing", "grad"}
MultiOutputStructs == {"multitask", "lcm", "grad"}
ZooDiagCover == HasGeo => /\ \A z \in Zoo : z[3] \in {"varying", "constant"} /\ z[2] \in CompositeStructs \cup {"plain"}
                          /\ \A s \in CompositeStructs : \E z \in Zoo : z[2] = s /\ z[3] = "varying"
                          /\ T > 1 => \A s \in {"multitask", "lcm"} : \E z \in Zoo : z[2] = s /\ z[3] = "varying" /\ z[4] = T
\* the relation between the inputs of a diagonal request is covered: the enumerated patterns reach 'rows' (equal batch shapes) and 'bcast'
\* (different batch shapes, also with a batched x1 against an unbatched x2 and the other way round), 'same' and 'clone' are offered on every
\* pattern, and the geometries contain an x2 whose first N1 rows share NO row and one that shares SOME (not all) rows with x1 position by position
GeoJobs == {j \in Jobs : j[2] = "geo"}
DiagRelCover == HasGeo => /\ N2 >= N1
                          /\ \E j \in GeoJobs : j[1][2] = j[1][3] /\ j[1][2] # <<>>
                          /\ \E j \in GeoJobs : j[1][2] = <<>> /\ j[1][3] = <<>>
                          /\ \E j \in GeoJobs : j[1][2] = <<>> /\ j[1][3] # <<>>
                          /\ \E j \in GeoJobs : j[1][2] # <<>> /\ j[1][3] = <<>>
                          /\ \E j \in GeoJobs : j[1][1] # <<>> /\ j[1][2] # j[1][3]
                          /\ {"disjoint", "partial"} \subseteq {RowsRel(g) : g \in Geos}
\* the case lattice rejects the shortcut variant: it is invisible on 'same' / 'clone' and refuted by every case with different rows
DiagRelDiscriminates == \A i \in DOMAIN hist : hist[i].op = "diag12" =>
                          /\ hist[i].br[1] \in {XRelTag(c) : c \in XRelClasses}
                          /\ hist[i].br[1] \in {"rel:same", "rel:clone"} => hist[i].br[2] = "shortcut-agrees"
                          /\ (hist[i].br[1] \in {"rel:rows", "rel:bcast"} /\ RowsRel(geo) # "equal") => hist[i].br[2] = "shortcut-differs"
\* on the geometry family the transcribed code has no deviation at all (none of the relations falls into a class of StepClass / OpClass)
GeoAgree == fam = "geo" => Agree
\* declaratively: the upper right block of kernel(xs, xs), xs = cat(x1, x2), is kernel(x1, x2)
StackIsBlock == (fam = "geo" /\ steps = 0) => SameT(TIndex(Dense(StackL(cur.L)), StackBlock), d0)
=============================================================================
