------------------------------- MODULE MVNOps -------------------------------
(***************************************************************************)
(* MultivariateNormal (property C10): the shape algebra of log_prob and    *)
(* the arithmetic / reshaping operations as maps on (mean, covariance).    *)
(*                                                                         *)
(* A stored distribution is [lazy, loc, cov, tril, trilb]:                 *)
(*   loc  : tensor of rationals, shape mb \o <<n>>                          *)
(*   cov  : tensor of rationals, shape cb \o <<n, n>>                       *)
(*   tril : a Cholesky factor is cached (dense: always; lazy: only after   *)
(*          it was needed once - the HISTORY dimension `warm` of a case)   *)
(*   trilb: batch shape of the cached _unbroadcasted_scale_tril            *)
(* The LinearOperator branch of the constructor stores mean and covariance *)
(* as given (mb and cb may differ: broadcast representation); torch's      *)
(* dense constructor expands loc and covariance_matrix to the batch shape  *)
(* and keeps the Cholesky factor with the batch shape of the covariance    *)
(* that was passed in.                                                     *)
(*                                                                         *)
(* SEMANTICS: Den(x) = [batch, mean, cov] fully expanded: batch element b  *)
(* is the random vector with mean Den.mean[b] and covariance Den.cov[b].   *)
(* Every operation is specified on Den (Sem...) and transcribed from the   *)
(* code on the stored form (Code...); the invariant OpsOK: they commute,  *)
(* LogProbShapeOK says the expand / repeat logic of log_prob yields the    *)
(* plain broadcast of the value batch with the distribution batch.         *)
(*                                                                         *)
(* SCALARS.  A scalar argument is <<num, den, spelling>>: an exact         *)
(* rational VALUE and the Python SPELLING it is passed in (int, float,     *)
(* bool, numpy.float64, 0-dim tensor, or omitted = the default).  The      *)
(* value alphabet holds the algebraically special values of every scalar   *)
(* operation: the identity of the operation (1 for * and /, 0 for + and    *)
(* jitter), its negative (-1: the square is the identity's), the           *)
(* annihilator 0, values adjacent to 0 and to +-1, proper fractions and    *)
(* ordinary values of both signs.  The code short-cuts on some of them     *)
(* (`if other == 1: return self`, `if other == 0: return self` in          *)
(* __radd__); the semantics does not know short-cuts.                      *)
(* The code may REJECT a spelling (0-dim tensors, scalar * X); a case with *)
(* optional = TRUE must raise or be right, every other case must be right. *)
(***************************************************************************)
EXTENDS MVNShapes, TLC

CONSTANTS Part,        \* "logprob" | "ops" | "both"
          Bcast,       \* BOOLEAN: FALSE: mean and covariance have the same batch shape; TRUE: they differ (broadcast representation)
          Dims,        \* sizes a batch dimension can take, e.g. {1, 2}
          Variant      \* "pinned": the code as found; "fixed": the LinearOperator constructor branch expands mean and covariance
                       \*  to the batch shape and unsqueeze expands the Cholesky factor first

VARIABLE c             \* the case: inputs, and the DECLARATIVE expectation for the replay
vars == <<c>>

NE == 2                \* event size of the symbolic instances

RECURSIVE ShapesOfRank(_)
ShapesOfRank(k) == IF k = 0 THEN {<<>>} ELSE {Append(s, x) : s \in ShapesOfRank(k - 1), x \in Dims}
BatchShapes == UNION {ShapesOfRank(k) : k \in 0..2}

\* ---- stored form ----------------------------------------------------------------------------------
Vals(shape, base) == [shape |-> shape, data |-> [p \in 1..Prod(shape) |-> RI(base + p)], err |-> FALSE]

\* what the constructor keeps for a mean of batch shape mb and a covariance of batch shape cb
Construct(mb, cb, lazy, base) ==
  LET db == BShape(mb, cb)
      loc == Vals(mb \o <<NE>>, base)
      cov == Vals(cb \o <<NE, NE>>, 10 * base)
  IN IF lazy /\ Variant = "pinned" THEN [lazy |-> TRUE, loc |-> loc, cov |-> cov, tril |-> FALSE, trilb |-> <<>>, err |-> FALSE]
     ELSE IF lazy THEN [lazy |-> TRUE, loc |-> BcastTo(loc, db \o <<NE>>), cov |-> BcastTo(cov, db \o <<NE, NE>>), tril |-> FALSE, trilb |-> <<>>, err |-> FALSE]
     ELSE [lazy |-> FALSE, loc |-> BcastTo(loc, db \o <<NE>>), cov |-> BcastTo(cov, db \o <<NE, NE>>), tril |-> TRUE, trilb |-> cb, err |-> FALSE]

XErr == [lazy |-> TRUE, loc |-> Err, cov |-> Err, tril |-> FALSE, trilb |-> <<>>, err |-> TRUE]
LocB(x) == SubSeq(x.loc.shape, 1, Len(x.loc.shape) - 1)
CovB(x) == SubSeq(x.cov.shape, 1, Len(x.cov.shape) - 2)
MkLazy(loc, cov) == IF loc.err \/ cov.err THEN XErr ELSE [lazy |-> TRUE, loc |-> loc, cov |-> cov, tril |-> FALSE, trilb |-> <<>>, err |-> FALSE]
\* history: the Cholesky factor was needed once (log_prob on the Cholesky path, scale_tril, entropy ...): a lazy distribution
\* caches to_dense(lazy_covariance_matrix.cholesky()) with the batch shape of the stored covariance; a dense one always has it
Warm(x) == IF x.err \/ ~x.lazy THEN x ELSE [x EXCEPT !.tril = TRUE, !.trilb = CovB(x)]

\* ---- semantics --------------------------------------------------------------------------------------
DErr == [batch |-> NoShape, mean |-> Err, cov |-> Err, err |-> TRUE]
Den(x) ==
  IF x.err THEN DErr
  ELSE LET db == BShape(LocB(x), CovB(x))
       IN IF db = NoShape \/ Len(x.loc.shape) = 0 \/ Len(x.cov.shape) < 2 THEN DErr
          ELSE IF x.loc.shape[Len(x.loc.shape)] # NE \/ SubSeq(x.cov.shape, Len(x.cov.shape) - 1, Len(x.cov.shape)) # <<NE, NE>> THEN DErr
          ELSE IF x.tril /\ BShape(x.trilb, db) # db THEN DErr
          ELSE [batch |-> db, mean |-> BcastTo(x.loc, db \o <<NE>>), cov |-> BcastTo(x.cov, db \o <<NE, NE>>), err |-> FALSE]

DEq(a, b) == (a.err <=> b.err) /\ (~a.err => a.batch = b.batch /\ TEq(a.mean, b.mean) /\ TEq(a.cov, b.cov))

\* position p (0-based) of a tensor of shape batch \o <<NE, NE>> is on the diagonal
OnDiag(p) == (p % (NE * NE)) \div NE = (p % (NE * NE)) % NE
MapCov(T, f(_, _)) == [shape |-> T.shape, data |-> [p \in DOMAIN T.data |-> f(T.data[p], OnDiag(p - 1))], err |-> FALSE]

SemAddScalar(D, k) == [D EXCEPT !.mean = TMap(D.mean, LAMBDA v : RAdd(v, k))]                    \* X + k
SemMul(D, k) == [D EXCEPT !.mean = TMap(D.mean, LAMBDA v : RMul(v, k)),                          \* k X
                          !.cov = TMap(D.cov, LAMBDA v : RMul(v, RMul(k, k)))]
SemDiv(D, k) == IF k[1] = 0 THEN DErr ELSE SemMul(D, RInv(k))                                     \* X / k
SemJitter(D, e) == [D EXCEPT !.cov = MapCov(D.cov, LAMBDA v, dg : IF dg THEN RAdd(v, e) ELSE v)]  \* X + sqrt(e) Z
SemAddMVN(D1, D2) ==                                                                              \* X + Y, independent
  LET b == BShape(D1.batch, D2.batch)
  IN IF b = NoShape THEN DErr
     ELSE [batch |-> b, err |-> FALSE,
           mean |-> TZip(BcastTo(D1.mean, b \o <<NE>>), BcastTo(D2.mean, b \o <<NE>>), RAdd),
           cov  |-> TZip(BcastTo(D1.cov, b \o <<NE, NE>>), BcastTo(D2.cov, b \o <<NE, NE>>), RAdd)]
SemExpand(D, B) ==
  IF ~CanBcast(D.batch, B) THEN DErr
  ELSE [batch |-> B, mean |-> BcastTo(D.mean, B \o <<NE>>), cov |-> BcastTo(D.cov, B \o <<NE, NE>>), err |-> FALSE]
InsertOne(s, k) == SubSeq(s, 1, k) \o <<1>> \o SubSeq(s, k + 1, Len(s))                           \* k = 0-based position
SemUnsqueeze(D, dim) ==
  LET r == Len(D.batch)
      k == IF dim < 0 THEN r + dim + 1 ELSE dim
  IN IF dim > r \/ dim < -r - 1 THEN DErr
     ELSE [batch |-> InsertOne(D.batch, k), mean |-> Reshape(D.mean, InsertOne(D.batch, k) \o <<NE>>),
           cov |-> Reshape(D.cov, InsertOne(D.batch, k) \o <<NE, NE>>), err |-> FALSE]

\* ---- code-shaped operations ----------------------------------------------------------------------------
\* torch elementwise addition of two tensors with broadcasting
BAdd(A, B) ==
  LET s == BShape(A.shape, B.shape)
  IN IF s = NoShape THEN Err ELSE TZip(BcastTo(A, s), BcastTo(B, s), RAdd)

\* spellings of a scalar argument
SpInt == 0  SpFloat == 1  SpTensor0 == 2  SpBool == 3  SpNumpy == 4  SpOmitted == 5
\* isinstance(other, int) or isinstance(other, float): bool is an int, numpy.float64 is a float, a 0-dim tensor is neither
IsNumber(sp) == sp # SpTensor0
\* __add__ with a number: self.__class__(self.mean + other, self.lazy_covariance_matrix); anything else: RuntimeError
CodeAddScalar(x, k, sp) == IF ~IsNumber(sp) THEN XErr ELSE MkLazy(TMap(x.loc, LAMBDA v : RAdd(v, k)), x.cov)
\* __radd__ (number + X, also the first step of sum([...])): "if other == 0: return self", else __add__
CodeRAddScalar(x, k, sp) == IF k[1] = 0 THEN x ELSE CodeAddScalar(x, k, sp)
\* __mul__: not a number: RuntimeError; "if other == 1: return self"; mean * other, lazy_covariance_matrix * other ** 2
CodeMul(x, k, sp) == IF ~IsNumber(sp) THEN XErr
                     ELSE IF REq(k, RI(1)) THEN x
                     ELSE MkLazy(TMap(x.loc, LAMBDA v : RMul(v, k)), TMap(x.cov, LAMBDA v : RMul(v, RMul(k, k))))
\* __truediv__: self.__mul__(1.0 / other)  (1.0 / tensor is a tensor; 1.0 / 0 raises)
CodeDiv(x, k, sp) == IF k[1] = 0 THEN XErr ELSE CodeMul(x, RInv(k), sp)
\* number * X: there is no __rmul__ (TypeError)
CodeRMul(x, k, sp) == XErr
\* add_jitter: self.__class__(self.mean, self.lazy_covariance_matrix.add_jitter(noise)); noise defaults to 1e-4; any spelling
CodeJitter(x, e) == MkLazy(x.loc, MapCov(x.cov, LAMBDA v, dg : IF dg THEN RAdd(v, e) ELSE v))
\* __add__ with an MVN: means and lazy covariances are added (tensor / LinearOperator broadcasting)
CodeAddMVN(x, y) == MkLazy(BAdd(x.loc, y.loc), BAdd(x.cov, y.cov))

\* expand(batch_size)
CodeExpand(x, B) ==
  IF ~CanBcast(x.loc.shape, B \o <<NE>>) THEN XErr                                   \* self.loc.expand(batch_size + loc.shape[-1:])
  ELSE IF x.lazy THEN
         IF ~CanBcast(x.cov.shape, B \o <<NE, NE>>) THEN XErr                        \* self._covar.expand(batch_size + covar.shape[-2:])
         ELSE IF ~x.tril THEN MkLazy(BcastTo(x.loc, B \o <<NE>>), BcastTo(x.cov, B \o <<NE, NE>>))
         ELSE IF ~CanBcast(x.trilb, B) THEN XErr                                     \* "Reuse the scale tril if available": tril.expand(batch_size + ...)
         ELSE [lazy |-> TRUE, loc |-> BcastTo(x.loc, B \o <<NE>>), cov |-> BcastTo(x.cov, B \o <<NE, NE>>), tril |-> TRUE, trilb |-> B, err |-> FALSE]
  ELSE IF ~CanBcast(x.trilb, B) \/ ~CanBcast(x.cov.shape, B \o <<NE, NE>>) THEN XErr   \* scale_tril.expand / covariance_matrix.expand
  ELSE [lazy |-> FALSE, loc |-> BcastTo(x.loc, B \o <<NE>>), cov |-> BcastTo(x.cov, B \o <<NE, NE>>), tril |-> TRUE, trilb |-> B, err |-> FALSE]

\* unsqueeze(dim): dim is normalised against len(self.batch_shape) and then applied to the STORED tensors
CodeUnsqueeze(x, dim) ==
  LET r == Len(BShape(LocB(x), CovB(x)))                                            \* len(self.batch_shape)
      k == IF dim < 0 THEN r + dim + 1 ELSE dim
  IN IF dim > r \/ dim < -r - 1 THEN XErr                                           \* IndexError("Dimension out of range")
     ELSE IF k > Len(x.loc.shape) THEN XErr                                         \* torch: self.loc.unsqueeze(dim) out of range
     ELSE LET newloc == Reshape(x.loc, InsertOne(x.loc.shape, k))
          IN IF x.lazy THEN
               IF k > Len(CovB(x)) THEN XErr                                        \* LinearOperator.unsqueeze: "Can only unsqueeze batch dimensions"
               ELSE IF ~x.tril THEN MkLazy(newloc, Reshape(x.cov, InsertOne(x.cov.shape, k)))
               ELSE IF k > Len(x.trilb) THEN XErr                                   \* (unreachable: the cached factor has the covariance's batch shape)
               ELSE [lazy |-> TRUE, loc |-> newloc, cov |-> Reshape(x.cov, InsertOne(x.cov.shape, k)),   \* "Reuse the scale tril": tril.unsqueeze(dim)
                     tril |-> TRUE, trilb |-> InsertOne(x.trilb, k), err |-> FALSE]
             ELSE IF Variant = "fixed" THEN [lazy |-> FALSE, loc |-> newloc, cov |-> Reshape(x.cov, InsertOne(x.cov.shape, k)), tril |-> TRUE, trilb |-> InsertOne(LocB(x), k), err |-> FALSE]
             ELSE IF k > Len(x.trilb) THEN XErr                                     \* scale_tril.unsqueeze(dim) lands inside the matrix dimensions
             ELSE [lazy |-> FALSE, loc |-> newloc, cov |-> Reshape(x.cov, InsertOne(x.cov.shape, k)), tril |-> TRUE, trilb |-> InsertOne(x.trilb, k), err |-> FALSE]

\* ---- log_prob, fast path: shapes only ----------------------------------------------------------------------
\* returns the batch shape of the result, or NoShape when some step raises
LogProbFast(vb, mb, cb) ==
  LET db == BShape(vb, mb)                                                           \* diff = value - mean
  IN IF db = NoShape THEN NoShape
     ELSE IF db = cb THEN db
     ELSE IF Len(db) < Len(cb) THEN                                                  \* diff = diff.expand(covar.shape[:-1])
            (IF CanBcast(db, cb) THEN cb ELSE NoShape)
     ELSE LET padded == [j \in 1..(Len(db) - Len(cb)) |-> 1] \o cb                   \* covar = covar.repeat(*(d // c ...), 1, 1)
              covb == [j \in 1..Len(db) |-> padded[j] * (db[j] \div padded[j])]
          IN BShape(db, covb)                                                        \* inv_quad (batch of diff) + logdet (batch of covar)

LogProbExpected(vb, mb, cb) == BShape(vb, BShape(mb, cb))

\* ---- cases ------------------------------------------------------------------------------------------------------
Pairs == {<<mb, cb>> \in BatchShapes \X BatchShapes : BShape(mb, cb) # NoShape}
Lazies == BOOLEAN
InPart(p, lz) == IF Bcast THEN p[1] # p[2] ELSE p[1] = p[2]
\* batch shapes as stored: the dense constructor expands both
StoredMB(mb, cb, lazy) == IF lazy /\ Variant = "pinned" THEN mb ELSE BShape(mb, cb)
StoredCB(mb, cb, lazy) == IF lazy /\ Variant = "pinned" THEN cb ELSE BShape(mb, cb)

LogProbCases ==
  {[kind |-> "logprob", vb |-> t[1], mb |-> t[2][1], cb |-> t[2][2], lazy |-> t[3], expect |-> LogProbExpected(t[1], t[2][1], t[2][2])] :
     t \in {u \in BatchShapes \X Pairs \X Lazies : InPart(u[2], u[3]) /\ LogProbExpected(u[1], u[2][1], u[2][2]) # NoShape}}

\* ---- the scalar alphabet -----------------------------------------------------------------------------------------
\* values: identity, its negative, annihilator, 0-adjacent, (+-1)-adjacent, proper fractions, ordinary values of both signs
MulVals == {RI(1), RI(-1), RI(0), <<1, 1000>>, <<-1, 1000>>, <<11, 10>>, <<-9, 10>>, <<1, 2>>, <<-1, 2>>, RI(2), RI(-3)}
AddVals == {RI(0), RI(1), RI(-1), <<1, 1000>>, <<-1, 2>>, RI(3)}
JitVals == {RI(0), <<1, 1000>>, <<1, 2>>}
Special == {RI(0), RI(1), RI(-1), RI(2)}          \* values also spelled as numpy.float64 and as 0-dim tensor
SpellOK(v, sp) ==
  CASE sp = SpInt -> v[2] = 1
    [] sp = SpFloat -> TRUE
    [] sp = SpBool -> v \in {RI(0), RI(1)}
    [] sp \in {SpTensor0, SpNumpy} -> v \in Special
    [] OTHER -> FALSE
Spelled(V) == {<<v[1], v[2], sp>> : v \in V, sp \in {SpInt, SpFloat, SpTensor0, SpBool, SpNumpy}}
ScalarParams(V) == {q \in Spelled(V) : SpellOK(<<q[1], q[2]>>, q[3])}
Val(q) == <<q[1], q[2]>>
ScalarOps == {"add_scalar", "radd_scalar", "mul", "div", "rmul", "add_jitter"}

\* a case the library may reject (it must then raise; if it returns a distribution, the distribution must be right):
\* 0-dim tensors, number * X, and the degenerate product 0 * X (covariance 0: not a density)
Optional(op, q) == op \in ScalarOps /\ (q[3] = SpTensor0 \/ op = "rmul" \/ (op \in {"mul", "rmul"} /\ q[1] = 0))
\* the result has no density (log_prob is not compared)
Degenerate(op, q) == op \in {"mul", "rmul"} /\ q[1] = 0

OpParams(op, db) ==
  CASE op = "add_scalar" -> ScalarParams(AddVals)
    [] op = "radd_scalar" -> ScalarParams(AddVals)
    [] op = "mul" -> ScalarParams(MulVals)
    [] op = "div" -> ScalarParams(MulVals \ {RI(0)})            \* X / 0 is no random vector: outside the domain
    [] op = "rmul" -> {q \in ScalarParams(MulVals) : Val(q) \in Special}
    [] op = "add_jitter" -> ScalarParams(JitVals) \cup {<<1, 10000, SpOmitted>>}    \* add_jitter() = add_jitter(1e-4)
    [] op = "expand" -> {db, <<2>> \o db, <<3, 1>> \o db, [j \in 1..Len(db) |-> 2]}
    [] op = "unsqueeze" -> (-(Len(db) + 2))..(Len(db) + 1)
    [] op = "add_mvn" -> {<<<<>>, <<>>>>, <<db, db>>, <<<<2>>, <<2>>>>, <<<<1>>, <<2>>>>, <<<<2, 1>>, <<>>>>}
Ops == ScalarOps \cup {"expand", "unsqueeze", "add_mvn"}
\* history: was the Cholesky factor of the operand needed before the operation (a dense distribution always has it: Warm(x) = x)
Warms(lz) == IF lz THEN BOOLEAN ELSE {FALSE}

Run(cs) ==
  LET x0 == Construct(cs.mb, cs.cb, cs.lazy, 2)
      x == IF cs.warm THEN Warm(x0) ELSE x0
      D == Den(x0)                                             \* the history does not change what the operand IS
      k == Val(cs.param)
      sp == cs.param[3]
  IN CASE cs.op = "add_scalar"  -> [code |-> CodeAddScalar(x, k, sp), sem |-> SemAddScalar(D, k)]
       [] cs.op = "radd_scalar" -> [code |-> CodeRAddScalar(x, k, sp), sem |-> SemAddScalar(D, k)]
       [] cs.op = "mul"         -> [code |-> CodeMul(x, k, sp), sem |-> SemMul(D, k)]
       [] cs.op = "div"         -> [code |-> CodeDiv(x, k, sp), sem |-> SemDiv(D, k)]
       [] cs.op = "rmul"        -> [code |-> CodeRMul(x, k, sp), sem |-> SemMul(D, k)]
       [] cs.op = "add_jitter"  -> [code |-> CodeJitter(x, k), sem |-> SemJitter(D, k)]
       [] cs.op = "expand"     -> [code |-> CodeExpand(x, cs.param), sem |-> SemExpand(D, cs.param)]
       [] cs.op = "unsqueeze"  -> [code |-> CodeUnsqueeze(x, cs.param), sem |-> SemUnsqueeze(D, cs.param)]
       [] cs.op = "add_mvn"    -> LET y == Construct(cs.param[1], cs.param[2], cs.lazy, 5)
                                  IN [code |-> CodeAddMVN(x, y), sem |-> SemAddMVN(D, Den(y))]

Init ==
  \/ /\ Part \in {"logprob", "both"}
     /\ c \in LogProbCases
  \/ /\ Part \in {"ops", "both"}
     /\ \E op \in Ops, p \in Pairs, lz \in Lazies :
          /\ InPart(p, lz)
          /\ \E q \in OpParams(op, BShape(p[1], p[2])), w \in Warms(lz) :
             LET cs == [kind |-> "op", op |-> op, mb |-> p[1], cb |-> p[2], lazy |-> lz, warm |-> w, param |-> q]
                 \* (a scalar operation is total and keeps the batch shape: no need to run the semantics here; OpsOK re-checks it)
                 s  == IF op \in ScalarOps THEN [err |-> FALSE, batch |-> BShape(p[1], p[2])] ELSE Run(cs).sem
             IN c = [kind |-> "op", op |-> op, mb |-> p[1], cb |-> p[2], lazy |-> lz, warm |-> w, param |-> q,
                     experr |-> s.err, expect |-> s.batch, optional |-> Optional(op, q), degenerate |-> Degenerate(op, q)]

Next == UNCHANGED c
Spec == Init /\ [][Next]_vars

\* ---- properties ----------------------------------------------------------------------------------------------------
\* the expand / repeat logic of log_prob = plain broadcasting of value batch, mean batch and covariance batch
LogProbShapeOK ==
  c.kind = "logprob" =>
     (c.expect # NoShape => LogProbFast(c.vb, StoredMB(c.mb, c.cb, c.lazy), StoredCB(c.mb, c.cb, c.lazy)) = c.expect)

\* expansion agrees with its definition (guards the helper every other statement rests on); constant: checked once, as ASSUME
BcastDefOK == \A s \in BatchShapes, t \in BatchShapes : CanBcast(s, t) <=> CanBcastDef(s, t)
ASSUME BcastDefOK

\* every operation acts on (mean, covariance) as the corresponding operation on the random vector - for every scalar value and
\* spelling, with or without a cached factor; a case the library may reject raises or is right
OpsOK ==
  c.kind = "op" =>
     LET r == Run([kind |-> "op", op |-> c.op, mb |-> c.mb, cb |-> c.cb, lazy |-> c.lazy, warm |-> c.warm, param |-> c.param])
         dc == Den(r.code)
     IN /\ r.sem.err = c.experr /\ (~r.sem.err => r.sem.batch = c.expect)          \* the expectation handed to the replay is the semantics'
        /\ IF c.optional /\ dc.err THEN TRUE ELSE DEq(dc, r.sem)

\* needing the Cholesky factor does not change the distribution (every configuration; constant: checked once, as ASSUME)
WarmNeutral ==
  \A p \in Pairs, lz \in Lazies : InPart(p, lz) => LET x == Construct(p[1], p[2], lz, 2) IN DEq(Den(Warm(x)), Den(x))
ASSUME WarmNeutral

\* the alphabet contains what it is meant to contain (guards against an edit that drops the special values again)
AlphabetOK ==
  /\ \A v \in {RI(1), RI(-1), RI(0)} : \A op \in {"mul"} : \A sp \in {SpInt, SpFloat, SpNumpy, SpTensor0} : <<v[1], v[2], sp>> \in OpParams(op, <<>>)
  /\ \A v \in {RI(1), RI(-1)} : \A sp \in {SpInt, SpFloat, SpNumpy, SpTensor0} : <<v[1], v[2], sp>> \in OpParams("div", <<>>)
  /\ \A op \in {"add_scalar", "radd_scalar"} : \A sp \in {SpInt, SpFloat, SpNumpy, SpTensor0} : <<0, 1, sp>> \in OpParams(op, <<>>)
  /\ {<<0, 1, SpInt>>, <<0, 1, SpFloat>>} \subseteq OpParams("add_jitter", <<>>)
  /\ \E q \in OpParams("mul", <<>>) : q[1] # 0 /\ 1000 * (IF q[1] < 0 THEN -q[1] ELSE q[1]) <= q[2]        \* 0-adjacent
ASSUME AlphabetOK
=============================================================================
