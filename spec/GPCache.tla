------------------------------- MODULE GPCache -------------------------------
(***************************************************************************)
(* The caches of a GP model that outlive a call, and the operations that   *)
(* must invalidate them (property C03: evaluation-mode output depends only *)
(* on current parameters, data and the settings active at the call).       *)
(*                                                                         *)
(* SEMANTIC machine: pv (parameter version), dv (training-data version);   *)
(* the denotation of a prediction is a function of (pv, dv, settings).     *)
(* CODE-SHAPED machine: every cache the code keeps, with a TAG recording   *)
(* what its content was computed from, filled / used / cleared exactly     *)
(* where the code fills / uses / clears it:                                *)
(*   owner "ps"     ExactGP.prediction_strategy (created on the first      *)
(*                  posterior call; entries mean_cache[policy],            *)
(*                  covar_cache in its _memoize_cache; clear_cache_hook    *)
(*                  registered on non-detached entries)                    *)
(*   owner "kern"   InducingPointKernel._cached_kernel_mat /               *)
(*                  _cached_kernel_inv_root, GridKernel._cached_kernel_mat *)
(*                  (used only when not self.training)                     *)
(*   owner "vs"     _VariationalStrategy._memoize_cache: prior_distribution*)
(*                  _memo, variational_distribution_memo, cholesky_factor  *)
(*                  (ignore_args: not keyed by the jitter setting),        *)
(*                  plus the flags variational_params_initialized and      *)
(*                  updated_strategy                                       *)
(* Invalidation sites (constants, so that a variant with a missing site    *)
(* can be checked to FAIL - the invariant is not vacuous):                 *)
(*   Module.train(mode)  -> _clear_cache() of every module, when mode or   *)
(*                          when leaving training                          *)
(*   _load_from_state_dict -> _clear_cache() of every module               *)
(*   set_train_data      -> prediction_strategy = None                     *)
(*   _VariationalStrategy.__call__ in training mode -> clears "vs"         *)
(*   backward through a non-detached cache -> clear_cache_hook(ps)         *)
(***************************************************************************)
EXTENDS Integers, Sequences, FiniteSets, TLC

CONSTANTS Family,        \* "exact" | "sgpr" | "kiss" | "svgp"
          MaxV,          \* bound on versions
          MaxLen,        \* bound on history length (generation)
          RecordHist,    \* BOOLEAN
          TrainClears,   \* owners cleared by Module.train          (current code: {"ps","kern","vs"})
          LoadClears,    \* owners cleared by load_state_dict       (current code: {"ps","kern","vs"})
          SetDataClears, \* owners cleared by set_train_data        (current code: {"ps"})
          KernGuard,     \* BOOLEAN: kernel caches are used only when not training (current code: TRUE)
          CholKeyedByJitter, \* BOOLEAN: cholesky_factor keyed by the jitter setting (current code: FALSE)
          ShapeGuard,    \* BOOLEAN: a cached cholesky_factor whose batch shape differs from the current call's is recomputed
                         \*          (current code: TRUE, `if L.shape != induc_induc_covar.shape`)
          LoadClearsOnlyTouched, \* BOOLEAN: load_state_dict clears only the owners whose sub-tree receives a key (current code: FALSE -
                         \*          torch calls _load_from_state_dict of EVERY module, with or without keys for it)
          XB             \* batch shapes of the TEST inputs in the alphabet: subset of {"flat", "b3", "b1"}

VARIABLES mode, pv, dv,
          ps,        \* <<>> or <<[tag, mean : SUBSET Policy, covar : BOOLEAN, hooked : BOOLEAN]>>
          kern,      \* <<>> or <<tag>>      (kernel-level attribute caches)
          vs,        \* [name -> tag] partial function as a set of <<name, tag>>
          initd, updated,
          served,    \* [got, want] for the cache entries the LAST prediction read: the tag found / the tag a fresh
                     \* computation would carry (empty if it computed everything)
          hist

vars == <<mode, pv, dv, ps, kern, vs, initd, updated, served, hist>>

Policy == {"ignore"}                  \* observation_nan_policy values in this machine (C16 extends it)
Jit    == {"d0", "big"}               \* variational_cholesky_jitter: default / enlarged
Exact  == Family \in {"exact", "sgpr", "kiss"}
HasKern == Family \in {"sgpr", "kiss"}
Var    == Family = "svgp"

\* xb: the test-input batch shape the content was computed for ("-" = independent of it)
Tag(j) == [pv |-> pv, dv |-> dv, jit |-> j, xb |-> "-"]
KTag   == [pv |-> pv, dv |-> -1, jit |-> "d0", xb |-> "-"]      \* kernel attribute caches do not depend on the training data
CholTag(s) == [Tag(s.jit) EXCEPT !.xb = s.xb]     \* K_ZZ is evaluated on the inducing points expanded to the batch shape of the test inputs
Cur(j) == Tag(j)

Init ==
  /\ mode = "eval"                    \* the history starts from a freshly constructed model put in eval mode
  /\ pv = 0 /\ dv = 0
  /\ ps = <<>> /\ kern = <<>> /\ vs = {}
  /\ initd = FALSE /\ updated = FALSE
  /\ served = {} /\ hist = <<>>

\* every history record also carries what a closing default prediction would find (strategy creation flag, jitter of
\* the cached cholesky factor)
Post == [pslazy |-> IF ps' = <<>> THEN "none" ELSE IF ps'[1].lazy THEN "T" ELSE "F",
         choljit |-> IF \E e \in vs' : e[1] = "chol" THEN (CHOOSE e \in vs' : e[1] = "chol")[2].jit ELSE "none"]
Rec(e) == IF RecordHist THEN hist' = Append(hist, e @@ Post) ELSE hist' = hist
Room   == RecordHist => Len(hist) < MaxLen

ClearOwners(S) ==
  /\ ps'   = IF "ps" \in S THEN <<>> ELSE ps
  /\ kern' = IF "kern" \in S THEN <<>> ELSE kern
  /\ vs'   = IF "vs" \in S THEN {} ELSE vs

\* ---- mode switches ---------------------------------------------------------------------------
Train ==
  /\ Room
  /\ mode' = "train"
  /\ ClearOwners(TrainClears)                        \* `if (self.training and not mode) or mode`
  /\ UNCHANGED <<pv, dv, initd, updated>> /\ served' = {}
  /\ Rec([a |-> "Train"])

Eval ==
  /\ Room
  /\ mode' = "eval"
  /\ IF mode = "train" THEN ClearOwners(TrainClears) ELSE UNCHANGED <<ps, kern, vs>>
  /\ UNCHANGED <<pv, dv, initd, updated>> /\ served' = {}
  /\ Rec([a |-> "Eval"])

\* ---- training-mode step: forward + backward + optimizer.step --------------------------------
\* exact families: the training forward uses no prediction cache; kernel caches are bypassed by the guard.
\* svgp: __call__ clears "vs" first, (maybe) initialises, refills the memo from the CURRENT parameters, then the
\* optimizer changes the parameters: the memo is stale until the next clear.
OptStep ==
  /\ Room /\ mode = "train" /\ pv < MaxV
  /\ pv' = pv + 1
  /\ IF Var THEN /\ vs' = {<<"prior", Tag("d0")>>, <<"vardist", Tag("d0")>>, <<"chol", [Tag("d0") EXCEPT !.xb = "flat"]>>}
                 /\ initd' = TRUE /\ updated' = TRUE
            ELSE UNCHANGED <<vs, initd, updated>>
  /\ kern' = IF HasKern /\ ~KernGuard THEN <<KTag>> ELSE kern     \* an unguarded kernel cache would be filled in training
  /\ UNCHANGED <<mode, dv, ps>> /\ served' = {}
  /\ Rec([a |-> "OptStep"])

\* ---- evaluation-mode prediction ---------------------------------------------------------------
\* s = [fpv, detach, jit, lazy]
\* The CLASS of the prediction strategy is chosen when it is created: the kernel's own strategy if the train-train
\* covariance is still a LazyEvaluatedKernelTensor (lazily_evaluate_kernels on), DefaultPredictionStrategy otherwise -
\* and it is kept for later calls whatever their settings.
PredictExact(s) ==
  LET created == ps = <<>>
      p0 == IF created THEN [tag |-> Tag("d0"), mean |-> {}, covar |-> FALSE, hooked |-> FALSE, lazy |-> s.lazy, cxb |-> "-"] ELSE ps[1]
      \* InterpolatedPredictionStrategy.covar_cache is computed from `_last_test_train_covar`: it takes the batch shape of
      \* the test inputs of the call that fills it (the other strategies' covar caches are test independent)
      cshape(x) == IF Family = "kiss" THEN x ELSE "-"
      kuse == HasKern /\ kern # <<>>
      k1 == IF HasKern THEN (IF kuse THEN kern ELSE <<KTag>>) ELSE kern
      usedMean  == "ignore" \in p0.mean
      usedCovar == s.fpv /\ p0.covar
      p1 == [p0 EXCEPT !.mean = @ \cup {"ignore"}, !.covar = @ \/ s.fpv, !.hooked = @ \/ ~s.detach,
                       !.cxb = IF s.fpv /\ ~p0.covar THEN cshape(s.xb) ELSE @]
  IN /\ ps' = <<p1>>
     /\ kern' = k1
     \* everything inside an existing strategy was computed from the strategy's creation state
     /\ served' = (IF ~created THEN {[got |-> p0.tag, want |-> Tag("d0"), clsok |-> (HasKern => p0.lazy = s.lazy)]} ELSE {})
                  \cup (IF kuse THEN {[got |-> kern[1], want |-> Tag("d0"), clsok |-> TRUE]} ELSE {})
                  \cup (IF usedCovar THEN {[got |-> [p0.tag EXCEPT !.xb = p0.cxb], want |-> [p0.tag EXCEPT !.xb = cshape(s.xb)], clsok |-> TRUE]} ELSE {})
     /\ UNCHANGED <<vs, initd, updated>>

PredictVar(s) ==
  LET have(n) == \E e \in vs : e[1] = n
      get(n)  == (CHOOSE e \in vs : e[1] = n)[2]
      cholHit == have("chol") /\ (CholKeyedByJitter => get("chol").jit = s.jit) /\ (ShapeGuard => get("chol").xb = s.xb)
      fill    == {<<"prior", Tag("d0")>>, <<"vardist", Tag("d0")>>, <<"chol", CholTag(s)>>}
      keep    == {e \in vs : e[1] # "chol" \/ cholHit}
      names   == {e[1] : e \in keep}
  IN /\ vs' = keep \cup {e \in fill : e[1] \notin names}
     /\ served' = {[got |-> e[2], want |-> IF e[1] = "chol" THEN CholTag(s) ELSE Tag("d0"), clsok |-> TRUE] : e \in keep}
     /\ initd' = TRUE /\ updated' = TRUE
     /\ UNCHANGED <<ps, kern>>

Predict(s) ==
  /\ Room /\ mode = "eval"
  /\ IF Var THEN PredictVar(s) ELSE PredictExact(s)
  /\ UNCHANGED <<mode, pv, dv>>
  /\ Rec([a |-> "Predict", fpv |-> s.fpv, detach |-> s.detach, jit |-> s.jit, lazy |-> s.lazy, xb |-> s.xb, pv |-> pv, dv |-> dv,
          stalejit |-> \E x \in served' : x.got.jit # x.want.jit,
          stalecls |-> \E x \in served' : ~x.clsok,
          stalexb |-> \E x \in served' : x.got.xb # x.want.xb])

\* prior-mode call in eval mode: no prediction strategy; kernel attribute caches are used / filled
PriorPredict ==
  /\ Room /\ mode = "eval" /\ Exact
  /\ kern' = IF HasKern /\ kern = <<>> THEN <<KTag>> ELSE kern
  /\ served' = IF HasKern /\ kern # <<>> THEN {[got |-> kern[1], want |-> Tag("d0"), clsok |-> TRUE]} ELSE {}
  /\ UNCHANGED <<mode, pv, dv, ps, vs, initd, updated>>
  /\ Rec([a |-> "PriorPredict", pv |-> pv, dv |-> dv])

\* ---- state-changing public operations -----------------------------------------------------------
\* set_train_data(inputs=, targets=): either argument may be omitted; every form changes the data and drops the strategy
SetTrainData(which) ==
  /\ Room /\ Exact /\ dv < MaxV
  /\ dv' = dv + 1
  /\ ClearOwners(SetDataClears)
  /\ UNCHANGED <<mode, pv, initd, updated>> /\ served' = {}
  /\ Rec([a |-> "SetTrainData", which |-> which])

\* load_state_dict(d, strict=False) with a partial dictionary is a load too: "hyper" = kernel and mean entries only,
\* "lik" = the likelihood's entries only (exact families: the likelihood is a sub-module).  Which owners have a key below them:
LoadParts == {"full", "hyper", "lik"}
Touched(part) == CASE part = "full"  -> {"ps", "kern", "vs"}
                   [] part = "hyper" -> {"ps", "kern"}          \* the model itself (prefix "") and the kernel; not the variational strategy
                   [] part = "lik"   -> {"ps"}
LoadStateDict(part) ==
  /\ Room /\ pv < MaxV /\ (part = "lik" => Exact)
  /\ pv' = pv + 1
  /\ ClearOwners(IF LoadClearsOnlyTouched THEN LoadClears \cap Touched(part) ELSE LoadClears)
  /\ initd' = TRUE /\ updated' = TRUE      \* the loaded state comes from an initialised model
  /\ UNCHANGED <<mode, dv>> /\ served' = {}
  /\ Rec([a |-> "LoadStateDict", part |-> part])

\* get_fantasy_model: needs a prediction strategy; by design leaves the source untouched (C04 checks that)
GetFantasy ==
  /\ Room /\ Family \in {"exact", "kiss"} /\ mode = "eval" /\ ps # <<>>       \* SGPR: documented as not supported
  /\ UNCHANGED <<mode, pv, dv, ps, kern, vs, initd, updated>> /\ served' = {}
  \* the new model is an object of its own: what it denotes is fixed here - the source's parameter version and data version of
  \* this moment plus the fantasy observations - whatever happens to the source afterwards (the machine statement, with the
  \* rejected variant "a fantasy follows its source", is HyperOwn of Fantasy.tla; the replay observes every fantasy model of a
  \* history once more at the end of the history and compares it with a model built from the values recorded here)
  /\ Rec([a |-> "GetFantasy", fpv |-> pv, fdv |-> dv])

\* loss.backward() through a prediction made with detach_test_caches(False): the hooks empty the strategy's memo
Backward ==
  /\ Room /\ Exact /\ mode = "eval" /\ ps # <<>> /\ ps[1].hooked
  \* (InterpolatedPredictionStrategy registers no clear_cache_hook on its caches: a backward pass leaves them in place)
  /\ ps' = IF Family = "kiss" THEN <<[ps[1] EXCEPT !.hooked = FALSE]>>
            ELSE <<[ps[1] EXCEPT !.mean = {}, !.covar = FALSE, !.hooked = FALSE, !.cxb = "-"]>>
  /\ UNCHANGED <<mode, pv, dv, kern, vs, initd, updated>> /\ served' = {}
  /\ Rec([a |-> "Backward"])

Settings == [fpv : BOOLEAN, detach : BOOLEAN, jit : IF Var THEN Jit ELSE {"d0"}, lazy : IF HasKern THEN BOOLEAN ELSE {TRUE}, xb : XB]

Next ==
  \/ Train \/ Eval \/ OptStep \/ PriorPredict \/ GetFantasy \/ Backward
  \/ \E part \in LoadParts : LoadStateDict(part)
  \/ \E w \in {"both", "targets", "inputs"} : SetTrainData(w)
  \/ \E s \in Settings : (Var => s.fpv = FALSE /\ s.detach = TRUE) /\ Predict(s)

Spec == Init /\ [][Next]_vars

\* ---- properties ------------------------------------------------------------------------------------
\* every cache entry a prediction reads was computed from the current parameters and data
\* (and, for entries that depend on it, the jitter setting active at the call)
NoStaleServe == \A x \in served : x.got.pv = pv /\ (x.got.dv = dv \/ x.got.dv = -1)

\* cached content must not depend on a setting whose value differs at the call
NoStaleSettings == \A x \in served : x.got.jit = x.want.jit /\ x.clsok

\* cached content computed for one batch shape of the test inputs is never served to a call with another
NoStaleShape == \A x \in served : x.got.xb = x.want.xb

\* in training mode no prediction strategy exists (so optimizer steps cannot make one stale)
NoStrategyWhileTraining == mode = "train" => ps = <<>>

TypeOK == pv \in 0..MaxV /\ dv \in 0..MaxV /\ Len(ps) <= 1 /\ Len(kern) <= 1
=============================================================================
