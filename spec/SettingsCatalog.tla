--------------------------- MODULE SettingsCatalog ---------------------------
(***************************************************************************)
(* The exported settings (gpytorch.settings.__all__ and                    *)
(* gpytorch.beta_features.__all__), the base-class kind of each (see       *)
(* Settings.tla) and the DOCUMENTED default of every field, transcribed    *)
(* from the class docstrings ("(Default: ...)") at the pinned commit.      *)
(* Values are strings; numbers are compared numerically by the harness.    *)
(* warns = "T": __enter__ emits a (deprecation) warning, which a caller may *)
(* have escalated to an exception.                                         *)
(* This table is the oracle for "outside all blocks each setting reports   *)
(* its documented default"; it is deliberately not derived from the code.  *)
(***************************************************************************)
EXTENDS Integers, Sequences, FiniteSets, TLC, Json, IOUtils

Catalog == <<
  [name |-> "_linalg_dtype_symeig", where |-> "settings", kind |-> "value", warns |-> "F", default |-> [v |-> "torch.float64"]],
  [name |-> "_linalg_dtype_cholesky", where |-> "settings", kind |-> "value", warns |-> "F", default |-> [v |-> "torch.float64"]],
  [name |-> "cg_tolerance", where |-> "settings", kind |-> "value", warns |-> "F", default |-> [v |-> "1"]],
  [name |-> "cholesky_jitter", where |-> "settings", kind |-> "dtypeLO", warns |-> "F", default |-> [f |-> "1e-06", d |-> "1e-08", h |-> "None"]],
  [name |-> "cholesky_max_tries", where |-> "settings", kind |-> "value", warns |-> "F", default |-> [v |-> "3"]],
  [name |-> "ciq_samples", where |-> "settings", kind |-> "flag", warns |-> "F", default |-> [state |-> "F"]],
  [name |-> "debug", where |-> "settings", kind |-> "flag", warns |-> "F", default |-> [state |-> "T"]],
  [name |-> "detach_test_caches", where |-> "settings", kind |-> "flag", warns |-> "F", default |-> [state |-> "T"]],
  [name |-> "deterministic_probes", where |-> "settings", kind |-> "flag", warns |-> "F", default |-> [state |-> "F"]],
  [name |-> "eval_cg_tolerance", where |-> "settings", kind |-> "value", warns |-> "F", default |-> [v |-> "0.01"]],
  [name |-> "fast_computations", where |-> "settings", kind |-> "fc", warns |-> "F", default |-> [root |-> "T", logprob |-> "T", solves |-> "T"]],
  [name |-> "fast_pred_var", where |-> "settings", kind |-> "fpv", warns |-> "F", default |-> [state |-> "F", probes |-> "1"]],
  [name |-> "fast_pred_samples", where |-> "settings", kind |-> "flag", warns |-> "F", default |-> [state |-> "F"]],
  [name |-> "lazily_evaluate_kernels", where |-> "settings", kind |-> "flag", warns |-> "F", default |-> [state |-> "T"]],
  [name |-> "linalg_dtypes", where |-> "settings", kind |-> "ld", warns |-> "F", default |-> [symeig |-> "torch.float64", chol |-> "torch.float64"]],
  [name |-> "max_eager_kernel_size", where |-> "settings", kind |-> "value", warns |-> "F", default |-> [v |-> "512"]],
  [name |-> "max_cholesky_size", where |-> "settings", kind |-> "value", warns |-> "F", default |-> [v |-> "800"]],
  [name |-> "max_cg_iterations", where |-> "settings", kind |-> "value", warns |-> "F", default |-> [v |-> "1000"]],
  [name |-> "max_lanczos_quadrature_iterations", where |-> "settings", kind |-> "value", warns |-> "F", default |-> [v |-> "20"]],
  [name |-> "max_preconditioner_size", where |-> "settings", kind |-> "value", warns |-> "F", default |-> [v |-> "15"]],
  [name |-> "max_root_decomposition_size", where |-> "settings", kind |-> "value", warns |-> "F", default |-> [v |-> "100"]],
  [name |-> "memory_efficient", where |-> "settings", kind |-> "flag", warns |-> "F", default |-> [state |-> "F"]],
  [name |-> "min_preconditioning_size", where |-> "settings", kind |-> "value", warns |-> "F", default |-> [v |-> "2000"]],
  [name |-> "min_variance", where |-> "settings", kind |-> "dtypeGP", warns |-> "F", default |-> [f |-> "1e-06", d |-> "1e-10", h |-> "0.001"]],
  [name |-> "minres_tolerance", where |-> "settings", kind |-> "value", warns |-> "F", default |-> [v |-> "0.0001"]],
  [name |-> "num_contour_quadrature", where |-> "settings", kind |-> "value", warns |-> "F", default |-> [v |-> "15"]],
  [name |-> "num_gauss_hermite_locs", where |-> "settings", kind |-> "value", warns |-> "F", default |-> [v |-> "20"]],
  [name |-> "num_likelihood_samples", where |-> "settings", kind |-> "value", warns |-> "F", default |-> [v |-> "10"]],
  [name |-> "num_trace_samples", where |-> "settings", kind |-> "value", warns |-> "F", default |-> [v |-> "10"]],
  [name |-> "observation_nan_policy", where |-> "settings", kind |-> "value", warns |-> "F", default |-> [v |-> "ignore"]],
  [name |-> "preconditioner_tolerance", where |-> "settings", kind |-> "value", warns |-> "F", default |-> [v |-> "0.001"]],
  [name |-> "prior_mode", where |-> "settings", kind |-> "flag", warns |-> "F", default |-> [state |-> "F"]],
  [name |-> "sgpr_diagonal_correction", where |-> "settings", kind |-> "flag", warns |-> "F", default |-> [state |-> "T"]],
  [name |-> "skip_logdet_forward", where |-> "settings", kind |-> "flag", warns |-> "F", default |-> [state |-> "F"]],
  [name |-> "skip_posterior_variances", where |-> "settings", kind |-> "flag", warns |-> "F", default |-> [state |-> "F"]],
  [name |-> "terminate_cg_by_size", where |-> "settings", kind |-> "flag", warns |-> "F", default |-> [state |-> "F"]],
  [name |-> "trace_mode", where |-> "settings", kind |-> "flag", warns |-> "F", default |-> [state |-> "F"]],
  [name |-> "tridiagonal_jitter", where |-> "settings", kind |-> "value", warns |-> "F", default |-> [v |-> "1e-06"]],
  [name |-> "use_keops", where |-> "settings", kind |-> "flag", warns |-> "F", default |-> [state |-> "T"]],
  [name |-> "use_toeplitz", where |-> "settings", kind |-> "flag", warns |-> "F", default |-> [state |-> "T"]],
  [name |-> "variational_cholesky_jitter", where |-> "settings", kind |-> "dtypeGP", warns |-> "F", default |-> [f |-> "0.0001", d |-> "1e-06", h |-> "None"]],
  [name |-> "verbose_linalg", where |-> "settings", kind |-> "flag", warns |-> "F", default |-> [state |-> "F"]],
  [name |-> "checkpoint_kernel", where |-> "beta_features", kind |-> "value", warns |-> "T", default |-> [v |-> "0"]],
  [name |-> "default_preconditioner", where |-> "beta_features", kind |-> "flag", warns |-> "F", default |-> [state |-> "F"]]
>>

Kinds == {"flag", "value", "dtypeGP", "dtypeLO", "fpv", "fc", "ld"}
FieldsOfKind(k) ==
  CASE k = "flag"    -> {"state"}
    [] k = "value"   -> {"v"}
    [] k = "dtypeGP" -> {"f", "d", "h"}
    [] k = "dtypeLO" -> {"f", "d", "h"}
    [] k = "fpv"     -> {"state", "probes"}
    [] k = "fc"      -> {"root", "logprob", "solves"}
    [] k = "ld"      -> {"symeig", "chol"}

WellFormed ==
  /\ \A i \in 1..Len(Catalog) :
        /\ Catalog[i].kind \in Kinds
        /\ DOMAIN Catalog[i].default = FieldsOfKind(Catalog[i].kind)
        /\ Catalog[i].kind = "flag" => Catalog[i].default.state \in {"T", "F"}
  /\ \A i, j \in 1..Len(Catalog) : i # j => Catalog[i].name # Catalog[j].name

ASSUME WellFormed
ASSUME JsonSerialize(IOEnv.CATALOG_OUT, Catalog)

VARIABLE i
Init == i = 1
Next == i < Len(Catalog) /\ i' = i + 1
=============================================================================
