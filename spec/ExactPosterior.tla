--------------------------- MODULE ExactPosterior ---------------------------
(***************************************************************************)
(* Exact GP prediction (property C01).                                     *)
(*                                                                         *)
(* Part "lattice": the prediction-relevant settings and the computational  *)
(* path each combination selects, transcribed from ExactGP.__call__,       *)
(* DefaultPredictionStrategy.exact_prediction / exact_predictive_covar and *)
(* linear_operator's solve / root dispatch:                                *)
(*   lazy     lazily_evaluate_kernels                                      *)
(*   eager    joint size <= max_eager_kernel_size  (dense slicing of the   *)
(*            joint covariance vs lazy indexing)                           *)
(*   chol     solves by Cholesky: size <= max_cholesky_size or             *)
(*            fast_computations(solves = False); otherwise CG              *)
(*   fpv      fast_pred_var: covariance through the cached root of         *)
(*            (Kxx + S)^-1 instead of a direct solve                       *)
(*   cholroot the cached root by Cholesky (fast_computations(              *)
(*            covar_root_decomposition = False) or small) vs Lanczos       *)
(*   detach   detach_test_caches                                           *)
(*   skipvar  skip_posterior_variances: zero covariance                    *)
(* The DENOTATION of the output does not depend on the path: it is the     *)
(* Gaussian conditional (LinAlg.tla CondMean / CondCov), except that       *)
(* skipvar replaces the covariance by zero.  TLC enumerates every cell and *)
(* hands it to the replay with the path it predicts.                       *)
(*                                                                         *)
(* Part "algebra": exact rational instances.  Every path FORMULA the code  *)
(* evaluates equals the conditional:                                       *)
(*   joint prior on [train; test] split at num_train,                      *)
(*   mean_cache = A^-1 (y - mx), mean = ms + Ksx mean_cache,               *)
(*   direct:     Kss - Ksx (A^-1 Kxs)            (addmm form)              *)
(*   root cache: Kss - (Ksx R)(Ksx R)^T  with R R^T = A^-1, R = L^-T for   *)
(*               A = L L^T,                                                *)
(*   likelihood(posterior) = posterior + S_test exactly once.              *)
(***************************************************************************)
EXTENDS LinAlg, TLC

CONSTANTS Part, Instances

VARIABLES c, out     \* out: the exact expectation handed to the replay ("lin" instances)
vars == <<c, out>>

\* ============================== lattice =========================================================
Cells == [lazy : BOOLEAN, eager : BOOLEAN, chol : BOOLEAN, fpv : BOOLEAN, cholroot : BOOLEAN, detach : BOOLEAN, skipvar : BOOLEAN]

PathOf(s) ==
  [split |-> IF s.eager THEN "dense-slices" ELSE "lazy-slices",
   kernel |-> IF s.lazy THEN "lazy" ELSE "evaluated",
   solve |-> IF s.chol THEN "cholesky" ELSE "cg",
   covar |-> IF s.skipvar THEN "zero" ELSE IF s.fpv THEN (IF s.cholroot THEN "root-cache-cholesky" ELSE "root-cache-lanczos") ELSE "direct-solve",
   caches |-> IF s.detach THEN "detached" ELSE "attached"]

\* what the cell must return, in terms of the denotation
MeaningOf(s) == [mean |-> "conditional-mean", cov |-> IF s.skipvar THEN "zero" ELSE "conditional-covariance"]

\* cells whose covariance path is irrelevant collapse to the same path (no spurious distinctions)
LatticeOK == Part = "lattice" => (c.skipvar => PathOf(c).covar = "zero") /\ (~c.skipvar => PathOf(c).covar # "zero")

\* ============================== algebra =========================================================
\* instance kinds:
\*  "lin"  : X (n x 2 integer), Xs (ns x 2 integer), mean constant mc, noise s2, targets y: K = [X;Xs][X;Xs]^T (linear kernel)
\*  "root" : L (n x n integer lower triangular, positive diagonal): A = L L^T; Ksx (ns x n integer), Kss = Ksx A^-1 Kxs + I
NTrain(i) == IF i.kind = "lin" THEN Len(i.X) ELSE Len(i.L)
Joint(i) == LET Z == FromInt(i.X \o i.Xs) IN MMul(Z, Tr(Z))                         \* prior covariance of [train; test]
Noise(i) == MScale(R(i.s2), Ident(NTrain(i)))

A(i)   == IF i.kind = "lin" THEN MAdd(Block(Joint(i), 1, NTrain(i), 1, NTrain(i)), Noise(i))
          ELSE LET L == FromInt(i.L) IN MMul(L, Tr(L))
Ksx(i) == IF i.kind = "lin" THEN Block(Joint(i), NTrain(i) + 1, NTrain(i) + Len(i.Xs), 1, NTrain(i)) ELSE FromInt(i.Ksx)
Kss(i) == IF i.kind = "lin" THEN Block(Joint(i), NTrain(i) + 1, NTrain(i) + Len(i.Xs), NTrain(i) + 1, NTrain(i) + Len(i.Xs))
          ELSE LET C == FromInt(i.Ksx) L == FromInt(i.L)          \* a valid joint prior: Kss = Ksx A^-1 Kxs + I
               IN MAdd(MMul(C, MMul(Inv(MMul(L, Tr(L))), Tr(C))), Ident(Len(i.Ksx)))
Mx(i)  == [k \in 1..NTrain(i) |-> R(i.mc)]
Ms(i)  == [k \in 1..Rows(Ksx(i)) |-> R(i.mc)]
Y(i)   == VFromInt(i.y)

\* the denotation
PostMean(i) == CondMean(Ms(i), Ksx(i), A(i), Y(i), Mx(i))
PostCov(i)  == CondCov(Kss(i), Ksx(i), A(i))

\* code-shaped path formulas
MeanCache(i)   == Solve(A(i), VSub(Y(i), Mx(i)))
PathMean(i)    == VAdd(MVec(Ksx(i), MeanCache(i)), Ms(i))
PathCovDirect(i) == MSub(Kss(i), MMul(Ksx(i), MMul(Inv(A(i)), Tr(Ksx(i)))))        \* covar_correction_rhs = A^-1 Kx*
\* root cache: R = L^-T so that R R^T = (L L^T)^-1
RootInv(i)     == Tr(Inv(FromInt(i.L)))
PathCovRoot(i) == LET Q == MMul(Ksx(i), RootInv(i)) IN MSub(Kss(i), MMul(Q, Tr(Q)))
\* passing the posterior through the likelihood at the test points
Marginal(i)    == MAdd(PostCov(i), MScale(R(i.s2), Ident(Rows(Ksx(i)))))

AlgebraOK ==
  Part = "algebra" =>
    /\ IsPD(A(c))
    /\ PathMean(c) = PostMean(c)
    /\ PathCovDirect(c) = PostCov(c)
    /\ (c.kind = "root" => MMul(RootInv(c), Tr(RootInv(c))) = Inv(A(c)) /\ PathCovRoot(c) = PostCov(c))
    /\ IsPSD(PostCov(c))
    /\ IsPSD(MSub(Kss(c), PostCov(c)))                     \* conditioning never adds uncertainty

\* for the replay of "lin" instances: exact posterior mean / covariance / marginal covariance
Expected(i) == [mean |-> PostMean(i), cov |-> PostCov(i), marg |-> Marginal(i)]

Init == /\ IF Part = "lattice" THEN c \in Cells ELSE c \in Instances
        /\ out = IF Part = "algebra" /\ c.kind = "lin" THEN Expected(c) ELSE IF Part = "lattice" THEN PathOf(c) ELSE <<>>
Next == UNCHANGED vars
Spec == Init /\ [][Next]_vars
=============================================================================
