--------------------------- MODULE ExactPosterior ---------------------------
(***************************************************************************)
(* Exact GP prediction (property C01).                                     *)
(*                                                                         *)
(* Part "lattice": the prediction-relevant settings and the computational  *)
(* path each combination selects, transcribed from ExactGP.__call__,       *)
(* DefaultPredictionStrategy.exact_prediction / exact_predictive_covar and *)
(* linear_operator's solve / root dispatch:                                *)
(*   lazy     lazily_evaluate_kernels                                      *)
(*   eager    joint size <= max_eager_kernel_size  (dense slicing of the   *)
(*            joint covariance vs lazy indexing)                           *)
(*   chol     solves by Cholesky: size <= max_cholesky_size or             *)
(*            fast_computations(solves = False); otherwise CG              *)
(*   fpv      fast_pred_var: covariance through the cached root of         *)
(*            (Kxx + S)^-1 instead of a direct solve                       *)
(*   cholroot the cached root by Cholesky (fast_computations(              *)
(*            covar_root_decomposition = False) or small) vs Lanczos       *)
(*   detach   detach_test_caches                                           *)
(*   skipvar  skip_posterior_variances: zero covariance                    *)
(*   sw       one of the global switches that select NO algorithm and      *)
(*            promise no change of accuracy (Switches below: debug off,    *)
(*            memory_efficient, trace_mode, fast_pred_samples,             *)
(*            verbose_linalg, deterministic_probes, skip_logdet_forward,   *)
(*            use_toeplitz off) or "none": path and meaning do not depend  *)
(*            on it (SwitchIrrelevant), so every cell is replayed under    *)
(*            some of them and must return the same conditional.           *)
(* Every replayed cell makes TWO predictions on the same model (different  *)
(* test inputs): the denotation does not depend on what was asked before.  *)
(* The DENOTATION of the output does not depend on the path: it is the     *)
(* Gaussian conditional (LinAlg.tla CondMean / CondCov), except that       *)
(* skipvar replaces the covariance by zero.  TLC enumerates every cell and *)
(* hands it to the replay with the path it predicts.                       *)
(*                                                                         *)
(* Part "algebra": exact rational instances.  Every path FORMULA the code  *)
(* evaluates equals the conditional:                                       *)
(*   joint prior on [train; test] split at num_train,                      *)
(*   mean_cache = A^-1 (y - mx), mean = ms + Ksx mean_cache,               *)
(*   direct:     Kss - Ksx (A^-1 Kxs)            (addmm form)              *)
(*   root cache: Kss - (Ksx R)(Ksx R)^T  with R R^T = A^-1, R = L^-T for   *)
(*               A = L L^T,                                                *)
(*   likelihood(posterior) = posterior + S_test exactly once, S_test the   *)
(*   documented observation noise of the instance's noise cell (below).    *)
(*                                                                         *)
(* Part "noise": WHAT "the observation noise" is.  Cells = Gaussian-family *)
(* likelihood kind (homoskedastic / fixed per-point / fixed + learned      *)
(* additional homoskedastic / multitask) x how the noise of the points is  *)
(* supplied (not at all / call-time noise = t) x number of points handed   *)
(* to the likelihood (the training size - the stored per-point noise       *)
(* matches - or another one).  DocNoise gives the documented noise of each *)
(* cell as a set of terms, each added exactly once; the same table at      *)
(* (none, train) is the S the posterior is conditioned with.  NoiseOK: the *)
(* transcription of _shaped_noise_covar / the noise models adds exactly    *)
(* these terms (variants where the learned part sees the call-time noise   *)
(* or is skipped when one is given must be rejected by TLC); passing the   *)
(* stored noise explicitly at training size is S itself; the learned part  *)
(* is in EVERY cell of its kind.  The rational "lin" instances carry a     *)
(* noise cell (lk, tr, te) and their exact S / S_test are evaluated from   *)
(* DocNoise; the seeded replays (L2, L4) build S_test by hand from it.     *)
(*                                                                         *)
(* Part "knobs": the NUMERICAL-accuracy settings.  The lattice above fixes *)
(* WHICH algorithm runs; the knobs fix HOW ACCURATELY an iterative one     *)
(* runs.  Each knob has its default and its documented test-time values;   *)
(* a cell leaves every knob at its default except at most MaxOff of them   *)
(* ("tightened alone", and pairs), crossed with every path selector.  For  *)
(* each cell the spec derives the precision the documentation promises for *)
(* the mean and for the covariance (exact / CG residual 10^e / full-rank   *)
(* Lanczos / nothing); the replay sets exactly the settings of the cell on *)
(* a model with enough training points that a loose tolerance is visible,  *)
(* and compares with the dense conditional at a tolerance derived from     *)
(* that precision.  A knob that is silently not honoured (for instance     *)
(* eval_cg_tolerance being overridden by the ambient cg_tolerance) shows   *)
(* as an accuracy failure of the cells that tighten it alone.              *)
(*                                                                         *)
(* Part "history": a model is asked several times, under changing          *)
(* switches.  The state that survives a prediction is the kernel OBJECT    *)
(* (its active_dims field is cleared and restored around every evaluation  *)
(* of a lazily evaluated kernel tensor), the lazily evaluated tensors      *)
(* (input columns fixed at creation, call-time keyword arguments carried   *)
(* along through slicing) and the cached train-train block.  The machine   *)
(* below transcribes Kernel.__call__, LazyEvaluatedKernelTensor            *)
(* (_getitem, evaluate_kernel), ExactGP.__call__ and                       *)
(* HeteroskedasticNoise.forward (which predicts with its noise model under *)
(* debug(False)).  Property OnePrior: in EVERY prediction of EVERY history *)
(* the three blocks Kxx (cached), Kx*, K** are the model's declared prior: *)
(* the columns its kernel was constructed with and the keywords its        *)
(* forward passes, conditioned on the model's CURRENT training data        *)
(* (set_train_data between predictions) and its CURRENT hyperparameters    *)
(* (load_state_dict between predictions).  Deliberately broken variants    *)
(* (restore only under debug; slicing drops the keywords; a targets-only   *)
(* set_train_data / a load_state_dict keeps the strategy) must be rejected *)
(* by TLC.  The replay                                                     *)
(* walks each history through real models of the class (active_dims on the *)
(* top-level kernel / only on parts of a sum or product / nowhere; a       *)
(* keyword-consuming kernel and mean; kernel of the model or of the noise  *)
(* model of a HeteroskedasticNoise likelihood) and compares EVERY          *)
(* prediction with the conditional written out by hand.                    *)
(***************************************************************************)
EXTENDS LinAlg, TLC

CONSTANTS Part, Instances, MaxOff,
          HistLen, HistKw, HistSites,        \* part "history": length bound and the slice of the model lattice of this run
          RestoreAlways, SliceKeepsParams,   \* TRUE = the current code; FALSE = deliberately broken variants
          SetDataClears,                     \* which set_train_data / load_state_dict steps drop the prediction strategy (current code: all)
          SecondNoise                        \* part "noise": how the learned additional noise treats a call-time noise ("filtered" = the current code)

VARIABLES c, out     \* out: the exact expectation handed to the replay ("lin" instances)
vars == <<c, out>>

\* ============================== lattice =========================================================
\* global switches that are not about numerics and select no algorithm of the posterior
\*   debug-off             settings.debug(False): input / shape checks skipped
\*   memory-efficient      settings.memory_efficient(True) (gpytorch's and linear_operator's flag)
\*   trace-mode            settings.trace_mode(True): kernels computed without custom autograd functions
\*   fast-pred-samples     settings.fast_pred_samples(True): sampling only (and the interpolated strategy)
\*   verbose-linalg        settings.verbose_linalg(True): logging
\*   deterministic-probes  settings.deterministic_probes(True), skip-logdet-forward  settings.skip_logdet_forward(True): log-determinants only, none at eval
\*   no-toeplitz           settings.use_toeplitz(False): grid kernels only
Switches == {"debug-off", "memory-efficient", "trace-mode", "fast-pred-samples", "verbose-linalg", "deterministic-probes", "skip-logdet-forward", "no-toeplitz"}
SwitchChoice == Switches \cup {"none"}

Cells == [lazy : BOOLEAN, eager : BOOLEAN, chol : BOOLEAN, fpv : BOOLEAN, cholroot : BOOLEAN, detach : BOOLEAN, skipvar : BOOLEAN, sw : SwitchChoice]

PathOf(s) ==
  [split |-> IF s.eager THEN "dense-slices" ELSE "lazy-slices",
   kernel |-> IF s.lazy THEN "lazy" ELSE "evaluated",
   solve |-> IF s.chol THEN "cholesky" ELSE "cg",
   covar |-> IF s.skipvar THEN "zero" ELSE IF s.fpv THEN (IF s.cholroot THEN "root-cache-cholesky" ELSE "root-cache-lanczos") ELSE "direct-solve",
   caches |-> IF s.detach THEN "detached" ELSE "attached"]

\* what the cell must return, in terms of the denotation
MeaningOf(s) == [mean |-> "conditional-mean", cov |-> IF s.skipvar THEN "zero" ELSE "conditional-covariance"]

\* cells whose covariance path is irrelevant collapse to the same path (no spurious distinctions)
\* a switch selects nothing: same path, same meaning
SwitchIrrelevant(s) == \A w \in SwitchChoice : PathOf([s EXCEPT !.sw = w]) = PathOf(s) /\ MeaningOf([s EXCEPT !.sw = w]) = MeaningOf(s)
LatticeOK == Part = "lattice" => (c.skipvar => PathOf(c).covar = "zero") /\ (~c.skipvar => PathOf(c).covar # "zero") /\ SwitchIrrelevant(c)

\* ============================== knobs ===========================================================
\* path selectors (full product):
\*   nclass   training size n against the two size defaults: n <= 100 = default max_root_decomposition_size,
\*            100 < n <= 800 = default max_cholesky_size, n > 800 (CG / Lanczos selected by size alone)
\*   mcs      max_cholesky_size: untouched, 0, n-1, n            (Cholesky iff n <= max_cholesky_size)
\*   solves / rootfast   fast_computations(solves=, covar_root_decomposition=)  (FALSE: Cholesky regardless of size)
\*   fpv      fast_pred_var
Selectors == [nclass : {"le100", "gt100", "gt800"}, mcs : {"default", "zero", "below", "equal"}, solves : BOOLEAN, rootfast : BOOLEAN, fpv : BOOLEAN]

\* accuracy knobs: default first
\*   evaltol  eval_cg_tolerance = 10^e (default 1e-2): "relative residual tolerance for terminating CG when making predictions"
\*   cgtol    cg_tolerance = 10^e (default 1): the TRAINING-time tolerance; ExactGP.__call__ replaces it by eval_cg_tolerance
\*            around exact_prediction, where every solve of the posterior happens (the caches are computed lazily there)
\*   maxiter  max_cg_iterations: 1000 / raised (4000) / lowered (25 < n: CG is cut short, nothing is promised)
\*   precond  preconditioner of CG: untouched (size 15 but inactive below min_preconditioning_size = 2000), off (size 0),
\*            active with size 5 / 15 (min_preconditioning_size lowered to 0).  A preconditioner accelerates, it never changes the answer
\*   rootsize max_root_decomposition_size (Lanczos rank of fast_pred_var's root): 100 / n / 2n / n/2
\*   probes   fast_pred_var(num_probe_vectors): read by the interpolated (KISS) strategy only
\*   trace    num_trace_samples, lq  max_lanczos_quadrature_iterations: log-determinant estimation only, never at eval
KnobDom == [evaltol |-> {-2, -3, -4, -6}, cgtol |-> {0, -6, 2}, maxiter |-> {"default", "raised", "lowered"},
            precond |-> {"default", "off", "active-small", "active-default"}, rootsize |-> {"default", "n", "twice", "half"},
            probes |-> {1, 3}, trace |-> {"default", "one"}, lq |-> {"default", "raised"}]
KnobSpace == [evaltol : KnobDom.evaltol, cgtol : KnobDom.cgtol, maxiter : KnobDom.maxiter, precond : KnobDom.precond,
              rootsize : KnobDom.rootsize, probes : KnobDom.probes, trace : KnobDom.trace, lq : KnobDom.lq]
KnobDefault == [evaltol |-> -2, cgtol |-> 0, maxiter |-> "default", precond |-> "default", rootsize |-> "default",
                probes |-> 1, trace |-> "default", lq |-> "default"]
KnobNames == DOMAIN KnobDefault
OffDefault(k) == {f \in KnobNames : k[f] # KnobDefault[f]}
\* linear_cg rejects (RuntimeError, by design) a tridiagonalisation bound above the iteration bound: with max_cg_iterations lowered to 25
\* the quadrature bound cannot be raised to 50.  Such a combination is a usage error, not a cell
Consistent(k) == ~(k.maxiter = "lowered" /\ k.lq = "raised")
KnobCells == {s @@ k : s \in Selectors, k \in {kk \in KnobSpace : Cardinality(OffDefault(kk)) <= MaxOff /\ Consistent(kk)}}

\* which algorithm: linear_operator's _solve / _choose_root_method
BySize(s)  == s.mcs = "equal" \/ (s.mcs = "default" /\ s.nclass # "gt800")              \* n <= max_cholesky_size
SolveBy(s) == IF ~s.solves \/ BySize(s) THEN "cholesky" ELSE "cg"
RootBy(s)  == IF ~s.rootfast \/ BySize(s) THEN "cholesky" ELSE "lanczos"

\* the precision the documentation promises.  The effective CG tolerance of a prediction is eval_cg_tolerance - NOT cg_tolerance
CGPrec(s)   == IF s.maxiter = "lowered" THEN <<"none">> ELSE <<"residual", s.evaltol>>
MeanPrec(s) == IF SolveBy(s) = "cholesky" THEN <<"exact">> ELSE CGPrec(s)
\* Lanczos is an exact algorithm at rank >= n as long as its re-orthogonalisation succeeds; linear_operator's lanczos_tridiag stops early
\* (beta <= 1e-6, or ten re-orthogonalisation passes fail) for some random probes - rarely at n <= 132 (the replay redraws the probe), but
\* often enough at n ~ 800 (rank 803 of 804 and a covariance error of 1e-3 for 2 probes in 8 on a fixed-noise model) that nothing is promised there
FullRank(s) == s.nclass # "gt800" /\ (s.rootsize \in {"n", "twice"} \/ (s.rootsize = "default" /\ s.nclass = "le100"))
CovPrec(s)  == IF s.fpv THEN (IF RootBy(s) = "cholesky" THEN <<"exact">> ELSE IF FullRank(s) THEN <<"fullrank">> ELSE <<"none">>)
               ELSE MeanPrec(s)                                     \* direct solve (Kxx+S)^-1 Kx* under the same tolerance as the mean
Promise(s)  == [solve |-> SolveBy(s), root |-> RootBy(s), mean |-> MeanPrec(s), cov |-> CovPrec(s)]

PrecRank(p) == IF p[1] = "none" THEN 0 ELSE IF p[1] = "residual" THEN 0 - p[2] ELSE 100
With(s, f, v) == [s EXCEPT ![f] = v]

KnobsOK ==
  Part = "knobs" =>
    \* knobs that are not prediction-accuracy knobs do not enter the promise: in particular the ambient cg_tolerance, tight or loose
    /\ \A f \in {"cgtol", "probes", "trace", "lq", "precond"} : \A v \in KnobDom[f] : Consistent(With(c, f, v)) => Promise(With(c, f, v)) = Promise(c)
    \* a direct algorithm is exact whatever the iterative knobs say
    /\ (SolveBy(c) = "cholesky" => MeanPrec(c) = <<"exact">>) /\ (c.fpv /\ RootBy(c) = "cholesky" => CovPrec(c) = <<"exact">>)
    \* tightening the documented knob ALONE is enough and is monotone
    /\ \A e \in KnobDom.evaltol :
          /\ (SolveBy(c) = "cg" /\ c.maxiter # "lowered" => MeanPrec(With(c, "evaltol", e)) = <<"residual", e>>)
          /\ (e <= c.evaltol => PrecRank(MeanPrec(With(c, "evaltol", e))) >= PrecRank(MeanPrec(c)) /\ PrecRank(CovPrec(With(c, "evaltol", e))) >= PrecRank(CovPrec(c)))
    \* the rank knob governs the Lanczos root only; without fast_pred_var the covariance shares the mean's solve
    /\ (~(c.fpv /\ RootBy(c) = "lanczos") => \A v \in KnobDom.rootsize : Promise(With(c, "rootsize", v)) = Promise(c))
    /\ (~c.fpv => CovPrec(c) = MeanPrec(c))
    \* everything at its default on a model below both size defaults is the direct algorithm
    /\ (c.mcs = "default" /\ c.nclass # "gt800" => MeanPrec(c) = <<"exact">> /\ CovPrec(c) = <<"exact">>)
    /\ out = Promise(c)

\* ============================== observation noise ===============================================
\* kind    GaussianLikelihood / FixedNoiseGaussianLikelihood(noise) / FixedNoiseGaussianLikelihood(noise, learn_additional_noise = True) /
\*         MultitaskGaussianLikelihood (task noise covariance Sigma_T = task part + global sigma2 I_T)
\* supply  likelihood(dist) / likelihood(dist, noise = t) with t one value per point of dist
\* size    the number of points of dist: "train" = as many as the stored per-point noise (= training points), "test" = any other number
LikKinds == {"homoskedastic", "fixed", "fixed-learned", "multitask"}
NoiseCells == [kind : LikKinds, supply : {"none", "call"}, size : {"train", "test"}]
NoiseTerms == {"sigma2*I", "diag(t)", "diag(stored)", "second*I", "I(x)Sigma_T"}
\* the documented observation noise of a cell: the sum of these terms, each exactly once
\*   homoskedastic: sigma2 I; a call-time noise "is used directly" (HomoskedasticNoise.forward)
\*   fixed:         "noise = t adds a specified amount of noise"; without it the stored noise when the sizes match, otherwise nothing (warned no-op)
\*   learned:       "additionally ... learn added diagonal noise, similar to GaussianLikelihood": second_noise I on top, whatever the per-point part is
\*   multitask:     I_n (x) Sigma_T; a call-time noise is no argument of this likelihood and does not enter
DocNoise(s) ==
  IF s.kind = "homoskedastic" THEN (IF s.supply = "call" THEN {"diag(t)"} ELSE {"sigma2*I"})
  ELSE IF s.kind = "multitask" THEN {"I(x)Sigma_T"}
  ELSE (IF s.supply = "call" THEN {"diag(t)"} ELSE IF s.size = "train" THEN {"diag(stored)"} ELSE {})
       \cup (IF s.kind = "fixed-learned" THEN {"second*I"} ELSE {})
\* the S a model is conditioned with: ExactGP passes the training prior through the likelihood without a call-time noise
TrainNoise(kind) == DocNoise([kind |-> kind, supply |-> "none", size |-> "train"])

\* code-shaped: _GaussianLikelihoodBase.marginal adds _shaped_noise_covar = noise_covar(...) [+ second_noise_covar(...)], as bags of terms
BagOf(S) == [x \in NoiseTerms |-> IF x \in S THEN 1 ELSE 0]
BagSum(a, b) == [x \in NoiseTerms |-> a[x] + b[x]]
HomoskedasticFwd(term, seesnoise) == IF seesnoise THEN BagOf({"diag(t)"}) ELSE BagOf({term})       \* "if a noise kwarg is provided, this noise is used directly"
FixedFwd(s) == IF s.supply = "call" THEN BagOf({"diag(t)"}) ELSE IF s.size = "train" THEN BagOf({"diag(stored)"}) ELSE BagOf({})
CodeNoise(s) ==
  IF s.kind = "homoskedastic" THEN HomoskedasticFwd("sigma2*I", s.supply = "call")
  ELSE IF s.kind = "multitask" THEN BagOf({"I(x)Sigma_T"})                                           \* marginal() drops **kwargs
  ELSE IF s.kind = "fixed" THEN FixedFwd(s)
  ELSE IF SecondNoise = "early-return" /\ s.supply = "call" THEN FixedFwd(s)
  ELSE BagSum(FixedFwd(s), HomoskedasticFwd("second*I", SecondNoise = "sees-noise" /\ s.supply = "call"))

NoiseOK ==
  Part = "noise" =>
    /\ CodeNoise(c) = BagOf(DocNoise(c))                                   \* exactly the documented terms, each exactly once
    /\ ("second*I" \in DocNoise(c) <=> c.kind = "fixed-learned")           \* the learned part belongs to every cell of its kind and to no other
    \* handing the stored noise over explicitly (t = stored, training size) is the S of the conditioning
    /\ (c.kind \in {"fixed", "fixed-learned"} =>
          {IF x = "diag(t)" THEN "diag(stored)" ELSE x : x \in DocNoise([c EXCEPT !.supply = "call", !.size = "train"])} = TrainNoise(c.kind))
    /\ (c.supply = "none" /\ c.size = "train" => DocNoise(c) = TrainNoise(c.kind))
    /\ TrainNoise(c.kind) # {}                                             \* every kind has a proper (positive definite) conditioning noise
    /\ out = DocNoise(c)

\* ============================== algebra =========================================================
\* instance kinds:
\*  "lin"  : X (n x 2 integer), Xs (ns x 2 integer), mean constant mc, targets y: K = [X;Xs][X;Xs]^T (linear kernel); noise cell: likelihood kind lk
\*           (not multitask), s2 = sigma2 resp. the learned second noise, tr = stored per-point noise (n integers), te = call-time noise (ns integers)
\*           or <<>> (none supplied); the size class follows from ns = n
\*  "root" : L (n x n integer lower triangular, positive diagonal): A = L L^T; Ksx (ns x n integer), Kss = Ksx A^-1 Kxs + I
NTrain(i) == IF i.kind = "lin" THEN Len(i.X) ELSE Len(i.L)
Joint(i) == LET Z == FromInt(i.X \o i.Xs) IN MMul(Z, Tr(Z))                         \* prior covariance of [train; test]
IntDiag(v) == Mk(Len(v), Len(v), LAMBDA j, k : IF j = k THEN R(v[j]) ELSE RZero)
TermMat(x, i, m) == IF x = "diag(t)" THEN IntDiag(i.te) ELSE IF x = "diag(stored)" THEN IntDiag(i.tr) ELSE MScale(R(i.s2), Ident(m))     \* sigma2*I, second*I
NoiseMat(S, i, m) == LET P(x) == IF x \in S THEN TermMat(x, i, m) ELSE MScale(RZero, Ident(m))
                     IN MAdd(MAdd(P("sigma2*I"), P("second*I")), MAdd(P("diag(t)"), P("diag(stored)")))
NoiseCellOf(i) == [kind |-> i.lk, supply |-> IF i.te = <<>> THEN "none" ELSE "call", size |-> IF Len(i.Xs) = Len(i.X) THEN "train" ELSE "test"]
Noise(i) == NoiseMat(TrainNoise(i.lk), i, NTrain(i))                                   \* S: the documented noise of the training data
TestNoise(i) == NoiseMat(DocNoise(NoiseCellOf(i)), i, Len(i.Xs))                       \* S*: the documented noise of the cell

A(i)   == IF i.kind = "lin" THEN MAdd(Block(Joint(i), 1, NTrain(i), 1, NTrain(i)), Noise(i))
          ELSE LET L == FromInt(i.L) IN MMul(L, Tr(L))
Ksx(i) == IF i.kind = "lin" THEN Block(Joint(i), NTrain(i) + 1, NTrain(i) + Len(i.Xs), 1, NTrain(i)) ELSE FromInt(i.Ksx)
Kss(i) == IF i.kind = "lin" THEN Block(Joint(i), NTrain(i) + 1, NTrain(i) + Len(i.Xs), NTrain(i) + 1, NTrain(i) + Len(i.Xs))
          ELSE LET C == FromInt(i.Ksx) L == FromInt(i.L)          \* a valid joint prior: Kss = Ksx A^-1 Kxs + I
               IN MAdd(MMul(C, MMul(Inv(MMul(L, Tr(L))), Tr(C))), Ident(Len(i.Ksx)))
Mx(i)  == [k \in 1..NTrain(i) |-> R(i.mc)]
Ms(i)  == [k \in 1..Rows(Ksx(i)) |-> R(i.mc)]
Y(i)   == VFromInt(i.y)

\* the denotation
PostMean(i) == CondMean(Ms(i), Ksx(i), A(i), Y(i), Mx(i))
PostCov(i)  == CondCov(Kss(i), Ksx(i), A(i))

\* code-shaped path formulas
MeanCache(i)   == Solve(A(i), VSub(Y(i), Mx(i)))
PathMean(i)    == VAdd(MVec(Ksx(i), MeanCache(i)), Ms(i))
PathCovDirect(i) == MSub(Kss(i), MMul(Ksx(i), MMul(Inv(A(i)), Tr(Ksx(i)))))        \* covar_correction_rhs = A^-1 Kx*
\* root cache: R = L^-T so that R R^T = (L L^T)^-1
RootInv(i)     == Tr(Inv(FromInt(i.L)))
PathCovRoot(i) == LET Q == MMul(Ksx(i), RootInv(i)) IN MSub(Kss(i), MMul(Q, Tr(Q)))
\* passing the posterior through the likelihood at the test points
Marginal(i)    == MAdd(PostCov(i), IF i.kind = "lin" THEN TestNoise(i) ELSE MScale(R(i.s2), Ident(Rows(Ksx(i)))))

AlgebraOK ==
  Part = "algebra" =>
    /\ IsPD(A(c))
    /\ PathMean(c) = PostMean(c)
    /\ PathCovDirect(c) = PostCov(c)
    /\ (c.kind = "root" => MMul(RootInv(c), Tr(RootInv(c))) = Inv(A(c)) /\ PathCovRoot(c) = PostCov(c))
    /\ IsPSD(PostCov(c))
    /\ IsPSD(MSub(Kss(c), PostCov(c)))                     \* conditioning never adds uncertainty
    \* the noise cell of a "lin" instance is a cell of part "noise", its kind is conditioned with a proper S, and the likelihood adds S* >= 0
    /\ (c.kind = "lin" => NoiseCellOf(c) \in NoiseCells /\ IsPD(Noise(c)) /\ IsPSD(TestNoise(c)) /\ MSub(Marginal(c), PostCov(c)) = TestNoise(c)
                          /\ (c.te # <<>> => Len(c.te) = Len(c.Xs)) /\ Len(c.tr) = Len(c.X))

\* ============================== history =========================================================
\* model lattice of this part:
\*   ad    where active_dims sits: nowhere / on the top-level kernel module (a leaf kernel, or a ScaleKernel, which copies its base kernel's
\*         active_dims) / only on parts of a sum or product (the top-level module has none; the parts are called eagerly inside)
\*   kw    call-time keyword arguments for kernel and mean: none / passed by the model's forward / passed by the caller through model(x, **kw)
\*   site  whose kernel is tracked: the model's own ("covar") or the kernel of the noise model of a HeteroskedasticNoise likelihood ("noise")
HModels == {m \in [ad : {"none", "top", "inner"}, kw : HistKw, site : HistSites] : m.site = "noise" => m.kw = "none"}
\* lazily evaluated kernel, the test ROWS of the lazy joint covariance sliced off, evaluated, then split densely (joint size <=
\* max_eager_kernel_size) / lazily evaluated kernel, both test blocks sliced off the LAZY joint covariance / lazily_evaluate_kernels(False):
\* Kernel.__call__ computes the dense joint covariance at once, no lazily evaluated tensor exists
HPaths == {"lazy-dense", "lazy-slices", "evaluated"}

\* the prior the model declares: a block is described by the input columns it was computed on and the keywords it was computed with
Declared(m) == [cols |-> IF m.ad = "top" THEN "active" ELSE "all", params |-> IF m.kw = "none" THEN "none" ELSE "passed"]

\* Kernel.__call__: the inputs are restricted to the columns the kernel OBJECT declares at that moment; the keywords are remembered
Create(m, kad) == [cols |-> IF m.ad = "top" /\ kad = "declared" THEN "active" ELSE "all", params |-> Declared(m).params]
\* LazyEvaluatedKernelTensor._getitem: same kernel, same columns, same keywords
SliceOf(t) == [t EXCEPT !.params = IF SliceKeepsParams THEN t.params ELSE "none"]
\* LazyEvaluatedKernelTensor.evaluate_kernel: kernel.active_dims := None; call; restore
AfterEval(kad, dbg) == IF RestoreAlways \/ dbg THEN kad ELSE "none"

\* one posterior-mode call of the GP that owns the tracked kernel (dbg: is settings.debug on while it runs; dv: the version of the
\* model's training data its prediction strategy - mean cache (Kxx+S)^-1 (y - mx) - was built from)
Tracked(s, dbg, tag, dv) ==
  LET xx    == IF s.cache = <<>> THEN Create(s.m, s.kad) ELSE s.cache[1]      \* train-train block: created with the prediction strategy, then cached
      joint == Create(s.m, s.kad)                                              \* forward([train; test]) of THIS call
      blk   == IF s.p = "evaluated" THEN joint ELSE SliceOf(joint)           \* both lazy paths index the lazy tensor before it is evaluated
  IN [s EXCEPT !.cache = <<xx>>,
               !.kad = IF s.p = "evaluated" THEN s.kad ELSE AfterEval(s.kad, dbg),
               !.obs = Append(s.obs, [step |-> tag, xx |-> xx, xs |-> blk, ss |-> blk, data |-> dv, cur |-> s.ver])]

\* model.set_train_data(targets = y'), model.set_train_data(inputs = X', targets = y'), model.load_state_dict(state with OTHER hyperparameter
\* values) while the model stays in eval mode: "ver" counts the versions of everything the posterior is conditioned on (training data and the
\* hyperparameters K, m, S are evaluated with)
DataSteps == {"set-targets", "set-data", "load-state"}
Quiet == {"refresh"} \cup DataSteps            \* steps without an observation

HStep(s, a) ==
  IF a = "refresh"                        \* model.train(); model.eval(): every prediction strategy is dropped (the kernel objects stay)
  THEN [s EXCEPT !.cache = <<>>, !.outer = FALSE, !.hist = Append(@, a)]
  ELSE IF a \in DataSteps                 \* new training data of the MODEL: its prediction strategy is dropped, whichever part of the data changed
  THEN [s EXCEPT !.ver = @ + 1, !.hist = Append(@, a),
                 !.outer = IF a \in SetDataClears THEN FALSE ELSE @,
                 \* the noise model keeps its own data and strategy; a state dict is loaded into every submodule, the noise model included
                 !.cache = IF a \in SetDataClears /\ (s.m.site = "covar" \/ a = "load-state") THEN <<>> ELSE @]
  ELSE LET n  == Len(s.hist) + 1
           dv == IF s.outer THEN s.cver ELSE s.ver
           s1 == IF s.m.site = "covar" THEN Tracked(s, a # "debug-off", n, dv)
                 \* HeteroskedasticNoise.forward runs its noise model under debug(False): at the training inputs when the outer strategy is
                 \* built (S of the training data, cached there), at the test inputs for likelihood(posterior, test inputs)
                 ELSE Tracked(IF s.outer THEN s ELSE Tracked(s, FALSE, n, dv), FALSE, n, dv)
       IN [s1 EXCEPT !.outer = TRUE, !.cver = dv, !.hist = Append(@, a)]

HInit == c \in {[m |-> m, p |-> p, kad |-> "declared", cache |-> <<>>, outer |-> FALSE, ver |-> 0, cver |-> 0, hist |-> <<>>, obs |-> <<>>] : m \in HModels, p \in HPaths}
Expect(s) == [k \in 1..Len(s.obs) |-> Declared(s.m)]
Predict(a) == /\ Len(c.hist) < HistLen
              /\ c' = HStep(c, a)
              /\ out' = Expect(c')
QuietStep(a) == /\ Len(c.hist) < HistLen /\ c.hist # <<>> /\ c.hist[Len(c.hist)] \notin Quiet
                /\ c' = HStep(c, a)
                /\ out' = Expect(c')
HNext == (\E a \in SwitchChoice : Predict(a)) \/ (\E a \in Quiet : QuietStep(a))

\* every block of every prediction is the declared prior, conditioned on the CURRENT training data - also in the prediction under default
\* settings that closes the history (a switch must not leave anything behind).  The test inputs do not enter the machine ("at any test
\* inputs"): the replay draws fresh ones of a different size for every prediction and closes every fourth history at the training inputs
OnePriorAt(s) == \A k \in 1..Len(s.obs) : /\ s.obs[k].xx = Declared(s.m) /\ s.obs[k].xs = Declared(s.m) /\ s.obs[k].ss = Declared(s.m)
                                          /\ s.obs[k].data = s.obs[k].cur
HistoryOK == Part = "history" => OnePriorAt(c) /\ OnePriorAt(HStep(c, "none")) /\ out = Expect(c)
\* the kernel object is as constructed whenever control is back at the caller
KernelRestored == Part = "history" => c.kad = "declared"

\* for the replay of "lin" instances: exact posterior mean / covariance / marginal covariance
Expected(i) == [mean |-> PostMean(i), cov |-> PostCov(i), marg |-> Marginal(i), terms |-> DocNoise(NoiseCellOf(i))]

Init == /\ IF Part = "lattice" THEN c \in Cells ELSE IF Part = "knobs" THEN c \in KnobCells ELSE IF Part = "history" THEN HInit
           ELSE IF Part = "noise" THEN c \in NoiseCells ELSE c \in Instances
        /\ out = IF Part = "knobs" THEN Promise(c) ELSE IF Part = "noise" THEN DocNoise(c) ELSE IF Part = "algebra" /\ c.kind = "lin" THEN Expected(c) ELSE IF Part = "lattice" THEN PathOf(c) ELSE <<>>
Next == IF Part = "history" THEN HNext ELSE UNCHANGED vars
Spec == Init /\ [][Next]_vars
=============================================================================
