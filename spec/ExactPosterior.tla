--------------------------- MODULE ExactPosterior ---------------------------
(***************************************************************************)
(* Exact GP prediction (property C01).                                     *)
(*                                                                         *)
(* Part "lattice": the prediction-relevant settings and the computational  *)
(* path each combination selects, transcribed from ExactGP.__call__,       *)
(* DefaultPredictionStrategy.exact_prediction / exact_predictive_covar and *)
(* linear_operator's solve / root dispatch:                                *)
(*   lazy     lazily_evaluate_kernels                                      *)
(*   eager    joint size <= max_eager_kernel_size  (dense slicing of the   *)
(*            joint covariance vs lazy indexing)                           *)
(*   chol     solves by Cholesky: size <= max_cholesky_size or             *)
(*            fast_computations(solves = False); otherwise CG              *)
(*   fpv      fast_pred_var: covariance through the cached root of         *)
(*            (Kxx + S)^-1 instead of a direct solve                       *)
(*   cholroot the cached root by Cholesky (fast_computations(              *)
(*            covar_root_decomposition = False) or small) vs Lanczos       *)
(*   detach   detach_test_caches                                           *)
(*   skipvar  skip_posterior_variances: zero covariance                    *)
(* The DENOTATION of the output does not depend on the path: it is the     *)
(* Gaussian conditional (LinAlg.tla CondMean / CondCov), except that       *)
(* skipvar replaces the covariance by zero.  TLC enumerates every cell and *)
(* hands it to the replay with the path it predicts.                       *)
(*                                                                         *)
(* Part "algebra": exact rational instances.  Every path FORMULA the code  *)
(* evaluates equals the conditional:                                       *)
(*   joint prior on [train; test] split at num_train,                      *)
(*   mean_cache = A^-1 (y - mx), mean = ms + Ksx mean_cache,               *)
(*   direct:     Kss - Ksx (A^-1 Kxs)            (addmm form)              *)
(*   root cache: Kss - (Ksx R)(Ksx R)^T  with R R^T = A^-1, R = L^-T for   *)
(*               A = L L^T,                                                *)
(*   likelihood(posterior) = posterior + S_test exactly once.              *)
(*                                                                         *)
(* Part "knobs": the NUMERICAL-accuracy settings.  The lattice above fixes *)
(* WHICH algorithm runs; the knobs fix HOW ACCURATELY an iterative one     *)
(* runs.  Each knob has its default and its documented test-time values;   *)
(* a cell leaves every knob at its default except at most MaxOff of them   *)
(* ("tightened alone", and pairs), crossed with every path selector.  For  *)
(* each cell the spec derives the precision the documentation promises for *)
(* the mean and for the covariance (exact / CG residual 10^e / full-rank   *)
(* Lanczos / nothing); the replay sets exactly the settings of the cell on *)
(* a model with enough training points that a loose tolerance is visible,  *)
(* and compares with the dense conditional at a tolerance derived from     *)
(* that precision.  A knob that is silently not honoured (for instance     *)
(* eval_cg_tolerance being overridden by the ambient cg_tolerance) shows   *)
(* as an accuracy failure of the cells that tighten it alone.              *)
(***************************************************************************)
EXTENDS LinAlg, TLC

CONSTANTS Part, Instances, MaxOff

VARIABLES c, out     \* out: the exact expectation handed to the replay ("lin" instances)
vars == <<c, out>>

\* ============================== lattice =========================================================
Cells == [lazy : BOOLEAN, eager : BOOLEAN, chol : BOOLEAN, fpv : BOOLEAN, cholroot : BOOLEAN, detach : BOOLEAN, skipvar : BOOLEAN]

PathOf(s) ==
  [split |-> IF s.eager THEN "dense-slices" ELSE "lazy-slices",
   kernel |-> IF s.lazy THEN "lazy" ELSE "evaluated",
   solve |-> IF s.chol THEN "cholesky" ELSE "cg",
   covar |-> IF s.skipvar THEN "zero" ELSE IF s.fpv THEN (IF s.cholroot THEN "root-cache-cholesky" ELSE "root-cache-lanczos") ELSE "direct-solve",
   caches |-> IF s.detach THEN "detached" ELSE "attached"]

\* what the cell must return, in terms of the denotation
MeaningOf(s) == [mean |-> "conditional-mean", cov |-> IF s.skipvar THEN "zero" ELSE "conditional-covariance"]

\* cells whose covariance path is irrelevant collapse to the same path (no spurious distinctions)
LatticeOK == Part = "lattice" => (c.skipvar => PathOf(c).covar = "zero") /\ (~c.skipvar => PathOf(c).covar # "zero")

\* ============================== knobs ===========================================================
\* path selectors (full product):
\*   nclass   training size n against the two size defaults: n <= 100 = default max_root_decomposition_size,
\*            100 < n <= 800 = default max_cholesky_size, n > 800 (CG / Lanczos selected by size alone)
\*   mcs      max_cholesky_size: untouched, 0, n-1, n            (Cholesky iff n <= max_cholesky_size)
\*   solves / rootfast   fast_computations(solves=, covar_root_decomposition=)  (FALSE: Cholesky regardless of size)
\*   fpv      fast_pred_var
Selectors == [nclass : {"le100", "gt100", "gt800"}, mcs : {"default", "zero", "below", "equal"}, solves : BOOLEAN, rootfast : BOOLEAN, fpv : BOOLEAN]

\* accuracy knobs: default first
\*   evaltol  eval_cg_tolerance = 10^e (default 1e-2): "relative residual tolerance for terminating CG when making predictions"
\*   cgtol    cg_tolerance = 10^e (default 1): the TRAINING-time tolerance; ExactGP.__call__ replaces it by eval_cg_tolerance
\*            around exact_prediction, where every solve of the posterior happens (the caches are computed lazily there)
\*   maxiter  max_cg_iterations: 1000 / raised (4000) / lowered (25 < n: CG is cut short, nothing is promised)
\*   precond  preconditioner of CG: untouched (size 15 but inactive below min_preconditioning_size = 2000), off (size 0),
\*            active with size 5 / 15 (min_preconditioning_size lowered to 0).  A preconditioner accelerates, it never changes the answer
\*   rootsize max_root_decomposition_size (Lanczos rank of fast_pred_var's root): 100 / n / 2n / n/2
\*   probes   fast_pred_var(num_probe_vectors): read by the interpolated (KISS) strategy only
\*   trace    num_trace_samples, lq  max_lanczos_quadrature_iterations: log-determinant estimation only, never at eval
KnobDom == [evaltol |-> {-2, -3, -4, -6}, cgtol |-> {0, -6, 2}, maxiter |-> {"default", "raised", "lowered"},
            precond |-> {"default", "off", "active-small", "active-default"}, rootsize |-> {"default", "n", "twice", "half"},
            probes |-> {1, 3}, trace |-> {"default", "one"}, lq |-> {"default", "raised"}]
KnobSpace == [evaltol : KnobDom.evaltol, cgtol : KnobDom.cgtol, maxiter : KnobDom.maxiter, precond : KnobDom.precond,
              rootsize : KnobDom.rootsize, probes : KnobDom.probes, trace : KnobDom.trace, lq : KnobDom.lq]
KnobDefault == [evaltol |-> -2, cgtol |-> 0, maxiter |-> "default", precond |-> "default", rootsize |-> "default",
                probes |-> 1, trace |-> "default", lq |-> "default"]
KnobNames == DOMAIN KnobDefault
OffDefault(k) == {f \in KnobNames : k[f] # KnobDefault[f]}
\* linear_cg rejects (RuntimeError, by design) a tridiagonalisation bound above the iteration bound: with max_cg_iterations lowered to 25
\* the quadrature bound cannot be raised to 50.  Such a combination is a usage error, not a cell
Consistent(k) == ~(k.maxiter = "lowered" /\ k.lq = "raised")
KnobCells == {s @@ k : s \in Selectors, k \in {kk \in KnobSpace : Cardinality(OffDefault(kk)) <= MaxOff /\ Consistent(kk)}}

\* which algorithm: linear_operator's _solve / _choose_root_method
BySize(s)  == s.mcs = "equal" \/ (s.mcs = "default" /\ s.nclass # "gt800")              \* n <= max_cholesky_size
SolveBy(s) == IF ~s.solves \/ BySize(s) THEN "cholesky" ELSE "cg"
RootBy(s)  == IF ~s.rootfast \/ BySize(s) THEN "cholesky" ELSE "lanczos"

\* the precision the documentation promises.  The effective CG tolerance of a prediction is eval_cg_tolerance - NOT cg_tolerance
CGPrec(s)   == IF s.maxiter = "lowered" THEN <<"none">> ELSE <<"residual", s.evaltol>>
MeanPrec(s) == IF SolveBy(s) = "cholesky" THEN <<"exact">> ELSE CGPrec(s)
\* Lanczos is an exact algorithm at rank >= n as long as its re-orthogonalisation succeeds; linear_operator's lanczos_tridiag stops early
\* (beta <= 1e-6, or ten re-orthogonalisation passes fail) for some random probes - rarely at n <= 132 (the replay redraws the probe), but
\* often enough at n ~ 800 (rank 803 of 804 and a covariance error of 1e-3 for 2 probes in 8 on a fixed-noise model) that nothing is promised there
FullRank(s) == s.nclass # "gt800" /\ (s.rootsize \in {"n", "twice"} \/ (s.rootsize = "default" /\ s.nclass = "le100"))
CovPrec(s)  == IF s.fpv THEN (IF RootBy(s) = "cholesky" THEN <<"exact">> ELSE IF FullRank(s) THEN <<"fullrank">> ELSE <<"none">>)
               ELSE MeanPrec(s)                                     \* direct solve (Kxx+S)^-1 Kx* under the same tolerance as the mean
Promise(s)  == [solve |-> SolveBy(s), root |-> RootBy(s), mean |-> MeanPrec(s), cov |-> CovPrec(s)]

PrecRank(p) == IF p[1] = "none" THEN 0 ELSE IF p[1] = "residual" THEN 0 - p[2] ELSE 100
With(s, f, v) == [s EXCEPT ![f] = v]

KnobsOK ==
  Part = "knobs" =>
    \* knobs that are not prediction-accuracy knobs do not enter the promise: in particular the ambient cg_tolerance, tight or loose
    /\ \A f \in {"cgtol", "probes", "trace", "lq", "precond"} : \A v \in KnobDom[f] : Consistent(With(c, f, v)) => Promise(With(c, f, v)) = Promise(c)
    \* a direct algorithm is exact whatever the iterative knobs say
    /\ (SolveBy(c) = "cholesky" => MeanPrec(c) = <<"exact">>) /\ (c.fpv /\ RootBy(c) = "cholesky" => CovPrec(c) = <<"exact">>)
    \* tightening the documented knob ALONE is enough and is monotone
    /\ \A e \in KnobDom.evaltol :
          /\ (SolveBy(c) = "cg" /\ c.maxiter # "lowered" => MeanPrec(With(c, "evaltol", e)) = <<"residual", e>>)
          /\ (e <= c.evaltol => PrecRank(MeanPrec(With(c, "evaltol", e))) >= PrecRank(MeanPrec(c)) /\ PrecRank(CovPrec(With(c, "evaltol", e))) >= PrecRank(CovPrec(c)))
    \* the rank knob governs the Lanczos root only; without fast_pred_var the covariance shares the mean's solve
    /\ (~(c.fpv /\ RootBy(c) = "lanczos") => \A v \in KnobDom.rootsize : Promise(With(c, "rootsize", v)) = Promise(c))
    /\ (~c.fpv => CovPrec(c) = MeanPrec(c))
    \* everything at its default on a model below both size defaults is the direct algorithm
    /\ (c.mcs = "default" /\ c.nclass # "gt800" => MeanPrec(c) = <<"exact">> /\ CovPrec(c) = <<"exact">>)
    /\ out = Promise(c)

\* ============================== algebra =========================================================
\* instance kinds:
\*  "lin"  : X (n x 2 integer), Xs (ns x 2 integer), mean constant mc, noise s2, targets y: K = [X;Xs][X;Xs]^T (linear kernel)
\*  "root" : L (n x n integer lower triangular, positive diagonal): A = L L^T; Ksx (ns x n integer), Kss = Ksx A^-1 Kxs + I
NTrain(i) == IF i.kind = "lin" THEN Len(i.X) ELSE Len(i.L)
Joint(i) == LET Z == FromInt(i.X \o i.Xs) IN MMul(Z, Tr(Z))                         \* prior covariance of [train; test]
Noise(i) == MScale(R(i.s2), Ident(NTrain(i)))

A(i)   == IF i.kind = "lin" THEN MAdd(Block(Joint(i), 1, NTrain(i), 1, NTrain(i)), Noise(i))
          ELSE LET L == FromInt(i.L) IN MMul(L, Tr(L))
Ksx(i) == IF i.kind = "lin" THEN Block(Joint(i), NTrain(i) + 1, NTrain(i) + Len(i.Xs), 1, NTrain(i)) ELSE FromInt(i.Ksx)
Kss(i) == IF i.kind = "lin" THEN Block(Joint(i), NTrain(i) + 1, NTrain(i) + Len(i.Xs), NTrain(i) + 1, NTrain(i) + Len(i.Xs))
          ELSE LET C == FromInt(i.Ksx) L == FromInt(i.L)          \* a valid joint prior: Kss = Ksx A^-1 Kxs + I
               IN MAdd(MMul(C, MMul(Inv(MMul(L, Tr(L))), Tr(C))), Ident(Len(i.Ksx)))
Mx(i)  == [k \in 1..NTrain(i) |-> R(i.mc)]
Ms(i)  == [k \in 1..Rows(Ksx(i)) |-> R(i.mc)]
Y(i)   == VFromInt(i.y)

\* the denotation
PostMean(i) == CondMean(Ms(i), Ksx(i), A(i), Y(i), Mx(i))
PostCov(i)  == CondCov(Kss(i), Ksx(i), A(i))

\* code-shaped path formulas
MeanCache(i)   == Solve(A(i), VSub(Y(i), Mx(i)))
PathMean(i)    == VAdd(MVec(Ksx(i), MeanCache(i)), Ms(i))
PathCovDirect(i) == MSub(Kss(i), MMul(Ksx(i), MMul(Inv(A(i)), Tr(Ksx(i)))))        \* covar_correction_rhs = A^-1 Kx*
\* root cache: R = L^-T so that R R^T = (L L^T)^-1
RootInv(i)     == Tr(Inv(FromInt(i.L)))
PathCovRoot(i) == LET Q == MMul(Ksx(i), RootInv(i)) IN MSub(Kss(i), MMul(Q, Tr(Q)))
\* passing the posterior through the likelihood at the test points
Marginal(i)    == MAdd(PostCov(i), MScale(R(i.s2), Ident(Rows(Ksx(i)))))

AlgebraOK ==
  Part = "algebra" =>
    /\ IsPD(A(c))
    /\ PathMean(c) = PostMean(c)
    /\ PathCovDirect(c) = PostCov(c)
    /\ (c.kind = "root" => MMul(RootInv(c), Tr(RootInv(c))) = Inv(A(c)) /\ PathCovRoot(c) = PostCov(c))
    /\ IsPSD(PostCov(c))
    /\ IsPSD(MSub(Kss(c), PostCov(c)))                     \* conditioning never adds uncertainty

\* for the replay of "lin" instances: exact posterior mean / covariance / marginal covariance
Expected(i) == [mean |-> PostMean(i), cov |-> PostCov(i), marg |-> Marginal(i)]

Init == /\ IF Part = "lattice" THEN c \in Cells ELSE IF Part = "knobs" THEN c \in KnobCells ELSE c \in Instances
        /\ out = IF Part = "knobs" THEN Promise(c) ELSE IF Part = "algebra" /\ c.kind = "lin" THEN Expected(c) ELSE IF Part = "lattice" THEN PathOf(c) ELSE <<>>
Next == UNCHANGED vars
Spec == Init /\ [][Next]_vars
=============================================================================
