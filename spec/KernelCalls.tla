---------------------------- MODULE KernelCalls ----------------------------
(***************************************************************************)
(* The CALL-CONFIGURATION lattice of the two-path kernels (RBFKernel,      *)
(* MaternKernel nu = 1/2, 3/2, 5/2), property C19.  Operators only         *)
(* (prefix KC); used by Grad.tla part "gcalls".                            *)
(*                                                                         *)
(* A cell fixes everything a caller can choose that either SELECTS between *)
(* the hand-written Function (RBFCovariance / MaternCovariance) and the    *)
(* generic autograd branch, or changes the SHAPES the hand-written         *)
(* Function would see:                                                     *)
(*   fam    kernel family                 wrap  plain | inside ScaleKernel  *)
(*   ls     lengthscale: "shared" (ard_num_dims = None) | "ard"            *)
(*          (ard_num_dims = d; for d = 1 this is NOT > 1: fast branch)     *)
(*   kb     kernel batch_shape (0 = none, else <<kb>>): one lengthscale    *)
(*          per batch element, shape kb x 1 x L                            *)
(*   xb     batch shape of the inputs (0 = none, else equal to kb or with  *)
(*          an unbatched kernel)                                           *)
(*   d      input dimensions              (size coincidences kb = d, kb =  *)
(*          n, d = n are part of the lattice: broadcasting rules that are  *)
(*          wrong on one axis go unnoticed exactly when two sizes agree)   *)
(*   mode   "same"  x2 = None            "clone" x2 = x1.clone()           *)
(*          (x1_eq_x2 found by torch.equal)   "eqn" n1 = n2, other points  *)
(*          "gt" n1 > n2                 "lt" n1 < n2                      *)
(*   diag   kernel(x1, x2, diag=True)    ldb   last_dim_is_batch=True      *)
(* and is evaluated under every FORCING of the dispatch predicate:         *)
(*   none | x1grad | x2grad | x12grad | trace                              *)
(* i.e. EVERY subset of the two input tensors requiring a gradient         *)
(* (exactly one of two different tensors: k(X_train, x_test), k(x, Z) with *)
(* inducing points Z; both; none) and trace_mode.                          *)
(*                                                                         *)
(* The dispatch predicate (RBFKernel.forward / MaternKernel.forward):      *)
(*     x1.requires_grad or x2.requires_grad                                *)
(*     or (ard_num_dims is not None and ard_num_dims > 1) or diag          *)
(*     or params.get("last_dim_is_batch", False) or trace_mode.on()        *)
(*  -> generic, else the hand-written Function.                            *)
(*                                                                         *)
(* WHY each guard is there (KCFastSound): the hand-written forward saves   *)
(*     d_output_d_input = g(distance tensor) / lengthscale    (in place)   *)
(* and its backward returns grad_output * d_output_d_input, which autograd *)
(* sums down to the lengthscale's shape.  This is the derivative only if   *)
(* right-aligned broadcasting puts every lengthscale axis against the      *)
(* distance-tensor axis it belongs to: the kernel-batch axis against the   *)
(* batch axis, and a single lengthscale entry (L = 1) per batch element.   *)
(* With last_dim_is_batch the distance tensor is  batch x d x n1 x n2  and *)
(* a kb x 1 x 1 lengthscale would meet the d axis: silently wrong when     *)
(* kb = d, an exception otherwise.  KCCallOK states that the dispatch      *)
(* never hands the Function such a configuration.                          *)
(*                                                                         *)
(* WHO WANTS A GRADIENT (KCWants): the hand-written backward has a         *)
(* derivative for the lengthscale only - it returns None for x1 and x2     *)
(* (KCFnDelivers).  Every input tensor that requires grad must nevertheless*)
(* receive the derivative of the documented function: KCCallOK states that *)
(* the Function is never handed a call in which ANY input tensor wants a   *)
(* gradient (the dispatch is an OR over the inputs, and so is the guard of *)
(* the Function's forward); the replay compares the gradient delivered to  *)
(* every tensor of KCWants with autograd of the documented formula - a     *)
(* missing (None) gradient is a violation.                                 *)
(*                                                                         *)
(* The DENOTATION of a cell (KCMeaning) does not mention the forcing: all  *)
(* forcings must give the documented covariance function and the gradient  *)
(* of THAT function with respect to every parameter.                       *)
(***************************************************************************)
EXTENDS Naturals, Sequences, FiniteSets

CONSTANTS KCDims,       \* input dimensions d
          KCBatch,      \* set of <<kb, xb>>
          KCModes, KCWraps, KCForces

KCFams == {"rbf", "matern05", "matern15", "matern25"}
KCCells == [kind : {"call"}, fam : KCFams, wrap : KCWraps, ls : {"shared", "ard"}, kb : {p[1] : p \in KCBatch}, xb : {p[2] : p \in KCBatch},
            d : KCDims, mode : KCModes, diag : BOOLEAN, ldb : BOOLEAN]
KCValid(s) == /\ <<s.kb, s.xb>> \in KCBatch
              /\ (s.diag => s.mode \in {"same", "clone", "eqn"})          \* diag=True needs n1 = n2

KCN1(s) == CASE s.mode = "gt" -> 4 [] s.mode = "lt" -> 2 [] OTHER -> 3
KCN2(s) == 3
KCSameInputs(s) == s.mode \in {"same", "clone"}                           \* torch.equal(x1, x2)

\* ---- the dispatch predicate, every keyword -----------------------------------------------------------
KCForcesOf(s) == {f \in KCForces : f \in {"x2grad", "x12grad"} => s.mode # "same"}        \* with x2 = None there is no second tensor to mark
KCX1Grad(s, f) == f \in {"x1grad", "x12grad"}
KCX2Grad(s, f) == f \in {"x2grad", "x12grad"} \/ (f = "x1grad" /\ s.mode = "same")        \* x2 is x1
\* the caller's input tensors that require a gradient under forcing f (with x2 = None there is one tensor, in both roles)
KCWants(s, f) == (IF KCX1Grad(s, f) THEN {"x1"} ELSE {}) \cup (IF f \in {"x2grad", "x12grad"} THEN {"x2"} ELSE {})
\* what the hand-written backward returns a gradient for (None for x1, x2, the distance function)
KCFnDelivers == {"lengthscale"}
KCArdNumDims(s) == IF s.ls = "ard" THEN s.d ELSE 0                         \* 0 stands for None
KCGeneric(s, f) ==
  \/ KCX1Grad(s, f) \/ KCX2Grad(s, f)
  \/ (KCArdNumDims(s) # 0 /\ KCArdNumDims(s) > 1)
  \/ s.diag
  \/ s.ldb
  \/ f = "trace"
KCPath(s, f) == IF KCGeneric(s, f) THEN "generic" ELSE "fast"

\* ---- shapes ------------------------------------------------------------------------------------------
KCSh(b) == IF b = 0 THEN <<>> ELSE <<b>>
KCBc(s) == KCSh(IF s.kb # 0 THEN s.kb ELSE s.xb)                           \* broadcast(kernel batch, input batch); KCValid: equal when both are present
KCLsLen(s) == IF s.ls = "ard" THEN s.d ELSE 1
KCLsShape(s) == KCSh(s.kb) \o <<1, KCLsLen(s)>>
\* the tensor the hand-written forward divides by the lengthscale
KCDistShape(s) == KCBc(s) \o (IF s.ldb THEN <<s.d>> ELSE <<>>) \o <<KCN1(s), KCN2(s)>>
KCOutShape(s) == KCBc(s) \o (IF s.ldb THEN <<s.d>> ELSE <<>>) \o (IF s.diag THEN <<KCN1(s)>> ELSE <<KCN1(s), KCN2(s)>>)
\* right-aligned broadcasting: axis j (from the right, 1-based) of the lengthscale meets axis j of the distance tensor
KCAxisFromRight(sh, j) == IF j <= Len(sh) THEN sh[Len(sh) + 1 - j] ELSE 1
\* the role of the distance-tensor axes, from the right: n2, n1, (d if ldb), batch
KCDistRole(s, j) == IF j = 1 THEN "n2" ELSE IF j = 2 THEN "n1" ELSE IF s.ldb /\ j = 3 THEN "dim" ELSE "batch"
KCLsRole(s, j)   == IF j = 1 THEN "L" ELSE IF j = 2 THEN "one" ELSE "batch"
KCFastSound(s) ==
  /\ KCLsLen(s) = 1                                                                        \* the Function refuses more than one lengthscale
  /\ ~s.diag                                                                               \* it always builds the full matrix
  /\ \A j \in 1..Len(KCLsShape(s)) : KCLsRole(s, j) = "batch" => KCDistRole(s, j) = "batch"      \* a batched lengthscale meets the batch axis
KCFastRejects(s, f) == KCX1Grad(s, f) \/ KCX2Grad(s, f) \/ KCLsLen(s) > 1                   \* what its forward raises on

\* ---- denotation ---------------------------------------------------------------------------------------
KCFormula(s) == CASE s.fam = "rbf"      -> "exp(-r^2 / 2)"
                  [] s.fam = "matern05" -> "exp(-r)"
                  [] s.fam = "matern15" -> "(1 + sqrt(3) r) exp(-sqrt(3) r)"
                  [] s.fam = "matern25" -> "(1 + sqrt(5) r + 5 r^2 / 3) exp(-sqrt(5) r)"
KCParams(s) == {"raw_lengthscale"} \cup (IF s.wrap = "scale" THEN {"raw_outputscale"} ELSE {})
KCMeaning(s) == [formula |-> KCFormula(s), r |-> IF s.ldb THEN "per input dimension: |x1[i,k] - x2[j,k]| / l_k" ELSE "|(x1[i] - x2[j]) / l|",
                 shape |-> KCOutShape(s), params |-> KCParams(s)]
KCOut(s) == [paths |-> [f \in KCForcesOf(s) |-> KCPath(s, f)], wants |-> [f \in KCForcesOf(s) |-> KCWants(s, f)], shape |-> KCOutShape(s), lsshape |-> KCLsShape(s), params |-> KCParams(s),
             sound |-> KCFastSound(s)]

KCCallOK(s) ==
  /\ KCValid(s)
  /\ \A f \in KCForcesOf(s) :
       /\ (KCPath(s, f) = "fast" => KCFastSound(s) /\ ~KCFastRejects(s, f))           \* the Function is handed only what its saved derivative is right for
       /\ (f # "none" => KCPath(s, f) = "generic")                                    \* every forcing reaches the generic branch
       /\ (KCPath(s, f) = "fast" => KCWants(s, f) \subseteq KCFnDelivers)              \* no input tensor that wants a gradient is left with the Function's None
       /\ (KCWants(s, f) # {} <=> (KCX1Grad(s, f) \/ KCX2Grad(s, f)))                  \* ONE tensor requiring grad is enough (or, not and)
  /\ "none" \in KCForcesOf(s)
  \* a cell whose default branch is the Function can be forced onto the other one, with the same denotation (KCMeaning has no forcing)
  /\ (KCPath(s, "none") = "fast" => \E f \in KCForcesOf(s) : KCPath(s, f) = "generic")
=============================================================================
