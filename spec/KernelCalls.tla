---------------------------- MODULE KernelCalls ----------------------------
(***************************************************************************)
(* The CALL-CONFIGURATION lattice of the two-path kernels (RBFKernel,      *)
(* MaternKernel nu = 1/2, 3/2, 5/2), property C19.  Operators only         *)
(* (prefix KC); used by Grad.tla part "gcalls".                            *)
(*                                                                         *)
(* A cell fixes everything a caller can choose that either SELECTS between *)
(* the hand-written Function (RBFCovariance / MaternCovariance) and the    *)
(* generic autograd branch, or changes the SHAPES the hand-written         *)
(* Function would see:                                                     *)
(*   fam    kernel family                 wrap  plain | inside ScaleKernel  *)
(*   ls     lengthscale: "shared" (ard_num_dims = None) | "ard"            *)
(*          (ard_num_dims = d; for d = 1 this is NOT > 1: fast branch)     *)
(*   kb     kernel batch_shape (0 = none, else <<kb>>): one lengthscale    *)
(*          per batch element, shape kb x 1 x L                            *)
(*   xb     batch shape of the inputs (0 = none, else equal to kb or with  *)
(*          an unbatched kernel)                                           *)
(*   d      input dimensions              (size coincidences kb = d, kb =  *)
(*          n, d = n are part of the lattice: broadcasting rules that are  *)
(*          wrong on one axis go unnoticed exactly when two sizes agree)   *)
(*   mode   "same"  x2 = None            "clone" x2 = x1.clone()           *)
(*          (x1_eq_x2 found by torch.equal)   "eqn" n1 = n2, other points  *)
(*          "gt" n1 > n2                 "lt" n1 < n2                      *)
(*   diag   kernel(x1, x2, diag=True)    ldb   last_dim_is_batch=True      *)
(*   geom   the GEOMETRY of the input points (see below)                   *)
(* and is evaluated under every FORCING of the dispatch predicate:         *)
(*   none | x1grad | x2grad | x12grad | trace                              *)
(* i.e. EVERY subset of the two input tensors requiring a gradient         *)
(* (exactly one of two different tensors: k(X_train, x_test), k(x, Z) with *)
(* inducing points Z; both; none) and trace_mode.                          *)
(*                                                                         *)
(* The dispatch predicate (RBFKernel.forward / MaternKernel.forward):      *)
(*     x1.requires_grad or x2.requires_grad                                *)
(*     or (ard_num_dims is not None and ard_num_dims > 1) or diag          *)
(*     or params.get("last_dim_is_batch", False) or trace_mode.on()        *)
(*  -> generic, else the hand-written Function.                            *)
(*                                                                         *)
(* WHY each guard is there (KCFastSound): the hand-written forward saves   *)
(*     d_output_d_input = g(distance tensor) / lengthscale    (in place)   *)
(* and its backward returns grad_output * d_output_d_input, which autograd *)
(* sums down to the lengthscale's shape.  This is the derivative only if   *)
(* right-aligned broadcasting puts every lengthscale axis against the      *)
(* distance-tensor axis it belongs to: the kernel-batch axis against the   *)
(* batch axis, and a single lengthscale entry (L = 1) per batch element.   *)
(* With last_dim_is_batch the distance tensor is  batch x d x n1 x n2  and *)
(* a kb x 1 x 1 lengthscale would meet the d axis: silently wrong when     *)
(* kb = d, an exception otherwise.  KCCallOK states that the dispatch      *)
(* never hands the Function such a configuration.                          *)
(*                                                                         *)
(* WHO WANTS A GRADIENT (KCWants): the hand-written backward has a         *)
(* derivative for the lengthscale only - it returns None for x1 and x2     *)
(* (KCFnDelivers).  Every input tensor that requires grad must nevertheless*)
(* receive the derivative of the documented function: KCCallOK states that *)
(* the Function is never handed a call in which ANY input tensor wants a   *)
(* gradient (the dispatch is an OR over the inputs, and so is the guard of *)
(* the Function's forward); the replay compares the gradient delivered to  *)
(* every tensor of KCWants with autograd of the documented formula - a     *)
(* missing (None) gradient is a violation.                                 *)
(*                                                                         *)
(* The DENOTATION of a cell (KCMeaning) does not mention the forcing: all  *)
(* forcings must give the documented covariance function and the gradient  *)
(* of THAT function with respect to every parameter.                       *)
(*                                                                         *)
(* GEOMETRY (geom).  The covariance functions are stationary and piecewise *)
(* in r; WHERE the points lie selects the piece and the distance helper:   *)
(*   "unit"  points drawn from [-1, 1]^d, all pairs of two different       *)
(*           tensors at r > 0;                                             *)
(*   "coin"  x1 and x2 are DIFFERENT tensors (torch.equal is false) that   *)
(*           share rows: KCCoinPairs(s) lists the row pairs <<i, j>> with  *)
(*           x1[i] = x2[j] bit for bit (r = 0 exactly) - one on a diagonal *)
(*           position (the entry diag=True returns), one off the diagonal, *)
(*           and KCCoinPartial(s): a pair that agrees in coordinate 1 only *)
(*           (r = 0 in one of the per-dimension kernels of                 *)
(*           last_dim_is_batch, r > 0 otherwise).  k = k(0) there and the  *)
(*           documented function is stationary at r = 0 in every parameter *)
(*           (and, nu > 1/2, in the inputs): every gradient must be        *)
(*           FINITE and equal to the sub-gradient of the reference (0 from *)
(*           the coincident entries) - on every call form, in particular   *)
(*           on diag=True cross-covariances, whose distance is not taken   *)
(*           from the helper of the full matrix;                           *)
(*   "far"   x = 10^KCOffExp(s) + u, u of unit spread with separated       *)
(*           coordinates, and MORE THAN KCMMRows ROWS on a side (KCN1 /    *)
(*           KCN2 depend on geom): above that size torch.cdist, like       *)
(*           sq_dist, uses the quadratic expansion |a|^2 + |b|^2 - 2ab,    *)
(*           whose absolute error is eps |x / l|^2 of WHAT IT IS HANDED.   *)
(*           KCCentredOK: on every path of every cell the quadratic        *)
(*           expansion is handed centred points (by the caller: Matern     *)
(*           kernel / Function subtract mean(x1); by the helper: sq_dist   *)
(*           subtracts it itself, torch.cdist does not).  The denotation   *)
(*           is translation invariant (KCMeaning: only x1 - x2 enters):    *)
(*           the replay compares every path with the closed form           *)
(*           evaluated on the centred points u (x - 10^e is exact in       *)
(*           float64), at a tolerance that grows with the rounding of the  *)
(*           points handed in (linear in 10^e / l), not with its square.   *)
(***************************************************************************)
EXTENDS Naturals, Sequences, FiniteSets

CONSTANTS KCDims,       \* input dimensions d
          KCBatch,      \* set of <<kb, xb>>
          KCModes, KCWraps, KCForces,
          KCGeoms,      \* geometries of the input points: "unit" | "coin" | "far"
          KCGeoBatch,   \* the <<kb, xb>> of the cells with another geometry than "unit" (subset of KCBatch)
          KCOffsets     \* sequence of the decimal exponents of the far offsets

KCFams == {"rbf", "matern05", "matern15", "matern25"}
KCCells == [kind : {"call"}, fam : KCFams, wrap : KCWraps, ls : {"shared", "ard"}, kb : {p[1] : p \in KCBatch}, xb : {p[2] : p \in KCBatch},
            d : KCDims, mode : KCModes, diag : BOOLEAN, ldb : BOOLEAN, geom : KCGeoms]
KCSameInputs(s) == s.mode \in {"same", "clone"}                           \* torch.equal(x1, x2)
KCValid(s) == /\ <<s.kb, s.xb>> \in KCBatch
              /\ (s.diag => s.mode \in {"same", "clone", "eqn"})          \* diag=True needs n1 = n2
              /\ (s.geom = "coin" => ~KCSameInputs(s))                    \* shared rows of two DIFFERENT tensors (equal tensors: every row coincides, geom "unit")
              /\ (s.geom # "unit" => <<s.kb, s.xb>> \in KCGeoBatch /\ s.wrap = "plain")    \* the outputscale is a factor: no part in the geometry

\* ---- geometry ----------------------------------------------------------------------------------------
KCMMRows == 25                                                            \* torch.cdist: quadratic expansion when either side has more rows than this
KCN1(s) == IF s.geom = "far" THEN (CASE s.mode = "gt" -> 29 [] s.mode = "lt" -> 2 [] OTHER -> 27)
           ELSE (CASE s.mode = "gt" -> 4 [] s.mode = "lt" -> 2 [] OTHER -> 3)
KCN2(s) == IF s.geom = "far" THEN (CASE s.mode = "gt" -> 3 [] s.mode = "lt" -> 28 [] OTHER -> 27) ELSE 3
\* row pairs <<i, j>> (1-based) with x1[i] = x2[j] exactly, two different tensors
KCCoinPairs(s) == IF s.geom # "coin" THEN {}
                  ELSE CASE s.mode = "eqn" -> {<<1, 1>>, <<3, 2>>} [] s.mode = "gt" -> {<<2, 1>>, <<4, 3>>} [] s.mode = "lt" -> {<<2, 1>>, <<1, 3>>} [] OTHER -> {}
\* a pair that agrees in the first coordinate only (d = 1: one more shared row; the rows of each tensor stay pairwise different)
KCCoinPartial(s) == IF s.geom # "coin" THEN {} ELSE CASE s.mode = "eqn" -> {<<2, 3>>} [] s.mode = "gt" -> {<<1, 2>>} [] s.mode = "lt" -> {<<1, 2>>} [] OTHER -> {}
KCIdx(seq, v) == CHOOSE k \in 1..Len(seq) : seq[k] = v
KCFamSeq == <<"rbf", "matern05", "matern15", "matern25">>
KCModeSeq == <<"same", "clone", "eqn", "gt", "lt">>
\* every (family, lengthscale, mode, diag, ldb, batch) meets every offset as d runs over three consecutive dimensions
KCOffExp(s) == IF s.geom # "far" THEN 0
               ELSE KCOffsets[1 + ((s.d + KCIdx(KCFamSeq, s.fam) + KCIdx(KCModeSeq, s.mode) + (IF s.diag THEN 1 ELSE 0) + (IF s.ldb THEN 1 ELSE 0)
                                    + (IF s.ls = "ard" THEN 1 ELSE 0) + s.kb + s.xb) % Len(KCOffsets))]
\* which distance helper a path uses and whether it expands |a - b|^2 = |a|^2 + |b|^2 - 2ab
KCSquared(s) == s.fam = "rbf"
KCHelper(s) == IF s.diag THEN (IF KCSameInputs(s) THEN "zeros" ELSE "norm of x1 - x2")
               ELSE IF KCSquared(s) \/ KCSameInputs(s) THEN "sq_dist" ELSE "cdist"
KCRowsSeen(s) == {KCN1(s), KCN2(s)}                                       \* also with last_dim_is_batch (d moves to the batch axes: n1 x 1 and n2 x 1 points)
KCQuadExp(s) == KCHelper(s) = "sq_dist" \/ (KCHelper(s) = "cdist" /\ \E n \in KCRowsSeen(s) : n > KCMMRows)
\* who subtracts mean(x1) before the expansion: the caller (MaternKernel.forward generic branch, MaternCovariance.forward), the helper (sq_dist)
KCCentredBy(s, path) == (IF s.fam # "rbf" THEN {IF path = "fast" THEN "MaternCovariance.forward" ELSE "MaternKernel.forward"} ELSE {}) \cup (IF KCHelper(s) = "sq_dist" THEN {"sq_dist"} ELSE {})
KCCentredOK(s) == KCQuadExp(s) => \A path \in {"fast", "generic"} : KCCentredBy(s, path) # {}
KCGeomOK(s) ==
  /\ KCCentredOK(s)
  /\ (s.geom = "far" => (KCN1(s) > KCMMRows \/ KCN2(s) > KCMMRows) /\ KCOffExp(s) \in {KCOffsets[k] : k \in 1..Len(KCOffsets)})
  /\ (s.geom = "far" /\ ~s.diag /\ ~KCSameInputs(s) /\ s.fam # "rbf" => KCQuadExp(s))            \* the far cells of two different tensors reach the expansion inside torch.cdist
  /\ (s.geom = "coin" =>
        /\ KCCoinPairs(s) # {} /\ KCCoinPartial(s) # {} /\ KCCoinPairs(s) \cap KCCoinPartial(s) = {}
        /\ \A p \in KCCoinPairs(s) \cup KCCoinPartial(s) : p[1] \in 1..KCN1(s) /\ p[2] \in 1..KCN2(s)
        /\ \E p \in KCCoinPairs(s) : p[1] # p[2]                                                  \* r = 0 off the diagonal
        /\ (s.diag => (\E p \in KCCoinPairs(s) : p[1] = p[2]) /\ (\E i \in 1..KCN1(s) : <<i, i>> \notin KCCoinPairs(s)))   \* diag=True returns an r = 0 and an r > 0 entry
        /\ \A p \in KCCoinPairs(s), q \in KCCoinPairs(s) : (p[1] = q[1] \/ p[2] = q[2]) => p = q)      \* rows of one tensor stay pairwise different
  /\ (s.geom # "coin" => KCCoinPairs(s) = {} /\ KCCoinPartial(s) = {})

\* ---- the dispatch predicate, every keyword -----------------------------------------------------------
KCForcesOf(s) == {f \in KCForces : f \in {"x2grad", "x12grad"} => s.mode # "same"}        \* with x2 = None there is no second tensor to mark
KCX1Grad(s, f) == f \in {"x1grad", "x12grad"}
KCX2Grad(s, f) == f \in {"x2grad", "x12grad"} \/ (f = "x1grad" /\ s.mode = "same")        \* x2 is x1
\* the caller's input tensors that require a gradient under forcing f (with x2 = None there is one tensor, in both roles)
KCWants(s, f) == (IF KCX1Grad(s, f) THEN {"x1"} ELSE {}) \cup (IF f \in {"x2grad", "x12grad"} THEN {"x2"} ELSE {})
\* what the hand-written backward returns a gradient for (None for x1, x2, the distance function)
KCFnDelivers == {"lengthscale"}
KCArdNumDims(s) == IF s.ls = "ard" THEN s.d ELSE 0                         \* 0 stands for None
KCGeneric(s, f) ==
  \/ KCX1Grad(s, f) \/ KCX2Grad(s, f)
  \/ (KCArdNumDims(s) # 0 /\ KCArdNumDims(s) > 1)
  \/ s.diag
  \/ s.ldb
  \/ f = "trace"
KCPath(s, f) == IF KCGeneric(s, f) THEN "generic" ELSE "fast"

\* ---- shapes ------------------------------------------------------------------------------------------
KCSh(b) == IF b = 0 THEN <<>> ELSE <<b>>
KCBc(s) == KCSh(IF s.kb # 0 THEN s.kb ELSE s.xb)                           \* broadcast(kernel batch, input batch); KCValid: equal when both are present
KCLsLen(s) == IF s.ls = "ard" THEN s.d ELSE 1
KCLsShape(s) == KCSh(s.kb) \o <<1, KCLsLen(s)>>
\* the tensor the hand-written forward divides by the lengthscale
KCDistShape(s) == KCBc(s) \o (IF s.ldb THEN <<s.d>> ELSE <<>>) \o <<KCN1(s), KCN2(s)>>
KCOutShape(s) == KCBc(s) \o (IF s.ldb THEN <<s.d>> ELSE <<>>) \o (IF s.diag THEN <<KCN1(s)>> ELSE <<KCN1(s), KCN2(s)>>)
\* right-aligned broadcasting: axis j (from the right, 1-based) of the lengthscale meets axis j of the distance tensor
KCAxisFromRight(sh, j) == IF j <= Len(sh) THEN sh[Len(sh) + 1 - j] ELSE 1
\* the role of the distance-tensor axes, from the right: n2, n1, (d if ldb), batch
KCDistRole(s, j) == IF j = 1 THEN "n2" ELSE IF j = 2 THEN "n1" ELSE IF s.ldb /\ j = 3 THEN "dim" ELSE "batch"
KCLsRole(s, j)   == IF j = 1 THEN "L" ELSE IF j = 2 THEN "one" ELSE "batch"
KCFastSound(s) ==
  /\ KCLsLen(s) = 1                                                                        \* the Function refuses more than one lengthscale
  /\ ~s.diag                                                                               \* it always builds the full matrix
  /\ \A j \in 1..Len(KCLsShape(s)) : KCLsRole(s, j) = "batch" => KCDistRole(s, j) = "batch"      \* a batched lengthscale meets the batch axis
KCFastRejects(s, f) == KCX1Grad(s, f) \/ KCX2Grad(s, f) \/ KCLsLen(s) > 1                   \* what its forward raises on

\* ---- denotation ---------------------------------------------------------------------------------------
KCFormula(s) == CASE s.fam = "rbf"      -> "exp(-r^2 / 2)"
                  [] s.fam = "matern05" -> "exp(-r)"
                  [] s.fam = "matern15" -> "(1 + sqrt(3) r) exp(-sqrt(3) r)"
                  [] s.fam = "matern25" -> "(1 + sqrt(5) r + 5 r^2 / 3) exp(-sqrt(5) r)"
KCParams(s) == {"raw_lengthscale"} \cup (IF s.wrap = "scale" THEN {"raw_outputscale"} ELSE {})
\* the geometry is not part of the denotation: r depends on x1 - x2 only (translation invariance), r = 0 is the value k(0) with zero sub-gradient
KCMeaning(s) == [formula |-> KCFormula(s), r |-> IF s.ldb THEN "per input dimension: |x1[i,k] - x2[j,k]| / l_k" ELSE "|(x1[i] - x2[j]) / l|",
                 shape |-> KCOutShape(s), params |-> KCParams(s)]
KCOut(s) == [paths |-> [f \in KCForcesOf(s) |-> KCPath(s, f)], wants |-> [f \in KCForcesOf(s) |-> KCWants(s, f)], shape |-> KCOutShape(s), lsshape |-> KCLsShape(s), params |-> KCParams(s),
             sound |-> KCFastSound(s),
             geo |-> [n1 |-> KCN1(s), n2 |-> KCN2(s), pairs |-> KCCoinPairs(s), partial |-> KCCoinPartial(s), off |-> KCOffExp(s), helper |-> KCHelper(s), quad |-> KCQuadExp(s)]]

KCCallOK(s) ==
  /\ KCValid(s)
  /\ KCGeomOK(s)
  /\ LET t == [s EXCEPT !.geom = "unit"]                                                         \* the geometry selects neither the branch nor the denotation
     IN /\ KCValid(t) /\ KCForcesOf(t) = KCForcesOf(s) /\ \A f \in KCForcesOf(s) : KCPath(t, f) = KCPath(s, f)
        /\ KCMeaning(t).formula = KCMeaning(s).formula /\ KCMeaning(t).r = KCMeaning(s).r /\ KCMeaning(t).params = KCMeaning(s).params
  /\ \A f \in KCForcesOf(s) :
       /\ (KCPath(s, f) = "fast" => KCFastSound(s) /\ ~KCFastRejects(s, f))           \* the Function is handed only what its saved derivative is right for
       /\ (f # "none" => KCPath(s, f) = "generic")                                    \* every forcing reaches the generic branch
       /\ (KCPath(s, f) = "fast" => KCWants(s, f) \subseteq KCFnDelivers)              \* no input tensor that wants a gradient is left with the Function's None
       /\ (KCWants(s, f) # {} <=> (KCX1Grad(s, f) \/ KCX2Grad(s, f)))                  \* ONE tensor requiring grad is enough (or, not and)
  /\ "none" \in KCForcesOf(s)
  \* a cell whose default branch is the Function can be forced onto the other one, with the same denotation (KCMeaning has no forcing)
  /\ (KCPath(s, "none") = "fast" => \E f \in KCForcesOf(s) : KCPath(s, f) = "generic")
=============================================================================
