--------------------------------- MODULE MVN ---------------------------------
(***************************************************************************)
(* MultivariateNormal.__getitem__ as an exact function (property C10:      *)
(* "indexing = marginal of the selected components").                      *)
(*                                                                         *)
(* SEMANTICS.  A (batched) MultivariateNormal is a family of labelled      *)
(* random variables: variable (b, i) = component i of batch element b.     *)
(* Variables of different batch elements are independent (that is what a   *)
(* batch of distributions means).  The distribution is represented by      *)
(*   mean : tensor of labels, shape MeanBatch \o <<N>>   (the stored loc)   *)
(*   crow : tensor of labels, shape CovBatch  \o <<N>>   (row r of the      *)
(*          stored covariance of a batch element belongs to crow[.., r];   *)
(*          columns follow the rows unless colsok = FALSE)                 *)
(* MeanBatch and CovBatch may differ (broadcast representation); the       *)
(* distribution then has batch shape Broadcast(MeanBatch, CovBatch) and    *)
(* the variable at (b, i) has mean label Bc(mean)[b, i] and covariance row *)
(* label Bc(crow)[b, i].  torch's dense constructor expands both tensors   *)
(* (Lazy = FALSE); the LinearOperator branch of the constructor stores     *)
(* them as given (Lazy = TRUE).                                            *)
(*                                                                         *)
(* DECLARATIVE: d[idx] raises iff indexing a tensor of the distribution's  *)
(* shape raises; otherwise it denotes the variables Sem[idx], i.e. its     *)
(* mean labels are Bc(mean)[idx] and its covariance rows Bc(crow)[idx].    *)
(*                                                                         *)
(* CODE-SHAPED: GetItem transcribes __getitem__ branch by branch (ellipsis *)
(* filter, batch-only, int-last, slice-last, ellipsis-last, tensor-last).  *)
(* Variant = "pinned" is the code as found, "fixed" a repaired one (see    *)
(* the constant); checks/c10.py reports which of the two the tree matches. *)
(*                                                                         *)
(* DOMAIN: the index forms of PyIndex.tla (at most one ellipsis - torch    *)
(* tolerates several, numpy does not; index tensors 1-d and adjacent;      *)
(* positive steps).  Index tensors in batch positions have distinct        *)
(* entries.  The branch "Multiple ambiguous ellipsis" of the code is only  *)
(* reachable with two or more ellipses and is therefore outside.           *)
(***************************************************************************)
EXTENDS MVNShapes, TLC

CONSTANT Configs,     \* set of [n, mb, cb, lazy, sdiag, fam, steps]: the configurations one TLC run enumerates
         Variant      \* "pinned": the code as found (LinearOperator constructor branch stores mean / covariance as given;
                      \*           zipped index tensors pair columns with the wrong batch element)
                      \* "fixed" : the constructor expands both to the batch shape; the zipped branch masks by batch element

VARIABLE cfg          \* the configuration of this behaviour (chosen in Init, never changes)

N         == cfg.n        \* event size
MeanBatch == cfg.mb       \* batch shape of the stored mean, e.g. <<>>, <<2>>, <<2, 2>>
CovBatch  == cfg.cb       \* batch shape of the stored covariance
Lazy      == cfg.lazy     \* BOOLEAN: LinearOperator constructor branch (nothing is expanded)
StartDiag == cfg.sdiag    \* BOOLEAN: the covariance is a DiagLinearOperator (all variables independent)
IdxFamily == cfg.fam      \* family of index expressions of the first step
MaxSteps  == cfg.steps    \* chain length

VARIABLES d,      \* [mean, crow, diag, colsok, err]
          sem,    \* [mean, crow, id]: declarative side, expanded to the distribution's full shape; id = identity of the variable
          steps,
          last,
          hist    \* <<[idx, br, err, shape, labels, clabels, ids]>>: inputs and DECLARATIVE expectation of each step

vars == <<cfg, d, sem, steps, last, hist>>

\* ---- representation -----------------------------------------------------------------------------
MkErr == [mean |-> Err, crow |-> Err, diag |-> FALSE, colsok |-> TRUE, err |-> TRUE]
Mk(mean, crow, dg, cok) ==
  IF mean.err \/ crow.err THEN MkErr ELSE [mean |-> mean, crow |-> crow, diag |-> dg, colsok |-> cok, err |-> FALSE]

Base == 100
OrigBatch(v) == (v - Base) \div N              \* original batch element of the variable with identity v (sem.id)
Indep(u, v) == u # v /\ (StartDiag \/ OrigBatch(u) # OrigBatch(v))

\* shape of the distribution x: batch = broadcast of the two stored batch shapes, event = last dim of the mean
DistShape(x) ==
  LET mb == SubSeq(x.mean.shape, 1, Len(x.mean.shape) - 1)
      cb == SubSeq(x.crow.shape, 1, Len(x.crow.shape) - 1)
  IN BShape(mb, cb) \o <<x.mean.shape[Len(x.mean.shape)]>>

\* the representation x denotes the variables s (s.mean, s.crow expanded label tensors of equal shape)
Denotes(x, s) ==
  /\ x.colsok
  /\ Len(x.mean.shape) = 0 =>                      \* 0-d result: a single variable
        /\ s.mean.shape = <<>> /\ x.mean.data = s.mean.data
        /\ Prod(x.crow.shape) = 1 /\ x.crow.data = s.crow.data
  /\ Len(x.mean.shape) > 0 =>
        /\ Len(x.crow.shape) > 0
        /\ x.crow.shape[Len(x.crow.shape)] = x.mean.shape[Len(x.mean.shape)]
        /\ DistShape(x) = s.mean.shape
        /\ BcastTo(x.mean, s.mean.shape).data = s.mean.data
        /\ BcastTo(x.crow, s.mean.shape).data = s.crow.data

\* ---- code-shaped __getitem__ ----------------------------------------------------------------------
FilterEll(idx) == SelectSeq(idx, LAMBDA it : it.k # "ell")
HasList(items) == \E i \in DOMAIN items : items[i].k = "list"

\* rows of a tensor (last dimension) contain a repeated label
HasDupRow(T) ==
  LET m == IF T.shape = <<>> THEN 1 ELSE T.shape[Len(T.shape)]
  IN \E r \in 0..((Len(T.data) \div m) - 1) : \E p, q \in 1..m : p < q /\ T.data[r * m + p] = T.data[r * m + q]

\* zipped index tensors in batch positions together with an index tensor in the last position:
\* lazy_covariance_matrix[(*rest, last, :)][..., last] pairs the columns of element k with the batch entry of element k.
\* The columns follow the rows only if all zipped batch entries coincide.
ZipBatchConstant(rest, shp) ==
  LET L == {i \in DOMAIN rest : rest[i].k = "list"}
      Nrm(i, j) == LET q == rest[i].v e == IF Len(q) = 1 THEN q[1] ELSE q[j] IN NormInt(shp[i], e)
      m == CHOOSE k \in {Len(rest[i].v) : i \in L} : \A i \in L : Len(rest[i].v) <= k
  IN \A i \in L : \A j, k \in 1..m : (Len(rest[i].v) = 1) \/ Nrm(i, j) = Nrm(i, k)

Branch(x, idx0) ==
  LET rank == Len(x.mean.shape)
      filt == Len(idx0) > rank /\ NumEll(idx0) > 0
      idx  == IF filt THEN FilterEll(idx0) ELSE idx0
  IN IF filt /\ Len(idx) < rank THEN "multi-ellipsis"
     ELSE IF idx = <<>> THEN "empty"
     ELSE IF Len(idx) <= rank - 1 /\ NumEll(SubSeq(idx, 1, Len(idx) - 1)) = 0 THEN "batch-only"
     ELSE IF Len(idx) > rank THEN "too-many"
     ELSE LET lst == idx[Len(idx)]
          IN IF lst.k = "int" THEN "int-last" ELSE IF lst.k = "slice" THEN "slice-last"
             ELSE IF lst.k = "ell" THEN "ellipsis-last"
             ELSE IF HasList(SubSeq(idx, 1, Len(idx) - 1)) THEN "tensor-last-zipped" ELSE "tensor-last"

GetItem(x, idx0) ==
  LET rank == Len(x.mean.shape)
      filt == Len(idx0) > rank /\ NumEll(idx0) > 0
      idx  == IF filt THEN FilterEll(idx0) ELSE idx0              \* "if len(idx) > self.mean.dim() and Ellipsis in idx"
      br   == Branch(x, idx0)
  IN IF br \in {"multi-ellipsis", "empty", "too-many"} THEN MkErr
     ELSE
       LET newMean == TIndex(x.mean, idx)                          \* new_mean = self.mean[idx]  (raises first)
           rest == SubSeq(idx, 1, Len(idx) - 1)
           lst  == idx[Len(idx)]
       IN IF newMean.err THEN MkErr
          ELSE CASE br = "batch-only"    -> Mk(newMean, TIndex(x.crow, idx), x.diag, x.colsok)
                 [] br = "int-last"      -> Mk(newMean, TIndex(x.crow, rest \o <<lst>>), TRUE, TRUE)      \* DiagLinearOperator(diag[(*rest, last)])
                 [] br = "slice-last"    -> Mk(newMean, TIndex(x.crow, rest \o <<lst>>), x.diag, x.colsok) \* cov[(*rest, last, last)]
                 [] br = "ellipsis-last" -> Mk(newMean, TIndex(x.crow, rest), x.diag, x.colsok)             \* cov[rest]
                 [] br = "tensor-last"   -> Mk(newMean, TIndex(x.crow, rest \o <<lst>>), FALSE, x.colsok)   \* cov[(*rest, last, :)][..., last]
                 [] br = "tensor-last-zipped" ->
                      LET ok == ZipBatchConstant(rest, x.crow.shape)
                      IN IF Variant = "fixed" THEN Mk(newMean, TIndex(x.crow, rest \o <<lst>>), FALSE, TRUE)
                         ELSE IF ok /\ HasDupRow(newMean) THEN MkErr    \* the result is a plain Tensor: torch's constructor factorises it
                         ELSE Mk(newMean, TIndex(x.crow, rest \o <<lst>>), FALSE, ok)

\* ---- declarative side ---------------------------------------------------------------------------------
SemIndex(s, idx) ==
  LET m == TIndex(s.mean, idx) c == TIndex(s.crow, idx) i == TIndex(s.id, idx)
  IN [mean |-> m, crow |-> c, id |-> i, err |-> m.err]

\* ---- index expressions enumerated -----------------------------------------------------------------------
Sl(a, b, s) == [k |-> "slice", a |-> a, b |-> b, s |-> s]
I(v) == [k |-> "int", v |-> v]
\* (the extra field keeps TLC from comparing an int record with a list record field by field: `v` is an integer in one and
\*  a sequence in the other, and TLC refuses to compare those)
Li(q) == [k |-> "list", v |-> q, t |-> TRUE]
Ell == [k |-> "ell"]
Bound(n) == {NoneI} \cup (-(n + 2))..(n + 2)
Slices(n) == {Sl(a, b, s) : a \in Bound(n), b \in Bound(n), s \in {NoneI, 1, 2, 3}}
FewSlices(n) == {Sl(a, b, s) : a \in {NoneI, -1, 1}, b \in {NoneI, -1, n + 1}, s \in {NoneI, 2}}
Ints(n) == {I(i) : i \in (-(n + 1))..n}
IdxLists(n) == {Li(q) : q \in UNION {[1..m -> (-n)..(n - 1)] : m \in 1..2}}
FewLists(n) == {Li(<<0>>), Li(<<-1>>), Li(<<n - 1, 0>>), Li(<<0, 0>>), Li(<<-1, -n>>), Li(<<n>>)}

\* items for a batch dimension of size 2; index tensors in batch positions have pairwise distinct entries (a repeated
\* batch element would be "the same variable twice" for the labels but "two independent replicas" for batch semantics)
BInts == {I(0), I(-1), I(2)}
BSlices == {Full, Sl(1, NoneI, NoneI), Sl(NoneI, -1, NoneI), Sl(NoneI, NoneI, 2), Sl(5, 7, NoneI)}
BLists == {Li(<<1>>), Li(<<1, 0>>), Li(<<0, -1>>), Li(<<2>>)}
BItems == BInts \cup BSlices \cup BLists
BFew == {I(-1), Full, Sl(1, NoneI, NoneI), Li(<<1, 0>>)}

RECURSIVE Tuples(_, _)
Tuples(S, k) == IF k = 0 THEN {<<>>} ELSE {Append(t, e) : t \in Tuples(S, k - 1), e \in S}

\* a sequence with Ell inserted at position p (0 = front)
Ins(q, p) == SubSeq(q, 1, p) \o <<Ell>> \o SubSeq(q, p + 1, Len(q))
\* index tensors must sit in adjacent positions (PyIndex.tla defines only that form)
Adjacent(q) == LET L == {i \in DOMAIN q : q[i].k = "list"} IN \A i, j \in L : \A m \in i..j : m \in L

\* an index tensor in a batch position zipped with an index tensor in the last position (own family "ziplast")
IsZipLast(q0) == LET q == FilterEll(q0) IN Len(q) >= 2 /\ q[Len(q)].k = "list" /\ HasList(SubSeq(q, 1, Len(q) - 1))

FamilyOf(fam, b, n) ==      \* b = batch rank, n = event size
  CASE fam = "event" ->      \* everything the last dimension can take, behind trivial batch prefixes
         LET E == Ints(n) \cup Slices(n) \cup IdxLists(n) \cup {Ell}
         IN {[j \in 1..b |-> Full] \o <<e>> : e \in E} \cup {<<Ell, e>> : e \in E \ {Ell}} \cup {<<e, Ell>> : e \in Ints(IF b = 0 THEN n ELSE 2) \cup FewSlices(2)}
    [] fam = "mixed" ->      \* every batch item with a representative set of last items; batch-only prefixes
         LET E == Ints(n) \cup FewSlices(n) \cup {Li(<<0>>), Li(<<n - 1, 0>>), Li(<<0, 0>>), Li(<<-1, -n>>)} \cup {Ell}
         IN {q \in {p \o <<e>> : p \in Tuples(BItems, b), e \in E} : ~IsZipLast(q)}
            \cup UNION {Tuples(BItems, k) : k \in 1..b}
    [] fam = "ell" ->        \* ellipsis in every position, including over-long indices (the filter branch)
         LET E == {I(0), I(-1), I(n), Sl(1, NoneI, NoneI), Sl(NoneI, NoneI, 2), Li(<<n - 1, 0>>), Li(<<0, 0>>)}
             base == UNION {{p \o <<e>> : p \in Tuples(BFew, k), e \in E \cup BFew} : k \in 0..(b + 1)}
         IN {q \in UNION {{Ins(q0, p) : p \in 0..Len(q0)} : q0 \in base} : Adjacent(q) /\ ~IsZipLast(q)}
    [] fam = "ziplast" ->    \* index tensors in batch positions zipped with an index tensor in the last position
         LET BL == {Li(<<0>>), Li(<<1>>), Li(<<1, 0>>), Li(<<0, -1>>)}
             EL == {Li(<<0>>), Li(<<n - 1, 0>>), Li(<<0, 0>>), Li(<<-1, -n>>), Li(<<0, n - 1>>)}
         IN IF b = 0 THEN {}
            ELSE {p \o <<t, e>> : p \in Tuples({I(0), Full}, b - 1), t \in BL, e \in EL}
                 \cup (IF b = 2 THEN {<<s, t, e>> : s \in BL, t \in BL, e \in EL} ELSE {})
                 \cup {<<Ell, t, e>> : t \in BL, e \in EL}
    [] fam = "small" ->      \* later links of a chain d[i][j]...
         {[j \in 1..b |-> Full] \o <<e>> : e \in Ints(n) \cup FewSlices(n) \cup FewLists(n) \cup {Ell}}
            \cup {q \in {p \o <<e>> : p \in Tuples(BFew, b), e \in {I(0), I(-1), Sl(1, NoneI, NoneI), Li(<<0, 0>>)}} : ~IsZipLast(q)}
            \cup (UNION {Tuples(BFew, k) : k \in 1..b})
            \cup {<<Ell, e>> : e \in {I(-1), Sl(NoneI, -1, NoneI)}}

\* offered for the shape of the DISTRIBUTION (what a user sees), not of the stored tensors
Offers(x) ==
  LET r == Len(sem.mean.shape)
  IN IF r = 0 \/ Len(x.mean.shape) = 0 THEN {}
     ELSE IF steps = 0 THEN FamilyOf(IdxFamily, r - 1, sem.mean.shape[r])
     ELSE FamilyOf("small", r - 1, sem.mean.shape[r])

\* ---- machine -----------------------------------------------------------------------------------------------
DistBatch == BShape(MeanBatch, CovBatch)
StoredMean == Iota(MeanBatch \o <<N>>, Base)
StoredCrow == Iota(CovBatch \o <<N>>, Base)
SemStart == [mean |-> BcastTo(StoredMean, DistBatch \o <<N>>), crow |-> BcastTo(StoredCrow, DistBatch \o <<N>>),
             id |-> Iota(DistBatch \o <<N>>, Base), err |-> FALSE]

Start == IF Lazy /\ Variant = "pinned" THEN Mk(StoredMean, StoredCrow, StartDiag, TRUE)
         ELSE Mk(SemStart.mean, SemStart.crow, StartDiag, TRUE)         \* torch's constructor expands loc and covariance

Init == cfg \in Configs /\ d = Start /\ sem = SemStart /\ steps = 0 /\ last = <<>> /\ hist = <<>>

Index(idx) ==
  /\ steps < MaxSteps /\ ~d.err /\ ~sem.err
  /\ cfg' = cfg
  /\ d' = GetItem(d, idx)
  /\ sem' = SemIndex(sem, idx)
  /\ steps' = steps + 1
  /\ last' = idx
  /\ hist' = Append(hist, [idx |-> idx, br |-> Branch(d, idx), err |-> sem'.err, shape |-> sem'.mean.shape,
                           labels |-> sem'.mean.data, clabels |-> sem'.crow.data, ids |-> sem'.id.data])

Next == \E idx \in Offers(d) : Index(idx)

Spec == Init /\ [][Next]_vars

\* ---- properties ------------------------------------------------------------------------------------------------
\* d[idx] raises iff indexing the distribution's shape raises
RaisesIff == d.err <=> sem.err

\* the covariance rows (and columns) are those of the selected variables, in the order of the new mean
Consistent == (~d.err /\ ~sem.err) => Denotes(d, sem)

\* a result stored as DiagLinearOperator claims zero covariance between different positions: justified only if they
\* hold independent variables
DiagJustified ==
  (~d.err /\ ~sem.err /\ d.diag /\ Len(sem.crow.shape) > 0) =>
     LET m == sem.crow.shape[Len(sem.crow.shape)]
     IN \A r \in 0..((Len(sem.crow.data) \div Max(m, 1)) - 1) : \A p, q \in 1..m :
           p # q => Indep(sem.id.data[r * m + p], sem.id.data[r * m + q])

\* each step: raises iff plain indexing of the distribution's shape raises, otherwise the mean is the indexed mean
MeanIsIndexedMean ==
  [][ steps' = steps + 1 =>
        LET e == TIndex(sem.mean, last')
        IN /\ d'.err <=> e.err
           /\ ~e.err => /\ CanBcast(d'.mean.shape, e.shape)
                        /\ BcastTo(d'.mean, e.shape).data = e.data ]_vars

=============================================================================
