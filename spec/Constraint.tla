----------------------------- MODULE Constraint -----------------------------
(***************************************************************************)
(* Property C17: a constrained parameter of a gpytorch Module (raw_<p>     *)
(* stored, <p> = constraint.transform(raw_<p>) read) under the public      *)
(* operations that can change it.                                          *)
(*                                                                         *)
(* VALUES.  An abstract, totally ordered grid V = 0..12 (NaN = 13 is       *)
(* outside the order).  Even points are (candidate) bounds, odd points and *)
(* 6 are the gaps between them:                                            *)
(*    0 = -inf   1   2 = L1   3   4 = L2   5   6 = mid   7   8 = H2   9     *)
(*    10 = H1   11   12 = +inf                                             *)
(* A constraint is [lo, hi, iv, tf] with lo in {0,2,4}, hi in {8,10,12}:   *)
(* lo = 0 is LessThan, hi = 12 is GreaterThan (Positive = GreaterThan whose *)
(* concrete L is 0), otherwise Interval.  The replay realises every grid   *)
(* point by a family of floats (bounds exactly; gaps by midpoints, 1 ulp   *)
(* next to either neighbour, +-1e-300, +-1e300), also elementwise for      *)
(* tensor-valued bounds.                                                   *)
(*                                                                         *)
(* Two machines side by side.                                              *)
(*  - CODE-SHAPED: `con` (module._constraints[raw_p_constraint]) and `raw` *)
(*    (the Parameter), changed exactly as the code does it:                *)
(*      p setter / _set_p       = initialize(raw_p = con.inverse_transform(v)) *)
(*      initialize(raw_p = r)   = `if not con.check_raw(r): raise` ; copy_  *)
(*      initialize(p = v), also by dotted path = setattr -> the setter     *)
(*      sample_from_prior(n)    = setting_closure(self, prior.sample()) -> _set_p *)
(*      register_constraint     = replace | new.intersect(old); then       *)
(*                                initialize(raw_p = new.initial_value)    *)
(*      load_state_dict         = the bounds are BUFFERS of the constraint: *)
(*                                the saved bounds are copied into the      *)
(*                                existing constraint object (its transform *)
(*                                and class stay), the saved raw value into *)
(*                                the Parameter                             *)
(*      con.lower_bound = t     = buffer assignment / in-place copy_ / fill_ *)
(*      .double() / .to() / .float().double() = Interval._apply on the bounds *)
(*      copy.deepcopy / pickle  = the history continues on the copy         *)
(*    After each of them `con` holds the bounds the constraint's attributes *)
(*    and the module's state_dict now REPORT, and every property below is   *)
(*    stated against these CURRENT bounds.                                  *)
(*    The transforms enter only through their CONTRACT (below).            *)
(*  - SEMANTIC (what C17 states): `allowed`, the value a read must return  *)
(*    (a grid point, or AnyV = anywhere in the closed interval), and for    *)
(*    every assignment `sem`: 1 must be accepted (strictly inside), 0 must *)
(*    be rejected (outside, NaN), 2 undetermined by the property (exactly  *)
(*    a bound, an infinite or saturating raw value, intersect) - there the *)
(*    semantic machine follows the outcome.                                *)
(* Properties: InBounds, Agree, ContractNow, SetThenRead, RejectIffOutside, *)
(* RawInitChecked, LoadRestores, BoundsFollow.                             *)
(***************************************************************************)
EXTENDS Integers, Sequences, FiniteSets, TLC

CONSTANTS Cons,            \* sequence of constraint records; Cons[1] is the one the module is constructed with
          SetV,            \* values offered to the property setter
          RawA,            \* arguments of initialize(raw_p = .): -1 = -inf, 1 / 2 / 3 = very negative / moderate / very
                           \* positive finite number, 9 = +inf, 13 = NaN
          NameA,           \* <<v, path>> for initialize(p = v): path 0 = on the owner, 1 = dotted path from the root
          OptK,            \* finite raw classes an optimiser step can move to
          RegA,            \* <<i, replace>>: register_constraint(raw_p, Cons[i], replace = (replace = 1))
          SampV,           \* classes a registered prior is concentrated on (sample_from_prior)
          LoadA,           \* <<i, v>>: load_state_dict from a model of the same architecture whose constraint has the
                           \* bounds of Cons[i] and whose parameter was set to v (v = AnyV: left at its raw default)
          BoundA,          \* <<side, b>>: the lower (side = 0) / upper (side = 1) bound buffer is assigned grid point b
          ConvA,           \* 0 = .double() / .to(float64) / .cpu() (identity on float64 state), 1 = .float().double()
          CopyA,           \* 0 = copy.deepcopy of the module, 1 = pickle round trip; the history continues on the copy
          ClosV,           \* values handed to the prior's setting closure directly
          MaxLen, RecordHist,
          IntersectRaises  \* code-shaped: Interval.intersect compares bound methods, which are never equal

VARIABLES con, raw, allowed, last, hist
vars == <<con, raw, allowed, last, hist>>

NaN  == 13
NInf == 0
PInf == 12
AnyV  == 99          \* allowed = AnyV: the property only requires the closed interval
NoIV == 99
V    == 0..12

\* ---- constraints ----------------------------------------------------------------------------
Inside(c, v)   == v # NaN /\ c.lo <= v /\ v <= c.hi
Interior(c, v) == v # NaN /\ c.lo < v /\ v < c.hi
Range(c)       == c.lo..c.hi
\* what C17 says about assigning v under c
Sem(c, v)      == IF Interior(c, v) THEN 1 ELSE IF v \in {c.lo, c.hi} THEN 2 ELSE 0

KindOf(c) == IF c.lo = NInf THEN "LT" ELSE IF c.hi = PInf THEN "GT" ELSE "IV"

\* ---- raw values and the transform contract -----------------------------------------------------
\* raw is one of  [k |-> "inv", v |-> x]  the finite number con.inverse_transform(x), x strictly inside
\*                [k |-> "fin", v |-> j]  some other finite number (j = 1 very negative, 2 moderate, 3 very positive)
\*                [k |-> "ninf"|"pinf"|"nan", v |-> 0]
R(k, v) == [k |-> k, v |-> v]
Finite(r) == r.k \in {"inv", "fin"}

\* inverse_transform: inverse on the interior, -inf / +inf at the bounds, NaN outside (log of a negative number)
Inv(c, v) ==
  IF ~Inside(c, v) THEN R("nan", 0)
  ELSE IF v = c.lo THEN R("ninf", 0)
  ELSE IF v = c.hi THEN R("pinf", 0)
  ELSE R("inv", v)

\* transform, as the set of values the contract permits: monotone, range inside [lo, hi], saturating
T(c, r) ==
  CASE r.k = "nan"  -> {NaN}
    [] r.k = "ninf" -> {c.lo}
    [] r.k = "pinf" -> {c.hi}
    [] r.k = "inv"  -> {r.v}
    [] r.k = "fin"  -> Range(c)

CheckRaw(c, r) == \A x \in T(c, r) : Inside(c, x)

\* a raw value keeps its place on the real line when the constraint object is exchanged
Rebase(r) == IF r.k = "inv" THEN R("fin", 2) ELSE r

\* the contract, on a representative monotone transform of c: raw points -1 (= -inf), lo+1..hi-1, 14 (= +inf)
RawPts(c)  == {-1, 14} \cup {x \in V : Interior(c, x)}
TRep(c, x) == IF x = -1 THEN c.lo ELSE IF x = 14 THEN c.hi ELSE x
IRep(c, v) == IF v = c.lo THEN -1 ELSE IF v = c.hi THEN 14 ELSE v
Monotone(c)          == \A x, y \in RawPts(c) : x <= y => TRep(c, x) <= TRep(c, y)
RangeClosed(c)       == \A x \in RawPts(c) : Inside(c, TRep(c, x))
InverseOnInterior(c) == \A v \in V : Interior(c, v) => TRep(c, IRep(c, v)) = v
ContractOf(c) == Monotone(c) /\ RangeClosed(c) /\ InverseOnInterior(c)
Contract == \A i \in 1..Len(Cons) : ContractOf(Cons[i])

\* ---- bookkeeping ------------------------------------------------------------------------------
OpNo(op) == CASE op = "Set" -> 1 [] op = "InitRaw" -> 2 [] op = "ByName" -> 3 [] op = "OptStep" -> 4
              [] op = "Register" -> 5 [] op = "Sample" -> 6 [] op = "Closure" -> 7
              [] op = "Load" -> 8 [] op = "Bound" -> 9 [] op = "Convert" -> 10 [] op = "Copy" -> 11
Setters == {"Set", "ByName", "Sample", "Closure"}
B(x) == IF x THEN 1 ELSE 0

Room == RecordHist => Len(hist) < MaxLen
\* history entry: <<op, a, b, sem, acc (outcome the code-shaped machine takes), allowed', lo', hi'>>
Rec(op, a, b, sem, acc, al, c) ==
  /\ last' = [op |-> op, v |-> a, b |-> IF op = "Load" THEN b ELSE 0, sem |-> sem, acc |-> acc]
  /\ hist' = IF RecordHist THEN Append(hist, <<OpNo(op), a, b, sem, B(acc), al, c.lo, c.hi>>) ELSE hist

Init ==
  /\ con = Cons[1]
  /\ raw = IF Cons[1].iv = NoIV THEN R("fin", 2) ELSE Inv(Cons[1], Cons[1].iv)     \* register_constraint in __init__
  /\ allowed = IF Cons[1].iv = NoIV THEN AnyV ELSE Cons[1].iv
  /\ last = [op |-> "Init", v |-> 0, b |-> 0, sem |-> 1, acc |-> TRUE]
  /\ hist = <<>>

\* module.initialize(raw_p = r): the bound check of Module.initialize, then copy_
InitializeRaw(r) == IF CheckRaw(con, r) THEN raw' = r ELSE raw' = raw

\* every route that ends in the setter: initialize(raw_p = con.inverse_transform(v))
Assign(op, v, b) ==
  /\ Room
  /\ LET r   == Inv(con, v)
         ok  == CheckRaw(con, r)
         sem == Sem(con, v)
         al  == IF sem = 1 \/ (sem = 2 /\ ok) THEN v ELSE allowed
     IN /\ InitializeRaw(r)
        /\ allowed' = al
        /\ Rec(op, v, b, sem, ok, al, con)
  /\ con' = con

Set(v)       == Assign("Set", v, 0)
ByName(v, p) == Assign("ByName", v, p)
Sample(v)    == Assign("Sample", v, 0)
Closure(v)   == Assign("Closure", v, 0)

RawOf(a) == CASE a = -1 -> R("ninf", 0) [] a = 9 -> R("pinf", 0) [] a = NaN -> R("nan", 0) [] OTHER -> R("fin", a)

InitRaw(a) ==
  /\ Room
  /\ LET r   == RawOf(a)
         ok  == CheckRaw(con, r)
         sem == IF a = NaN THEN 0 ELSE IF a = 2 THEN 1 ELSE 2     \* infinite and saturating raw values land exactly on a bound
         al  == IF sem = 1 \/ (sem = 2 /\ ok) THEN AnyV ELSE allowed
     IN /\ InitializeRaw(r)
        /\ allowed' = al
        /\ Rec("InitRaw", a, 0, sem, ok, al, con)
  /\ con' = con

\* an optimiser step adds a finite number to raw: finite values move anywhere, infinite ones stay
OptStep(k) ==
  /\ Room
  /\ raw' = IF Finite(raw) THEN R("fin", k) ELSE raw
  /\ allowed' = IF Finite(raw) THEN AnyV ELSE allowed
  /\ con' = con
  /\ Rec("OptStep", k, 0, 1, TRUE, allowed', con)

Max2(a, b) == IF a >= b THEN a ELSE b
Min2(a, b) == IF a <= b THEN a ELSE b

\* Interval.intersect: same transform required; the result is a plain Interval (sigmoid), which refuses infinite bounds
CanIntersect(c) ==
  /\ ~IntersectRaises
  /\ c.tf = con.tf
  /\ Max2(c.lo, con.lo) < Min2(c.hi, con.hi)
  /\ Max2(c.lo, con.lo) # NInf /\ Min2(c.hi, con.hi) # PInf

Register(i, rep) ==
  /\ Room
  /\ LET c == Cons[i] IN
       IF rep = 1 THEN
         /\ con' = c
         /\ raw' = IF c.iv = NoIV THEN Rebase(raw) ELSE Inv(c, c.iv)        \* initial_value is stored as a raw value
         /\ allowed' = IF c.iv = NoIV THEN AnyV ELSE c.iv
         /\ Rec("Register", i, 1, 1, TRUE, allowed', c)
       ELSE IF CanIntersect(c) THEN
         /\ con' = [lo |-> Max2(c.lo, con.lo), hi |-> Min2(c.hi, con.hi), iv |-> NoIV, tf |-> "sigmoid"]
         /\ raw' = Rebase(raw)
         /\ allowed' = AnyV
         /\ Rec("Register", i, 0, 2, TRUE, AnyV, con')
       ELSE
         /\ UNCHANGED <<con, raw, allowed>>
         /\ Rec("Register", i, 0, 2, FALSE, allowed, con)

\* ---- operations that change the BOUNDS of the existing constraint object ---------------------------
\* module.load_state_dict(source.state_dict()): source = same architecture, its constraint has the bounds of Cons[i]
\* (same class of constraint: the class and the transform are not part of a state dict) and its parameter was
\* assigned v through the setter.  The restored parameter must read v, inside the RESTORED bounds.
LoadState(i, v) ==
  /\ Room
  /\ LET c == Cons[i]
         n == [con EXCEPT !.lo = c.lo, !.hi = c.hi, !.iv = NoIV] IN      \* (the initial value is only read at registration)
       /\ KindOf(c) = KindOf(con)
       /\ v = AnyV \/ Interior(c, v)
       /\ con' = n
       /\ raw' = IF v = AnyV THEN R("fin", 2) ELSE Inv(n, v)
       /\ allowed' = v
       /\ Rec("Load", v, i, 1, TRUE, v, n)

\* constraint.lower_bound = t / constraint.upper_bound = t (also in place): the raw value keeps its place on the real
\* line, an infinite raw value keeps reading the (new) bound
AssignBound(side, b) ==
  /\ Room
  /\ LET n == IF side = 0 THEN [con EXCEPT !.lo = b, !.iv = NoIV] ELSE [con EXCEPT !.hi = b, !.iv = NoIV] IN
       /\ (IF side = 0 THEN b # con.lo ELSE b # con.hi) /\ n.lo < n.hi /\ KindOf(n) = KindOf(con)
       /\ con' = n
       /\ raw' = Rebase(raw)
       /\ allowed' = AnyV
       /\ Rec("Bound", side, b, 1, TRUE, AnyV, n)

\* dtype / device conversion: the identity on float64 state (k = 0); through float32 and back (k = 1) bounds and raw
\* value are rounded - the bounds the attributes report afterwards are the current ones
Convert(k) ==
  /\ Room
  /\ con' = con
  /\ raw' = IF k = 1 THEN Rebase(raw) ELSE raw
  /\ allowed' = IF k = 1 THEN AnyV ELSE allowed
  /\ Rec("Convert", k, 0, 1, TRUE, allowed', con)

Copy(k) ==
  /\ Room
  /\ UNCHANGED <<con, raw, allowed>>
  /\ Rec("Copy", k, 0, 1, TRUE, allowed, con)

Next ==
  \/ \E v \in SetV  : Set(v)
  \/ \E a \in RawA  : InitRaw(a)
  \/ \E n \in NameA : ByName(n[1], n[2])
  \/ \E k \in OptK  : OptStep(k)
  \/ \E g \in RegA  : Register(g[1], g[2])
  \/ \E v \in SampV : Sample(v)
  \/ \E v \in ClosV : Closure(v)
  \/ \E g \in LoadA  : LoadState(g[1], g[2])
  \/ \E g \in BoundA : AssignBound(g[1], g[2])
  \/ \E k \in ConvA  : Convert(k)
  \/ \E k \in CopyA  : Copy(k)

Spec == Init /\ [][Next]_vars

\* ---- properties -------------------------------------------------------------------------------
TypeOK ==
  /\ con.lo \in {0, 2, 4} /\ con.hi \in {8, 10, 12} /\ con.lo < con.hi
  /\ raw.k \in {"inv", "fin", "ninf", "pinf", "nan"}
  /\ allowed \in V \cup {AnyV}

\* the value read back is inside the closed interval in every reachable state
InBounds == \A x \in T(con, raw) : Inside(con, x)

\* the transform contract holds for the CURRENT bounds, however they were reached
ContractNow == ContractOf(con)

\* the code-shaped machine reads what the property says must be read
Agree == allowed # AnyV => T(con, raw) = {allowed}

\* after an accepted assignment of v the value read is v
SetThenRead == [][ (last'.op \in Setters /\ last'.acc) => T(con', raw') = {last'.v} ]_vars

\* an assignment is rejected iff v is outside the closed interval or not a number (exact bounds: either);
\* a rejected assignment leaves the state unchanged
RejectIffOutside ==
  [][ last'.op \in Setters =>
        /\ (last'.sem = 1 => last'.acc)
        /\ (last'.sem = 0 => ~last'.acc)
        /\ (~last'.acc => raw' = raw /\ con' = con /\ allowed' = allowed) ]_vars

\* a restored parameter reads the value that was saved, and the bounds are the saved ones
LoadRestores ==
  [][ last'.op = "Load" =>
        /\ con'.lo = Cons[last'.b].lo /\ con'.hi = Cons[last'.b].hi /\ con'.tf = con.tf
        /\ (last'.v # AnyV => T(con', raw') = {last'.v}) ]_vars

\* changing the bounds, converting and copying never move the value out of the current interval and keep a
\* saturated parameter on the (current) bound
BoundsFollow ==
  [][ last'.op \in {"Bound", "Convert", "Copy"} =>
        /\ (raw.k = "ninf" => T(con', raw') = {con'.lo})
        /\ (raw.k = "pinf" => T(con', raw') = {con'.hi})
        /\ (last'.op = "Copy" \/ (last'.op = "Convert" /\ last'.v = 0) => T(con', raw') = T(con, raw)) ]_vars

\* initialize(raw_p = NaN) is rejected, finite raw values are accepted
RawInitChecked == [][ last'.op = "InitRaw" => /\ (last'.sem = 1 => last'.acc) /\ (last'.sem = 0 => ~last'.acc /\ raw' = raw) ]_vars

ASSUME ContractHolds == Contract
=============================================================================
