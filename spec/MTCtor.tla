------------------------------- MODULE MTCtor -------------------------------
(***************************************************************************)
(* The constructors of MultitaskMultivariateNormal (property C11:          *)
(* "from_batch_mvn, from_independent_mvns and from_repeated_mvn produce    *)
(* the joint distribution of independent tasks with the stated task        *)
(* dimension", for all batch shapes and task_dim values).                  *)
(*                                                                         *)
(* DENOTATION.  The sources are (batches of) MVNs over n points; source s  *)
(* has batch shape shapes[s] and its batch members are numbered row-major  *)
(* 0, 1, ...  The result is a batch (shape C) of joint distributions over  *)
(* n x t (point, task) pairs; it is fully described by                     *)
(*     SrcOf(g, a) = <<s, f>> :  task a of result member g (row-major      *)
(*                               number in C) IS member f of source s,     *)
(* i.e.  mean[g, i, a] = mean_s[f, i],                                     *)
(*       Cov((g; i, a), (g; j, b)) = IF a = b THEN K_s[f][i, j] ELSE 0.    *)
(* SrcOf is written with explicit index arithmetic (digits of g in C and   *)
(* strides of the source shape), one formula per constructor.              *)
(*                                                                         *)
(* CODE-SHAPED.  The literal permute / expand / stack calls of the code on *)
(* labelled tensors (Permute, ExpandTo, StackLast below are torch's        *)
(* semantics for any rank).  Variant = "fixed" is the code with the        *)
(* repaired range check of task_dim; "pinned" accepts task_dim = rank (off *)
(* by one, prediction); "swap" moves the task dimension of the mean with   *)
(* two transposes instead of a permutation (the class of slips that keep   *)
(* the three test patterns of the repository right; prediction: TLC must   *)
(* find a violation on this lattice, which shows the lattice separates a   *)
(* move from a swap).                                                      *)
(*                                                                         *)
(* Every initial state is one case; `hist` carries the inputs and the      *)
(* DECLARATIVE expectation for the replay into the real constructors.      *)
(***************************************************************************)
EXTENDS PyIndex, TLC

CONSTANTS MaxRank,      \* largest batch rank handed to from_batch_mvn
          FullRank,     \* up to this rank EVERY shape over 1..MaxSize is a case
          MaxSize,
          DistinctLo,   \* above FullRank: all shapes over 1..2 and all orders of DistinctLo..DistinctLo+rank-1
          IndepRank,    \* largest (broadcast) batch rank of from_independent_mvns
          NSet, TSet,   \* numbers of points; numbers of tasks of from_repeated_mvn / from_independent_mvns
          Variant       \* "fixed" | "pinned" | "swap"

VARIABLES c, hist
vars == <<c, hist>>

\* ---- torch tensor primitives on labelled tensors, any rank ---------------------------------
Digit(shape, k, p) == (p \div Stride(shape, k)) % shape[k]     \* k-th (1-based) row-major digit of position p (0-based)

RECURSIVE SumTo(_, _)
SumTo(f, m) == IF m = 0 THEN 0 ELSE f[m] + SumTo(f, m - 1)      \* f[1] + ... + f[m]

\* X.permute(perm): result dimension k is source dimension perm[k] (dimensions 1-based here)
Permute(X, perm) ==
  LET rs == [k \in 1..Len(perm) |-> X.shape[perm[k]]]
      Src(p) == SumTo([k \in 1..Len(perm) |-> Digit(rs, k, p) * Stride(X.shape, perm[k])], Len(perm))
  IN [shape |-> rs, data |-> [p \in 1..Prod(rs) |-> X.data[Src(p - 1) + 1]], err |-> FALSE]

Transpose(X, i, j) == Permute(X, [k \in 1..Len(X.shape) |-> IF k = i THEN j ELSE IF k = j THEN i ELSE k])

\* X.expand(shape): right-aligned, size-1 and missing leading dimensions are repeated
ExpandTo(X, shape) ==
  LET off == Len(shape) - Len(X.shape)
      Src(p) == SumTo([k \in 1..Len(X.shape) |-> (IF X.shape[k] = 1 THEN 0 ELSE Digit(shape, k + off, p)) * Stride(X.shape, k)], Len(X.shape))
  IN [shape |-> shape, data |-> [p \in 1..Prod(shape) |-> X.data[Src(p - 1) + 1]], err |-> FALSE]

\* torch.stack(Xs, -1) of equally shaped tensors
StackLast(Xs) ==
  LET m == Len(Xs) sh == Xs[1].shape
  IN [shape |-> sh \o <<m>>, data |-> [p \in 1..(Prod(sh) * m) |-> Xs[((p - 1) % m) + 1].data[((p - 1) \div m) + 1]], err |-> FALSE]

\* torch.broadcast_shapes
RECURSIVE MaxOf(_)
MaxOf(S) == LET x == CHOOSE y \in S : TRUE IN IF S = {x} THEN x ELSE Max(x, MaxOf(S \ {x}))
BroadcastShape(shapes) ==
  LET rc == MaxOf({Len(shapes[s]) : s \in DOMAIN shapes})
      At(s, k) == LET j == k - (rc - Len(shapes[s])) IN IF j >= 1 THEN shapes[s][j] ELSE 1
  IN [k \in 1..rc |-> MaxOf({At(s, k) : s \in DOMAIN shapes})]
Broadcastable(shapes) ==
  LET C == BroadcastShape(shapes)
  IN \A s \in DOMAIN shapes : \A k \in 1..Len(shapes[s]) : shapes[s][k] = 1 \/ shapes[s][k] = C[k + Len(C) - Len(shapes[s])]

RemoveAt(q, k) == SubSeq(q, 1, k - 1) \o SubSeq(q, k + 1, Len(q))

\* ---- labelled sources ----------------------------------------------------------------------------
\* mean of source s: entry [f, i] (member f, point i) carries the label 1000 * s + f * n + i
MeanLabel(s, f, i, n) == 1000 * s + f * n + i
MeanOf(cs, s)    == Iota(cs.shapes[s] \o <<cs.n>>, 1000 * s)
MembersOf(cs, s) == Iota(cs.shapes[s], 0)                        \* member numbers in the source's own batch shape

\* ---- the denotation --------------------------------------------------------------------------------
TaskDimOK(r, d) == r >= 1 /\ -r <= d /\ d < r
TaskPos(r, d)   == (IF d < 0 THEN d + r ELSE d) + 1               \* 1-based position of the task dimension

\* from_batch_mvn: the digits of g fill the dimensions of B other than the task dimension IN ORDER, a fills the task dimension
BatchMember(B, pos, g, a) ==
  LET C == RemoveAt(B, pos)
  IN SumTo([k \in 1..Len(B) |-> (IF k < pos THEN Digit(C, k, g) ELSE IF k = pos THEN a ELSE Digit(C, k - 1, g)) * Stride(B, k)], Len(B))

\* from_independent_mvns: right-aligned broadcasting of the source's batch shape S against the common shape C
BroadcastMember(S, C, g) ==
  SumTo([k \in 1..Len(S) |-> (IF S[k] = 1 THEN 0 ELSE Digit(C, k + Len(C) - Len(S), g)) * Stride(S, k)], Len(S))

NoResult == [err |-> TRUE, bshape |-> <<>>, t |-> 0, src |-> <<>>]

\* [err, bshape = C, t, src]: src[g * t + a + 1] = <<s, f>>
Denote(cs) ==
  CASE cs.ctor = "from_batch_mvn" ->
         LET B == cs.shapes[1] r == Len(B)
         IN IF ~TaskDimOK(r, cs.td) THEN NoResult
            ELSE LET pos == TaskPos(r, cs.td) C == RemoveAt(B, pos) t == B[pos]
                 IN [err |-> FALSE, bshape |-> C, t |-> t,
                     src |-> [q \in 1..(Prod(C) * t) |-> <<1, BatchMember(B, pos, (q - 1) \div t, (q - 1) % t)>>]]
    [] cs.ctor = "from_repeated_mvn" ->
         LET E == cs.shapes[1]
         IN [err |-> FALSE, bshape |-> E, t |-> cs.t, src |-> [q \in 1..(Prod(E) * cs.t) |-> <<1, (q - 1) \div cs.t>>]]
    [] cs.ctor = "from_independent_mvns" ->
         LET t == Len(cs.shapes) C == BroadcastShape(cs.shapes)
         IN IF t < 2 \/ ~Broadcastable(cs.shapes) THEN NoResult
            ELSE [err |-> FALSE, bshape |-> C, t |-> t,
                  src |-> [q \in 1..(Prod(C) * t) |-> <<((q - 1) % t) + 1, BroadcastMember(cs.shapes[((q - 1) % t) + 1], C, (q - 1) \div t)>>]]

\* the mean tensor the result must have (shape C x n x t): mean[g, i, a] = mean_s[f, i] with <<s, f>> = src(g, a)
DenotedMean(cs) ==
  LET D == Denote(cs) n == cs.n t == D.t
  IN IF D.err THEN Err
     ELSE [shape |-> D.bshape \o <<n, t>>,
           data  |-> [p \in 1..(Prod(D.bshape) * n * t) |->
                        LET a == (p - 1) % t  i == ((p - 1) \div t) % n  g == (p - 1) \div (n * t)
                            sf == D.src[g * t + a + 1]
                        IN MeanLabel(sf[1], sf[2], i, n)],
           err |-> FALSE]

\* ---- code-shaped --------------------------------------------------------------------------------------
\* from_batch_mvn(batch_mvn, task_dim) on a mean X (shape B x n) and the member numbers M (shape B)
MoveTaskDim(X, pos, r) ==
  IF Variant = "swap" THEN Transpose(Transpose(X, pos, r), r + 1, r)        \* .transpose(task_dim, -2).transpose(-1, -2)
  ELSE Permute(X, [k \in 1..(r + 1) |-> IF k < pos THEN k ELSE IF k <= r THEN k + 1 ELSE pos])   \* permute(*range(0,td), *range(td+1,nd), td)

CodeBatch(X, M, td) ==
  LET r  == Len(M.shape)
      d0 == IF td >= 0 THEN td ELSE r + td
      bad == IF Variant = "pinned" THEN d0 < 0 \/ d0 > r ELSE d0 < 0 \/ d0 >= r
  IN IF bad THEN [err |-> TRUE, mean |-> Err, members |-> Err]
     ELSE [err |-> FALSE,
           mean |-> IF d0 = r THEN X ELSE MoveTaskDim(X, d0 + 1, r),
           \* BlockInterleavedLinearOperator(covar, block_dim=td): _permute_batch(*range(td), *range(td+1, r), td); block a of member g
           members |-> IF d0 = r THEN M ELSE Permute(M, [k \in 1..r |-> IF k < d0 + 1 THEN k ELSE IF k < r THEN k + 1 ELSE d0 + 1])]

Code(cs) ==
  CASE cs.ctor = "from_batch_mvn" -> CodeBatch(MeanOf(cs, 1), MembersOf(cs, 1), cs.td)
    [] cs.ctor = "from_repeated_mvn" ->        \* from_batch_mvn(mvn.expand([t] + batch_shape), task_dim=0)
         LET E == cs.shapes[1]
         IN CodeBatch(ExpandTo(MeanOf(cs, 1), <<cs.t>> \o E \o <<cs.n>>), ExpandTo(MembersOf(cs, 1), <<cs.t>> \o E), 0)
    [] cs.ctor = "from_independent_mvns" ->    \* expand every mvn to the broadcast batch shape, stack the means on a new last dimension
         IF Len(cs.shapes) < 2 \/ ~Broadcastable(cs.shapes) THEN [err |-> TRUE, mean |-> Err, members |-> Err]
         ELSE LET C == BroadcastShape(cs.shapes)
              IN [err |-> FALSE,
                  mean |-> StackLast([s \in DOMAIN cs.shapes |-> ExpandTo(MeanOf(cs, s), C \o <<cs.n>>)]),
                  \* BlockDiagLinearOperator(cat of the expanded covariances on a new dimension 0, block_dim=0)
                  members |-> StackLast([s \in DOMAIN cs.shapes |-> ExpandTo(MembersOf(cs, s), C)])]

\* ---- the lattice of cases ---------------------------------------------------------------------------------
Seqs(S, r) == [1..r -> S]
PairwiseDistinct(q) == \A i, j \in DOMAIN q : i # j => q[i] # q[j]
ShapesOfRank(r) ==
  IF r = 0 THEN {<<>>}
  ELSE IF r <= FullRank THEN Seqs(1..MaxSize, r) \cup {q \in Seqs(2..(r + 1), r) : PairwiseDistinct(q)}
  ELSE Seqs(1..2, r) \cup {q \in Seqs(DistinctLo..(DistinctLo + r - 1), r) : PairwiseDistinct(q)}
ShapesUpTo(lo, hi) == UNION {ShapesOfRank(r) : r \in lo..hi}

MkCase(ctor, shapes, td, t, n) == [ctor |-> ctor, shapes |-> shapes, td |-> td, t |-> t, n |-> n]

\* every position of the task dimension in both spellings, and the two nearest invalid values
BatchCases ==
  UNION {{MkCase("from_batch_mvn", <<B>>, d, 0, n) : d \in (-(Len(B) + 1))..Len(B), n \in NSet} : B \in ShapesUpTo(1, MaxRank)}

RepeatCases ==
  {MkCase("from_repeated_mvn", <<E>>, 0, t, n) : E \in ShapesUpTo(0, MaxRank - 1), t \in TSet, n \in NSet}

\* all tasks with the batch shape E, or one task (the first or the last) with a leading dimension dropped / one size set to 1
Weaker(E) == (IF Len(E) >= 1 THEN {Tail(E)} ELSE {}) \cup {[E EXCEPT ![j] = 1] : j \in {k \in DOMAIN E : E[k] > 1}}
IndepCases ==
  UNION {{MkCase("from_independent_mvns", [s \in 1..t |-> E], 0, t, n) : t \in TSet \ {1}, n \in NSet}
         \cup {MkCase("from_independent_mvns", [s \in 1..t |-> IF s = (IF first THEN 1 ELSE t) THEN W ELSE E], 0, t, n) :
                 W \in Weaker(E), first \in BOOLEAN, t \in TSet \ {1}, n \in NSet}
         : E \in ShapesUpTo(0, IndepRank)}

Cases == BatchCases \cup RepeatCases \cup IndepCases

Obs(cs) ==
  LET D == Denote(cs) M == DenotedMean(cs)
  IN [err |-> D.err, bshape |-> D.bshape, t |-> D.t, src |-> D.src, mean |-> M.data]

Init == c \in Cases /\ hist = Obs(c)
Next == UNCHANGED vars
Spec == Init /\ [][Next]_vars

\* ---- properties ---------------------------------------------------------------------------------------------
\* the constructor raises exactly when there is no denotation (task_dim names no batch dimension)
RaisesIffInvalid == Code(c).err <=> Denote(c).err

CodeMeanIsDenotation ==
  LET K == Code(c) M == DenotedMean(c)
  IN ~K.err /\ ~M.err => K.mean.shape = M.shape /\ K.mean.data = M.data

\* block a of member g of the covariance is the covariance of the source member the mean comes from
CodeCovIsDenotation ==
  LET K == Code(c) D == Denote(c)
  IN ~K.err /\ ~D.err => /\ K.members.shape = D.bshape \o <<D.t>>
                         /\ \A q \in 1..Len(D.src) : K.members.data[q] = D.src[q][2]

\* the denotation of from_batch_mvn is a re-grouping of the batch members: every source member is used exactly once,
\* and for a fixed task the result members enumerate the source members in their original (row-major) order
KeepsBatchOrder ==
  c.ctor = "from_batch_mvn" /\ ~Denote(c).err =>
     LET D == Denote(c) t == D.t nb == Prod(D.bshape)
     IN /\ {D.src[q][2] : q \in 1..(nb * t)} = 0..(Prod(c.shapes[1]) - 1)
        /\ \A a \in 0..(t - 1) : \A g \in 0..(nb - 2) : D.src[g * t + a + 1][2] < D.src[(g + 1) * t + a + 1][2]

\* the labelling has room: source s uses the labels 1000 * s .. 1000 * s + 999
LabelsFit == \A s \in DOMAIN c.shapes : Prod(c.shapes[s]) * c.n <= 1000

\* labels are unique, so every permutation of batch members, points or tasks is visible in the mean
LabelsUnique ==
  c.ctor = "from_batch_mvn" /\ ~hist.err => Cardinality({hist.mean[p] : p \in DOMAIN hist.mean}) = Len(hist.mean)
=============================================================================
