------------------------------- MODULE Interp -------------------------------
(***************************************************************************)
(* gpytorch/utils/interpolation.py  Interpolation.interpolate  (property   *)
(* C09), transcribed and evaluated exactly over rationals.                 *)
(*                                                                         *)
(* A grid is a sequence with one record per dimension,                     *)
(*   [lo |-> first node, step |-> spacing, size |-> number of nodes],      *)
(* integers, size >= 4; node j (0-based) of that dimension is lo + j*step. *)
(* A target has coordinate lo + k / Den in each dimension, k = 0 ..        *)
(* (size-1)*step*Den: the rational lattice with step 1/Den over the grid.  *)
(*                                                                         *)
(* Code, per dimension:                                                    *)
(*   u = (x - grid[0]) / (grid[1] - grid[0]); fl = floor(u); rel = u - fl  *)
(*   lower = fl - 1                       (interp_points = -2..1, max 1)   *)
(*   weights[s] = Keys(rel + flip[s]), flip = (1, 0, -1, -2)               *)
(*   lower < 0:         one-hot on the closest of the FIRST four nodes     *)
(*                      (torch.min: first minimum), lower = 0              *)
(*   lower > size - 4:  one-hot on the closest of the LAST four nodes,     *)
(*                      lower = size - 4                                   *)
(*   indices = lower + (0, 1, 2, 3)                                        *)
(* Keys' cubic convolution kernel (Keys 1981, a = -1/2), as coded:         *)
(*   |s| < 1:   ((3/2 |s| - 5/2) |s|) |s| + 1                              *)
(*   otherwise: ((-1/2 |s| + 5/2) |s| - 4) |s| + 2                         *)
(* Combination over dimensions i = 0..d-1: column col of the 4^d outputs   *)
(* uses slot (col div 4^(d-i-1)) mod 4 of dimension i (repeat / view);     *)
(* flat index = sum_i index_i * index_coeff_i with                         *)
(*   index_coeff_i = prod(sizes[i+1:])          (Order = "lex")            *)
(*   index_coeff_i = prod(sizes[:i])            (Order = "colmajor")       *)
(* value = prod_i weight_i.                                                *)
(*                                                                         *)
(* Checked for every grid in Grids and every lattice target:               *)
(*   SumToOne, InRange, ExactAtNodes, Reproduce (1, x, x^2 and the mixed   *)
(*   monomials of total degree <= 2 when the target is in the interior     *)
(*   g[1] <= x < g[size-2] of every dimension), TensorProduct.             *)
(* Sums are taken over the common denominator (2 (Den step)^3 per          *)
(* dimension) in integers: TLC integers are 32 bit.                        *)
(***************************************************************************)
EXTENDS Rational, FiniteSets, TLC

CONSTANTS Grids, Den, Order

VARIABLES c, out
vars == <<c, out>>

Flip == <<1, 0, -1, -2>>
RAbs(a) == <<Abs(a[1]), a[2]>>
Floor(a) == a[1] \div a[2]                      \* a[2] > 0
RHalf(n) == RQ(n, 2)

Keys(s) ==
  LET U == RAbs(s)
  IN IF RLt(U, ROne)
       THEN RAdd(RMul(RMul(RSub(RMul(RHalf(3), U), RHalf(5)), U), U), ROne)
       ELSE RAdd(RMul(RSub(RMul(RAdd(RMul(RHalf(-1), U), RHalf(5)), U), R(4)), U), R(2))

Node(gd, j) == gd.lo + j * gd.step
Target(gd, k) == RQ(gd.lo * Den + k, Den)
IsNodeK(gd, k) == k % (Den * gd.step) = 0

\* index (1..4) of the first minimum, as torch.min returns it
ArgMinFirst(d) == CHOOSE j \in 1..4 : (\A i \in 1..4 : RLe(d[j], d[i])) /\ (\A i \in 1..(j - 1) : RLt(d[j], d[i]))
OneHot(j) == [s \in 1..4 |-> IF s = j THEN ROne ELSE RZero]

Dim(gd, k) ==
  LET x == Target(gd, k)
      u == RDiv(RSub(x, R(gd.lo)), R(gd.step))
      fl == Floor(u)
      rel == RSub(u, R(fl))
      low0 == fl - 1
      kw == [s \in 1..4 |-> Keys(RAdd(rel, R(Flip[s])))]
      left == low0 < 0
      dl == [s \in 1..4 |-> RAbs(RSub(R(Node(gd, s - 1)), x))]
      low1 == IF left THEN 0 ELSE low0
      w1 == IF left THEN OneHot(ArgMinFirst(dl)) ELSE kw
      right == low1 > gd.size - 4
      dr == [s \in 1..4 |-> RAbs(RSub(R(Node(gd, gd.size - 4 + s - 1)), x))]
      low2 == IF right THEN gd.size - 4 ELSE low1
      w2 == IF right THEN OneHot(ArgMinFirst(dr)) ELSE w1
  IN [low |-> low2, w |-> w2, interior |-> ~left /\ ~right]

\* ---- combination over dimensions ----------------------------------------------------------------
RECURSIVE Pow(_, _)
Pow(b, e) == IF e = 0 THEN 1 ELSE b * Pow(b, e - 1)
RECURSIVE IProdSeq(_)
IProdSeq(q) == IF q = <<>> THEN 1 ELSE Head(q) * IProdSeq(Tail(q))
RECURSIVE ISumSeq(_)
ISumSeq(q) == IF q = <<>> THEN 0 ELSE Head(q) + ISumSeq(Tail(q))
RECURSIVE RProdSeq(_)
RProdSeq(q) == IF q = <<>> THEN ROne ELSE RMul(Head(q), RProdSeq(Tail(q)))

ND(g) == Len(g)
Sizes(g) == [i \in 1..ND(g) |-> g[i].size]
NCols(g) == Pow(4, ND(g))
Slot(g, i, col) == (col \div Pow(4, ND(g) - i)) % 4                 \* col 0-based, i 1-based (code: i - 1)
Coeff(g, i) == IF Order = "lex" THEN IProdSeq(SubSeq(Sizes(g), i + 1, ND(g))) ELSE IProdSeq(SubSeq(Sizes(g), 1, i - 1))
Dims(g, k) == [i \in 1..ND(g) |-> Dim(g[i], k[i])]
\* below d = Dims(g, k)
NodeIdx(g, d, i, col) == d[i].low + Slot(g, i, col)                  \* per-dimension node index used by column col
Idx(g, d, col) == ISumSeq([i \in 1..ND(g) |-> NodeIdx(g, d, i, col) * Coeff(g, i)])
Val(g, d, col) == RProdSeq([i \in 1..ND(g) |-> d[i].w[Slot(g, i, col) + 1]])
Interior(g, d) == \A i \in 1..ND(g) : d[i].interior
AtNode(g, k) == \A i \in 1..ND(g) : IsNodeK(g[i], k[i])

\* ---- integer arithmetic over the common denominator ---------------------------------------------
Q1(gd) == 2 * Pow(Den * gd.step, 3)
QAll(g) == IProdSeq([i \in 1..ND(g) |-> Q1(g[i])])
\* w * Q1 is an integer for every weight the code can produce
WInt(gd, w) == LET s == RMul(w, R(Q1(gd))) IN IF s[2] = 1 THEN s[1] ELSE Assert(FALSE, <<"weight not a multiple of 1/Q1", w>>)
VInt(g, d, col) == IProdSeq([i \in 1..ND(g) |-> WInt(g[i], d[i].w[Slot(g, i, col) + 1])])
Cols(g) == 0..(NCols(g) - 1)

\* ---- the properties -----------------------------------------------------------------------------
SumToOne(g, d) == ISumSeq([cc \in 1..NCols(g) |-> VInt(g, d, cc - 1)]) = QAll(g)
InRange(g, d) ==
  /\ \A col \in Cols(g) : Idx(g, d, col) >= 0 /\ Idx(g, d, col) < IProdSeq(Sizes(g))
  /\ \A col \in Cols(g), i \in 1..ND(g) : NodeIdx(g, d, i, col) >= 0 /\ NodeIdx(g, d, i, col) < g[i].size
\* the columns address pairwise different grid nodes (so "the weight on a node" is the weight of one column)
Distinct(g, d) == Cardinality({Idx(g, d, col) : col \in Cols(g)}) = NCols(g)
\* at a grid node: weight one on the node, zero elsewhere
FlatOf(g, j) == ISumSeq([i \in 1..ND(g) |-> j[i] * Coeff(g, i)])
ExactAtNodes(g, k, d) ==
  AtNode(g, k) =>
    LET j == [i \in 1..ND(g) |-> k[i] \div (Den * g[i].step)]
    IN \A col \in Cols(g) : Val(g, d, col) = IF Idx(g, d, col) = FlatOf(g, j) THEN ROne ELSE RZero
\* reproduction of polynomials of total degree <= 2 in the interior:
\*   sum_col val * prod_i node_i^p_i = prod_i x_i^p_i,  x_i = (lo_i Den + k_i) / Den, scaled by QAll * Den^(sum p)
Degrees(g) == {p \in [1..ND(g) -> 0..2] : ISumSeq(p) <= 2}
Reproduce(g, k, d) ==
  Interior(g, d) =>
    \A p \in Degrees(g) :
      ISumSeq([cc \in 1..NCols(g) |-> VInt(g, d, cc - 1) * IProdSeq([i \in 1..ND(g) |-> Pow(Node(g[i], NodeIdx(g, d, i, cc - 1)), p[i])])]) * Pow(Den, ISumSeq(p))
        = QAll(g) * IProdSeq([i \in 1..ND(g) |-> Pow(g[i].lo * Den + k[i], p[i])])
\* the d-dimensional weights are the tensor product of the 1-D weights: the outputs, as a set of (flat node index, weight) pairs,
\* are exactly {(flat(j), prod_i w_i(j_i))} for j over the product of the per-dimension four-node supports
TensorProduct(g, d) ==
  {<<Idx(g, d, col), Val(g, d, col)>> : col \in Cols(g)}
    = {<<FlatOf(g, [i \in 1..ND(g) |-> d[i].low + s[i]]), RProdSeq([i \in 1..ND(g) |-> d[i].w[s[i] + 1]])>> : s \in [1..ND(g) -> 0..3]}
\* in the interior the weights are Keys' kernel at the distances to the four surrounding nodes (the declarative definition)
KeysInInterior(g, k, d) ==
  Interior(g, d) =>
    \A i \in 1..ND(g), s \in 1..4 :
      LET gd == g[i] x == Target(gd, k[i]) n == d[i].low + s - 1
      IN /\ d[i].w[s] = Keys(RDiv(RSub(x, R(Node(gd, n))), R(gd.step)))
         /\ Node(gd, d[i].low + 1) * Den <= gd.lo * Den + k[i] /\ gd.lo * Den + k[i] < Node(gd, d[i].low + 2) * Den    \* x in [node 2, node 3) of the four

InterpOK == LET d == Dims(c.g, c.k)
            IN /\ SumToOne(c.g, d) /\ InRange(c.g, d) /\ Distinct(c.g, d) /\ ExactAtNodes(c.g, c.k, d)
               /\ Reproduce(c.g, c.k, d) /\ TensorProduct(c.g, d) /\ KeysInInterior(c.g, c.k, d)

\* ---- machine ------------------------------------------------------------------------------------
KMax(gd) == (gd.size - 1) * gd.step * Den
MaxK(g) == CHOOSE m \in {KMax(g[i]) : i \in 1..ND(g)} : \A i \in 1..ND(g) : KMax(g[i]) <= m
Lattice(g) == {k \in [1..ND(g) -> 0..MaxK(g)] : \A i \in 1..ND(g) : k[i] <= KMax(g[i])}
Cases == UNION {{[g |-> g, k |-> k] : k \in Lattice(g)} : g \in Grids}

Expected(g, k) == LET d == Dims(g, k)
                  IN [idx |-> [col \in 1..NCols(g) |-> Idx(g, d, col - 1)], w |-> [col \in 1..NCols(g) |-> Val(g, d, col - 1)],
                      interior |-> Interior(g, d), node |-> AtNode(g, k)]

Init == c \in Cases /\ out = Expected(c.g, c.k)
Next == UNCHANGED vars
Spec == Init /\ [][Next]_vars
=============================================================================
