----------------------------- MODULE CacheTrace -----------------------------
(***************************************************************************)
(* Trace validation for property C03 (and the cache clauses of C04, C16,   *)
(* C18): recorded cache events of the real code against the PROPERTY       *)
(*   NoStaleHit       no `c_hit` on an entry filled before the latest      *)
(*                    operation that changed what the entry depends on     *)
(*   NoStaleStrategy  no `ps_reuse` of a prediction strategy created       *)
(*                    before such an operation                             *)
(* Version changes:                                                        *)
(*   global  params_changed  (optimizer step / in-place load, emitted by   *)
(*           the driver or the optimizer wrapper): every cache depends on  *)
(*           the parameters                                                *)
(*   owner   m_load_state_dict(owner), set_train_data(owner): the caches   *)
(*           owned by that module and the prediction strategy of that      *)
(*           model                                                         *)
(* Extra clears, misses, refills and unknown owners are always accepted:   *)
(* the spec does not prescribe HOW caches are implemented.  Entries whose  *)
(* content does not depend on parameters or data (Independent) are exempt. *)
(* The next-state relation is total; failed clauses are collected in `bad`.*)
(***************************************************************************)
EXTENDS Integers, Sequences, FiniteSets, TLC, Json, IOUtils

Traces == ndJsonDeserialize(IOEnv.TRACE_FILE)

VARIABLES t, l, gver, over, filled, psver, bad, fin
vars == <<t, l, gver, over, filled, psver, bad, fin>>

Independent == {"size"}              \* LazyEvaluatedKernelTensor.size(): shapes only

Empty == [x \in {} |-> x]
Ev == Traces[t].events[l]
OVer(o) == IF o \in DOMAIN over THEN over[o] ELSE 0

Init ==
  /\ t \in 1..Len(Traces) /\ l = 1
  /\ gver = 0 /\ over = Empty /\ filled = Empty /\ psver = Empty /\ bad = {}
  /\ fin = (Len(Traces[t].events) = 0)

Fail(clause) == bad' = bad \cup {[l |-> l, clause |-> clause, cls |-> Ev.cls, name |-> IF "name" \in DOMAIN Ev THEN Ev.name ELSE ""]}

GlobalChange ==
  /\ Ev.ev = "params_changed"
  /\ gver' = gver + 1
  /\ UNCHANGED <<over, filled, psver, bad>>

OwnerChange ==
  /\ Ev.ev \in {"m_load_state_dict", "set_train_data"}
  /\ over' = (Ev.owner :> OVer(Ev.owner) + 1) @@ over
  /\ UNCHANGED <<gver, filled, psver, bad>>

Fill ==
  /\ Ev.ev = "c_fill"
  /\ filled' = (<<Ev.owner, Ev.name>> :> [g |-> gver, o |-> OVer(Ev.owner)]) @@ filled
  /\ UNCHANGED <<gver, over, psver, bad>>

Hit ==
  /\ Ev.ev = "c_hit"
  /\ LET k == <<Ev.owner, Ev.name>> IN
       IF k \in DOMAIN filled /\ Ev.name \notin Independent /\ (filled[k].g # gver \/ filled[k].o # OVer(Ev.owner))
         THEN Fail("NoStaleHit") ELSE bad' = bad
  /\ UNCHANGED <<gver, over, filled, psver>>

Clear ==
  /\ Ev.ev = "c_clear"
  /\ filled' = [k \in {k \in DOMAIN filled : k[1] # Ev.owner} |-> filled[k]]
  /\ UNCHANGED <<gver, over, psver, bad>>

Pop ==
  /\ Ev.ev = "c_pop"
  /\ filled' = [k \in DOMAIN filled \ {<<Ev.owner, Ev.name>>} |-> filled[k]]
  /\ UNCHANGED <<gver, over, psver, bad>>

PsCreate ==
  /\ Ev.ev = "ps_create"
  /\ psver' = (Ev.owner :> [g |-> gver, o |-> OVer(Ev.owner)]) @@ psver
  /\ UNCHANGED <<gver, over, filled, bad>>

PsReuse ==
  /\ Ev.ev = "ps_reuse"
  /\ IF Ev.owner \in DOMAIN psver /\ (psver[Ev.owner].g # gver \/ psver[Ev.owner].o # OVer(Ev.owner))
       THEN Fail("NoStaleStrategy") ELSE bad' = bad
  /\ UNCHANGED <<gver, over, filled, psver>>

PsClear ==
  /\ Ev.ev = "ps_clear"
  /\ psver' = [o \in DOMAIN psver \ {Ev.owner} |-> psver[o]]
  /\ UNCHANGED <<gver, over, filled, bad>>

Known == {"params_changed", "m_load_state_dict", "set_train_data", "c_fill", "c_hit", "c_clear", "c_pop", "ps_create", "ps_reuse", "ps_clear"}
Other == Ev.ev \notin Known /\ UNCHANGED <<gver, over, filled, psver, bad>>

Next ==
  /\ l <= Len(Traces[t].events)
  /\ (GlobalChange \/ OwnerChange \/ Fill \/ Hit \/ Clear \/ Pop \/ PsCreate \/ PsReuse \/ PsClear \/ Other)
  /\ l' = l + 1
  /\ fin' = (l' = Len(Traces[t].events) + 1)
  /\ t' = t

NoFailedClause == bad = {}
=============================================================================
