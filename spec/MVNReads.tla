------------------------------ MODULE MVNReads ------------------------------
(***************************************************************************)
(* MultivariateNormal (property C10): READS ARE PURE, and the Cholesky     *)
(* path is right for EVERY FORM OF ROOT a root-form covariance can have.   *)
(*                                                                         *)
(* A distribution is constructed from the caller's tensors (mean, K) in a  *)
(* representation Rep and is then used through a HISTORY of observations:  *)
(* reads {mean, variance, stddev, confidence_region, covariance_matrix,    *)
(* scale_tril, precision_matrix, log_prob on the fast / on the Cholesky    *)
(* path, rsample(base_samples), entropy} and operations that derive a new  *)
(* object {X + c, X * 2, X[..., 1:], expand, unsqueeze} (the derived       *)
(* object is observed on mean, covariance and log_prob on both paths).     *)
(*                                                                         *)
(* PROPERTY (ReadsPure).  Every observation, at every position of every    *)
(* history, is the function of the CONSTRUCTED (mean, K) the property      *)
(* text gives for it: no observation changes what a later observation      *)
(* returns, the caller's tensors are left as they were, and whatever a     *)
(* read leaves behind in the object (the cached Cholesky factor, the       *)
(* cached dense covariance) is a lower-triangular factor of K / is K.      *)
(*                                                                         *)
(* DIMENSIONS.                                                             *)
(*  Reps:     dense tensor, lazy dense, diag, and the root form R R^T with *)
(*            every KIND OF ROOT: lower triangular, upper triangular,      *)
(*            symmetric square root, orthogonally rotated square root,     *)
(*            n x k with k > n (wide), n x k with k < n (narrow: singular, *)
(*            no density - the Cholesky-path quantities may be refused).   *)
(*            R R^T = K holds for all of them; only the first is what a    *)
(*            Cholesky path may take for the factor.                       *)
(*  VClasses: where the smallest marginal variance sits relative to        *)
(*            settings.min_variance, the edge of the valid range of        *)
(*            `variance`: below (the clamp is active), at, just above,     *)
(*            ordinary.                                                    *)
(*  Batches:  batch shapes of the instance.                                *)
(*  history:  every sequence of at most MaxLen observations.               *)
(*                                                                         *)
(* The model of the code keeps, per object: what the stored covariance     *)
(* holds (`store`), what the caller's tensors hold (`caller`), the cached  *)
(* factor (`tril`: none, or [of, lower]) and the cached dense covariance   *)
(* (`covc`).  Variant "pure" transcribes the code as found.  The what-if   *)
(* variants exist to show that the invariant is not vacuous (TLC must      *)
(* report a violation for each): "inplace" = the below-min_variance path   *)
(* of `variance` clamps in place (the diagonal of a lazy dense / diag      *)
(* covariance is a VIEW of the storage the caller handed in); "reuseroot"  *)
(* = the factor getter returns a square root of a root-form covariance as  *)
(* it is instead of covar.cholesky().                                      *)
(***************************************************************************)
EXTENDS Naturals, Sequences, TLC

CONSTANTS Reps, VClasses, Batches, MaxLen, Variant

VARIABLES cfg, store, caller, tril, covc, hist
vars == <<cfg, store, caller, tril, covc, hist>>

AllReps == {"dense", "lazy", "diag", "root-lower", "root-upper", "root-sym", "root-rot", "root-wide", "root-narrow"}
AllVClasses == {"below", "at", "above", "ordinary"}
ASSUME Reps \subseteq AllReps /\ VClasses \subseteq AllVClasses /\ Variant \in {"pure", "inplace", "reuseroot"}

\* ---- the representation dimension ---------------------------------------------------------------------
IsRoot(rep) == rep \in {"root-lower", "root-upper", "root-sym", "root-rot", "root-wide", "root-narrow"}
SquareRoot(rep) == rep \in {"root-lower", "root-upper", "root-sym", "root-rot"}       \* R is n x n
LowerRoot(rep) == rep = "root-lower"                                                   \* R is lower triangular
HasDensity(rep) == rep # "root-narrow"                                                 \* K = R R^T is positive definite
Lazy(rep) == rep # "dense"                                                             \* LinearOperator branch of the constructor
\* diagonal(dim1=-1, dim2=-2) of the stored covariance is a view of storage (DenseLinearOperator: of the dense tensor;
\* DiagLinearOperator: the _diag tensor itself) - and the constructor does not copy what the caller passes in
DiagIsView(rep) == rep \in {"lazy", "diag"}

\* ---- observations -----------------------------------------------------------------------------------------
Reads == {"mean", "variance", "stddev", "confidence_region", "covariance_matrix", "scale_tril", "precision_matrix",
          "log_prob_fast", "log_prob_chol", "rsample", "entropy"}
Derive == {"addc", "mul2", "tail", "expand", "unsqueeze"}
Acts == Reads \cup Derive
CholPath == {"scale_tril", "precision_matrix", "log_prob_chol", "entropy"}            \* need _unbroadcasted_scale_tril
NeedDensity == CholPath \cup {"log_prob_fast"}                                         \* defined for a positive definite K only

None == [of |-> "none", lower |-> TRUE]
\* the factor the getter computes when none is cached
Factor(rep, st) ==
  IF Variant = "reuseroot" /\ SquareRoot(rep) THEN [of |-> st, lower |-> LowerRoot(rep)]
  ELSE [of |-> st, lower |-> TRUE]                                                     \* to_dense(covar.cholesky())

\* what an observation is computed from: cov = the covariance behind mean / covariance / fast-path parts, fac = the
\* covariance whose factor the Cholesky-path parts used ("n/a": none used), lower = that factor was lower triangular
Obs(cv, f) == [cov |-> cv, fac |-> f.of, lower |-> f.lower]
Plain(cv) == [cov |-> cv, fac |-> "n/a", lower |-> TRUE]

\* the below-min_variance path of `variance` (reached by variance, stddev, confidence_region)
ClampWrites == Variant = "inplace" /\ cfg.vc = "below" /\ DiagIsView(cfg.rep)

Do(a) ==
  LET t1 == IF tril.of = "none" THEN Factor(cfg.rep, store) ELSE tril                  \* the factor after it was needed
  IN CASE a = "mean" -> [obs |-> Plain(store), st |-> store, tr |-> tril, cc |-> covc]
       [] a \in {"variance", "stddev", "confidence_region"} ->
            \* lazy: diagonal of the stored covariance; dense: torch computes it from the factor
            IF Lazy(cfg.rep) THEN [obs |-> Plain(store), st |-> IF ClampWrites THEN "clamped" ELSE store, tr |-> tril, cc |-> covc]
            ELSE [obs |-> Obs(store, t1), st |-> store, tr |-> t1, cc |-> covc]
       [] a = "covariance_matrix" ->                                                   \* lazy_property: cached on first read
            LET cc1 == IF covc = "none" THEN store ELSE covc
            IN [obs |-> Plain(cc1), st |-> store, tr |-> tril, cc |-> cc1]
       [] a \in {"log_prob_fast", "rsample"} -> [obs |-> Plain(store), st |-> store, tr |-> tril, cc |-> covc]
       [] a \in CholPath -> [obs |-> Obs(store, t1), st |-> store, tr |-> t1, cc |-> covc]
       [] a \in {"addc", "mul2", "tail"} ->                                            \* self.__class__(mean', covariance'): a fresh object
            [obs |-> Obs(store, Factor(cfg.rep, store)), st |-> store, tr |-> tril, cc |-> covc]
       [] a \in {"expand", "unsqueeze"} ->                                             \* "Reuse the scale tril if available"
            [obs |-> Obs(store, t1), st |-> store, tr |-> tril, cc |-> covc]

Init ==
  /\ cfg \in [rep : Reps, vc : VClasses, batch : Batches]
  /\ store = "K" /\ caller = "K" /\ covc = "none"
  /\ tril = IF Lazy(cfg.rep) THEN None ELSE [of |-> "K", lower |-> TRUE]              \* torch's constructor factorises at once
  /\ hist = <<>>

Step(a) ==
  LET r == Do(a)
  IN /\ Len(hist) < MaxLen
     /\ store' = r.st
     /\ caller' = IF r.st # store THEN r.st ELSE caller                               \* the storage is the caller's tensor
     /\ tril' = r.tr /\ covc' = r.cc
     \* the entry handed to the replay: the act, and the DECLARATIVE expectation - a function of the constructed (mean, K);
     \* compare = how much of it is defined for this representation (a singular K has no density: of a derived object only
     \* mean and covariance are compared, a density-based read is taken - it is part of the history - but not compared)
     /\ hist' = Append(hist, [act |-> a, of |-> "K", model |-> r.obs,
                              compare |-> IF HasDensity(cfg.rep) \/ (a \notin NeedDensity /\ a \notin Derive) THEN "all"
                                          ELSE IF a \in Derive THEN "moments" ELSE "none"])
     /\ UNCHANGED cfg

Next == \E a \in Acts : Step(a)
Spec == Init /\ [][Next]_vars

\* ---- the property ---------------------------------------------------------------------------------------------
ReadsPure ==
  /\ store = "K" /\ caller = "K"
  /\ covc \in {"none", "K"}
  /\ tril.of \in {"none", "K"} /\ tril.lower
  /\ \A i \in DOMAIN hist : /\ hist[i].model.cov = hist[i].of
                            /\ hist[i].model.fac \in {"n/a", hist[i].of}
                            /\ hist[i].model.lower

\* the dimensions are what they are meant to be (guards against an edit that drops a kind of root / a value class)
ASSUME \A rep \in AllReps : (SquareRoot(rep) => IsRoot(rep)) /\ (LowerRoot(rep) => SquareRoot(rep))
ASSUME \E rep \in AllReps : SquareRoot(rep) /\ ~LowerRoot(rep)
ASSUME {"variance", "stddev", "confidence_region"} \subseteq Reads /\ CholPath \subseteq Reads
=============================================================================
