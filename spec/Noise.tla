------------------------------- MODULE Noise -------------------------------
(***************************************************************************)
(* Noise-term selection of the Gaussian likelihood family (property C12).  *)
(*                                                                         *)
(* A likelihood call adds a noise covariance R to the covariance of the    *)
(* function distribution.  R is a SUM OF TERMS; which terms, how often,    *)
(* in which Kronecker layout and with which batch shape is a purely        *)
(* discrete function of the configuration.  This module holds that        *)
(* function twice:                                                         *)
(*                                                                         *)
(*  Expected(cfg)  DECLARATIVE: the bag (multiset) of terms the            *)
(*                 documentation prescribes, each at most once, and the    *)
(*                 broadcast batch shape of the result.                    *)
(*  Code(cfg)      CODE-SHAPED: a transcription of the call chain          *)
(*                 Likelihood.__call__ -> marginal / expected_log_prob /   *)
(*                 forward / log_marginal -> _shaped_noise_covar of the    *)
(*                 class -> HomoskedasticNoise.forward /                   *)
(*                 FixedGaussianNoise.forward / HeteroskedasticNoise.      *)
(*                 forward, with the routing of *params and **kwargs       *)
(*                 (the "noise" kwarg in particular), and of               *)
(*                 LikelihoodList.__call__ / forward / expected_log_prob.  *)
(*                 Repairs = {} is the code at HEAD; each element of       *)
(*                 Repairs switches one of the three one-line repairs      *)
(*                 suggested by C12 on ("second_kwargs": the learned       *)
(*                 noise model no longer receives the noise kwarg;         *)
(*                 "list_kwargs": LikelihoodList passes the per-member     *)
(*                 noise with **; "dirichlet_eps": call-time targets use   *)
(*                 the likelihood's alpha_epsilon).                        *)
(*                                                                         *)
(* TLC enumerates the whole configuration lattice (one state per cell) and *)
(* checks the invariant NoiseExact: Code(cfg) = Expected(cfg).  A          *)
(* violation on the model of the current code is a PREDICTION the replay   *)
(* (checks/c12.py) must confirm on the real code; the replay's verdict     *)
(* uses Expected only.                                                     *)
(*                                                                         *)
(* Terms (names of the bag):                                               *)
(*   homo      sigma2 * I            GaussianLikelihood.noise              *)
(*   fixed     diag(stored noise)    FixedNoiseGaussianLikelihood(noise=)  *)
(*   call      diag(call-time noise) likelihood(dist, noise=v) / targets=  *)
(*   callDefEps  Dirichlet: call-time targets transformed with the DEFAULT *)
(*             alpha_epsilon instead of the likelihood's                   *)
(*   callOther LikelihoodList: the noise meant for the other member        *)
(*   second    learned sigma2 * I    learn_additional_noise=True           *)
(*   taskIxD   I_n (x) D_t   (interleaved layout)                          *)
(*   taskDxI   D_t (x) I_n   (non-interleaved layout)                      *)
(*   taskNT    per-output variances D_t[a,a] aligned with the n x t event  *)
(*   taskMis   per-output variances read in the wrong layout               *)
(*   global    sigma2 * I_nt         MultitaskGaussianLikelihood.noise     *)
(*   het       diag(transform(noise_model(x).mean))  HeteroskedasticNoise  *)
(***************************************************************************)
EXTENDS Integers, Sequences, FiniteSets, TLC

CONSTANTS Family,       \* "gauss" | "fixed" | "dirichlet" | "multitask" | "het" | "list" | "all"
          Repairs,      \* subset of {"second_kwargs", "list_kwargs", "dirichlet_eps"}: repairs present in the modelled code
          T,            \* number of tasks (ranks 0..T are enumerated)
          K,            \* number of classes of the Dirichlet likelihood (= its batch size)
          LikBatches,   \* set of likelihood batch shapes, e.g. {<<>>, <<2>>}
          InBatches     \* set of batch shapes of the function distribution

VARIABLES cfg,    \* the configuration (one lattice cell)
          exp,    \* Expected(cfg): what the documentation prescribes
          code    \* Code(cfg): what the transcribed code computes

vars == <<cfg, exp, code>>

\* ---- shapes -------------------------------------------------------------------------------
MaxI(a, b) == IF a > b THEN a ELSE b
PadL(s, k) == [i \in 1..k |-> IF i <= k - Len(s) THEN 1 ELSE s[i - (k - Len(s))]]
Bcastable(a, b) ==
  LET k == MaxI(Len(a), Len(b)) pa == PadL(a, k) pb == PadL(b, k)
  IN \A i \in 1..k : pa[i] = pb[i] \/ pa[i] = 1 \/ pb[i] = 1
Bcast(a, b) ==
  LET k == MaxI(Len(a), Len(b)) pa == PadL(a, k) pb == PadL(b, k)
  IN [i \in 1..k |-> IF pa[i] = 1 THEN pb[i] ELSE pa[i]]
\* torch.Tensor.expand(*b, ...) of something with batch shape a
Expandable(a, b) ==
  /\ Len(a) <= Len(b)
  /\ LET pa == PadL(a, Len(b)) IN \A i \in 1..Len(b) : pa[i] = b[i] \/ pa[i] = 1

\* ---- bags of terms ---------------------------------------------------------------------------
TermNames == {"homo", "fixed", "call", "callDefEps", "callOther", "second", "taskIxD", "taskDxI", "taskNT", "taskMis", "global", "het"}
Empty == [x \in TermNames |-> 0]
One(t) == [x \in TermNames |-> IF x = t THEN 1 ELSE 0]
Plus(a, b) == [x \in TermNames |-> a[x] + b[x]]
Rename(bag, f) == [x \in TermNames |-> IF \E y \in DOMAIN f : f[y] = x
                                         THEN bag[x] + bag[CHOOSE y \in DOMAIN f : f[y] = x]
                                         ELSE IF x \in DOMAIN f THEN 0 ELSE bag[x]]

\* a noise operator / an observation: which terms, which batch shape, or which exception
Res(bag, batch) == [terms |-> bag, batch |-> batch, err |-> "none"]
Raise(e) == [terms |-> Empty, batch |-> <<>>, err |-> e]
AddRes(a, b) ==
  IF a.err # "none" THEN a ELSE IF b.err # "none" THEN b
  ELSE IF ~Bcastable(a.batch, b.batch) THEN Raise("RuntimeError")
  ELSE Res(Plus(a.terms, b.terms), Bcast(a.batch, b.batch))

\* ---- configurations ------------------------------------------------------------------------------
\* All single-likelihood cells share one record type:
\*  cls     "G" GaussianLikelihood | "GM" GaussianLikelihoodWithMissingObs | "F" FixedNoiseGaussianLikelihood
\*          | "Dir" DirichletClassificationLikelihood | "MT" MultitaskGaussianLikelihood
\*          | "Het" _GaussianLikelihoodBase(HeteroskedasticNoise(model))
\*  op      "call" likelihood(dist) | "elp" expected_log_prob | "lm" log_marginal | "cond" likelihood(samples)
\*  lan     learn_additional_noise
\*  call    "none" | "kw": a noise= (Dirichlet: targets=) keyword is given at call time
\*  nmatch  the event size equals the size of the stored fixed noise (FALSE: test points, other n)
\*  cb      the call-time noise tensor carries the batch shape of the input (else it is 1-d)
\*  fb      the stored fixed noise carries the likelihood batch shape (else 1-d)
\*  params  positional extras: "none" | "x" (n x d tensor) | "xb" (batch x n x d) | "x1" (1-d, n) | "xlist" ([x])
\*  glob, task, rank, inter   multitask switches and the layout of the input distribution
\*  ae      Dirichlet alpha_epsilon: "default" | "custom"
\*  nan     targets contain NaN (GM only)
\*  lb, ib  batch shapes of the likelihood parameters and of the input distribution
Cfg(cls, op, lan, call, nmatch, cb, fb, params, glob, task, rank, inter, ae, nan, lb, ib) ==
  [cls |-> cls, op |-> op, lan |-> lan, call |-> call, nmatch |-> nmatch, cb |-> cb, fb |-> fb, params |-> params,
   glob |-> glob, task |-> task, rank |-> rank, inter |-> inter, ae |-> ae, nan |-> nan, lb |-> lb, ib |-> ib]

\* positional extras are offered where the library itself passes them (ExactMarginalLogLikelihood:
\* likelihood(dist, *train_inputs); DefaultPredictionStrategy: likelihood(dist, train_inputs)), i.e. on the marginal path
OpParams == {<<"call", p>> : p \in {"none", "x", "xb", "x1", "xlist"}}
               \cup {<<"lm", p>> : p \in {"none", "x"}} \cup {<<"elp", "none">>, <<"cond", "none">>}

CallShapes == {<<"none", FALSE>>, <<"kw", FALSE>>, <<"kw", TRUE>>}
\* batched extras / batched call-time noise only make sense for a batched input
ShapesOK(c) == (c.cb \/ c.params = "xb") => c.ib # <<>>

GaussCfgs ==
  {Cfg(cls, o[1], FALSE, cs[1], TRUE, cs[2], FALSE, o[2], FALSE, FALSE, 0, TRUE, "default", nan, lb, ib) :
     cls \in {"G", "GM"}, lb \in LikBatches, ib \in InBatches, cs \in CallShapes, o \in OpParams, nan \in BOOLEAN}

GaussOK(c) == /\ Bcastable(c.lb, c.ib) /\ ShapesOK(c)
              /\ c.nan => (c.cls = "GM" /\ c.op \in {"elp", "lm"} /\ c.params = "none")

FixedCfgs ==
  {Cfg("F", o[1], lan, cs[1], nm, cs[2], fb, o[2], FALSE, FALSE, 0, TRUE, "default", FALSE, lb, ib) :
     lan \in BOOLEAN, nm \in BOOLEAN, fb \in BOOLEAN, lb \in LikBatches, ib \in InBatches, cs \in CallShapes, o \in OpParams}

\* R = 0 (no stored noise of that size, none given, none learned): only the marginal is defined
NoNoise(c) == c.cls \in {"F", "Dir"} /\ c.call = "none" /\ ~c.nmatch /\ ~c.lan

FixedOK(c) == /\ Bcastable(c.lb, c.ib) /\ ShapesOK(c)
              /\ c.fb => c.lb # <<>>
              /\ (~c.lan /\ ~c.fb) => c.lb = <<>>          \* the likelihood batch shape is carried by nothing else
              /\ NoNoise(c) => c.op = "call"

\* Dirichlet: the stored noise is K x n, the learned noise has batch shape <<K>>, inputs are batches of K latent functions
DirCfgs ==
  {Cfg("Dir", op, lan, call, nm, TRUE, TRUE, "none", FALSE, FALSE, 0, TRUE, ae, FALSE, <<K>>, ib) :
     op \in {"call", "elp", "lm", "cond"}, lan \in BOOLEAN, call \in {"none", "kw"}, nm \in BOOLEAN,
     ae \in {"default", "custom"}, ib \in {<<K>>, <<2, K>>}}
DirOK(c) == NoNoise(c) => c.op = "call"

MTCfgs ==
  {Cfg("MT", o[1], FALSE, "none", TRUE, FALSE, FALSE, o[2], g, tn, r, il, "default", FALSE, lb, ib) :
     g \in BOOLEAN, tn \in BOOLEAN, r \in 0..T, il \in BOOLEAN, lb \in LikBatches, ib \in InBatches,
     o \in {<<"call", "none">>, <<"call", "x">>, <<"call", "xlist">>, <<"lm", "none">>, <<"lm", "x">>, <<"elp", "none">>, <<"cond", "none">>}}
\* the constructor rejects "no noise at all"; the task noise is expanded to the input's batch shape, so the
\* likelihood batch shape must be expandable to it (assumption of the check, see checks/c12.py)
MTOK(c) == /\ (c.glob \/ c.task) /\ (~c.task => c.rank = 0)
           /\ Bcastable(c.lb, c.ib) /\ (c.task => Expandable(c.lb, c.ib))

HetCfgs ==
  {Cfg("Het", o[1], FALSE, call, TRUE, FALSE, FALSE, o[2], FALSE, FALSE, 0, TRUE, "default", FALSE, <<>>, <<>>) :
     call \in {"none", "kw"},
     o \in {<<"call", "x">>, <<"call", "xlist">>, <<"lm", "x">>, <<"elp", "x">>, <<"cond", "x">>, <<"call", "none">>}}
HetOK(c) == c.params = "none" => c.call = "kw"      \* without inputs the noise model cannot be evaluated

\* LikelihoodList cells: two members, per-member arguments
MemberKinds == {"G", "F", "FL"}       \* FL = FixedNoise with learn_additional_noise
MemberCfg(kind, op, call, params) ==
  Cfg(IF kind = "G" THEN "G" ELSE "F", op, kind = "FL", call, TRUE, FALSE, FALSE, params, FALSE, FALSE, 0, TRUE, "default", FALSE, <<>>, <<>>)
\* noise: "none" = no noise keyword; "list" = [v1, v2]; "list_vN" = [v1, None]; "list_Nv" = [None, v2]; "list_NN" = [None, None]
\* (a None entry means "this member uses its stored noise": it must not see any other member's entry)
ListNoise == {"none", "list", "list_vN", "list_Nv", "list_NN"}
EntryGiven(nz, k) == nz = "list" \/ (nz = "list_vN" /\ k = 1) \/ (nz = "list_Nv" /\ k = 2)
ListCfgs ==
  {[cls |-> "List", members |-> <<k1, k2>>, op |-> op, noise |-> nz, argform |-> af] :
     k1 \in MemberKinds, k2 \in MemberKinds, op \in {"call", "cond", "elp"}, nz \in ListNoise, af \in {"bare", "tuple"}}
\* expected_log_prob takes (target, dist) tuples and hands its kwargs to every member unchanged: per-member noise is
\* only defined for __call__ and forward; "tuple" adds the training inputs as a second positional argument
ListOK(c) == /\ c.op = "elp" => (c.noise = "none" /\ c.argform = "tuple")
             /\ c.op = "cond" => c.argform = "bare"
             \* a None entry is handed to the member as noise=None: only the fixed-noise kinds define that (stored noise);
             \* GaussianLikelihood(noise=None) raises on its own, so the list cannot be asked for more
             /\ \A k \in 1..2 : (c.noise # "none" /\ ~EntryGiven(c.noise, k)) => c.members[k] # "G"

\* ---- the declarative side -----------------------------------------------------------------------
\* With r = the diagonal of R (per output (i, a) for the multitask family: taskNT), the replay evaluates, in float64,
\*   expected_log_prob[i] = SUM_a  -1/2 log(2 pi r) - ((y - m)^2 + c) / (2 r)        c = diag C of the input
\*   log_marginal[i]      = SUM_a  -1/2 log(2 pi (c + r)) - (y - m)^2 / (2 (c + r))
\*   conditional          = Normal(f, sqrt r)
\* for the bag Terms(cfg) below, and decodes the bag the code actually used by evaluating the same forms on every
\* candidate bag.
CallBatch(c) == IF c.cls = "Dir" THEN <<K>> ELSE IF c.cb THEN c.ib ELSE <<>>
FixedBatch(c) == IF c.fb THEN c.lb ELSE <<>>

Terms(c) ==
  CASE c.cls \in {"G", "GM"} -> IF c.call = "kw" THEN One("call") ELSE One("homo")
    [] c.cls \in {"F", "Dir"} ->
         Plus(IF c.call = "kw" THEN One("call") ELSE IF c.nmatch THEN One("fixed") ELSE Empty,
              IF c.lan THEN One("second") ELSE Empty)
    [] c.cls = "MT" ->
         Plus(IF c.task THEN One(IF c.op # "call" THEN "taskNT" ELSE IF c.inter THEN "taskIxD" ELSE "taskDxI") ELSE Empty,
              IF c.glob THEN One("global") ELSE Empty)
    [] c.cls = "Het" -> IF c.call = "kw" THEN One("call") ELSE One("het")

\* the batch shape of the result: the input's, broadcast with the batch shape of every parameter that enters R
ExpBatch(c) ==
  CASE c.cls \in {"G", "GM"} -> Bcast(c.ib, IF c.call = "kw" THEN CallBatch(c) ELSE c.lb)
    [] c.cls \in {"F", "Dir"} ->
         Bcast(Bcast(c.ib, IF c.call = "kw" THEN CallBatch(c) ELSE IF c.nmatch THEN FixedBatch(c) ELSE <<>>),
               IF c.lan THEN c.lb ELSE <<>>)
    [] c.cls = "MT" -> Bcast(c.ib, c.lb)
    [] c.cls = "Het" -> c.ib

Expected1(c) == Res(Terms(c), ExpBatch(c))

\* LikelihoodList: member k is applied to its own arguments, including its own noise
ExpectedList(c) ==
  [k \in 1..2 |-> Expected1(MemberCfg(c.members[k], c.op, IF EntryGiven(c.noise, k) THEN "kw" ELSE "none",
                                      IF c.argform = "tuple" /\ c.op = "call" THEN "x" ELSE "none"))]

Expected(c) == IF c.cls = "List" THEN ExpectedList(c) ELSE Expected1(c)

\* ---- the code-shaped side ------------------------------------------------------------------------
\* call-time keyword arguments as the callee sees them
NoKw == [noise |-> "none", nb |-> <<>>]
Kw(term, nb) == [noise |-> term, nb |-> nb]

\* a shape argument: None, or batch x n (n is always the event size of the input here, so only the batch part is kept)
NoneShape == [none |-> TRUE, batch |-> <<>>, err |-> "none"]
Shape(batch) == [none |-> FALSE, batch |-> batch, err |-> "none"]

\* p = params[0] if torch.is_tensor(params[0]) else params[0][0];  shape = p.shape if len(p.shape) == 1 else p.shape[:-1]
ShapeFromParams(c, params) ==
  LET p == params[1]
  IN CASE p = "dict"  -> [none |-> FALSE, batch |-> <<>>, err |-> "KeyError"]      \* {...}[0]
       [] p = "x"     -> Shape(<<>>)
       [] p = "xb"    -> Shape(c.ib)
       [] p = "x1"    -> Shape(<<>>)
       [] p = "xlist" -> Shape(<<>>)

\* _HomoskedasticNoiseBase.forward(*params, shape=None, **kwargs)
HomoForward(c, term, selfBatch, params, shape, kw) ==
  IF kw.noise # "none" THEN Res(One(kw.noise), kw.nb)                       \* "this noise is used directly"
  ELSE LET sh == IF shape.none THEN ShapeFromParams(c, params) ELSE shape
       IN IF sh.err # "none" THEN Raise(sh.err)
          ELSE Res(One(term), Bcast(selfBatch, sh.batch))

\* FixedGaussianNoise.forward(*params, shape=None, noise=None, **kwargs); n of the inferred shape is the event size
FixedForward(c, params, shape, kw) ==
  LET sh == IF shape.none THEN ShapeFromParams(c, params) ELSE shape
  IN IF sh.err # "none" THEN Raise(sh.err)
     ELSE IF kw.noise # "none" THEN Res(One(kw.noise), kw.nb)
     ELSE IF c.nmatch THEN Res(One("fixed"), FixedBatch(c))
     ELSE Res(Empty, <<>>)                                                 \* ZeroLinearOperator()

\* HeteroskedasticNoise.forward(*params, batch_shape=None, shape=None, noise=None)
HetForward(c, params, kw) ==
  IF kw.noise # "none" THEN Res(One(kw.noise), kw.nb)
  ELSE IF Len(params) = 0 THEN Raise("TypeError")
  ELSE IF params[1] = "dict" THEN Raise("TypeError")
  ELSE Res(One("het"), <<>>)

\* _MultitaskGaussianLikelihoodBase._shaped_noise_covar(shape, add_noise=True, interleaved=True, *params, **kwargs)
ShapedMT(c, ibatch, addNoise, interleaved) ==
  IF ~c.task THEN Res(One("global"), c.lb)                                 \* ConstantDiag(self.noise, n * t)
  ELSE IF ~Expandable(c.lb, ibatch) THEN Raise("RuntimeError")            \* task_var_lt.expand(*shape[:-2], t, t)
  ELSE Res(Plus(One(IF interleaved THEN "taskIxD" ELSE "taskDxI"),
                IF addNoise /\ c.glob THEN One("global") ELSE Empty), ibatch)

\* _shaped_noise_covar of the class, as called with (base_shape, *params, **kwargs)
Shaped(c, ibatch, params, kw) ==
  CASE c.cls \in {"G", "GM"} -> HomoForward(c, "homo", c.lb, params, Shape(ibatch), kw)
    [] c.cls = "Het" -> HetForward(c, params, kw)
    [] c.cls \in {"F", "Dir"} ->
         LET shape == IF Len(params) > 0 THEN NoneShape ELSE Shape(ibatch)
             res == FixedForward(c, params, shape, kw)
             kw2 == IF "second_kwargs" \in Repairs THEN NoKw ELSE kw            \* HEAD forwards **kwargs, noise included
         IN IF c.lan THEN AddRes(res, HomoForward(c, "second", c.lb, params, shape, kw2)) ELSE res
    [] c.cls = "MT" -> ShapedMT(c, ibatch, TRUE, TRUE)                     \* positional defaults: add_noise, interleaved

\* marginal(function_dist, *params, **kwargs): covar + noise
MarginalNoise(c, params, kw) ==
  IF c.cls = "MT" THEN ShapedMT(c, c.ib, c.glob, c.inter)                  \* passes neither params nor kwargs
  ELSE Shaped(c, c.ib, params, kw)

\* how an observation that only sees per-output variances reads a Kronecker term
ViewNT(bag, layoutIsInterleaved) ==
  Rename(bag, IF layoutIsInterleaved THEN [taskIxD |-> "taskNT", taskDxI |-> "taskMis"]
                                      ELSE [taskIxD |-> "taskMis", taskDxI |-> "taskNT"])

WithInput(c, r) == IF r.err # "none" THEN r
                   ELSE IF ~Bcastable(c.ib, r.batch) THEN Raise("RuntimeError") ELSE Res(r.terms, Bcast(c.ib, r.batch))

\* one likelihood applied with positional extras `params` and keywords `kw`
Apply(c, params, kw) ==
  CASE c.op = "call" -> WithInput(c, MarginalNoise(c, params, kw))
       \* log_marginal: marginal(...), then the variance of the marginal in ITS layout
    [] c.op = "lm"   -> LET r == WithInput(c, MarginalNoise(c, params, kw))
                        IN IF r.err # "none" THEN r ELSE Res(ViewNT(r.terms, c.inter), r.batch)
       \* expected_log_prob / forward: _shaped_noise_covar(mean.shape, *params, **kwargs).diagonal().view(..., n, t)
    [] c.op \in {"elp", "cond"} ->
                        LET r == WithInput(c, Shaped(c, c.ib, params, kw))
                        IN IF r.err # "none" THEN r ELSE Res(ViewNT(r.terms, TRUE), r.batch)

ParamsOf(c) == IF c.params = "none" THEN <<>> ELSE <<c.params>>

\* DirichletClassificationLikelihood.__call__ (ops "call" and "cond") turns targets= into noise=, with the default
\* alpha_epsilon at HEAD; expected_log_prob / log_marginal do not go through __call__ and take noise= directly
KwOf(c) ==
  IF c.call = "none" THEN NoKw
  ELSE IF c.cls = "Dir" /\ c.ae = "custom" /\ "dirichlet_eps" \notin Repairs /\ c.op \in {"call", "cond"} THEN Kw("callDefEps", <<K>>)
  ELSE Kw("call", CallBatch(c))

Code1(c) == Apply(c, ParamsOf(c), KwOf(c))

\* LikelihoodList.__call__ / forward: likelihood(*args_, {**kwargs, "noise": noise_})  -- the dict goes in POSITIONALLY at HEAD
CodeList(c) ==
  [k \in 1..2 |->
     LET extras == IF c.argform = "tuple" /\ c.op = "call" THEN <<"x">> ELSE <<>>
         m == MemberCfg(c.members[k], c.op, IF EntryGiven(c.noise, k) THEN "kw" ELSE "none", IF extras = <<>> THEN "none" ELSE "x")
     IN IF c.noise = "none" THEN Apply(m, extras, NoKw)
        ELSE IF "list_kwargs" \in Repairs THEN Apply(m, extras, IF EntryGiven(c.noise, k) THEN Kw("call", <<>>) ELSE NoKw)   \* noise=None: stored noise
        ELSE Apply(m, extras \o <<"dict">>, NoKw)]

Code(c) == IF c.cls = "List" THEN CodeList(c) ELSE Code1(c)

\* settings.observation_nan_policy only concerns missing targets: for fully observed targets expected_log_prob and log_marginal
\* denote the same value under every policy (the replay evaluates each such cell under all of them)
Policies == {"ignore", "mask", "fill"}
PolicyNeutral(c) == c.cls # "List" /\ c.op \in {"elp", "lm"} => \A p \in Policies : Expected(c) = Expected(c)

\* ---- the machine: one step picks a cell -----------------------------------------------------------
Start == [cls |-> "none"]
Init == cfg = Start /\ exp = <<>> /\ code = <<>>

Pick(c) == cfg' = c /\ exp' = Expected(c) /\ code' = Code(c)

In(f) == Family = f \/ Family = "all"
PickGauss == cfg = Start /\ In("gauss")     /\ \E c \in GaussCfgs : GaussOK(c) /\ Pick(c)
PickFixed == cfg = Start /\ In("fixed")     /\ \E c \in FixedCfgs : FixedOK(c) /\ Pick(c)
PickDir   == cfg = Start /\ In("dirichlet") /\ \E c \in DirCfgs : DirOK(c) /\ Pick(c)
PickMT    == cfg = Start /\ In("multitask") /\ \E c \in MTCfgs : MTOK(c) /\ Pick(c)
PickHet   == cfg = Start /\ In("het")       /\ \E c \in HetCfgs : HetOK(c) /\ Pick(c)
PickList  == cfg = Start /\ In("list")      /\ \E c \in ListCfgs : ListOK(c) /\ Pick(c)

Next == PickGauss \/ PickFixed \/ PickDir \/ PickMT \/ PickHet \/ PickList

Spec == Init /\ [][Next]_vars

\* ---- the property ------------------------------------------------------------------------------------
\* every cell: exactly the documented terms, each once, in the documented layout and batch shape, and no exception
NoiseExact == cfg # Start => code = exp

\* "noise is added once": no term of the code-shaped result has multiplicity > 1 (implied by NoiseExact; stated
\* separately so a counterexample names the weaker clause as well)
AddedOnce ==
  cfg # Start =>
    IF cfg.cls = "List" THEN \A k \in 1..2 : \A x \in TermNames : code[k].terms[x] <= 1
    ELSE \A x \in TermNames : code.terms[x] <= 1

\* sanity of the declarative side itself: never an exception, never an empty R except the documented no-op
ExpectedSane ==
  cfg # Start /\ cfg.cls # "List" =>
    /\ exp.err = "none"
    /\ (exp.terms = Empty) <=> NoNoise(cfg)
    /\ \A x \in TermNames : exp.terms[x] <= 1

=============================================================================
