---------------------------- MODULE SettingsTrace ----------------------------
(***************************************************************************)
(* Trace validation for property C20 against executions recorded from the  *)
(* real code (hooks in gpytorch/settings.py + run-time wrappers around the *)
(* linear_operator base classes).  One ndjson line per recorded execution: *)
(*   [tid |-> n, events |-> << [ev, cls, obj, before, after, req], ... >>] *)
(* `before`/`after` are what the public read API of the class showed       *)
(* before/after the call, `req` what the context object was asked for.     *)
(*                                                                         *)
(* The trace spec states the PROPERTY over events, not the shape of the    *)
(* implementation:                                                         *)
(*   ConstructIsPure    constructing a context object changes nothing      *)
(*   EnterSetsRequested after __enter__ every named field has the          *)
(*                      requested value and (dtype kinds) unnamed fields   *)
(*                      are unchanged                                      *)
(*   RestoredOnExit     after __exit__ every field reads what it read      *)
(*                      immediately before the matching __enter__          *)
(* Every event is consumed (the next-state relation is total); a failing   *)
(* clause is recorded in `bad` with the event index, so a verdict always   *)
(* names the clause and the event.                                         *)
(***************************************************************************)
EXTENDS Integers, Sequences, FiniteSets, TLC, Json, IOUtils

Traces == ndJsonDeserialize(IOEnv.TRACE_FILE)

VARIABLES t,        \* which recorded execution
          l,        \* next event
          frames,   \* obj -> what was observable just before its __enter__
          fresh,    \* obj -> what was observable when it was constructed
          bad,      \* set of [l, clause, cls] for failed clauses
          fin,      \* TRUE in the state reached after the last event
          skipped   \* number of exits that could not be judged (no matching enter recorded / stale construction)

vars == <<t, l, frames, fresh, bad, skipped, fin>>

Empty == [x \in {} |-> x]
Ev == Traces[t].events[l]
DtypeFields == {"f", "d", "h"}

Init ==
  /\ t \in 1..Len(Traces)
  /\ l = 1
  /\ frames = Empty /\ fresh = Empty /\ bad = {} /\ skipped = 0
  /\ fin = (Len(Traces[t].events) = 0)

Diff(a, b) == {f \in DOMAIN a \cup DOMAIN b : f \notin DOMAIN a \/ f \notin DOMAIN b \/ a[f] # b[f]}
Fail(clause, fields) == bad' = bad \cup {[l |-> l, clause |-> clause, cls |-> Ev.cls, fields |-> fields]}

Construct ==
  /\ Ev.ev = "s_construct"
  /\ fresh' = (Ev.obj :> Ev.before) @@ fresh
  /\ IF Ev.after = Ev.before THEN bad' = bad ELSE Fail("ConstructIsPure", Diff(Ev.after, Ev.before))
  /\ UNCHANGED <<frames, skipped>>

EnterFieldOK(e, f) ==
  IF e.req[f] # "None" THEN e.after[f] = e.req[f]
  ELSE (f \in DtypeFields => e.after[f] = e.before[f])
EnterOK(e) == \A f \in DOMAIN e.req \cap DOMAIN e.after : EnterFieldOK(e, f)

Enter ==
  /\ Ev.ev = "s_enter"
  /\ frames' = (Ev.obj :> [before |-> Ev.before,
                           \* a context object constructed earlier and entered after the setting changed holds a
                           \* stale "previous value": outside the well-nested `with S(args):` programs of C20
                           stale |-> (Ev.obj \in DOMAIN fresh /\ fresh[Ev.obj] # Ev.before)]) @@ frames
  /\ IF EnterOK(Ev) THEN bad' = bad ELSE Fail("EnterSetsRequested", {f \in DOMAIN Ev.req \cap DOMAIN Ev.after : ~EnterFieldOK(Ev, f)})
  /\ fresh' = [o \in DOMAIN fresh \ {Ev.obj} |-> fresh[o]]
  /\ UNCHANGED skipped

Exit ==
  /\ Ev.ev = "s_exit"
  /\ IF Ev.obj \in DOMAIN frames /\ ~frames[Ev.obj].stale
       THEN /\ IF Ev.after = frames[Ev.obj].before THEN bad' = bad ELSE Fail("RestoredOnExit", Diff(Ev.after, frames[Ev.obj].before))
            /\ skipped' = skipped
       ELSE /\ bad' = bad /\ skipped' = skipped + 1
  /\ frames' = [o \in DOMAIN frames \ {Ev.obj} |-> frames[o]]
  /\ UNCHANGED fresh

Other ==
  /\ Ev.ev \notin {"s_construct", "s_enter", "s_exit"}
  /\ UNCHANGED <<frames, fresh, bad, skipped>>

Next ==
  /\ l <= Len(Traces[t].events)
  /\ (Construct \/ Enter \/ Exit \/ Other)
  /\ l' = l + 1
  /\ fin' = (l' = Len(Traces[t].events) + 1)
  /\ t' = t

Done == l = Len(Traces[t].events) + 1

\* used when a single verdict is enough (selftests): TLC prints the trace up to the failing event
NoFailedClause == bad = {}
=============================================================================
