------------------------------ MODULE NanPolicy ------------------------------
(***************************************************************************)
(* observation_nan_policy (property C16): training targets with missing    *)
(* entries behave as if those observations were deleted.                   *)
(*                                                                         *)
(*  Part "algebra"  exact rational check of what the two policies compute: *)
(*    mask: MaskedLinearOperator semantics = delete the rows and columns   *)
(*          of the missing observations from (K + S) and from the rhs;     *)
(*    fill: zero the rows and columns of the missing observations but keep *)
(*          the diagonal, zero the rhs there, solve, ignore those entries; *)
(*    both must give the solve / posterior mean of the data set with the   *)
(*    missing observations deleted, and the posterior covariance must be   *)
(*    the conditional covariance given the OBSERVED points only.           *)
(*    CovMasked = FALSE models the current code, whose predictive          *)
(*    covariance solves against all training points (prediction: fails).   *)
(*  Part "machine"  the policy-keyed mean cache of the prediction strategy *)
(*    under any order of predictions with different policies: the entry    *)
(*    served was computed under the policy active at the call.             *)
(***************************************************************************)
EXTENDS LinAlg, TLC

CONSTANTS Part, Instances, CovMasked, KeyedByPolicy, MaxLen,
          SetTargetsClears,    \* "all": set_train_data drops the prediction strategy (current code) | "active": only the active policy's entry
          LayoutTest,          \* how the 'mask' branch of the likelihood terms recognises a task-major multitask distribution:
                               \* "event" (current code: event rank 2 and not interleaved) | "meanrank" (the mean is a matrix: false for a batch)
          FantasyCacheLive     \* BOOLEAN: the mean cache carried into a fantasy strategy (computed by a NaN-unaware low-rank update) is
                               \* stored under a key that later predictions look up (current code: FALSE - the entry is never found)

VARIABLES c, hist
vars == <<c, hist>>

\* ============================== algebra ========================================================
\* instance: [G : n x 2 integer features (K = G G^T), s2, y : integers, obs : BOOLEAN sequence, t : test feature row]
N(i)   == Len(i.G)
A(i)   == LET G == FromInt(i.G) IN MAdd(MMul(G, Tr(G)), MScale(R(i.s2), Ident(N(i))))
Obs(i) == SelectSeq([k \in 1..N(i) |-> k], LAMBDA k : i.obs[k])
Ksx(i) == LET G == FromInt(i.G) IN MMul(FromInt(<<i.t>>), Tr(G))              \* 1 x n
Kss(i) == LET ts == FromInt(<<i.t>>) IN MMul(ts, Tr(ts))                      \* 1 x 1

\* the meaning: condition on the observed points only
DelSolve(i) == Solve(Sel(A(i), Obs(i), Obs(i)), VSel(VFromInt(i.y), Obs(i)))
DelMean(i)  == MVec(Sel(Ksx(i), <<1>>, Obs(i)), DelSolve(i))
DelCov(i)   == CondCov(Kss(i), Sel(Ksx(i), <<1>>, Obs(i)), Sel(A(i), Obs(i), Obs(i)))

\* policy "mask", code-shaped: mean_cache has NaN (here: zero, never read) at missing entries
MaskCache(i) == LET s == DelSolve(i) o == Obs(i)
                IN [k \in 1..N(i) |-> IF i.obs[k] THEN s[CHOOSE j \in 1..Len(o) : o[j] = k] ELSE RZero]
MaskMean(i)  == MVec(Sel(Ksx(i), <<1>>, Obs(i)), VSel(MaskCache(i), Obs(i)))

\* policy "fill", code-shaped: kernel * mask with the diagonal kept, rhs filled then (implicitly) zeroed by the mask
FillA(i)     == Mk(N(i), N(i), LAMBDA p, q : IF p = q \/ (i.obs[p] /\ i.obs[q]) THEN A(i)[p][q] ELSE RZero)
FillRhs(i)   == [k \in 1..N(i) |-> IF i.obs[k] THEN R(i.y[k]) ELSE R(-999)]     \* _fill_value
\* the missing rows decouple: x_k = -999 / A_kk there; the code overwrites them with NaN and masks the columns of K*x
FillCache(i) == Solve(FillA(i), FillRhs(i))
FillMean(i)  == MVec(Mk(1, N(i), LAMBDA p, q : IF i.obs[q] THEN Ksx(i)[1][q] ELSE RZero),
                     [k \in 1..N(i) |-> IF i.obs[k] THEN FillCache(i)[k] ELSE RZero])

\* predictive covariance: the current code solves against ALL training points whatever the policy
CodeCov(i)   == IF CovMasked THEN DelCov(i) ELSE CondCov(Kss(i), Ksx(i), A(i))

MaskIsDeletion == Part = "algebra" => VSel(MaskCache(c), Obs(c)) = DelSolve(c) /\ MaskMean(c) = DelMean(c)
FillIsDeletion == Part = "algebra" => VSel(FillCache(c), Obs(c)) = DelSolve(c) /\ FillMean(c) = DelMean(c)
CovIsDeletion  == Part = "algebra" => CodeCov(c) = DelCov(c)
\* conditioning on fewer points never gives a smaller variance: the unmasked covariance is too small when something is missing
UnmaskedCovIsTooSmall == Part = "algebra" => RLe(CondCov(Kss(c), Ksx(c), A(c))[1][1], DelCov(c)[1][1])

\* ============================== machine ========================================================
Policies == {"mask", "fill"}
Predict(p) ==
  /\ Part = "machine" /\ Len(hist) < MaxLen
  /\ LET key == IF KeyedByPolicy THEN p ELSE "any"
         hit == key \in c.cache
     IN /\ c' = [cache |-> c.cache \cup {key},
                 computedUnder |-> IF hit THEN c.computedUnder ELSE [c.computedUnder EXCEPT ![key] = p],
                 served |-> IF hit THEN c.computedUnder[key] ELSE p,
                 want |-> p]
        /\ hist' = Append(hist, [a |-> "Predict", policy |-> p, hit |-> hit])
Reset ==        \* train(); eval(): the prediction strategy is dropped
  /\ Part = "machine" /\ Len(hist) < MaxLen
  /\ c' = [cache |-> {}, computedUnder |-> [k \in Policies \cup {"any"} |-> "none"], served |-> "none", want |-> "none"]
  /\ hist' = Append(hist, [a |-> "Reset"])

ServedUnderCurrentPolicy == Part = "machine" => c.served = c.want

\* ============================== datahist =======================================================
\* The policy-keyed cache when the DATA changes between predictions: set_train_data(targets=...) and get_fantasy_model, under any
\* policy (or none), with missing entries in the old and the new targets.  State: data version dv, cache entries [key, pol, dv, how]
\* ("how" = "solve": computed from the data under that policy; "lowrank": carried by the fantasy update, which is not NaN-aware).
DKey(p) == IF KeyedByPolicy THEN p ELSE "any"
DInit == [dv |-> 0, cache |-> {}, served |-> [pol |-> "none", dv |-> 0, how |-> "solve"], want |-> [pol |-> "none", dv |-> 0, how |-> "solve"]]
DPredict(p) ==
  /\ Part = "datahist" /\ Len(hist) < MaxLen
  /\ LET hits == {e \in c.cache : e.key = DKey(p)}
         e0 == IF hits = {} THEN [key |-> DKey(p), pol |-> p, dv |-> c.dv, how |-> "solve"] ELSE CHOOSE e \in hits : TRUE
     IN c' = [c EXCEPT !.cache = @ \cup {e0}, !.served = [pol |-> e0.pol, dv |-> e0.dv, how |-> e0.how], !.want = [pol |-> p, dv |-> c.dv, how |-> "solve"]]
  /\ hist' = Append(hist, [a |-> "Predict", policy |-> p])
DReset ==
  /\ Part = "datahist" /\ Len(hist) < MaxLen
  /\ c' = [c EXCEPT !.cache = {}, !.served = c.want]
  /\ hist' = Append(hist, [a |-> "Reset"])
\* set_train_data(targets=new targets with their own missing entries), called under policy u or outside any policy block ("none")
DSetTargets(u) ==
  /\ Part = "datahist" /\ Len(hist) < MaxLen
  /\ c' = [c EXCEPT !.dv = @ + 1, !.served = c.want,
                     !.cache = IF SetTargetsClears = "all" THEN {} ELSE {e \in @ : e.key # DKey(IF u = "none" THEN "ignore" ELSE u)}]
  /\ hist' = Append(hist, [a |-> "SetTargets", under |-> u])
\* get_fantasy_model under policy p (needs a strategy: some prediction was made); the history continues ON the fantasy model
DFantasy(p) ==
  /\ Part = "datahist" /\ Len(hist) < MaxLen /\ c.cache # {}
  /\ c' = [c EXCEPT !.dv = @ + 1, !.served = c.want,
                     !.cache = IF FantasyCacheLive THEN {[key |-> DKey(p), pol |-> p, dv |-> c.dv + 1, how |-> "lowrank"]} ELSE {}]
  /\ hist' = Append(hist, [a |-> "Fantasy", policy |-> p])
\* every prediction is the deletion answer for the CURRENT targets under the CURRENT policy, computed NaN-aware
ServedCurrent == Part = "datahist" => c.served = c.want

\* ============================== layout ==========================================================
\* The likelihood terms (expected_log_prob / log_marginal) under 'mask' select the observed entries of mean, targets and noise with
\* a flat boolean mask and the SAME flat mask, reshaped, on the rows/columns of the covariance.  The covariance of a multitask
\* distribution is ordered point by point (interleaved: k = (i-1) T + t) or task by task (k = (t-1) N + i).  The code transposes
\* mean / targets / noise / mask to task-major before flattening iff it recognises a task-major distribution.
\* case: [il : BOOLEAN, rank : batch rank of the distribution 0..2, obs : set of observed <<i, t>>]
LN == 2
LT == 3
LCells == {<<i, t>> : i \in 1..LN, t \in 1..LT}
LayoutCases == [il : BOOLEAN, rank : 0..2, obs : {LCells, LCells \ {<<1, 2>>}, LCells \ {<<1, 2>>, <<2, 1>>}, {<<1, 1>>, <<2, 3>>}, {<<1, 2>>, <<2, 1>>, <<2, 3>>}}]
Transposes(q) == CASE LayoutTest = "event"    -> ~q.il                     \* event rank of a multitask distribution is 2 whatever its batch
                   [] LayoutTest = "meanrank" -> ~q.il /\ q.rank = 0        \* the mean has q.rank + 2 dimensions
\* flat position of cell <<i, t>> in the order the code flattens mean / targets / noise / mask
FlatPos(q, cell) == IF Transposes(q) THEN (cell[2] - 1) * LN + cell[1] ELSE (cell[1] - 1) * LT + cell[2]
\* the cell the covariance holds at flat position k
CovCell(q, k) == IF q.il THEN <<((k - 1) \div LT) + 1, ((k - 1) % LT) + 1>> ELSE <<((k - 1) % LN) + 1, ((k - 1) \div LN) + 1>>
\* every selected entry of the mean is paired with the variance of the same (point, task) cell, and exactly the observed cells are kept
LayoutPaired == Part = "layout" => \A cell \in c.obs : CovCell(c, FlatPos(c, cell)) = cell

Init ==
  /\ hist = <<>>
  /\ IF Part = "layout" THEN c \in LayoutCases ELSE
     IF Part = "algebra" THEN c \in Instances
     ELSE IF Part = "datahist" THEN c = DInit
     ELSE c = [cache |-> {}, computedUnder |-> [k \in Policies \cup {"any"} |-> "none"], served |-> "none", want |-> "none"]
Next == IF Part = "machine" THEN (Reset \/ \E p \in Policies : Predict(p))
        ELSE IF Part = "datahist" THEN (DReset \/ (\E p \in Policies : DPredict(p) \/ DFantasy(p)) \/ (\E u \in Policies \cup {"none"} : DSetTargets(u)))
        ELSE UNCHANGED vars
Spec == Init /\ [][Next]_vars
=============================================================================
