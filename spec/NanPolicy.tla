------------------------------ MODULE NanPolicy ------------------------------
(***************************************************************************)
(* observation_nan_policy (property C16): training targets with missing    *)
(* entries behave as if those observations were deleted.                   *)
(*                                                                         *)
(*  Part "algebra"  exact rational check of what the two policies compute: *)
(*    mask: MaskedLinearOperator semantics = delete the rows and columns   *)
(*          of the missing observations from (K + S) and from the rhs;     *)
(*    fill: zero the rows and columns of the missing observations but keep *)
(*          the diagonal, zero the rhs there, solve, ignore those entries; *)
(*    both must give the solve / posterior mean of the data set with the   *)
(*    missing observations deleted, and the posterior covariance must be   *)
(*    the conditional covariance given the OBSERVED points only.           *)
(*    CovMasked = FALSE models the current code, whose predictive          *)
(*    covariance solves against all training points (prediction: fails).   *)
(*  Part "machine"  the policy-keyed mean cache of the prediction strategy *)
(*    under any order of predictions with different policies: the entry    *)
(*    served was computed under the policy active at the call.             *)
(***************************************************************************)
EXTENDS LinAlg, TLC

CONSTANTS Part, Instances, CovMasked, KeyedByPolicy, MaxLen

VARIABLES c, hist
vars == <<c, hist>>

\* ============================== algebra ========================================================
\* instance: [G : n x 2 integer features (K = G G^T), s2, y : integers, obs : BOOLEAN sequence, t : test feature row]
N(i)   == Len(i.G)
A(i)   == LET G == FromInt(i.G) IN MAdd(MMul(G, Tr(G)), MScale(R(i.s2), Ident(N(i))))
Obs(i) == SelectSeq([k \in 1..N(i) |-> k], LAMBDA k : i.obs[k])
Ksx(i) == LET G == FromInt(i.G) IN MMul(FromInt(<<i.t>>), Tr(G))              \* 1 x n
Kss(i) == LET ts == FromInt(<<i.t>>) IN MMul(ts, Tr(ts))                      \* 1 x 1

\* the meaning: condition on the observed points only
DelSolve(i) == Solve(Sel(A(i), Obs(i), Obs(i)), VSel(VFromInt(i.y), Obs(i)))
DelMean(i)  == MVec(Sel(Ksx(i), <<1>>, Obs(i)), DelSolve(i))
DelCov(i)   == CondCov(Kss(i), Sel(Ksx(i), <<1>>, Obs(i)), Sel(A(i), Obs(i), Obs(i)))

\* policy "mask", code-shaped: mean_cache has NaN (here: zero, never read) at missing entries
MaskCache(i) == LET s == DelSolve(i) o == Obs(i)
                IN [k \in 1..N(i) |-> IF i.obs[k] THEN s[CHOOSE j \in 1..Len(o) : o[j] = k] ELSE RZero]
MaskMean(i)  == MVec(Sel(Ksx(i), <<1>>, Obs(i)), VSel(MaskCache(i), Obs(i)))

\* policy "fill", code-shaped: kernel * mask with the diagonal kept, rhs filled then (implicitly) zeroed by the mask
FillA(i)     == Mk(N(i), N(i), LAMBDA p, q : IF p = q \/ (i.obs[p] /\ i.obs[q]) THEN A(i)[p][q] ELSE RZero)
FillRhs(i)   == [k \in 1..N(i) |-> IF i.obs[k] THEN R(i.y[k]) ELSE R(-999)]     \* _fill_value
\* the missing rows decouple: x_k = -999 / A_kk there; the code overwrites them with NaN and masks the columns of K*x
FillCache(i) == Solve(FillA(i), FillRhs(i))
FillMean(i)  == MVec(Mk(1, N(i), LAMBDA p, q : IF i.obs[q] THEN Ksx(i)[1][q] ELSE RZero),
                     [k \in 1..N(i) |-> IF i.obs[k] THEN FillCache(i)[k] ELSE RZero])

\* predictive covariance: the current code solves against ALL training points whatever the policy
CodeCov(i)   == IF CovMasked THEN DelCov(i) ELSE CondCov(Kss(i), Ksx(i), A(i))

MaskIsDeletion == Part = "algebra" => VSel(MaskCache(c), Obs(c)) = DelSolve(c) /\ MaskMean(c) = DelMean(c)
FillIsDeletion == Part = "algebra" => VSel(FillCache(c), Obs(c)) = DelSolve(c) /\ FillMean(c) = DelMean(c)
CovIsDeletion  == Part = "algebra" => CodeCov(c) = DelCov(c)
\* conditioning on fewer points never gives a smaller variance: the unmasked covariance is too small when something is missing
UnmaskedCovIsTooSmall == Part = "algebra" => RLe(CondCov(Kss(c), Ksx(c), A(c))[1][1], DelCov(c)[1][1])

\* ============================== machine ========================================================
Policies == {"mask", "fill"}
Predict(p) ==
  /\ Part = "machine" /\ Len(hist) < MaxLen
  /\ LET key == IF KeyedByPolicy THEN p ELSE "any"
         hit == key \in c.cache
     IN /\ c' = [cache |-> c.cache \cup {key},
                 computedUnder |-> IF hit THEN c.computedUnder ELSE [c.computedUnder EXCEPT ![key] = p],
                 served |-> IF hit THEN c.computedUnder[key] ELSE p,
                 want |-> p]
        /\ hist' = Append(hist, [a |-> "Predict", policy |-> p, hit |-> hit])
Reset ==        \* train(); eval(): the prediction strategy is dropped
  /\ Part = "machine" /\ Len(hist) < MaxLen
  /\ c' = [cache |-> {}, computedUnder |-> [k \in Policies \cup {"any"} |-> "none"], served |-> "none", want |-> "none"]
  /\ hist' = Append(hist, [a |-> "Reset"])

ServedUnderCurrentPolicy == Part = "machine" => c.served = c.want

Init ==
  /\ hist = <<>>
  /\ IF Part = "algebra" THEN c \in Instances
     ELSE c = [cache |-> {}, computedUnder |-> [k \in Policies \cup {"any"} |-> "none"], served |-> "none", want |-> "none"]
Next == IF Part = "machine" THEN (Reset \/ \E p \in Policies : Predict(p)) ELSE UNCHANGED vars
Spec == Init /\ [][Next]_vars
=============================================================================
