------------------------------ MODULE MVNShapes ------------------------------
(***************************************************************************)
(* Constant-free helpers shared by MVN.tla and MVNOps.tla: numpy shape     *)
(* broadcasting, expansion of row-major tensors [shape, data, err] (the    *)
(* tensor format of PyIndex.tla) and exact rational scalars <<num, den>>.  *)
(***************************************************************************)
EXTENDS PyIndex

NoShape == <<-1>>

RECURSIVE BShape(_, _)
BShape(s, t) ==      \* numpy broadcast of two shapes; NoShape if incompatible
  IF s = NoShape \/ t = NoShape THEN NoShape
  ELSE IF s = <<>> THEN t ELSE IF t = <<>> THEN s
  ELSE LET a == s[Len(s)] b == t[Len(t)]
           r == BShape(SubSeq(s, 1, Len(s) - 1), SubSeq(t, 1, Len(t) - 1))
       IN IF r = NoShape \/ ~(a = b \/ a = 1 \/ b = 1) THEN NoShape ELSE Append(r, IF a = 1 THEN b ELSE a)

CanBcast(s, t) == s # NoShape /\ t # NoShape /\ Len(s) <= Len(t) /\ BShape(s, t) = t            \* s expands to t (torch .expand)

\* the same, by definition: right-aligned, every dimension equal or 1
CanBcastDef(s, t) == /\ Len(s) <= Len(t)
                     /\ \A j \in 1..Len(s) : s[j] = t[j + Len(t) - Len(s)] \/ s[j] = 1

\* T expanded to `shape` (requires CanBcast(T.shape, shape))
BcastTo(T, shape) ==
  LET k == Len(shape) - Len(T.shape)
      Src(p) == LET RECURSIVE Sum(_)
                    Sum(j) == IF j > Len(T.shape) THEN 0
                              ELSE (IF T.shape[j] = 1 THEN 0 ELSE ((p \div Stride(shape, j + k)) % shape[j + k])) * Stride(T.shape, j) + Sum(j + 1)
                IN Sum(1)
  IN [shape |-> shape, data |-> [p \in 1..Prod(shape) |-> T.data[Src(p - 1) + 1]], err |-> FALSE]

\* ---- rationals -------------------------------------------------------------------------------------
RI(n) == <<n, 1>>
RAdd(a, b) == <<a[1] * b[2] + b[1] * a[2], a[2] * b[2]>>
RMul(a, b) == <<a[1] * b[1], a[2] * b[2]>>
RInv(a) == IF a[1] < 0 THEN <<-a[2], -a[1]>> ELSE <<a[2], a[1]>>
REq(a, b) == IF a[2] = b[2] THEN a[1] = b[1] ELSE a[1] * b[2] = b[1] * a[2]      \* (equal denominators: no product, TLC integers are 32 bit)

\* tensors of rationals
TMap(T, f(_)) == [shape |-> T.shape, data |-> [p \in DOMAIN T.data |-> f(T.data[p])], err |-> FALSE]
TZip(A, B, f(_, _)) == [shape |-> A.shape, data |-> [p \in DOMAIN A.data |-> f(A.data[p], B.data[p])], err |-> FALSE]
TEq(A, B) == A.shape = B.shape /\ \A p \in DOMAIN A.data : REq(A.data[p], B.data[p])
Reshape(T, shape) == [shape |-> shape, data |-> T.data, err |-> FALSE]
=============================================================================
