------------------------------ MODULE KernelPure ------------------------------
(***************************************************************************)
(* Kernel objects as MUTABLE objects with identity: "deriving an object    *)
(* from a kernel is pure" (property C06, the history dimension).           *)
(*                                                                         *)
(* LazyKernel.tla treats kernels as values, so "evaluate, index, evaluate  *)
(* again" is trivially the same there.  The code does not: Kernel.         *)
(* __getitem__ / expand_batch (and the Additive / Product overrides) copy  *)
(* the receiver and then ASSIGN on the copy (parameter .data, batch shape, *)
(* members).  Whether the receiver survives depends on the copy being deep *)
(* (Kernel.__setstate__ installs the pickled __dict__ itself, so copy.copy *)
(* of a Kernel shares its __dict__ with the original).                     *)
(*                                                                         *)
(* HEAP.  heap[id] = [c, bs, par, kids]: one cell per kernel object (=its  *)
(* __dict__): class, own _batch_shape, own parameter (a labelled tensor of *)
(* shape bs \o tail; every entry of every parameter of the initial kernel  *)
(* has its own label, so no two batch elements / members are exchangeable) *)
(* and the ids of the member kernels.  Structures: a plain kernel, Scale,  *)
(* Additive, Product and nested compositions, with batched members and     *)
(* with an UNBATCHED member ("leaf0": kernel[i] returns the object itself).*)
(*                                                                         *)
(* MACHINE.  fresh -Evaluate-> evaluated -Derive(op)-> derived -Evaluate-> *)
(* re-evaluated (-Derive-> ... up to MaxDerive derivations, each from the  *)
(* ORIGINAL object).  Derive applies the transcribed code of               *)
(*   kernel[idx], kernel.expand_batch(shape)                               *)
(*   K[batch idx (, rows, cols)]   (LazyEvaluatedKernelTensor._getitem ->  *)
(*                                  kernel.__getitem__)                    *)
(*   K[..., rows, cols], K.mT, K.repeat, K.unsqueeze, K.diagonal(),        *)
(*   K.evaluate_kernel()           (the kernel object is shared)           *)
(* to the heap.  Properties (INVARIANTS, on the model of the code):        *)
(*   Pure          after every derivation the value of the ORIGINAL object *)
(*                 (class tree, every parameter tensor, batch shapes) is   *)
(*                 what the first evaluation saw                           *)
(*   DerivedAgree  the derived kernel is the indexed / expanded parameter  *)
(*                 family (declarative: TIndex / broadcast of v0)          *)
(*   LayoutOK      (family "lay") the block -> interleaved shuffle used by *)
(*                 the diag=True branch of the derivative kernels puts the *)
(*                 entry of (point i, output o) at position i*T + o, i.e.  *)
(*                 where the diagonal of the full matrix has it, for every *)
(*                 (n points, D input dimensions, G derivative orders)     *)
(*                 - with per-dimension labels, so that a dimension-major  *)
(*                 / point-major confusion is visible.                     *)
(*                                                                         *)
(* MUTANT MODELS.  `mut` (chosen in Init from Muts) names the site where   *)
(* the model deviates from the code: a shallow copy (shared __dict__) at   *)
(* one of the six copy sites, or a point-major flatten in the diag layout. *)
(* The invariants are stated for mut = "code" only; the states of the      *)
(* other values are a non-vacuity certificate - checks/c06.py requires     *)
(* that every mutant model breaks Pure / LayoutOK on some enumerated       *)
(* history (i.e. the histories TLC hands to the replay can tell the        *)
(* difference).                                                            *)
(***************************************************************************)
EXTENDS PyIndex, TLC

CONSTANTS Structs,     \* structure names explored (see TreeOf)
          PBs,         \* parameter batch shapes explored, e.g. {<<2>>, <<2, 1>>}
          Muts,        \* subset of {"code"} \cup Sites
          MaxDerive,   \* derivations per history
          Lay          \* set of <<n, D, G>> for the layout family ({} = family not explored)

VARIABLES fam, mut, struct, pb, heap, root, phase, v0, steps, hist
vars == <<fam, mut, struct, pb, heap, root, phase, v0, steps, hist>>

Sites == {"kernel.getitem", "kernel.expand", "add.getitem", "add.expand", "prod.getitem", "prod.expand", "lay.flatten"}

\* ---- structures ------------------------------------------------------------------------------------------
Lf  == [c |-> "leaf",  kids |-> <<>>]            \* a kernel with one batched parameter (tail <<1, 1>>, e.g. a lengthscale)
Lf0 == [c |-> "leaf0", kids |-> <<>>]            \* the same without parameter batch
Sc(t)    == [c |-> "scale", kids |-> <<t>>]      \* ScaleKernel: own batched parameter (tail <<>>) + base kernel
Ad(a, b) == [c |-> "add",  kids |-> <<a, b>>]    \* AdditiveKernel
Pr(a, b) == [c |-> "prod", kids |-> <<a, b>>]    \* ProductKernel

TreeOf(s) ==
  CASE s = "leaf"                             -> Lf
    [] s = "scale(leaf)"                      -> Sc(Lf)
    [] s = "add(leaf,leaf)"                   -> Ad(Lf, Lf)
    [] s = "prod(leaf,leaf)"                  -> Pr(Lf, Lf)
    [] s = "add(leaf,leaf0)"                  -> Ad(Lf, Lf0)
    [] s = "prod(leaf0,leaf)"                 -> Pr(Lf0, Lf)
    [] s = "scale(add(leaf,leaf))"            -> Sc(Ad(Lf, Lf))
    [] s = "scale(add(leaf,prod(leaf,leaf)))" -> Sc(Ad(Lf, Pr(Lf, Lf)))
    [] s = "add(scale(leaf),prod(leaf,leaf0))" -> Ad(Sc(Lf), Pr(Lf, Lf0))
    [] s = "prod(add(leaf,leaf),scale(leaf))" -> Pr(Ad(Lf, Lf), Sc(Lf))
    [] s = "add(add(leaf,leaf),leaf)"         -> Ad(Ad(Lf, Lf), Lf)
    [] OTHER                                  -> Lf

NoPar == [shape |-> <<>>, data |-> <<>>, err |-> FALSE]
HasPar(c) == c \in {"leaf", "leaf0", "scale"}
TailOf(c) == IF c = "scale" THEN <<>> ELSE <<1, 1>>

\* ---- shapes / tensors ------------------------------------------------------------------------------------
NoBC == <<-1>>
BC2(a, b) ==
  IF a = NoBC \/ b = NoBC THEN NoBC
  ELSE LET r == Max(Len(a), Len(b))
           A(j) == IF j + Len(a) - r >= 1 THEN a[j + Len(a) - r] ELSE 1
           B(j) == IF j + Len(b) - r >= 1 THEN b[j + Len(b) - r] ELSE 1
       IN IF \A j \in 1..r : A(j) = B(j) \/ A(j) = 1 \/ B(j) = 1
          THEN [j \in 1..r |-> IF A(j) = 1 THEN B(j) ELSE A(j)] ELSE NoBC

UnbFlat(s, B, q) ==
  LET r == Len(s) R == Len(B)
      RECURSIVE Sum(_, _, _)
      Sum(j, ss, sb) == IF j < 1 THEN 0
                        ELSE (IF s[j] = 1 THEN 0 ELSE ((q \div sb) % B[j + R - r]) * ss) + Sum(j - 1, ss * s[j], sb * B[j + R - r])
  IN Sum(r, 1, 1)

\* Tensor.expand(new)
TExpandTo(X, new) ==
  LET s == X.shape r == Len(s) R == Len(new)
  IN IF X.err \/ new = NoBC \/ R < r THEN Err
     ELSE IF ~(\A j \in 1..r : s[j] = new[j + R - r] \/ s[j] = 1) THEN Err
     ELSE [shape |-> new, data |-> [p \in 1..Prod(new) |-> X.data[UnbFlat(s, new, p - 1) + 1]], err |-> FALSE]

PyHead(q, k) == IF k >= 0 THEN SubSeq(q, 1, Min(k, Len(q))) ELSE SubSeq(q, 1, Max(Len(q) + k, 0))

\* ---- the heap --------------------------------------------------------------------------------------------
\* a fresh kernel of structure t with parameter batch b; the entries of the parameter of object id are 16*id, 16*id+1, ...
RECURSIVE Build(_, _, _)
Build(h, t, b) ==
  LET id == Len(h) + 1
      bs == IF t.c \in {"leaf", "scale"} THEN b ELSE <<>>
      node == [c |-> t.c, bs |-> bs, par |-> IF HasPar(t.c) THEN Iota(bs \o TailOf(t.c), 16 * id) ELSE NoPar, kids |-> <<>>]
      RECURSIVE Kids(_, _, _)
      Kids(hh, ts, acc) == IF ts = <<>> THEN [h |-> hh, ids |-> acc]
                           ELSE LET r == Build(hh, Head(ts), b) IN Kids(r.h, Tail(ts), Append(acc, r.id))
      k == Kids(Append(h, node), t.kids, <<>>)
  IN [h |-> [k.h EXCEPT ![id].kids = k.ids], id |-> id]

\* copy.deepcopy(kernel): new objects for the whole subtree
RECURSIVE DeepCopy(_, _)
DeepCopy(h, id) ==
  LET nid == Len(h) + 1
      RECURSIVE Kids(_, _, _)
      Kids(hh, ks, acc) == IF ks = <<>> THEN [h |-> hh, ids |-> acc]
                           ELSE LET r == DeepCopy(hh, Head(ks)) IN Kids(r.h, Tail(ks), Append(acc, r.id))
      k == Kids(Append(h, h[id]), h[id].kids, <<>>)
  IN [h |-> [k.h EXCEPT ![nid].kids = k.ids], id |-> nid]

\* the copy made at `site`: deepcopy in the code; copy.copy of a Kernel is a second name for the same __dict__
Copy(h, id, site, m) == IF m = site THEN [h |-> h, id |-> id] ELSE DeepCopy(h, id)

\* Kernel.batch_shape: own _batch_shape broadcast with the members'
RECURSIVE BShape(_, _)
BShape(h, id) ==
  LET n == h[id]
      RECURSIVE Fold(_, _)
      Fold(ks, acc) == IF ks = <<>> THEN acc ELSE Fold(Tail(ks), BC2(acc, BShape(h, Head(ks))))
  IN Fold(n.kids, n.bs)

OpErr(h) == [h |-> h, id |-> 0, err |-> TRUE]

\* kernel.__getitem__(idx)
RECURSIVE GetItem(_, _, _, _)
GetItem(h, id, idx, m) ==
  LET n == h[id]
  IN IF n.c \in {"add", "prod"}
     THEN \* AdditiveKernel / ProductKernel.__getitem__: new = deepcopy(self); new.kernels[i] = self.kernels[i][idx]
          LET c == Copy(h, id, IF n.c = "add" THEN "add.getitem" ELSE "prod.getitem", m)
              members == n.kids
              RECURSIVE Each(_, _)
              Each(hh, j) == IF j > Len(members) THEN [h |-> hh, id |-> c.id, err |-> FALSE]
                             ELSE LET r == GetItem(hh, members[j], idx, m)
                                  IN IF r.err THEN OpErr(hh) ELSE Each([r.h EXCEPT ![c.id].kids[j] = r.id], j + 1)
          IN Each(c.h, 1)
     ELSE \* Kernel.__getitem__
          LET B == BShape(h, id)
          IN IF Len(B) = 0 THEN [h |-> h, id |-> id, err |-> FALSE]                         \* return self
             ELSE LET c == Copy(h, id, "kernel.getitem", m)
                      np == TIndex(n.par, idx)                                             \* new_param.data = new_param[index]
                      nbs == PyHead(np.shape, Len(B) - (Len(n.par.shape) - Len(np.shape)))
                      h1 == [c.h EXCEPT ![c.id].par = np, ![c.id].bs = nbs]
                      members == n.kids                                                    \* named_sub_kernels of SELF
                      RECURSIVE Each(_, _)
                      Each(hh, j) == IF j > Len(members) THEN [h |-> hh, id |-> c.id, err |-> FALSE]
                                     ELSE LET r == GetItem(hh, members[j], idx, m)
                                          IN IF r.err THEN OpErr(hh) ELSE Each([r.h EXCEPT ![c.id].kids[j] = r.id], j + 1)
                  IN IF np.err THEN OpErr(h) ELSE Each(h1, 1)                              \* IndexError

\* kernel.expand_batch(new)
RECURSIVE ExpandB(_, _, _, _)
ExpandB(h, id, new, m) ==
  LET n == h[id]
  IN IF n.c \in {"add", "prod"}
     THEN \* new = deepcopy(self); new.kernels = ModuleList([k.expand_batch(new) for k in self.kernels])
          LET c == Copy(h, id, IF n.c = "add" THEN "add.expand" ELSE "prod.expand", m)
              members == n.kids
              RECURSIVE Each(_, _)
              Each(hh, j) == IF j > Len(members) THEN [h |-> hh, id |-> c.id, err |-> FALSE]
                             ELSE LET r == ExpandB(hh, members[j], new, m)
                                  IN IF r.err THEN OpErr(hh) ELSE Each([r.h EXCEPT ![c.id].kids[j] = r.id], j + 1)
          IN Each(c.h, 1)
     ELSE LET B == BShape(h, id)
          IN IF new = B THEN [h |-> h, id |-> id, err |-> FALSE]                            \* return self
             ELSE IF BC2(new, B) = NoBC THEN OpErr(h)
             ELSE LET c == Copy(h, id, "kernel.expand", m)
                      np == TExpandTo(n.par, new \o SubSeq(n.par.shape, Len(B) + 1, Len(n.par.shape)))
                      h1 == [c.h EXCEPT ![c.id].par = np, ![c.id].bs = new]
                      members == n.kids
                      RECURSIVE Each(_, _)
                      Each(hh, j) == IF j > Len(members) THEN [h |-> hh, id |-> c.id, err |-> FALSE]
                                     ELSE LET r == ExpandB(hh, members[j], new, m)
                                          IN IF r.err THEN OpErr(hh) ELSE Each([r.h EXCEPT ![c.id].kids[j] = r.id], j + 1)
                  IN IF np.err THEN OpErr(h) ELSE Each(h1, 1)                              \* RuntimeError from Tensor.expand

\* ---- values ----------------------------------------------------------------------------------------------
\* what an evaluation of the object can depend on
RECURSIVE Val(_, _)
Val(h, id) == [c |-> h[id].c, bs |-> BShape(h, id), par |-> h[id].par, kids |-> [j \in DOMAIN h[id].kids |-> Val(h, h[id].kids[j])]]
NoVal == [c |-> "-", bs |-> <<>>, par |-> NoPar, kids |-> <<>>]

\* the parameters in pre-order (what the replay reads back from the real objects): <<class, shape, data>>
RECURSIVE Flat(_)
Flat(v) ==
  LET RECURSIVE Cat(_)
      Cat(ks) == IF ks = <<>> THEN <<>> ELSE Flat(Head(ks)) \o Cat(Tail(ks))
  IN (IF HasPar(v.c) THEN << <<v.c, v.par.shape, v.par.data>> >> ELSE <<>>) \o Cat(v.kids)

\* declarative meaning of kernel[idx] / kernel.expand_batch(new) on a value: every batched parameter family is indexed /
\* broadcast; a kernel is compared up to broadcasting of its parameters against the batch shape B
RECURSIVE IndexedVal(_, _)
IndexedVal(v, idx) == [c |-> v.c, bs |-> v.bs, par |-> IF HasPar(v.c) /\ v.c # "leaf0" THEN TIndex(v.par, idx) ELSE v.par,
                       kids |-> [j \in DOMAIN v.kids |-> IndexedVal(v.kids[j], idx)]]
RECURSIVE ExpandedVal(_, _)
ExpandedVal(v, new) == [c |-> v.c, bs |-> v.bs, par |-> IF HasPar(v.c) THEN TExpandTo(v.par, new \o TailOf(v.c)) ELSE v.par,
                        kids |-> [j \in DOMAIN v.kids |-> ExpandedVal(v.kids[j], new)]]
RECURSIVE AnyErr(_)
AnyErr(v) == v.par.err \/ \E j \in DOMAIN v.kids : AnyErr(v.kids[j])
RECURSIVE Sem(_, _)
Sem(v, B) == [c |-> v.c, par |-> IF HasPar(v.c) THEN TExpandTo(v.par, B \o TailOf(v.c)) ELSE v.par,
              kids |-> [j \in DOMAIN v.kids |-> Sem(v.kids[j], B)]]

IndexedShape(b, idx) == TIndex(Iota(b, 0), idx).shape

\* ---- enumerated operations -------------------------------------------------------------------------------
Sl(a, b, s) == [k |-> "slice", a |-> a, b |-> b, s |-> s]
IntI(v)     == [k |-> "int", v |-> v]
LstI(q)     == [k |-> "list", v |-> q]
IsFullSl(it) == it.k = "slice" /\ it.a = NoneI /\ it.b = NoneI /\ it.s = NoneI

Ax1(n) == {IntI(0), IntI(n - 1), IntI(-1), IntI(-n), Full, Sl(0, 1, NoneI), Sl(1, NoneI, NoneI), Sl(NoneI, NoneI, 2),
           LstI(<<0>>), LstI(<<n - 1, 0>>), LstI(<<-1, -1>>), LstI(<<0, 0, n - 1>>)}
Ax1Few(n) == {IntI(n - 1), Full, Sl(1, NoneI, NoneI), LstI(<<n - 1, 0>>)}
Ax2(n) == {IntI(0), IntI(-1), Full, LstI(<<0, 0>>)}
BIdx(b) == IF b = <<>> THEN {}
           ELSE {i \in ({<<x>> : x \in Ax1(b[1])} \cup (IF Len(b) > 1 THEN {<<x, y>> : x \in Ax1Few(b[1]), y \in Ax2(b[2])} ELSE {})) :
                   ~TIndex(Iota(b, 0), i).err}
\* the batch indices that are also combined with a (row slice, column slice) pair, and the ones the mutant models are run on
BIdxFew(b) == {i \in BIdx(b) : i[1] \in {IntI(b[1] - 1), Sl(1, NoneI, NoneI), LstI(<<b[1] - 1, 0>>)}}
BIdxMut(b) == {i \in BIdx(b) : i = <<IntI(b[1] - 1)>>}
NewShapes(b) == {b, <<2>> \o b} \cup (IF b = <<>> THEN {<<2, 1>>} ELSE {}) \cup (IF Len(b) = 2 /\ b[2] = 1 THEN {<<b[1], 2>>} ELSE {})

\* the operations: <<op, idx, arg>>.  "lgetitem" = K[idx \o mat] on the lazy tensor K = kernel(x1, x2) with data batch = pb;
\* arg = 1: followed by a (row slice, column slice) pair on the matrix axes
Ops(b) ==
  {<<"kgetitem", i, <<>>>> : i \in BIdx(b)} \cup {<<"kexpand", <<>>, s>> : s \in NewShapes(b)}
  \cup {<<"lgetitem", i, <<0>>>> : i \in BIdx(b)} \cup {<<"lgetitem", i, <<1>>>> : i \in BIdxFew(b)}
  \cup {<<o, <<>>, <<>>>> : o \in {"lrows", "transpose", "repeat", "unsqueeze", "diagonal", "evaluate"}}
\* (the mutant models only need one operation of each kind)
OpsMut(b) == {o \in Ops(b) : (o[1] \in {"kgetitem", "lgetitem"} => o[2] \in BIdxMut(b) /\ o[3] # <<1>>) /\ (o[1] = "kexpand" => o[3] = <<2>> \o b)}

\* effect on the heap: [h, id (the kernel of the derived object), err]
Apply(h, r, op, idx, arg, m) ==
  CASE op = "kgetitem" -> GetItem(h, r, idx, m)
    [] op = "kexpand"  -> ExpandB(h, r, arg, m)
    [] op = "lgetitem" -> IF \A j \in DOMAIN idx : IsFullSl(idx[j]) THEN [h |-> h, id |-> r, err |-> FALSE]      \* new_kernel = self.kernel
                          ELSE GetItem(h, r, idx, m)
    [] OTHER           -> [h |-> h, id |-> r, err |-> FALSE]                                                       \* the kernel object is shared

Expected(v, b, op, idx, arg) ==
  CASE op \in {"kgetitem", "lgetitem"} -> IF b = <<>> THEN v ELSE IndexedVal(v, idx)
    [] op = "kexpand"                  -> ExpandedVal(v, arg)
    [] OTHER                           -> v
ExpectedShape(b, op, idx, arg) ==
  CASE op \in {"kgetitem", "lgetitem"} -> IF b = <<>> THEN b ELSE IndexedShape(b, idx)
    [] op = "kexpand"                  -> arg
    [] OTHER                           -> b

\* ---- the diag layout of the derivative kernels -------------------------------------------------------------
\* T = 1 + G*D outputs per point: the value, then for each derivative order g the D per-dimension entries.  The code builds
\* the blocks [value (n) | order 1 (D*n) | order 2 (D*n) ...], every order block DIMENSION-major (an n x D tensor, transposed,
\* flattened), and applies the perfect shuffle pi = arange(n*T).view(T, n).t().reshape(n*T).  Labels: <<point, order, dimension>>.
LayExpected(n, D, G) ==
  LET T == 1 + G * D
  IN [q \in 1..(n * T) |-> LET i == (q - 1) \div T o == (q - 1) % T
                           IN IF o = 0 THEN <<i, 0, 0>> ELSE <<i, ((o - 1) \div D) + 1, ((o - 1) % D) + 1>>]
LayCode(n, D, G, m) ==
  LET T == 1 + G * D
      \* order block g as the code flattens it: position p (0-based) of the D*n entries
      Blk(g, p) == IF m = "lay.flatten" THEN <<p \div D, g, (p % D) + 1>>          \* point-major: reshape without the transpose
                   ELSE <<p % n, g, (p \div n) + 1>>                               \* dimension-major
      Cat(p) == IF p < n THEN <<p, 0, 0>> ELSE Blk(((p - n) \div (D * n)) + 1, (p - n) % (D * n))
      Pi(q) == (q % T) * n + (q \div T)
  IN [q \in 1..(n * T) |-> Cat(Pi(q - 1))]

\* ---- the machine -------------------------------------------------------------------------------------------
Init ==
  /\ mut \in Muts
  /\ \/ /\ fam = "pure" /\ struct \in Structs /\ pb \in PBs /\ mut # "lay.flatten" /\ (mut # "code" => pb = <<2>>)
        /\ LET b == Build(<<>>, TreeOf(struct), pb) IN heap = b.h /\ root = b.id
     \/ /\ fam = "lay" /\ Lay # {} /\ struct = "-" /\ pb = <<>> /\ heap = <<>> /\ root = 0 /\ mut \in {"code", "lay.flatten"}
  /\ phase = "fresh" /\ v0 = NoVal /\ steps = 0 /\ hist = <<>>

Evaluate ==
  /\ fam = "pure" /\ phase \in {"fresh", "derived"}
  /\ IF phase = "fresh"
     THEN v0' = Val(heap, root) /\ hist' = hist /\ phase' = "evaluated"
     ELSE /\ v0' = v0 /\ phase' = "re-evaluated"
          /\ hist' = [hist EXCEPT ![Len(hist)].pure = (Val(heap, root) = v0), ![Len(hist)].orig = Flat(Val(heap, root))]
  /\ UNCHANGED <<fam, mut, struct, pb, heap, root, steps>>

Derive(op, idx, arg) ==
  /\ fam = "pure" /\ phase \in {"evaluated", "re-evaluated"} /\ steps < MaxDerive /\ (mut # "code" => steps < 1)
  /\ LET r == Apply(heap, root, op, idx, arg, mut)
         e == Expected(v0, pb, op, idx, arg)
         es == ExpectedShape(pb, op, idx, arg)
         d == IF r.err THEN NoVal ELSE Val(r.h, r.id)
     IN /\ heap' = r.h
        /\ hist' = Append(hist, [op |-> op, idx |-> idx, arg |-> arg, derr |-> r.err, eerr |-> AnyErr(e), eshape |-> es,
                                 dexp |-> IF AnyErr(e) THEN <<>> ELSE Flat(Sem(e, es)),
                                 dok |-> IF AnyErr(e) THEN r.err ELSE (~r.err /\ d.bs = es /\ Sem(d, es) = Sem(e, es)),
                                 same |-> (~r.err /\ r.id = root), pure |-> TRUE, orig |-> <<>>])
  /\ phase' = "derived" /\ steps' = steps + 1
  /\ UNCHANGED <<fam, mut, struct, pb, root, v0>>

LayStep(c) ==
  /\ fam = "lay" /\ phase = "fresh"
  /\ LET e == LayExpected(c[1], c[2], c[3]) m == LayCode(c[1], c[2], c[3], mut)
     IN hist' = <<[op |-> "diaglayout", idx |-> <<>>, arg |-> c, derr |-> FALSE, eerr |-> FALSE, eshape |-> <<Len(e)>>, dexp |-> e,
                   dok |-> (e = m), same |-> FALSE, pure |-> TRUE, orig |-> <<>>]>>
  /\ phase' = "re-evaluated" /\ steps' = 1
  /\ UNCHANGED <<fam, mut, struct, pb, heap, root, v0>>

Next ==
  \/ Evaluate
  \/ \E o \in (IF mut = "code" THEN Ops(pb) ELSE OpsMut(pb)) : Derive(o[1], o[2], o[3])
  \/ \E c \in Lay : LayStep(c)

Spec == Init /\ [][Next]_vars

\* ---- the properties (of the model of the code) ----------------------------------------------------------------
Pure         == mut = "code" => \A i \in DOMAIN hist : hist[i].pure
DerivedAgree == (mut = "code" /\ fam = "pure") => \A i \in DOMAIN hist : hist[i].dok
LayoutOK     == (mut = "code" /\ fam = "lay") => \A i \in DOMAIN hist : hist[i].dok
\* no two entries of the parameters of a fresh kernel are equal (no relation can hold by symmetry of the parameters)
RECURSIVE AllData(_)
AllData(fl) == IF fl = <<>> THEN <<>> ELSE Head(fl)[3] \o AllData(Tail(fl))
ParamsDistinct == phase = "evaluated" => LET q == AllData(Flat(v0)) IN \A i, j \in DOMAIN q : i # j => q[i] # q[j]
=============================================================================
