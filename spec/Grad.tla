------------------------------- MODULE Grad -------------------------------
(***************************************************************************)
(* Hand-written derivatives (property C19).  EXTENDS Kernels: the dispatch *)
(* predicate (PathOf) of the two-path kernels is reused.                   *)
(*                                                                         *)
(* Part "gcells": the branch / case lattice of the hand-written backward   *)
(* passes as TLC states:                                                   *)
(*   cov   RBFCovariance / MaternCovariance: nu x coincident points (r = 0 *)
(*         entries) x batch x upstream gradient, with the saved            *)
(*         d_output/d_lengthscale formula of the branch;                   *)
(*   path  every fast cell of Kernels.tla paired with the forcing that     *)
(*         moves it onto the generic branch (same Meaning);                *)
(*   cdf   LogNormalCDF on a rational grid z = n/20: the forward masks     *)
(*         (z^2 < 0.04, z < -1, otherwise) and the backward mask (z < -1)  *)
(*         transcribed; the backward reads ctx.numerator / ctx.denominator *)
(*         exactly where the forward stored them;                          *)
(*   nat   natural / tril-natural variational distributions x size x batch *)
(*         x loss; ciq; pred (gradients w.r.t. test inputs).               *)
(*                                                                         *)
(* Part "gexact": rational instances.                                      *)
(*   nat / tril: forward map natural -> (mu, Sigma) as the code computes   *)
(*         it = the definition; the gradient delivered for a loss with     *)
(*         partials (g_mu, G_Sigma) is the gradient w.r.t. the EXPECTATION *)
(*         parameters eta1 = mu, eta2 = Sigma + mu mu^T, checked against   *)
(*         exact central differences of the (quadratic) composite; tril:   *)
(*         the tangent pushed to the Cholesky-type factor C solves         *)
(*         dC^T C + C^T dC = -2 G_Sigma, dC lower triangular.              *)
(*   covr: (dk/dlengthscale) / k of the RBF and Matern functions as        *)
(*         rational functions, code shape = calculus on the polynomial     *)
(*         coefficients, on geometries whose scaled distances are rational.*)
(*                                                                         *)
(* Part "gcalls": the CALL-CONFIGURATION lattice of the two-path kernels   *)
(* (KernelCalls.tla): every keyword that selects between the hand-written  *)
(* Function and the generic branch (diag, last_dim_is_batch, x2 = None /   *)
(* equal / different, requires_grad of either input, trace_mode, ARD vs    *)
(* shared vs batched lengthscale) x sizes incl. the coincidences kernel    *)
(* batch = d = n x the GEOMETRY of the points (unit | rows shared between  *)
(* two different tensors: r = 0 exactly | far offset with more rows than   *)
(* the threshold of the quadratic expansion of torch.cdist).  TLC checks   *)
(* that the dispatch hands the Function only configurations its saved      *)
(* derivative is right for and that every quadratic expansion is handed    *)
(* centred points (KCCallOK); the replay                                   *)
(* compares values and the gradient of EVERY parameter with autograd of    *)
(* the documented formula, under every forcing of every cell.              *)
(*                                                                         *)
(* Part "gmachine": forward -> backward^k through ONE graph                *)
(* (BackwardOps.tla) for every hand-written Function, reached directly and *)
(* through the public object that uses it: different upstream gradients,   *)
(* retain_graph, accumulation into .grad, Jacobian rows.  Invariants: the  *)
(* backward is pure with respect to the saved context and every pass sees  *)
(* what the forward stored, i.e. delivers u_j . dF(x).                     *)
(*                                                                         *)
(* WHO REQUIRES A GRADIENT is a dimension of every part: gcells nat / ciq  *)
(* (every non-empty subset of the inputs of the Function trains, the rest  *)
(* is frozen), gexact (train), gcalls (every subset of {x1, x2}, see       *)
(* KernelCalls.tla: KCWants), gmachine (rg: every non-empty subset of the  *)
(* inputs of every Function, via both routes; BackwardOps.tla: BWNeedsOK), *)
(* and "ind": k(x, Z) inside InducingPointKernel, where only the inducing  *)
(* points Z require grad.  Each input that requires grad must be DELIVERED *)
(* a gradient (not None) and it must be the derivative of the documented   *)
(* function / the expectation-parameter gradient - the same value whatever *)
(* else requires grad.                                                     *)
(***************************************************************************)
EXTENDS Kernels, KernelCalls, BackwardOps

CONSTANTS MachFns,        \* part "gmachine": the Functions of this run (the cases are partitioned over several TLC runs)
          MachRG,         \* "base": rg = the inputs the hand-written backward differentiates | "other": every other non-empty subset of the inputs
          MachShortcut    \* the shortcut set of BackwardOps!BWOutcome; {} = the code

\* ============================== gcells ==========================================================
CovCells  == [kind : {"cov"}, fn : TwoPath, coincident : BOOLEAN, batch : {"none", "b2", "b23"}, upstream : {"ones", "random"}, d : {1, 3}]
\* fast cells of the kernel lattice (plain / scaled kernels, full matrices) and what forces the generic branch
PathCells == {[kind |-> "path", cell |-> s, force |-> f] : s \in {t \in Cells : Valid(t) /\ t.fam \in TwoPath /\ t.comp \in {"plain", "scale"} /\ ~t.adims
                                                                 /\ t.mode \in {"gt", "same"} /\ t.force = "none" /\ PathOf(t) = "fast"},
                                                         f \in {"x1grad", "trace"}}
\* ARD cells with more than one lengthscale: only the generic branch exists; its hyperparameter gradients are compared with the formula's
ArdCells  == {[kind |-> "ard", cell |-> s] : s \in {t \in Cells : Valid(t) /\ t.fam \in TwoPath /\ t.comp \in {"plain", "scale"} /\ ~t.adims /\ t.ard /\ t.d > 1
                                                         /\ t.mode \in {"gt", "same"} /\ t.force = "none" /\ t.batch # "inputs"}}
ZNums     == (-240..160) \cup {-800, -600, -400}                     \* z = n / 20: [-12, 8] in steps of 0.05 and the far tail
CdfCells  == [kind : {"cdf"}, zn : ZNums]
\* train / rg: which inputs of the Function require grad (the others are frozen: requires_grad_(False) / constant tensors)
NatCells  == [kind : {"nat"}, dist : {"natural", "tril"}, M : 1..3, batch : {"none", "b2"}, loss : {"linear", "kl", "quadlogdet"}, train : {"both", "vec", "mat"}]
CiqCells  == [kind : {"ciq"}, batch : {"none", "b2"}, M : 2..3, rg : BWNeedSets("ngdinterp")]
\* SGPR: InducingPointKernel evaluates base_kernel(x, Z) with only Z requiring grad; d mll / d Z against finite differences
\* (nu = 1/2 is not differentiable in Z where an inducing point meets a data point: finite differences are no oracle there)
IndCells  == [kind : {"ind"}, kern : {"rbf", "matern15", "matern25", "rbf_ard"}, wrap : {"plain", "scale"}]
PredCells == [kind : {"pred"}, kern : {"rbf", "matern15", "matern25", "rbf_ard", "matern25_ard"}, fpv : BOOLEAN, what : {"mean", "variance"}]
GCells == CovCells \cup PathCells \cup ArdCells \cup CdfCells \cup NatCells \cup CiqCells \cup PredCells \cup IndCells
NatTrains(s) == CASE s.train = "both" -> BWInputs(IF s.dist = "tril" THEN "trilnat2muvar" ELSE "nat2muvar")
                  [] s.train = "vec" -> {"natural_vec"} [] s.train = "mat" -> {IF s.dist = "tril" THEN "natural_tril_mat" ELSE "natural_mat"}

\* LogNormalCDF.forward masks at z = n / 20
ZNearZero(n)  == n * n < 16                     \* z.pow(2).lt(0.04)
ZIsSmall(n)   == n < -20                        \* z.lt(-1)
ZIsOrdinary(n) == ~(ZNearZero(n) \/ ZIsSmall(n))
FwdBranch(n)  == IF ZNearZero(n) THEN "near_zero" ELSE IF ZIsSmall(n) THEN "small" ELSE "ordinary"
\* LogNormalCDF.backward: z.lt(-1) -> |denominator / numerator| sqrt(2/pi), else exp(-z^2/2 - log_phi_z + log(1/2)) sqrt(2/pi)
BwdBranch(n)  == IF n < -20 THEN "ratio" ELSE "exp"

\* the saved derivative of the covariance functions, by branch
CovFormula(fn) == CASE fn = "rbf" -> "r2 k / l" [] fn = "matern05" -> "s exp(-s) / l" [] fn = "matern15" -> "s^2 exp(-s) / l" [] fn = "matern25" -> "(1 + s)(s^2 / 3) exp(-s) / l"

GOut(s) == CASE s.kind = "cov"  -> CovFormula(s.fn)
             [] s.kind = "path" -> [fast |-> PathOf(s.cell), forced |-> PathOf([s.cell EXCEPT !.force = s.force])]
             [] s.kind = "ard"  -> PathOf(s.cell)
             [] s.kind = "cdf"  -> [fwd |-> FwdBranch(s.zn), bwd |-> BwdBranch(s.zn)]
             [] s.kind = "nat"  -> [wants |-> NatTrains(s), delivers |-> BWOutcome(IF s.dist = "tril" THEN "trilnat2muvar" ELSE "nat2muvar", "public", NatTrains(s), {}).grads]
             [] s.kind = "ciq"  -> [wants |-> s.rg, delivers |-> BWOutcome("ngdinterp", "function", s.rg, {}).grads]
             [] OTHER -> "replay"

GCellsOK ==
  Part = "gcells" =>
    /\ out = GOut(c)
    /\ (c.kind = "path" => LET t == [c.cell EXCEPT !.force = c.force]
                           IN Valid(t) /\ PathOf(c.cell) = "fast" /\ PathOf(t) = "generic" /\ Meaning(t) = Meaning(c.cell))
    /\ (c.kind = "ard" => PathOf(c.cell) = "generic" /\ FastRejects(c.cell))
    /\ (c.kind = "nat" => BWNeedsOK(IF c.dist = "tril" THEN "trilnat2muvar" ELSE "nat2muvar", "public", NatTrains(c), {}))
    /\ (c.kind = "ciq" => BWNeedsOK("ngdinterp", "function", c.rg, {}))
    /\ (c.kind = "cdf" =>
          /\ (IF ZNearZero(c.zn) THEN 1 ELSE 0) + (IF ZIsSmall(c.zn) THEN 1 ELSE 0) + (IF ZIsOrdinary(c.zn) THEN 1 ELSE 0) = 1   \* the masks partition the line
          /\ (BwdBranch(c.zn) = "ratio" <=> FwdBranch(c.zn) = "small"))       \* ctx.numerator / ctx.denominator exist exactly where the backward reads them

\* ============================== gexact ==========================================================
IsLower(A)   == \A i \in 1..Rows(A), j \in 1..Rows(A) : j > i => A[i][j] = RZero
PhiChol(A)   == Mk(Rows(A), Rows(A), LAMBDA i, j : IF i > j THEN A[i][j] ELSE IF i = j THEN RDiv(A[i][i], R(2)) ELSE RZero)   \* _phi_for_cholesky_
Frob(A, B)   == RSum([i \in 1..Rows(A) |-> Dot(A[i], B[i])])
Outer(u, v)  == Mk(Len(u), Len(v), LAMBDA i, j : RMul(u[i], v[j]))
Unit(n, k)   == [i \in 1..n |-> IF i = k THEN ROne ELSE RZero]
UnitM(n, k, l) == Mk(n, n, LAMBDA i, j : IF i = k /\ j = l THEN ROne ELSE RZero)

\* instance: Cm integer lower triangular (positive diagonal), t1 integer vector, gmu integer vector, GS integer symmetric matrix,
\* train in {"both", "vec", "mat"}: which of the two parameters requires grad - the gradient of a parameter that trains does not depend on it
NC(i) == FromInt(i.Cm)
\* NaturalVariationalDistribution: natural_mat = -1/2 C C^T, natural_vec = t1.  _NaturalToMuVarSqrt._forward:
\*   L_inv = chol(-2 natural_mat) = C;  L = inv(L_inv);  S = L^T L;  mu = S natural_vec
NatPrec(i)   == MMul(NC(i), Tr(NC(i)))
NatS(i)      == LET L == Inv(NC(i)) IN MMul(Tr(L), L)
NatMu(i)     == MVec(NatS(i), VFromInt(i.t1))
\* TrilNaturalVariationalDistribution: natural_tril_mat = C with C^T C = precision.  _forward: L = inv(C); mu = L (L^T natural_vec); Sigma = L L^T
TrilPrec(i)  == MMul(Tr(NC(i)), NC(i))
TrilS(i)     == LET L == Inv(NC(i)) IN MMul(L, Tr(L))
TrilMu(i)    == LET L == Inv(NC(i)) IN MVec(L, MVec(Tr(L), VFromInt(i.t1)))
SOf(i)  == IF i.kind = "nat" THEN NatS(i) ELSE TrilS(i)
MuOf(i) == IF i.kind = "nat" THEN NatMu(i) ELSE TrilMu(i)
PrecOf(i) == IF i.kind = "nat" THEN NatPrec(i) ELSE TrilPrec(i)
\* the loss of the instance: l(mu, Sigma) = gmu . mu + <GS, Sigma>, as a function of the expectation parameters (eta1, eta2): Sigma = eta2 - eta1 eta1^T
LossEta(i, e1, e2) == RAdd(Dot(VFromInt(i.gmu), e1), Frob(FromInt(i.GS), MSub(e2, Outer(e1, e1))))
\* _NaturalToMuVarSqrt._backward: dout/deta1 = dout/dmu - 2 (dout/dSigma) mu,  dout/deta2 = dout/dSigma      (mu passed in: shared sub-terms)
GradEta1(i, mu) == VSub(VFromInt(i.gmu), MVec(MScale(R(2), FromInt(i.GS)), mu))
GradEta2(i) == FromInt(i.GS)
\* _TrilNaturalToMuVarSqrt.backward: A = L^T dout_dnat2 L; dout_dtril = phi(-2 A) C
TrilTangent(i) == LET L == Inv(NC(i)) IN MMul(PhiChol(MScale(R(-2), MMul(Tr(L), MMul(GradEta2(i), L)))), NC(i))

NatOK(i) ==
  LET n == Len(i.t1) S == SOf(i) mu == MuOf(i) P == PrecOf(i)
      e1 == mu e2 == MAdd(S, Outer(mu, mu)) g1 == GradEta1(i, mu) l0 == LossEta(i, e1, e2)
  IN /\ IsSym(FromInt(i.GS)) /\ IsLower(NC(i)) /\ IsPD(P) /\ i.train \in {"both", "vec", "mat"}
     /\ S = Inv(P) /\ mu = Solve(P, VFromInt(i.t1))                                        \* the forward computes mu = Sigma theta1, Sigma = (-2 theta2)^-1
     /\ \A k \in 1..n :                                                                   \* the composite is quadratic in eta1: central differences are exact
          g1[k] = RDiv(RSub(LossEta(i, VAdd(e1, Unit(n, k)), e2), LossEta(i, VSub(e1, Unit(n, k)), e2)), R(2))
     /\ \A k \in 1..n, l \in 1..n :                                                       \* ... and linear in eta2 (symmetrised direction)
          RDiv(RAdd(GradEta2(i)[k][l], GradEta2(i)[l][k]), R(2)) = RSub(LossEta(i, e1, MAdd(e2, MScale(RQ(1, 2), MAdd(UnitM(n, k, l), UnitM(n, l, k))))), l0)
     /\ (i.kind = "tril" => LET Cd == TrilTangent(i)                                       \* tangent of C along d theta2 = G: d(C^T C) = -2 G
                            IN IsLower(Cd) /\ MAdd(MMul(Tr(Cd), NC(i)), MMul(Tr(NC(i)), Cd)) = MScale(R(-2), GradEta2(i)))

\* ---- covariance functions: (dk / d lengthscale) / k on geometries with rational scaled distances ------------------
\* points x = t * w with |w|^2 = 2 nu (w = (1), (1,1,1), (1,2));  s = sqrt(2 nu) r / l = 2 nu |t - t'| / l;  RBF: 1-d points, q = (t - t')^2 / l^2
TwoNu(fn) == CASE fn = "matern05" -> 1 [] fn = "matern15" -> 3 [] fn = "matern25" -> 5 [] fn = "rbf" -> 0
PCoef(fn) == CASE fn = "matern05" -> <<ROne>> [] fn = "matern15" -> <<ROne, ROne>> [] fn = "matern25" -> <<ROne, ROne, RQ(1, 3)>>       \* k = P(s) exp(-s)
PolyEval(p, s)  == RSum([k \in 1..Len(p) |-> RMul(p[k], RPow(s, k - 1))])
PolyDeriv(p)    == [k \in 1..(Len(p) - 1) |-> RMul(R(k), p[k + 1])]
SOfPair(i, a, b) == RDiv(R(TwoNu(i.fn) * Abs(i.T1[a] - i.T2[b])), Q(i.l))
\* calculus: dk/dl = (P'(s) - P(s)) exp(-s) ds/dl,  ds/dl = -s / l
CovRatioDecl(i, a, b) ==
  IF i.fn = "rbf" THEN LET g == RNeg(RDiv(R((i.T1[a] - i.T2[b]) * (i.T1[a] - i.T2[b])), RMul(R(2), RMul(Q(i.l), Q(i.l)))))          \* exponent -r^2 / (2 l^2)
                       IN RDiv(RMul(R(-2), g), Q(i.l))                                                                            \* d/dl (c l^-2) = -2 (c l^-2) / l
  ELSE LET s == SOfPair(i, a, b) p == PCoef(i.fn)
       IN RDiv(RMul(RSub(PolyEval(PolyDeriv(p), s), PolyEval(p, s)), RNeg(RDiv(s, Q(i.l)))), PolyEval(p, s))
\* the code: d_output_d_input / covar_mat as saved by the forward passes
CovRatioCode(i, a, b) ==
  LET l == Q(i.l) s == SOfPair(i, a, b)
  IN CASE i.fn = "rbf"      -> RDiv(RDiv(R((i.T1[a] - i.T2[b]) * (i.T1[a] - i.T2[b])), RMul(l, l)), l)            \* unitless_sq_dist * covar / lengthscale
       [] i.fn = "matern05" -> RDiv(s, l)                                                                      \* (s / l) exp(-s)          over exp(-s)
       [] i.fn = "matern15" -> RDiv(RDiv(RMul(s, s), l), RAdd(ROne, s))                                        \* (s^2 / l) exp(-s)        over (1 + s) exp(-s)
       [] i.fn = "matern25" -> RDiv(RDiv(RMul(RAdd(ROne, s), RDiv(RMul(s, s), R(3))), l), RAdd(RAdd(ROne, s), RDiv(RMul(s, s), R(3))))
CovrOK(i) == \A a \in 1..Len(i.T1), b \in 1..Len(i.T2) : CovRatioCode(i, a, b) = CovRatioDecl(i, a, b)
CovrMat(i) == [a \in 1..Len(i.T1) |-> [b \in 1..Len(i.T2) |-> CovRatioDecl(i, a, b)]]

GExactOK ==
  Part = "gexact" => CASE c.kind \in {"nat", "tril"} -> NatOK(c) [] c.kind = "covr" -> CovrOK(c)

GExpected(i) ==
  CASE i.kind \in {"nat", "tril"} -> LET mu == MuOf(i) IN [mu |-> mu, S |-> SOf(i), wants |-> (IF i.train # "mat" THEN {"vec"} ELSE {}) \cup (IF i.train # "vec" THEN {"mat"} ELSE {}),
                                      g1 |-> GradEta1(i, mu), g2 |-> GradEta2(i), gtril |-> IF i.kind = "tril" THEN TrilTangent(i) ELSE <<>>]
    [] i.kind = "covr" -> [ratio |-> CovrMat(i)]

\* ============================== gcalls ==========================================================
GCallCells == {s \in KCCells : KCValid(s)}
GCallsOK == Part = "gcalls" => KCCallOK(c) /\ out = KCOut(c)

\* ============================== gmachine ========================================================
\* a case = the Function, how it is reached ("function": Function.apply; "public": the kernel / variational distribution / log_normal_cdf that uses it) and the class of its input
\* rg: the inputs that require grad.  "base" = the inputs the hand-written backward has a derivative for (all of them; the lengthscale for the covariance
\* Functions); "other" = every other non-empty subset (a frozen parameter, exactly one of two tensors, x1 / x2 of the covariance Functions)
MachRGSets(fn) == IF MachRG = "base" THEN {BWHasGrad(fn)} ELSE BWNeedSets(fn) \ {BWHasGrad(fn)}
MachCases ==
  [kind : {"mach"}, fn : {"rbfcov"}, api : {"function", "public"}, batch : {"none", "b2"}, nu2 : {0}, zc : {"-"}, M : {0}, rg : MachRGSets("rbfcov")]
  \cup [kind : {"mach"}, fn : {"materncov"}, api : {"function", "public"}, batch : {"none", "b2"}, nu2 : {1, 3, 5}, zc : {"-"}, M : {0}, rg : MachRGSets("materncov")]
  \* zc: "tail" all z < -1 | "mixed" the three branches in one tensor | "notail" no z < -1 (the forward then stores no numerator / denominator)
  \cup [kind : {"mach"}, fn : {"lncdf"}, api : {"public"}, batch : {"none", "b2"}, nu2 : {0}, zc : {"tail", "mixed", "notail"}, M : {0}, rg : MachRGSets("lncdf")]
  \cup [kind : {"mach"}, fn : {"nat2muvar"}, api : {"function", "public"}, batch : {"none", "b2"}, nu2 : {0}, zc : {"-"}, M : {2, 3}, rg : MachRGSets("nat2muvar")]
  \cup [kind : {"mach"}, fn : {"trilnat2muvar"}, api : {"function", "public"}, batch : {"none", "b2"}, nu2 : {0}, zc : {"-"}, M : {2, 3}, rg : MachRGSets("trilnat2muvar")]
  \cup [kind : {"mach"}, fn : {"ngdinterp"}, api : {"function"}, batch : {"none", "b2"}, nu2 : {0}, zc : {"-"}, M : {2, 3}, rg : MachRGSets("ngdinterp")]
MachInit == {s \in MachCases : s.fn \in MachFns}
MachTail(s) == s.fn = "lncdf" /\ s.zc # "notail"
MachNeeds(s) == BWOutcome(s.fn, s.api, s.rg, MachShortcut)
MachOut(s, m) == [m |-> m, exp |-> BWExpected(m), needs |-> MachNeeds(s)]
MachNext == /\ Part = "gmachine"
            /\ IF MachNeeds(c).refused THEN out.m.phase = "built" /\ out' = MachOut(c, BWRefused(out.m))          \* the forward raises: no graph
               ELSE \E m2 \in BWSteps(out.m, c.fn) : out' = MachOut(c, m2)
            /\ UNCHANGED c
\* every input that requires grad is delivered the complete derivative, or the bare Function refused the call in its forward
GMachineNeedsOK ==
  Part = "gmachine" =>
    /\ BWNeedsOK(c.fn, c.api, c.rg, MachShortcut) /\ out.needs = MachNeeds(c)
    /\ (out.m.phase = "refused" <=> (out.needs.refused /\ out.m.phase # "built"))
    /\ (out.needs.route = "function" <=> ~(c.api = "public" /\ c.fn \in BWCovFns /\ (c.rg \cap {"x1", "x2"}) # {}))
GMachineOK ==
  Part = "gmachine" =>
    /\ c.fn \in BWFns /\ DOMAIN out.m.ctx = BWNames(c.fn, MachTail(c))
    /\ BWTypeOK(out.m)
    /\ BWPure(out.m)                  \* the backward never writes to what the forward stored
    /\ BWDerivOK(out.m)               \* hence pass j delivers u_j . dF(x), for every j
    /\ out.exp = BWExpected(out.m)
    /\ GMachineNeedsOK

\* the same without purity: with a non-empty BWImpure this one needs a history of TWO passes to fail (used by the check as a vacuity guard of the histories)
GMachineDerivOK == Part = "gmachine" => BWDerivOK(out.m)

GInit == /\ c \in (CASE Part = "gcells" -> GCells [] Part = "gcalls" -> GCallCells [] Part = "gmachine" -> MachInit [] OTHER -> Instances)
         /\ out = (CASE Part = "gcells" -> GOut(c) [] Part = "gcalls" -> KCOut(c) [] Part = "gmachine" -> MachOut(c, BWStart(c.fn, MachTail(c))) [] OTHER -> GExpected(c))
GNext == IF Part = "gmachine" THEN MachNext ELSE Next
GSpec == GInit /\ [][GNext]_vars
=============================================================================
