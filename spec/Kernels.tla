------------------------------ MODULE Kernels ------------------------------
(***************************************************************************)
(* Kernel values (property C05).                                           *)
(*                                                                         *)
(* Part "lattice": the configuration lattice of Kernel.__call__ as TLC     *)
(* states - kernel family x input dimension x ARD x active_dims x          *)
(* composition x batch x evaluation mode (n1 > n2, n1 < n2, x2 = None,     *)
(* diag) x what forces the code path - together with the CODE PATH the     *)
(* dispatch predicate of RBFKernel.forward / MaternKernel.forward selects: *)
(*     x1.requires_grad or x2.requires_grad                                *)
(*     or (ard_num_dims is not None and ard_num_dims > 1) or diag          *)
(*     or params.get("last_dim_is_batch") or trace_mode.on()               *)
(*  -> generic (autograd) branch, otherwise the hand-written               *)
(*     RBFCovariance / MaternCovariance Function ("fast").                 *)
(* The DENOTATION of a cell (Meaning) does not mention what forces the     *)
(* path: both branches must return the documented covariance function.     *)
(*                                                                         *)
(* Part "layout": the perfect shuffle of the derivative kernels            *)
(*     pi = arange(n*m).view(m, n).t().reshape(n*m);  K = K[pi1, :][:, pi2]*)
(* maps the block layout (output a of point i in row a*n + i) to the       *)
(* documented per-point interleaved layout (row i*m + a), for n1 # n2.     *)
(*                                                                         *)
(* Part "exact": rational instances evaluated exactly by TLC.  Kernel      *)
(* expressions over linear / polynomial / constant leaves with active_dims *)
(* and Scale / Sum / Product composition; PolynomialKernelGrad entries     *)
(* (checked against an exact 4th-order difference stencil of the base      *)
(* kernel); RBF derivative-to-base ratios for RBFKernelGrad /              *)
(* RBFKernelGradGrad through the Hermite recurrence; the documented        *)
(* piecewise polynomial kernels on rational distances; Newton-Girard       *)
(* recurrences (both code shapes) against the explicit sum over subsets.   *)
(*                                                                         *)
(* Part "ppcode": the code-shaped transcription of _fmax * _get_cov        *)
(* against the documented polynomial.                                      *)
(*                                                                         *)
(* Part "args": the CONSTRUCTOR-ARGUMENT lattice.  Every optional,         *)
(* documented constructor argument of every exported kernel that enters    *)
(* the covariance function (delta_func, base kernels, eps, power,          *)
(* num_mixtures, num_deltas, num_angular_weights, vocab_size, max_degree,  *)
(* rank, distance_function, active_dims of the kernels the main lattice    *)
(* only builds without it) or the parameterisation through which the       *)
(* parameters enter (constraints, priors with their setting closures)      *)
(* ranges over its value classes, default first.  An argument is either    *)
(* NEUTRAL (the covariance function at given parameter values does not     *)
(* mention it) or enters the documented FORMULA; ArgsOK states that every  *)
(* argument has a non-default value in the lattice and that neutral        *)
(* arguments leave the denotation of the cell unchanged.                   *)
(*                                                                         *)
(* Part "dims": the NAMED-DIMENSION lattice.  Every argument / convention   *)
(* that names a dimension of a stacked tensor (dim of                      *)
(* sum_interaction_terms, last_dim_is_batch of Kernel.__call__ and         *)
(* covar_dist, the kernel dimension the structure kernels reduce over)     *)
(* ranges over its valid positions with 0..2 batch axes; the sizes of all  *)
(* axes of a cell are pairwise distinct and every ordered pair of axes     *)
(* occurs in increasing size (DimsOK), so that reading a hard-coded        *)
(* position instead of the named one yields a different number.  Exact     *)
(* kind "sitdim": sum_interaction_terms on a stack with a batch axis.      *)
(*                                                                         *)
(* Part "rel": the INPUT-RELATIONSHIP lattice - how x1 and x2 relate as     *)
(* tensor OBJECTS.  Both are strided views (offset, shape, strides) into   *)
(* one abstract memory; the relation ranges over: the same object, a       *)
(* second view object with identical geometry, an equal clone (contiguous  *)
(* or with different strides), a clone that differs in the last row only,  *)
(* fresh values, views of ONE storage with different strides / offsets     *)
(* (stepped rows, shifted, overlapping, a prefix with fewer rows, stepped   *)
(* columns), the transposed view of a square input, an expanded (stride 0) *)
(* row and a batch-expanded view.  The denotation reads the ROWS through    *)
(* the element maps; a kernel may substitute x1 for x2 only when the two    *)
(* are equal BY VALUE (RelValEq), which neither the address, nor the shape, *)
(* nor the strides decide (RelOK).  Every kernel family is enumerated over  *)
(* every relation, direct calls and the views that slicing the lazily       *)
(* evaluated kernel(X) builds.                                             *)
(*                                                                         *)
(* Exact kinds "arcmask" (the ArcKernel embedding with an activity         *)
(* indicator delta_func on quarter-turn phases: inactive coordinates embed *)
(* at the ORIGIN, hence squared chord lengths 0 / w^2 / 2 w^2 / 4 w^2) and *)
(* "mtask" (IndexKernel B B^T + diag(v), MultitaskKernel K_XX (x) K_TT in  *)
(* the per-point interleaved layout, LCMKernel sums of such terms).        *)
(* DistinctOK: every multi-valued parameter of every exact instance has    *)
(* pairwise distinct values (no ARD instance with equal entries).          *)
(***************************************************************************)
EXTENDS LinAlg, TLC

CONSTANTS Part, Instances

VARIABLES c, out
vars == <<c, out>>

\* ============================== lattice =========================================================
TwoPath   == {"rbf", "matern05", "matern15", "matern25"}
GradFams  == {"rbfgrad", "matern52grad", "polygrad", "rbfgradgrad"}
OtherFams == {"rq", "periodic", "cosine", "linear", "polynomial", "pp0", "pp1", "pp2", "pp3", "constant", "sm",
              "sdelta", "arc", "cyl", "hamming", "gskl", "ngadd"}
Fams    == TwoPath \cup GradFams \cup OtherFams
Comps   == {"plain", "scale", "sum", "product", "addstruct", "prodstruct"}
Batches == {"none", "kernel", "inputs"}
Modes   == {"gt", "lt", "same", "diag"}          \* n1 > n2, n1 < n2, x2 = None (to_dense), kernel(x, diag = True)
Forces  == {"none", "x1grad", "x2grad", "trace"}

ArdFams    == TwoPath \cup {"rq", "periodic", "linear", "pp0", "pp1", "pp2", "pp3", "sdelta", "arc", "rbfgrad", "matern52grad", "rbfgradgrad", "ngadd"}
AdimsFams  == Fams \ {"hamming", "gskl", "cyl", "arc", "ngadd", "sm"}
StructFams == {"rbf", "matern15", "rq", "periodic", "linear"}

Cells == [fam : Fams, d : 1..3, ard : BOOLEAN, adims : BOOLEAN, comp : Comps, batch : Batches, mode : Modes, force : Forces]

Valid(s) ==
  /\ (s.fam = "sm" => s.ard) /\ (s.ard => s.fam \in ArdFams \cup {"sm"})
  /\ (s.adims => s.fam \in AdimsFams)
  /\ (s.comp # "plain" => s.d = 2)
  /\ (s.batch = "inputs" => s.comp = "plain")
  /\ (s.comp \in {"addstruct", "prodstruct"} => s.fam \in StructFams /\ ~s.adims /\ s.batch # "inputs")
  /\ (s.comp = "prodstruct" => s.fam # "linear")        \* LinearKernel returns a MatmulLinearOperator: its product over dimensions needs square matrices
  /\ (s.comp = "product" => s.fam \notin GradFams)
  /\ (s.fam \in GradFams /\ s.adims => s.comp \in {"plain", "scale"})   \* a sum of derivative kernels has one output count: no per-term active_dims
  /\ (s.fam = "ngadd" => s.d >= 2 /\ s.comp \in {"plain", "scale"})
  /\ (s.fam \in {"hamming", "gskl", "cyl"} => s.comp \in {"plain", "scale"})
  /\ (s.force # "none" => s.fam \in TwoPath)
  /\ (s.force = "x2grad" => s.mode \in {"gt", "lt"})             \* with x2 = None there is no second tensor

\* --- the dispatch predicate, transcribed -----------------------------------------------------------
X1Grad(s) == s.force = "x1grad"
X2Grad(s) == s.force = "x2grad" \/ (s.force = "x1grad" /\ s.mode \in {"same", "diag"})     \* x2 is x1
\* kernels that hand inputs COMPUTED FROM THEIR PARAMETERS to an inner two-path kernel (the inputs then require grad)
InnerFam(s) == IF s.fam = "arc" THEN "matern25" ELSE IF s.fam = "cyl" THEN "matern25" ELSE IF s.fam = "ngadd" THEN "rbf" ELSE s.fam
InnerGrad(s) == s.fam \in {"arc", "cyl"}
ArdNumDims(s) == IF s.ard /\ s.fam \notin {"arc", "cyl"} THEN s.d ELSE 0               \* 0 stands for None
LastDimIsBatch(s) == s.comp \in {"addstruct", "prodstruct"} \/ s.fam = "ngadd"
GenericBranch(s) ==
  \/ X1Grad(s) \/ X2Grad(s) \/ InnerGrad(s)
  \/ (ArdNumDims(s) # 0 /\ ArdNumDims(s) > 1)
  \/ s.mode = "diag"
  \/ LastDimIsBatch(s)
  \/ s.force = "trace"
PathOf(s) == IF InnerFam(s) \in TwoPath THEN (IF GenericBranch(s) THEN "generic" ELSE "fast") ELSE "single"

\* what the hand-written Functions refuse (RuntimeError / ValueError in their forward)
FastRejects(s) == X1Grad(s) \/ X2Grad(s) \/ (s.ard /\ s.d > 1)

\* the denotation of a cell does not depend on what forces the path
Meaning(s) == [fam |-> s.fam, d |-> s.d, ard |-> s.ard, adims |-> s.adims, comp |-> s.comp, batch |-> s.batch, mode |-> s.mode]

LatticeOK ==
  Part = "lattice" =>
    /\ Valid(c)
    /\ out = PathOf(c)
    /\ (PathOf(c) = "fast" => ~FastRejects(c) /\ c.mode # "diag" /\ ~LastDimIsBatch(c))       \* the fast Function is never handed what it refuses
    /\ (c.fam \in TwoPath /\ PathOf(c) = "fast" =>                                             \* every two-path cell can be forced onto the other branch
          \A f \in {"x1grad", "trace"} : LET t == [c EXCEPT !.force = f] IN Valid(t) /\ PathOf(t) = "generic" /\ Meaning(t) = Meaning(c))
    /\ (c.fam \notin TwoPath => c.force = "none")

\* ============================== constructor arguments ============================================
\* pseudo-families: "scale" (ScaleKernel around an ARD RBF kernel), "addstruct" / "prodstruct" (structure kernels around a 1-d RBF kernel)
NewFams   == {"index", "multitask", "lcm", "rff", "distinput"}
ArgFams   == Fams \cup NewFams \cup {"scale", "addstruct", "prodstruct"}
LsFams    == TwoPath \cup {"rq", "periodic", "pp0", "pp1", "pp2", "pp3", "sdelta", "arc", "gskl", "rbfgrad", "matern52grad", "rbfgradgrad", "rff", "distinput"}
ArgArdFams == ArdFams \cup {"rff", "scale", "multitask", "lcm", "addstruct", "prodstruct"}

ConstraintVals == <<"positive", "interval", "greater">>          \* default Positive(); Interval(lo, hi) and GreaterThan(lo) around the parameter range
PriorVals      == <<"none", "closure">>                          \* "closure": the parameter is set through the setting closure registered with the prior
PassedVals     == <<"none", "registered">>                       \* a prior without setting closure (IndexKernel) / accepted and ignored with a warning (SpectralMixtureKernel)
Args(f) ==   \* <<argument, <<default value, other values ...>>, effect>>
  (IF f \in LsFams THEN {<<"lengthscale_constraint", ConstraintVals, "neutral">>, <<"lengthscale_prior", PriorVals, "neutral">>, <<"eps", <<"1e-6", "1e-3">>, "neutral">>} ELSE {})
  \cup (CASE f = "rq"        -> {<<"alpha_constraint", ConstraintVals, "neutral">>}
         [] f \in {"periodic", "cosine"} -> {<<"period_length_constraint", ConstraintVals, "neutral">>, <<"period_length_prior", PriorVals, "neutral">>}
         [] f = "linear"     -> {<<"variance_constraint", ConstraintVals, "neutral">>, <<"variance_prior", PriorVals, "neutral">>}
         [] f \in {"polynomial", "polygrad"} -> {<<"offset_constraint", ConstraintVals, "neutral">>, <<"offset_prior", PriorVals, "neutral">>,
                                                 <<"power", <<"2", "1", "3", "4", "tensor3">>, "formula">>}
         [] f = "constant"   -> {<<"constant_constraint", ConstraintVals, "neutral">>, <<"constant_prior", PriorVals, "neutral">>}
         [] f = "scale"      -> {<<"outputscale_constraint", ConstraintVals, "neutral">>, <<"outputscale_prior", PriorVals, "neutral">>}
         [] f = "sm"         -> {<<"num_mixtures", <<"3", "1", "2", "4">>, "formula">>, <<"active_dims", <<"none", "perm">>, "formula">>,
                                 <<"mixture_scales_constraint", ConstraintVals, "neutral">>, <<"mixture_scales_prior", PassedVals, "neutral">>,
                                 <<"mixture_means_constraint", ConstraintVals, "neutral">>, <<"mixture_means_prior", PassedVals, "neutral">>,
                                 <<"mixture_weights_constraint", ConstraintVals, "neutral">>, <<"mixture_weights_prior", PassedVals, "neutral">>}
         [] f = "sdelta"     -> {<<"num_deltas", <<"128", "1", "3">>, "formula">>, <<"Z_constraint", ConstraintVals, "neutral">>}
         [] f = "arc"        -> {<<"delta_func", <<"ones", "nonneg", "gate">>, "formula">>, <<"base_kernel", <<"matern25", "rbf", "matern15", "rq", "poly2">>, "formula">>,
                                 <<"angle_prior", PriorVals, "neutral">>, <<"radius_prior", PriorVals, "neutral">>, <<"active_dims", <<"none", "perm">>, "formula">>}
         [] f = "cyl"        -> {<<"eps", <<"1e-6", "1e-3", "1e-2">>, "formula">>, <<"num_angular_weights", <<"3", "1", "2", "4">>, "formula">>,
                                 <<"radial_base_kernel", <<"matern25", "rbf", "matern05">>, "formula">>, <<"active_dims", <<"none", "perm">>, "formula">>,
                                 <<"angular_weights_constraint", ConstraintVals, "neutral">>, <<"angular_weights_prior", PriorVals, "neutral">>,
                                 <<"alpha_constraint", ConstraintVals, "neutral">>, <<"alpha_prior", PriorVals, "neutral">>,
                                 <<"beta_constraint", ConstraintVals, "neutral">>, <<"beta_prior", PriorVals, "neutral">>}
         [] f = "hamming"    -> {<<"vocab_size", <<"3", "2", "5">>, "formula">>, <<"alpha_constraint", ConstraintVals, "neutral">>, <<"alpha_prior", PriorVals, "neutral">>,
                                 <<"beta_constraint", ConstraintVals, "neutral">>, <<"beta_prior", PriorVals, "neutral">>}
         [] f = "gskl"       -> {<<"active_dims", <<"none", "perm">>, "formula">>}
         [] f = "ngadd"      -> {<<"max_degree", <<"none", "1", "2", "over">>, "formula">>, <<"base_kernel", <<"rbf", "matern25", "rq">>, "formula">>,
                                 <<"active_dims", <<"none", "perm">>, "formula">>}
         [] f \in {"addstruct", "prodstruct"} -> {<<"active_dims", <<"none", "perm">>, "formula">>, <<"base_kernel", <<"rbf", "matern15", "rq", "periodic">>, "formula">>}
         [] f = "index"      -> {<<"rank", <<"1", "2", "full">>, "formula">>, <<"var_constraint", ConstraintVals, "neutral">>, <<"prior", PassedVals, "neutral">>}
         [] f = "multitask"  -> {<<"rank", <<"1", "2", "full">>, "formula">>, <<"data_covar_module", <<"rbf", "matern15", "linear">>, "formula">>,
                                 <<"task_covar_prior", PassedVals, "neutral">>}
         [] f = "lcm"        -> {<<"rank", <<"1", "2", "list">>, "formula">>, <<"base_kernels", <<"2", "1", "3">>, "formula">>}
         [] f = "rff"        -> {<<"num_dims", <<"none", "d">>, "formula">>, <<"num_samples", <<"4", "1", "7">>, "formula">>, <<"active_dims", <<"none", "perm">>, "formula">>}
         [] f = "distinput"  -> {<<"distance_function", <<"skl", "l1", "sqmean">>, "formula">>, <<"active_dims", <<"none", "perm">>, "formula">>}
         [] OTHER -> {})
SeqRange(q) == {q[k] : k \in 1..Len(q)}
ArgDim(f)    == IF f = "ngadd" THEN 3 ELSE 2
ArdOpts(f)   == IF f \in ArgArdFams \cup {"sm"} THEN (IF f \in {"sm", "scale", "addstruct", "prodstruct", "lcm"} THEN {TRUE} ELSE BOOLEAN) ELSE {FALSE}
BatchOpts(f) == IF f \in {"lcm", "distinput", "multitask"} THEN {"none"} ELSE {"none", "kernel"}   \* MultitaskKernel with a batched task covariance and batched inputs raises (recorded under C08)
ArgCells == UNION {UNION {{[fam |-> f, arg |-> a[1], val |-> v, d |-> ArgDim(f), ard |-> r, adims |-> (a[1] = "active_dims" /\ v = "perm"), comp |-> "plain", batch |-> b, mode |-> m,
                            force |-> "none"] : v \in SeqRange(a[2]), r \in ArdOpts(f), b \in BatchOpts(f), m \in Modes} : a \in Args(f)} : f \in ArgFams}
ArgRow(s)  == CHOOSE a \in Args(s.fam) : a[1] = s.arg
ArgOut(s)  == [effect |-> ArgRow(s)[3], dflt |-> ArgRow(s)[2][1]]
\* what the documented covariance function of a cell depends on: a neutral argument is not part of it
ArgMeaning(s) == [fam |-> s.fam, d |-> s.d, ard |-> s.ard, batch |-> s.batch, mode |-> s.mode,
                  arg |-> IF ArgRow(s)[3] = "neutral" THEN "-" ELSE s.arg, val |-> IF ArgRow(s)[3] = "neutral" THEN "-" ELSE s.val]
ArgsOK ==
  Part = "args" =>
    /\ c.fam \in ArgFams /\ \E a \in Args(c.fam) : a[1] = c.arg /\ c.val \in SeqRange(a[2])
    /\ out = ArgOut(c)
    /\ \A a \in Args(c.fam) : Len(a[2]) >= 2 /\ \A k \in 2..Len(a[2]) : a[2][k] # a[2][1] /\ [c EXCEPT !.arg = a[1], !.val = a[2][k], !.adims = (a[1] = "active_dims")] \in ArgCells
    /\ (ArgRow(c)[3] = "neutral" => ArgMeaning(c) = ArgMeaning([c EXCEPT !.val = ArgRow(c)[2][1]]))
    /\ (ArgRow(c)[3] = "formula" /\ c.val # ArgRow(c)[2][1] => ArgMeaning(c) # ArgMeaning([c EXCEPT !.val = ArgRow(c)[2][1]]))
\* every family of the main lattice and every new family has at least one argument row
ASSUME \A f \in ArgFams : Args(f) # {}

\* ============================== dims ============================================================
\* Arguments and conventions that name a DIMENSION of a stacked tensor:
\*   sit        sum_interaction_terms(covars, max_degree, dim): `dim` names the axis that holds the K base covariances; it ranges over
\*              EVERY batch position -(3 + nb) .. -3 of a covars tensor with nb further batch axes (Tensor or LinearOperator)
\*   cdist      Kernel.covar_dist(x1, x2, last_dim_is_batch = True): per-dimension distances, documented shape ... x K x N x M / ... x K x N
\*   ldb        kernel(x1, x2, last_dim_is_batch = True): K one-dimensional kernels, documented shape ... x K x N x M / ... x K x N (diag)
\*   addstruct / prodstruct / ngadd   the structure kernels reduce that stack over the kernel dimension (-3, -2 with diag)
\* A cell fixes the number nb of batch axes, how many (kb) of the trailing batch axes the kernel parameters carry, the position pos of the
\* stacked axis among the leading axes, the evaluation mode, the max_degree class and a ROTATION rot of the size assignment: the axes
\* (batch axes, K, N and - for n1 # n2 - M) always have PAIRWISE DISTINCT sizes, and over the rotations every ordered pair of axes (a, b)
\* occurs with size(a) < size(b): an implementation that reads the size (or reduces over the position) of a hard-coded axis instead of the
\* named one sees a different number, smaller in some cells and larger in others.
DimTargets == {"sit", "cdist", "ldb", "addstruct", "prodstruct", "ngadd"}
DimFams(t) == CASE t = "sit"        -> {"tensor", "lazy"}                       \* covars handed over as a Tensor / as a LinearOperator
                [] t = "cdist"      -> {"dist", "sqdist"}                       \* square_dist = False / True
                [] t = "ldb"        -> {"rbf", "matern15", "matern25", "rq", "periodic", "linear", "polynomial", "constant", "cosine", "scale", "sm"}
                [] t = "addstruct"  -> StructFams
                [] t = "prodstruct" -> StructFams \ {"linear"}
                [] t = "ngadd"      -> {"rbf", "matern25", "rq"}
DimMds(t)   == CASE t = "sit" -> {"none", "1", "2", "Km1", "K", "over"} [] t = "ngadd" -> {"none", "2", "over"} [] OTHER -> {"-"}
DimModes(t) == IF t = "sit" THEN {"two", "same"} ELSE {"two", "same", "diag"}   \* n1 # n2 (both orders over the rotations), x2 = None, diag = True
DimSpace == UNION {[tgt : {t}, fam : DimFams(t), md : DimMds(t), nb : 0..2, kb : 0..2, pos : 0..2, mode : DimModes(t), rot : 0..4] : t \in DimTargets}

BatchNames == <<"b1", "b2">>
\* the leading axes: nb batch axes with the stacked axis K inserted at position pos (0 = outermost, nb = next to the matrix axes)
LeadAxes(s) == [k \in 1..(s.nb + 1) |-> IF k = s.pos + 1 THEN "K" ELSE IF k <= s.pos THEN BatchNames[k] ELSE BatchNames[k - 1]]
AxesOf(s)   == LeadAxes(s) \o <<"N">> \o (IF s.mode = "two" THEN <<"M">> ELSE <<>>)
NAxes(s)    == s.nb + 2 + (IF s.mode = "two" THEN 1 ELSE 0)
SizeAt(s, k) == 2 + ((k - 1 + s.rot) % NAxes(s))                                \* sizes 2 .. NAxes + 1, rotated
AxisIdx(s, a) == CHOOSE k \in 1..NAxes(s) : AxesOf(s)[k] = a
SizeOf(s, a) == IF a = "M" /\ s.mode # "two" THEN SizeAt(s, AxisIdx(s, "N")) ELSE SizeAt(s, AxisIdx(s, a))
BatchSizes(s) == [k \in 1..s.nb |-> SizeOf(s, BatchNames[k])]
DimValid(s) ==
  /\ s \in DimSpace
  /\ s.pos <= s.nb /\ s.kb <= s.nb /\ s.rot < NAxes(s)
  /\ (s.tgt # "sit" => s.pos = s.nb)                                            \* kernels: the documented place of K is next to the matrix axes
  /\ (s.tgt \in {"sit", "cdist"} => s.kb = 0)                                   \* no kernel parameters involved
DimCells == {s \in DimSpace : DimValid(s)}
\* the max_degree argument (0 stands for None) and the documented number of interaction orders: max_degree defaults to and is capped at K
MdArg(s)  == LET K == SizeOf(s, "K") IN CASE s.md = "1" -> 1 [] s.md = "2" -> 2 [] s.md = "Km1" -> K - 1 [] s.md = "K" -> K [] s.md = "over" -> K + 2 [] OTHER -> 0
EffDeg(s) == LET K == SizeOf(s, "K") IN IF s.md = "-" THEN 0 ELSE IF s.md = "none" \/ MdArg(s) > K THEN K ELSE MdArg(s)
\* sit: the covars tensor and the `dim` argument that names K in it (negative, counted from the end)
SitShape(s) == [k \in 1..(s.nb + 1) |-> SizeOf(s, LeadAxes(s)[k])] \o <<SizeOf(s, "N"), SizeOf(s, "M")>>
SitDim(s)   == 0 - (3 + s.nb - s.pos)
MatAxes(s)  == IF s.mode = "diag" THEN <<SizeOf(s, "N")>> ELSE <<SizeOf(s, "N"), SizeOf(s, "M")>>
DimShape(s) == CASE s.tgt = "sit" -> BatchSizes(s) \o MatAxes(s)                                    \* the named axis is summed away
                 [] s.tgt \in {"cdist", "ldb"} -> BatchSizes(s) \o <<SizeOf(s, "K")>> \o MatAxes(s)  \* ... x K x N x M, ... x K x N with diag
                 [] OTHER -> BatchSizes(s) \o MatAxes(s)                                             \* reduced over the kernel dimension
DimOut(s) == [b |-> BatchSizes(s), K |-> SizeOf(s, "K"), N |-> SizeOf(s, "N"), M |-> SizeOf(s, "M"),
              kbatch |-> SubSeq(BatchSizes(s), s.nb - s.kb + 1, s.nb),                              \* batch shape of the kernel parameters
              inshape |-> IF s.tgt = "sit" THEN SitShape(s) ELSE <<>>, dim |-> IF s.tgt = "sit" THEN SitDim(s) ELSE IF s.mode = "diag" THEN 0 - 2 ELSE 0 - 3,
              mdarg |-> MdArg(s), deg |-> EffDeg(s), shape |-> DimShape(s)]
DimsOK ==
  Part = "dims" =>
    /\ DimValid(c) /\ out = DimOut(c)
    /\ \A a, b \in 1..NAxes(c) : a # b => SizeAt(c, a) # SizeAt(c, b)                                \* pairwise distinct sizes
    /\ \A a, b \in 1..NAxes(c) : a # b => \E r \in 0..(NAxes(c) - 1) :                               \* every ordered pair of axes in increasing size in some rotation
          LET t == [c EXCEPT !.rot = r] IN DimValid(t) /\ SizeAt(t, a) < SizeAt(t, b)
    /\ (c.md # "-" => EffDeg(c) >= 1 /\ EffDeg(c) <= SizeOf(c, "K") /\ (c.md \in {"none", "K", "over"} => EffDeg(c) = SizeOf(c, "K")))
    /\ (c.tgt = "sit" =>
          /\ SitShape(c)[Len(SitShape(c)) + 1 + SitDim(c)] = SizeOf(c, "K")                            \* `dim` names the stacked axis ...
          /\ SitDim(c) <= 0 - 3 /\ SitDim(c) >= 0 - Len(SitShape(c))                                  \* ... a batch axis, negative
          /\ \A p \in 0..c.nb : DimValid([c EXCEPT !.pos = p])                                        \* ... at every valid position
          /\ (c.pos # c.nb => \E r \in 0..(NAxes(c) - 1) : LET t == [c EXCEPT !.rot = r] S == SitShape(t)
                               IN S[Len(S) - 2] < SizeOf(t, "K")))                                     \* the default position -3 holds FEWER than K entries in some cell

\* ============================== rel: how x1 and x2 relate as tensor OBJECTS ======================
\* One abstract memory of elements; the element of row r, column k of the base arrays has address r * C + k (C columns).
\*   array A: rows 0 .. 2n-1 (one storage);  array B: rows 2n .. 3n-1 (a SECOND storage), row r of B either copies a row of A or is fresh.
\* A tensor is a view [off, shape, st] (rank 2, or 3 with a leading batch axis); its element at index idx is memory[off + sum_k idx[k] * st[k]].
\* x1 and x2 of a cell are two such views; the covariance matrix is DEFINED on the rows read through the views:
\*   K[.., i, j] = k(row i of x1, row j of x2)      (documented covariance function, whatever the objects x1 and x2 are).
\* Kernels shortcut "x1 is x2" (LinearKernel / SpectralDeltaKernel / RFFKernel: root decomposition; covar_dist / sq_dist / hamming_dist: zero
\* diagonal, shared norms; ProductKernel: lazy product; SpectralMixtureKernel: shared reshaping).  The shortcut is admissible iff x1 = x2 BY VALUE.
Rels == {"same", "alias", "clone", "sclone", "lastrow", "fresh", "stride", "offset", "overlap", "prefix", "transpose", "expand", "colstride", "batchexp"}
ElemRels == {"transpose", "colstride"}               \* regroup ELEMENTS into new rows: only for kernels whose input domain is all of R^d
LazyRels == {"alias", "stride", "offset", "overlap", "prefix"}     \* the pairs of views that kernel(A)[rows, columns] builds (LazyEvaluatedKernelTensor._getitem)
RowDomainFams == {"hamming", "gskl", "cyl"}          \* one-hot rows / [mean, log variance] rows / rows inside the unit ball
ExplicitFams  == {"linear", "sdelta", "hamming", "rff"}           \* an x1-equals-x2 test in the kernel's own forward
LdbFams == {"rbf", "matern15", "matern25", "rq", "periodic", "linear", "polynomial", "constant", "cosine", "sm"}
RelFams == Fams \cup {"rff"}
RelSpace == [fam : RelFams, d : {2}, ard : BOOLEAN, adims : {FALSE}, comp : {"plain", "scale", "sum", "product", "addstruct"}, batch : {"none"}, force : {"none"},
             mode : {"full", "diag"}, rel : Rels, how : {"direct", "lazy"}, ldb : BOOLEAN]

RelCols(s) == IF s.fam = "hamming" THEN 3 * s.d ELSE IF s.fam = "gskl" THEN 2 * s.d ELSE s.d     \* one-hot over a vocabulary of 3 / [means, log variances]
RelN(s)    == IF s.rel = "transpose" THEN RelCols(s) ELSE 4                                      \* a transposed view has the same shape only for a square input
RelView1(s) == LET n == RelN(s) C == RelCols(s)
               IN CASE s.rel \in {"sclone", "colstride"} -> [off |-> 0, shape |-> <<n, C>>, st |-> <<2 * C, 1>>]      \* A[::2]  /  A.view(n, 2C)[:, :C]
                    [] s.rel = "batchexp" -> [off |-> 0, shape |-> <<2, n, C>>, st |-> <<n * C, C, 1>>]              \* A.view(2, n, C)
                    [] OTHER -> [off |-> 0, shape |-> <<n, C>>, st |-> <<C, 1>>]                                     \* A[:n]
RelView2(s) == LET n == RelN(s) C == RelCols(s)
               IN CASE s.rel \in {"same", "alias"} -> RelView1(s)
                    [] s.rel \in {"clone", "sclone", "lastrow", "fresh"} -> [off |-> 2 * n * C, shape |-> <<n, C>>, st |-> <<C, 1>>]     \* array B
                    [] s.rel = "stride"    -> [off |-> 0,     shape |-> <<n, C>>,     st |-> <<2 * C, 1>>]           \* A[::2]
                    [] s.rel = "offset"    -> [off |-> n * C, shape |-> <<n, C>>,     st |-> <<C, 1>>]               \* A[n:]
                    [] s.rel = "overlap"   -> [off |-> C,     shape |-> <<n, C>>,     st |-> <<C, 1>>]               \* A[1:n+1]
                    [] s.rel = "prefix"    -> [off |-> 0,     shape |-> <<n - 1, C>>, st |-> <<C, 1>>]               \* A[:n-1]
                    [] s.rel = "transpose" -> [off |-> 0,     shape |-> <<n, C>>,     st |-> <<1, C>>]               \* A[:n].t(), n = C
                    [] s.rel = "expand"    -> [off |-> 0,     shape |-> <<n, C>>,     st |-> <<0, 1>>]               \* A[0:1].expand(n, C)
                    [] s.rel = "colstride" -> [off |-> 0,     shape |-> <<n, C>>,     st |-> <<2 * C, 2>>]           \* A.view(n, 2C)[:, ::2]
                    [] s.rel = "batchexp"  -> [off |-> 0,     shape |-> <<2, n, C>>,  st |-> <<0, C, 1>>]            \* A[:n].expand(2, n, C)
\* row r (1-based) of array B copies row RelCopy[r] (0-based) of array A; -1: fresh values
RelCopy(s) == [r \in 1..RelN(s) |-> CASE s.rel = "clone" -> r - 1
                                      [] s.rel = "sclone" -> 2 * (r - 1)
                                      [] s.rel = "lastrow" -> IF r = RelN(s) THEN 0 - 1 ELSE r - 1
                                      [] OTHER -> 0 - 1]
RelVal(s, e) == LET C == RelCols(s) n == RelN(s) r == e \div C
                IN IF r >= 2 * n /\ RelCopy(s)[r - 2 * n + 1] >= 0 THEN RelCopy(s)[r - 2 * n + 1] * C + (e % C) ELSE e     \* value identity of memory element e
VNumel(v) == IF Len(v.shape) = 2 THEN v.shape[1] * v.shape[2] ELSE v.shape[1] * v.shape[2] * v.shape[3]
VElem(v, p) == LET L == Len(v.shape)                                                                  \* address of the p-th element (0-based, row major)
               IN v.off + (p % v.shape[L]) * v.st[L] + ((p \div v.shape[L]) % v.shape[L - 1]) * v.st[L - 1]
                        + (IF L = 3 THEN (p \div (v.shape[2] * v.shape[3])) * v.st[1] ELSE 0)
VElems(v) == [p \in 1..VNumel(v) |-> VElem(v, p - 1)]
RelSameObj(s)     == s.rel = "same"
RelSamePtr(s)     == RelView1(s).off = RelView2(s).off                                                \* data_ptr
RelSameShape(s)   == RelView1(s).shape = RelView2(s).shape
RelSameStrides(s) == RelView1(s).st = RelView2(s).st
RelValEq(s) == RelSameShape(s) /\ \A p \in 1..VNumel(RelView1(s)) : RelVal(s, VElems(RelView1(s))[p]) = RelVal(s, VElems(RelView2(s))[p])     \* torch.equal
RelShare(s) == \E p \in 1..VNumel(RelView1(s)), q \in 1..VNumel(RelView2(s)) : VElems(RelView1(s))[p] = VElems(RelView2(s))[q]                    \* overlapping memory
RelFirstRowEq(s) == \A k \in 1..RelCols(s) : RelVal(s, VElems(RelView1(s))[k]) = RelVal(s, VElems(RelView2(s))[k])

RelValid(s) ==
  /\ s \in RelSpace
  /\ (s.fam # "rff" => Valid([fam |-> s.fam, d |-> s.d, ard |-> s.ard, adims |-> FALSE, comp |-> s.comp, batch |-> "none", mode |-> "gt", force |-> "none"]))
  /\ (s.fam = "rff" => s.comp = "plain" /\ s.ard)
  /\ \/ (s.ard <=> s.fam \in ArdFams \cup {"sm", "rff"})                                 \* ARD wherever the kernel offers it ...
     \/ (s.fam \in TwoPath /\ s.comp = "plain" /\ ~s.ldb)                                \* ... the two-path kernels also without: the hand-written Function
  /\ (s.comp \in {"scale", "sum"} => s.fam \in ExplicitFams)
  /\ (s.comp = "product" => s.fam # "rff")                                               \* ProductKernel has its own x1-equals-x2 test
  /\ (s.ldb => s.comp = "plain" /\ s.fam \in LdbFams /\ s.how = "direct")                \* kernel(x1, x2, last_dim_is_batch = True)
  /\ (s.rel \in ElemRels => s.fam \notin RowDomainFams)
  /\ (s.mode = "diag" => RelValEq(s))                                                    \* Kernel.__call__: "diag: If True, it must be the case that x1 == x2"
  /\ (s.how = "lazy" => s.mode = "full" /\ s.rel \in LazyRels /\ s.fam \notin GradFams)   \* index expressions of multi-output kernels: C06
RelCells == {s \in RelSpace : RelValid(s)}
\* the slices of kernel(A)[sl1, sl2] that build the two views: <<start, stop, step>> in rows of A
RelSlice(s, v) == LET C == RelCols(s) IN <<v.off \div C, (v.off \div C) + v.shape[1] * (v.st[1] \div C), v.st[1] \div C>>
RelOut(s) == [n |-> RelN(s), cols |-> RelCols(s), v1 |-> RelView1(s), v2 |-> RelView2(s), copy |-> RelCopy(s), e1 |-> VElems(RelView1(s)), e2 |-> VElems(RelView2(s)),
              sameobj |-> RelSameObj(s), sameptr |-> RelSamePtr(s), sameshape |-> RelSameShape(s), samestrides |-> RelSameStrides(s), valeq |-> RelValEq(s),
              share |-> RelShare(s), sl1 |-> IF s.how = "lazy" THEN RelSlice(s, RelView1(s)) ELSE <<>>, sl2 |-> IF s.how = "lazy" THEN RelSlice(s, RelView2(s)) ELSE <<>>]
RelOK ==
  Part = "rel" =>
    /\ RelValid(c) /\ out = RelOut(c)
    /\ \A p \in 1..VNumel(RelView1(c)) : out.e1[p] >= 0 /\ out.e1[p] < 2 * RelN(c) * RelCols(c)                      \* x1 lives in array A
    /\ \A p \in 1..VNumel(RelView2(c)) : out.e2[p] >= 0 /\ out.e2[p] < 3 * RelN(c) * RelCols(c)
    \* what does and what does not decide "x1 equals x2": identity implies it, equal geometry at one address implies it, nothing weaker does
    /\ (RelSameObj(c) => RelSamePtr(c) /\ RelSameShape(c) /\ RelSameStrides(c))
    /\ (RelSamePtr(c) /\ RelSameShape(c) /\ RelSameStrides(c) => RelValEq(c))
    /\ (c.rel \in {"stride", "transpose", "expand", "colstride", "batchexp"} => RelSamePtr(c) /\ RelSameShape(c) /\ ~RelSameStrides(c) /\ ~RelValEq(c))   \* same address, same shape, NOT equal
    /\ (c.rel \in {"stride", "expand", "batchexp", "lastrow"} => RelFirstRowEq(c) /\ ~RelValEq(c))                   \* equal in the leading row / batch element only
    /\ (c.rel \in {"clone", "sclone"} => RelValEq(c) /\ ~RelSamePtr(c) /\ ~RelShare(c) /\ (c.rel = "sclone" <=> ~RelSameStrides(c)))     \* equal, in another storage
    /\ (c.rel = "alias" => ~RelSameObj(c) /\ RelValEq(c))
    /\ (c.rel \in {"offset", "overlap"} => ~RelSamePtr(c) /\ RelSameStrides(c) /\ ~RelValEq(c) /\ (c.rel = "overlap" <=> RelShare(c)))
    /\ (c.rel = "prefix" => RelSamePtr(c) /\ RelSameStrides(c) /\ ~RelSameShape(c) /\ ~RelValEq(c))
    /\ (c.rel = "fresh" => ~RelShare(c) /\ ~RelFirstRowEq(c))
    \* every kernel family (in this composition) meets every relation its input domain admits, and every sliceable one through kernel(A)[.., ..]
    /\ \A r \in Rels : (r \in ElemRels => c.fam \notin RowDomainFams) => RelValid([c EXCEPT !.rel = r, !.mode = "full", !.how = "direct"])
    /\ (c.fam \notin GradFams /\ ~c.ldb => \A r \in LazyRels : RelValid([c EXCEPT !.rel = r, !.mode = "full", !.how = "lazy"]))
    /\ (RelValEq(c) => RelValid([c EXCEPT !.mode = "diag", !.how = "direct"]))
ASSUME ExplicitFams \subseteq RelFams /\ LdbFams \subseteq Fams

\* ============================== layout ==========================================================
LayoutCells ==[n1 : 1..3, n2 : 1..3, d : 1..3, order : 1..2]
Arange(k) == [p \in 1..k |-> p - 1]
View2(v, r, cc) == [i \in 1..r |-> [j \in 1..cc |-> v[(i - 1) * cc + j]]]                    \* tensor.view(r, cc), row major
Flat(M) == [p \in 1..(Len(M) * Len(M[1])) |-> M[((p - 1) \div Len(M[1])) + 1][((p - 1) % Len(M[1])) + 1]]
Perm(n, m) == Flat(Tr(View2(Arange(n * m), m, n)))                                           \* arange(n*m).view(m, n).t().reshape(n*m)
\* block layout built by the forward methods: output a (0 = value, 1..d = d/dx_a, d+1..2d = d2/dx_a2) of point i in row a*n + i
BlockLabel(n1, n2, m) == [r \in 1..(n1 * m) |-> [s \in 1..(n2 * m) |-> <<(r - 1) % n1, (r - 1) \div n1, (s - 1) % n2, (s - 1) \div n2>>]]
Shuffled(n1, n2, m) == LET B == BlockLabel(n1, n2, m) p1 == Perm(n1, m) p2 == Perm(n2, m)
                       IN [p \in 1..(n1 * m) |-> [q \in 1..(n2 * m) |-> B[p1[p] + 1][p2[q] + 1]]]
OutputsPerInput(s) == s.order * s.d + 1
IsPermutation(p) == \A v \in 0..(Len(p) - 1) : \E k \in 1..Len(p) : p[k] = v
LayoutOK ==
  Part = "layout" =>
    LET m == OutputsPerInput(c) S == Shuffled(c.n1, c.n2, m)
    IN /\ IsPermutation(Perm(c.n1, m)) /\ IsPermutation(Perm(c.n2, m))
       /\ \A i \in 0..(c.n1 - 1), a \in 0..(m - 1), j \in 0..(c.n2 - 1), b \in 0..(m - 1) :
            S[i * m + a + 1][j * m + b + 1] = <<i, a, j, b>>                                  \* documented per-point interleaved layout
       /\ out = [rows |-> c.n1 * m, cols |-> c.n2 * m, perm1 |-> Perm(c.n1, m), perm2 |-> Perm(c.n2, m)]

\* ============================== exact ===========================================================
Q(p) == RQ(p[1], p[2])
RECURSIVE RPow(_, _)
RPow(a, k) == IF k = 0 THEN ROne ELSE RMul(a, RPow(a, k - 1))
RowSel(x, ad) == IF ad = <<>> THEN x ELSE [k \in 1..Len(ad) |-> x[ad[k]]]                    \* index_select(-1, active_dims), 1-based here
IntDot(x, y) == LET RECURSIVE S(_)
                    S(k) == IF k = 0 THEN 0 ELSE x[k] * y[k] + S(k - 1)
                IN S(Len(x))

\* kernel expressions: leaves lin(v, ad) | poly(off, p, ad) | const(cv); nodes scale(s, a) | sum(a, b) | prod(a, b)
RECURSIVE KEval(_, _, _)
KEval(e, x, y) ==
  CASE e.op = "lin"   -> LET xs == RowSel(x, e.ad) ys == RowSel(y, e.ad)
                         IN RSum([k \in 1..Len(xs) |-> RMul(Q(IF Len(e.v) = 1 THEN e.v[1] ELSE e.v[k]), R(xs[k] * ys[k]))])
    [] e.op = "poly"  -> RPow(RAdd(R(IntDot(RowSel(x, e.ad), RowSel(y, e.ad))), Q(e.off)), e.p)
    [] e.op = "const" -> Q(e.cv)
    [] e.op = "scale" -> RMul(Q(e.s), KEval(e.a, x, y))
    [] e.op = "sum"   -> RAdd(KEval(e.a, x, y), KEval(e.b, x, y))
    [] e.op = "prod"  -> RMul(KEval(e.a, x, y), KEval(e.b, x, y))
Gram(e, X1, X2) == [i \in 1..Len(X1) |-> [j \in 1..Len(X2) |-> KEval(e, X1[i], X2[j])]]

ExprOK(i) ==
  /\ Gram(i.e, i.X1, i.X2) = Tr(Gram(i.e, i.X2, i.X1))                                        \* k(x, y) = k(y, x)
  /\ \A x \in {i.X1[1]}, y \in {i.X2[1]} :
       /\ (i.e.op = "scale" /\ i.e.a.op = "sum" =>                                            \* scaling distributes over sums
             KEval(i.e, x, y) = RAdd(RMul(Q(i.e.s), KEval(i.e.a.a, x, y)), RMul(Q(i.e.s), KEval(i.e.a.b, x, y))))
       /\ KEval([op |-> "prod", a |-> [op |-> "const", cv |-> <<3, 2>>], b |-> i.e], x, y)     \* ConstantKernel * k  =  ScaleKernel(k) (documented)
            = KEval([op |-> "scale", s |-> <<3, 2>>, a |-> i.e], x, y)
       /\ (i.e.op \in {"sum", "prod"} => KEval(i.e, x, y) = KEval([i.e EXCEPT !.a = i.e.b, !.b = i.e.a], x, y))

\* ---- PolynomialKernelGrad: Cov(D_a f(x), D_b f(y)) = D_a^x D_b^y (x.y + c)^p, a, b in 0..d --------------------
PolyK(x, y, cc, p) == RPow(RAdd(R(IntDot(x, y)), cc), p)
PolyGradEntry(x, y, cc, p, a, b) ==
  LET s == RAdd(R(IntDot(x, y)), cc)
  IN IF a = 0 /\ b = 0 THEN RPow(s, p)
     ELSE IF a = 0 THEN RMul(R(p * x[b]), RPow(s, p - 1))
     ELSE IF b = 0 THEN RMul(R(p * y[a]), RPow(s, p - 1))
     ELSE RAdd(IF p >= 2 THEN RMul(R(p * (p - 1) * y[a] * x[b]), RPow(s, p - 2)) ELSE RZero,
               IF a = b THEN RMul(R(p), RPow(s, p - 1)) ELSE RZero)
\* exact derivative at 0 of a polynomial of degree <= 4 from its values at -2, -1, 1, 2
Sten(fm2, fm1, f1, f2) == RDiv(RSub(RMul(R(8), RSub(f1, fm1)), RSub(f2, fm2)), R(12))
Shift(x, a, t) == [x EXCEPT ![a] = @ + t]
DX(x, y, cc, p, a) == IF a = 0 THEN PolyK(x, y, cc, p)
                      ELSE Sten(PolyK(Shift(x, a, -2), y, cc, p), PolyK(Shift(x, a, -1), y, cc, p), PolyK(Shift(x, a, 1), y, cc, p), PolyK(Shift(x, a, 2), y, cc, p))
DXY(x, y, cc, p, a, b) == IF b = 0 THEN DX(x, y, cc, p, a)
                          ELSE Sten(DX(x, Shift(y, b, -2), cc, p, a), DX(x, Shift(y, b, -1), cc, p, a), DX(x, Shift(y, b, 1), cc, p, a), DX(x, Shift(y, b, 2), cc, p, a))
Interleaved(X1, X2, m, F(_, _, _, _)) ==                                                       \* F(i, a, j, b), a, b in 0..m-1
  [p \in 1..(Len(X1) * m) |-> [q \in 1..(Len(X2) * m) |-> F(((p - 1) \div m) + 1, (p - 1) % m, ((q - 1) \div m) + 1, (q - 1) % m)]]
PolyGradMat(i) == Interleaved(i.X1, i.X2, Len(i.X1[1]) + 1, LAMBDA r, a, s, b : PolyGradEntry(i.X1[r], i.X2[s], Q(i.off), i.p, a, b))
PolyGradOK(i) == \A r \in 1..Len(i.X1), s \in 1..Len(i.X2), a \in 0..Len(i.X1[1]), b \in 0..Len(i.X1[1]) :
                    PolyGradEntry(i.X1[r], i.X2[s], Q(i.off), i.p, a, b) = DXY(i.X1[r], i.X2[s], Q(i.off), i.p, a, b)

\* ---- RBF derivative kernels: ratios to the base value ---------------------------------------------------------
\* g(u) = exp(-u^2 w / 2), w = 1 / l^2:  Herm(m, u, w) = g^(m)(u) / g(u);  g' = -(u w) g  =>  g^(m) = -(u w) g^(m-1) - (m-1) w g^(m-2)
RECURSIVE Herm(_, _, _)
Herm(m, u, w) == IF m = 0 THEN ROne ELSE IF m = 1 THEN RNeg(RMul(u, w))
                 ELSE RSub(RMul(RNeg(RMul(u, w)), Herm(m - 1, u, w)), RMul(RMul(R(m - 1), w), Herm(m - 2, u, w)))
\* order of differentiation in dimension k of output a in 0..2d (0 value, 1..d first, d+1..2d second non-mixed)
Ord(a, k, d) == IF a = 0 THEN 0 ELSE IF a <= d THEN (IF a = k THEN 1 ELSE 0) ELSE (IF a - d = k THEN 2 ELSE 0)
W(l2, k) == RDiv(ROne, Q(IF Len(l2) = 1 THEN l2[1] ELSE l2[k]))
RECURSIVE RProd(_)
RProd(q) == IF q = <<>> THEN ROne ELSE RMul(Head(q), RProd(Tail(q)))
\* d/dx_k acts on g(x_k - y_k) as d/du, d/dy_k as -d/du
Ratio(x, y, l2, a, b) ==
  LET d == Len(x)
  IN RProd([k \in 1..d |-> LET p == Ord(a, k, d) q == Ord(b, k, d) h == Herm(p + q, R(x[k] - y[k]), W(l2, k))
                           IN IF q % 2 = 1 THEN RNeg(h) ELSE h])
RatioMat(i) == Interleaved(i.X1, i.X2, i.order * Len(i.X1[1]) + 1, LAMBDA r, a, s, b : Ratio(i.X1[r], i.X2[s], i.l2, a, b))
\* the first-order blocks as RBFKernelGrad writes them (outer = (x1 - x2) / l^2):  K12 = outer * k, K21 = -outer * k, K22 = (delta / l^2 - outer outer) * k
RatioOK(i) ==
  LET d == Len(i.X1[1])
  IN \A r \in 1..Len(i.X1), s \in 1..Len(i.X2) :
       LET x == i.X1[r] y == i.X2[s] U(k) == RMul(R(x[k] - y[k]), W(i.l2, k))
       IN /\ \A a \in 0..(i.order * d), b \in 0..(i.order * d) : Ratio(x, y, i.l2, a, b) = Ratio(y, x, i.l2, b, a)     \* Cov(D_a f(x), D_b f(y)) symmetric
          /\ \A b \in 1..d : Ratio(x, y, i.l2, 0, b) = U(b) /\ Ratio(x, y, i.l2, b, 0) = RNeg(U(b))                \* d/dx k = -(x - y) / l^2 k
          /\ \A a \in 1..d, b \in 1..d : Ratio(x, y, i.l2, a, b) = RSub(IF a = b THEN W(i.l2, a) ELSE RZero, RMul(U(a), U(b)))

\* ---- piecewise polynomial kernels (documented: Rasmussen & Williams (4.21)), j = floor(D/2) + q + 1 --------------
JOf(D, q) == (D \div 2) + q + 1
PosPart(r) == IF RLt(r, ROne) THEN RSub(ROne, r) ELSE RZero
PPDoc(r, D, q) ==
  LET j == JOf(D, q) h == PosPart(r)
  IN CASE q = 0 -> RPow(h, j)
       [] q = 1 -> RMul(RPow(h, j + 1), RAdd(RMul(R(j + 1), r), ROne))
       [] q = 2 -> RMul(RPow(h, j + 2), RAdd(RAdd(ROne, RMul(R(j + 2), r)), RMul(RQ(j * j + 4 * j + 3, 3), RMul(r, r))))
       [] q = 3 -> RMul(RPow(h, j + 3), RAdd(RAdd(RAdd(ROne, RMul(R(j + 3), r)), RMul(RQ(6 * j * j + 36 * j + 45, 15), RMul(r, r))),
                                              RMul(RQ(j * j * j + 9 * j * j + 23 * j + 15, 15), RMul(r, RMul(r, r)))))
\* the code: _fmax(r, j, q) * _get_cov(r, j, q), transcribed term by term from gpytorch/kernels/piecewise_polynomial_kernel.py
PPCode(r, D, q) ==
  LET j == JOf(D, q) fmax == RPow(IF RLt(RZero, RSub(ROne, r)) THEN RSub(ROne, r) ELSE RZero, j + q)
      cov == CASE q = 0 -> ROne
               [] q = 1 -> RAdd(RMul(R(j + 1), r), ROne)
               [] q = 2 -> RAdd(RAdd(ROne, RMul(R(j + 2), r)), RMul(RQ(j * j + 4 * j + 3, 3), RMul(r, r)))   \* j^2 since the fix: commit (was j + 4j + 3)
               [] q = 3 -> RAdd(RAdd(RAdd(ROne, RMul(R(j + 3), r)), RMul(RQ(6 * j * j + 36 * j + 45, 15), RMul(r, r))),
                                RMul(RQ(j * j * j + 9 * j * j + 23 * j + 15, 15), RMul(r, RMul(r, r))))
  IN RMul(fmax, cov)
PPDist(i, r, s) == RDiv(R(Abs(i.A[r] - i.B[s])), Q(i.l))                                      \* points on the first axis, lengthscale l
PPMat(i) == [r \in 1..Len(i.A) |-> [s \in 1..Len(i.B) |-> PPDoc(PPDist(i, r, s), i.D, i.q)]]
PPOK(i) ==
  /\ PPDoc(RZero, i.D, i.q) = ROne
  /\ \A r \in 1..Len(i.A), s \in 1..Len(i.B) :
       LET t == PPDist(i, r, s) v == PPDoc(t, i.D, i.q)
       IN RLe(RZero, v) /\ RLe(v, ROne) /\ (RLe(ROne, t) => v = RZero)                          \* a correlation with compact support r < 1
PPCodeOK == Part = "ppcode" => \A r \in 1..Len(c.A), s \in 1..Len(c.B) : PPCode(PPDist(c, r, s), c.D, c.q) = PPDoc(PPDist(c, r, s), c.D, c.q)

\* ---- additive structure: elementary symmetric polynomials --------------------------------------------------------
RECURSIVE ProdOver(_, _)
ProdOver(S, z) == IF S = {} THEN ROne ELSE LET k == CHOOSE k \in S : TRUE IN RMul(z[k], ProdOver(S \ {k}, z))
RECURSIVE SumOverSets(_, _)
SumOverSets(Ss, z) == IF Ss = {} THEN RZero ELSE LET S == CHOOSE S \in Ss : TRUE IN RAdd(ProdOver(S, z), SumOverSets(Ss \ {S}, z))
ESub(z, m) == SumOverSets({S \in SUBSET (1..Len(z)) : Cardinality(S) = m}, z)                   \* explicit sum over subsets of products
PowSum(z, k) == RSum([t \in 1..Len(z) |-> RPow(z[t], k)])
Sgn(k, v) == IF k % 2 = 0 THEN v ELSE RNeg(v)
\* NewtonGirardAdditiveKernel.forward:  e_0 = 1, e_deg = (1/deg) sum_{k=1..deg} (-1)^(k-1) e_{deg-k} s_k
RECURSIVE ENG(_, _)
ENG(z, deg) == IF deg = 0 THEN ROne
               ELSE RDiv(RSum([k \in 1..deg |-> Sgn(k - 1, RMul(ENG(z, deg - k), PowSum(z, k)))]), R(deg))
\* sum_interaction_terms:  S'[k] = (-1)^k sum_i z_i^(k+1);  E[0] = S'[0];  E[deg] = (S'[deg] + sum_{m<deg} S'[m] E[deg-1-m]) / (deg+1)
SPrime(z, k) == Sgn(k, PowSum(z, k + 1))
RECURSIVE ESIT(_, _)
ESIT(z, deg) == IF deg = 0 THEN SPrime(z, 0)
                ELSE RDiv(RAdd(SPrime(z, deg), RSum([m \in 1..deg |-> RMul(SPrime(z, m - 1), ESIT(z, deg - m))])), R(deg + 1))
NGZ(i, r, s) == [k \in 1..Len(i.X1[r]) |-> RAdd(R(i.X1[r][k] * i.X2[s][k]), Q(i.v))]             \* per-dimension base kernels x_k y_k + v (polynomial, power 1)
NGOK(i) == \A r \in 1..Len(i.X1), s \in 1..Len(i.X2) : \A deg \in 1..Len(i.X1[1]) :
              LET z == NGZ(i, r, s) IN ENG(z, deg) = ESub(z, deg) /\ ESIT(z, deg - 1) = ESub(z, deg)
NGMats(i) ==
  LET D == Len(i.X1[1]) Rr == Len(i.o)
      M(F(_)) == [r \in 1..Len(i.X1) |-> [s \in 1..Len(i.X2) |-> F(NGZ(i, r, s))]]
  IN [ng   |-> M(LAMBDA z : RSum([deg \in 1..Rr |-> RMul(Q(i.o[deg]), ESub(z, deg))])),                 \* sum_deg outputscale_deg e_deg
      upto |-> M(LAMBDA z : RSum([deg \in 1..Rr |-> ESub(z, deg)])),                                    \* sum_interaction_terms(max_degree = R)
      add  |-> M(LAMBDA z : ESub(z, 1)),                                                              \* AdditiveStructureKernel
      prod |-> M(LAMBDA z : ESub(z, D))]                                                              \* ProductStructureKernel

\* ---- sum_interaction_terms on a stack with a batch axis -----------------------------------------------------------------
\* base covariance k of batch element bb: x_k y_k + v + vb[bb]; the stack is B x D x N x M (spos = 1, dim = -3) or D x B x N x M (spos = 0, dim = -4);
\* smd = max_degree (0 stands for None): documented to default to D - the size of the NAMED axis - and capped there
SDZ(i, bb, r, s) == [k \in 1..Len(i.X1[r]) |-> RAdd(R(i.X1[r][k] * i.X2[s][k]), RAdd(Q(i.v), Q(i.vb[bb])))]
SDDeg(i) == LET D == Len(i.X1[1]) IN IF i.smd = 0 \/ i.smd > D THEN D ELSE i.smd
SDSum(i, z) == RSum([deg \in 1..SDDeg(i) |-> ESub(z, deg)])                                          \* explicit sum over index subsets
SDMat(i) == [bb \in 1..Len(i.vb) |-> [r \in 1..Len(i.X1) |-> [s \in 1..Len(i.X2) |-> SDSum(i, SDZ(i, bb, r, s))]]]
SDOK(i) == \A bb \in 1..Len(i.vb), r \in 1..Len(i.X1), s \in 1..Len(i.X2) :
             LET z == SDZ(i, bb, r, s)
             IN /\ SDSum(i, z) = RSum([deg \in 1..SDDeg(i) |-> ESIT(z, deg - 1)])                     \* the recurrence of the code, order by order
                /\ (SDDeg(i) = Len(z) => SDSum(i, z) = RSub(RProd([k \in 1..Len(z) |-> RAdd(ROne, z[k])]), ROne))   \* all orders: prod (1 + z_k) - 1
SDSizes(i) == <<Len(i.vb), Len(i.X1[1]), Len(i.X1), Len(i.X2)>>                                       \* B, D, N, M

\* ---- ArcKernel with an activity indicator (delta_func) on quarter-turn phases -----------------------------------
\* coordinate i of point r: active (A[r][i] = 1) with phase pi rho_i x_i / L_i = Q[r][i] * pi / 2, or inactive (A[r][i] = 0);
\* documented embedding g_i = [0, 0] if inactive, w_i [sin, cos] otherwise; then the base kernel with unit lengthscale
SinQ(k) == CASE k % 4 = 0 -> 0 [] k % 4 = 1 -> 1 [] k % 4 = 2 -> 0 [] OTHER -> -1
CosQ(k) == CASE k % 4 = 0 -> 1 [] k % 4 = 1 -> 0 [] k % 4 = 2 -> -1 [] OTHER -> 0
OmOf(om, t) == IF Len(om) = 1 THEN om[1] ELSE om[t]                                                              \* one radius per dimension with ard_num_dims, else shared
ArcEmb(q, a, om) == [k \in 1..(2 * Len(q)) |-> LET t == IF k <= Len(q) THEN k ELSE k - Len(q)                   \* torch.cat((sin part, cos part), -1)
                                                 IN RMul(Q(OmOf(om, t)), R(a[t] * (IF k <= Len(q) THEN SinQ(q[t]) ELSE CosQ(q[t]))))]
RSqDist(u, v) == RSum([k \in 1..Len(u) |-> RMul(RSub(u[k], v[k]), RSub(u[k], v[k]))])
ArcBase(i, u, v) == CASE i.base = "rq"   -> RDiv(ROne, RAdd(ROne, RDiv(RSqDist(u, v), R(2))))                    \* RQ, alpha = 1, unit lengthscale
                      [] i.base = "lin"  -> RMul(Q(i.v), Dot(u, v))
                      [] i.base = "poly" -> RPow(RAdd(Dot(u, v), Q(i.off)), i.p)
ArcMat(i) == [r \in 1..Len(i.Q1) |-> [s \in 1..Len(i.Q2) |-> ArcBase(i, ArcEmb(i.Q1[r], i.A1[r], i.om), ArcEmb(i.Q2[s], i.A2[s], i.om))]]
\* squared chord between the embeddings of one coordinate: both inactive 0; one inactive w^2 (a point of the circle against the ORIGIN);
\* both active: 0, 2 w^2, 4 w^2 for a phase difference of 0, 1 or 3, 2 quarter turns
Chord2(q1, a1, q2, a2, om) ==
  LET w2 == RMul(Q(om), Q(om)) dq == (q1 - q2) % 4
  IN IF a1 = 0 /\ a2 = 0 THEN RZero ELSE IF a1 = 0 \/ a2 = 0 THEN w2
     ELSE IF dq = 0 THEN RZero ELSE IF dq = 2 THEN RMul(R(4), w2) ELSE RMul(R(2), w2)
ArcOK(i) == \A r \in 1..Len(i.Q1), s \in 1..Len(i.Q2) :
              RSqDist(ArcEmb(i.Q1[r], i.A1[r], i.om), ArcEmb(i.Q2[s], i.A2[s], i.om))
                = RSum([k \in 1..Len(i.Q1[r]) |-> Chord2(i.Q1[r][k], i.A1[r][k], i.Q2[s][k], i.A2[s][k], OmOf(i.om, k))])

\* ---- task kernels: IndexKernel, MultitaskKernel, LCMKernel ------------------------------------------------------------
TaskCov(t) == MAdd(MMul(FromInt(t.B), Tr(FromInt(t.B))), Diag([k \in 1..Len(t.v) |-> Q(t.v[k])]))             \* B B^T + diag(v)
\* Cov(f_s(x_i), f_t(x_j)) = sum over the terms of k_data(x_i, x_j) * K_TT[s][t], task index fastest (per-point interleaved)
MTaskEntry(i, x, a, y, b) == RSum([k \in 1..Len(i.terms) |-> RMul(KEval(i.terms[k].e, x, y), TaskCov(i.terms[k])[a + 1][b + 1])])
MTaskMat(i) == Interleaved(i.X1, i.X2, i.T, LAMBDA r, a, s, b : MTaskEntry(i, i.X1[r], a, i.X2[s], b))
MTaskDiag(i) == [p \in 1..(Len(i.X1) * i.T) |-> MTaskEntry(i, i.X1[((p - 1) \div i.T) + 1], (p - 1) % i.T, i.X1[((p - 1) \div i.T) + 1], (p - 1) % i.T)]
IndexMat(i) == LET Kt == TaskCov(i.terms[1]) IN [r \in 1..Len(i.I1) |-> [s \in 1..Len(i.I2) |-> Kt[i.I1[r] + 1][i.I2[s] + 1]]]
MTaskOK(i) ==
  /\ \A k \in 1..Len(i.terms) : IsSym(TaskCov(i.terms[k])) /\ Len(i.terms[k].B) = i.T /\ Len(i.terms[k].v) = i.T
  /\ LET M == MTaskMat(i)                                                                     \* the (a, b) task block is K_TT[a][b] * K_XX for one term
     IN Len(i.terms) = 1 => \A a \in 1..i.T, b \in 1..i.T, r \in 1..Len(i.X1), s \in 1..Len(i.X2) :
          M[(r - 1) * i.T + a][(s - 1) * i.T + b] = RMul(TaskCov(i.terms[1])[a][b], Gram(i.terms[1].e, i.X1, i.X2)[r][s])

\* ---- no instance with equal entries in a multi-valued parameter ------------------------------------------------------------
PairwiseDistinct(q) == \A a, b \in 1..Len(q) : a # b => Q(q[a]) # Q(q[b])
RECURSIVE ExprDistinct(_)
ExprDistinct(e) == CASE e.op = "lin" -> PairwiseDistinct(e.v)
                     [] e.op \in {"poly", "const"} -> TRUE
                     [] e.op = "scale" -> ExprDistinct(e.a)
                     [] OTHER -> ExprDistinct(e.a) /\ ExprDistinct(e.b)
DistinctOK ==
  Part = "exact" =>
    CASE c.kind = "expr"     -> ExprDistinct(c.e)
      [] c.kind = "rbfratio" -> PairwiseDistinct(c.l2)
      [] c.kind = "ng"       -> PairwiseDistinct(c.o)
      [] c.kind = "arcmask"  -> PairwiseDistinct(c.om)
      [] c.kind = "mtask"    -> \A k \in 1..Len(c.terms) : PairwiseDistinct(c.terms[k].v) /\ ExprDistinct(c.terms[k].e)
      [] c.kind = "sitdim"   -> PairwiseDistinct(c.vb) /\ \A a, b \in 1..4 : a # b => SDSizes(c)[a] # SDSizes(c)[b]   \* no two axes of the stack have the same size
      [] OTHER -> TRUE

ExactOK ==
  Part = "exact" =>
    CASE c.kind = "expr"     -> ExprOK(c)
      [] c.kind = "polygrad" -> PolyGradOK(c)
      [] c.kind = "rbfratio" -> RatioOK(c)
      [] c.kind = "pp"       -> PPOK(c)
      [] c.kind = "ng"       -> NGOK(c)
      [] c.kind = "arcmask"  -> ArcOK(c)
      [] c.kind = "mtask"    -> MTaskOK(c)
      [] c.kind = "sitdim"   -> SDOK(c)

Expected(i) ==
  CASE i.kind = "expr"     -> [K |-> Gram(i.e, i.X1, i.X2), diag |-> [r \in 1..Len(i.X1) |-> KEval(i.e, i.X1[r], i.X1[r])]]
    [] i.kind = "polygrad" -> [K |-> PolyGradMat(i)]
    [] i.kind = "rbfratio" -> [K |-> RatioMat(i)]
    [] i.kind = "pp"       -> [K |-> PPMat(i)]
    [] i.kind = "ng"       -> NGMats(i)
    [] i.kind = "arcmask"  -> [K |-> ArcMat(i), diag |-> [r \in 1..Len(i.Q1) |-> ArcBase(i, ArcEmb(i.Q1[r], i.A1[r], i.om), ArcEmb(i.Q1[r], i.A1[r], i.om))]]
    [] i.kind = "mtask"    -> [K |-> MTaskMat(i), diag |-> MTaskDiag(i), idx |-> IndexMat(i)]
    [] i.kind = "sitdim"   -> [K |-> SDMat(i), deg |-> SDDeg(i)]

Init == /\ c \in (CASE Part = "lattice" -> {s \in Cells : Valid(s)}
                    [] Part = "layout" -> LayoutCells
                    [] Part = "args" -> ArgCells
                    [] Part = "dims" -> DimCells
                    [] Part = "rel" -> RelCells
                    [] OTHER -> Instances)
        /\ out = (CASE Part = "lattice" -> PathOf(c)
                    [] Part = "layout" -> LET m == OutputsPerInput(c) IN [rows |-> c.n1 * m, cols |-> c.n2 * m, perm1 |-> Perm(c.n1, m), perm2 |-> Perm(c.n2, m)]
                    [] Part = "exact" -> Expected(c)
                    [] Part = "args" -> ArgOut(c)
                    [] Part = "dims" -> DimOut(c)
                    [] Part = "rel" -> RelOut(c)
                    [] OTHER -> <<>>)
Next == UNCHANGED vars
Spec == Init /\ [][Next]_vars
=============================================================================
