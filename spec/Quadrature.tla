----------------------------- MODULE Quadrature -----------------------------
(***************************************************************************)
(* Property C13: the one-dimensional Gauss-Hermite rule of the             *)
(* non-Gaussian likelihoods (gpytorch/utils/quadrature.py) and the         *)
(* likelihood / method lattice that uses it.                               *)
(*                                                                         *)
(* Four parts, selected by the constant Part (one TLC run each).           *)
(*                                                                         *)
(* "moments"  The DENOTATION of "integrating a polynomial against          *)
(*   N(m, v)": for x = m + s z, z ~ N(0, 1), s = sqrt(v) rational,         *)
(*        E[x^k] = sum_j C(k, j) m^(k-j) s^j E[z^j],                       *)
(*        E[z^0] = 1, E[z^1] = 0, E[z^j] = (j - 1) E[z^(j-2)].             *)
(*   An instance is m = mn / dd, s = sn / dd and an integer coefficient    *)
(*   vector coef (coef[k+1] multiplies x^k).  Everything is computed in    *)
(*   integers scaled by dd^k (TLC integers are 32 bit; the lattice is      *)
(*   chosen so that no intermediate exceeds 2^31, and TLC reports an       *)
(*   overflow instead of wrapping) and normalised to a rational <<n, d>>   *)
(*   at the end.  TLC checks the recurrence against the closed form        *)
(*   (2j)! / (2^j j!), the binomial expansion against Stein's recurrence   *)
(*   M_k = m M_(k-1) + (k-1) v M_(k-2), the central moments                *)
(*   E[(x-m)^k] = s^k E[z^k], and hands the exact integral of every        *)
(*   instance to the replay in `out`.                                      *)
(*                                                                         *)
(* "rule"  The CODE-SHAPED forward for the rules whose nodes are square    *)
(*   roots of rationals (num_locs = 1, 2, 3): nodes come in pairs +-x with *)
(*   equal weights (plus the node 0 for odd num_locs);                     *)
(*        shifted = sqrt(2 v) x + m,   weight = w / sqrt(pi),              *)
(*        result  = sum over the location axis of weight * f(shifted).     *)
(*   For a monomial the odd powers of the offset cancel in each pair, the  *)
(*   even ones are powers of 2 v x^2, which is rational.  TLC checks that  *)
(*   this formula integrates every monomial of degree < 2 num_locs         *)
(*   exactly for every (m, v) of the lattice, and that at degree           *)
(*   2 num_locs it misses the integral by exactly s^(2 num_locs) num_locs! *)
(*   (the squared norm of the monic Hermite polynomial): the rule is exact *)
(*   to degree 2 num_locs - 1 and no further.                              *)
(*                                                                         *)
(* "shapes"  The shapes and the index map of forward for a function        *)
(*   distribution of batch shape ms and a func that combines the shifted   *)
(*   locations with observations of shape os (log_prob(observations)):     *)
(*   locations are viewed as [n, 1, .., 1], weights as [n, 1, .., 1] with  *)
(*   the rank of func's output, axis 0 is summed.  Declaratively the       *)
(*   result has shape broadcast(ms, os) and element b is the sum over ALL  *)
(*   locations i of weight i times func at location i of the mean /        *)
(*   variance element ShUnb(b, ms) and the observation ShUnb(b, os).       *)
(*                                                                         *)
(* "lattice"  Likelihood class x method x num_gauss_hermite_locs at        *)
(*   construction x the same setting at call time x batch shape: which     *)
(*   path computes the value (analytic formula, Gauss-Hermite quadrature   *)
(*   with how many nodes, Monte-Carlo samples) and the shape of the        *)
(*   result.  Transcribed from _OneDimensionalLikelihood, _Likelihood and  *)
(*   the five classes.  Monte-Carlo cells are not decided by the replay.   *)
(*                                                                         *)
(* "rediff"  The derivative clause of log_normal_cdf ("a derivative equal  *)
(*   to phi/Phi to the same relative accuracy") under REPEATED             *)
(*   differentiation.  LogNormalCDF has a hand-written backward that reads *)
(*   what the forward left on the context (two saved tensors and, for      *)
(*   entries with z < -1, the continued-fraction numerator / denominator   *)
(*   kept as plain attributes).  The machine of BackwardOps.tla runs       *)
(*   forward -> backward^k (k <= BWMaxBwd) through ONE graph with          *)
(*   different upstream gradients, with retain_graph, with accumulation    *)
(*   into .grad, and as Jacobian rows / per-observation gradients, for     *)
(*   log_normal_cdf itself over the classes of its argument (all entries   *)
(*   in the tail z < -1, the three branches mixed in one tensor, no tail   *)
(*   entry) and for BernoulliLikelihood.expected_log_prob, whose           *)
(*   quadrature nodes times +-1 always reach below -1.  Invariant: every   *)
(*   pass sees what the forward stored, i.e. delivers u_j . phi/Phi - the  *)
(*   first pass and every later one.                                       *)
(***************************************************************************)
EXTENDS Rational, Shapes, TLC, BackwardOps

CONSTANTS Part,
          Instances,     \* "moments": set of [mn, sn, dd, coef]
          MaxDeg,        \* "moments": largest k for the E[z^k] closed-form check (<= 12)
          RuleLattice,   \* "rule": set of [mn, sn, dd]
          ShapeDims, ShapeRank, ShapeLocs,      \* "shapes": axis sizes, maximal rank, numbers of locations
          LocsSettings,  \* "lattice": values of num_gauss_hermite_locs (0 = the setting is not entered)
          BatchShapes,   \* "lattice": batch shapes of the function distribution
          DataN, NumSamples, DefaultLocs

VARIABLES c, out
vars == <<c, out>>

\* ============================== integer helpers ===================================================
RECURSIVE QPow(_, _)
QPow(b, e) == IF e = 0 THEN 1 ELSE b * QPow(b, e - 1)
RECURSIVE QFact(_)
QFact(n) == IF n <= 1 THEN 1 ELSE n * QFact(n - 1)
RECURSIVE QChoose(_, _)
QChoose(n, k) == IF k = 0 \/ k = n THEN 1 ELSE QChoose(n - 1, k - 1) + QChoose(n - 1, k)
RECURSIVE QSum(_)
QSum(q) == IF q = <<>> THEN 0 ELSE Head(q) + QSum(Tail(q))
RECURSIVE QRSum(_)
QRSum(q) == IF q = <<>> THEN RZero ELSE RAdd(Head(q), QRSum(Tail(q)))
RECURSIVE QRPow(_, _)
QRPow(b, e) == IF e = 0 THEN ROne ELSE RMul(b, QRPow(b, e - 1))

\* ============================== moments ===========================================================
\* E[z^k] by the recurrence
RECURSIVE ZM(_)
ZM(k) == IF k = 0 THEN 1 ELSE IF k = 1 THEN 0 ELSE (k - 1) * ZM(k - 2)
\* closed form: (2j)! = E[z^(2j)] 2^j j!, odd moments vanish
ZClosedOK(k) == IF k % 2 = 1 THEN ZM(k) = 0 ELSE QFact(k) = ZM(k) * QPow(2, k \div 2) * QFact(k \div 2)

\* dd^k E[x^k] for x = (mn + sn z) / dd: binomial expansion
IM(i, k) == QSum([jj \in 1..(k + 1) |-> QChoose(k, jj - 1) * QPow(i.mn, k - (jj - 1)) * QPow(i.sn, jj - 1) * ZM(jj - 1)])
\* the same by Stein's recurrence  M_k = m M_(k-1) + (k - 1) v M_(k-2)
RECURSIVE IMStein(_, _)
IMStein(i, k) == IF k = 0 THEN 1 ELSE IF k = 1 THEN i.mn ELSE i.mn * IMStein(i, k - 1) + (k - 1) * i.sn * i.sn * IMStein(i, k - 2)
\* dd^k E[(x - m)^k] from the raw moments (inverse binomial)
ICentral(i, k) == QSum([jj \in 1..(k + 1) |-> QChoose(k, jj - 1) * QPow(-i.mn, k - (jj - 1)) * IM(i, jj - 1)])

MeanQ(i)      == RQ(i.mn, i.dd)
SdQ(i)        == RQ(i.sn, i.dd)
VarQ(i)       == RMul(SdQ(i), SdQ(i))
Moment(i, k)  == RQ(IM(i, k), QPow(i.dd, k))
Deg(i)        == Len(i.coef) - 1
\* the exact integral of sum_k coef[k+1] x^k against N(m, v)
PolyInt(i)    == LET K == Deg(i)
                 IN RQ(QSum([kk \in 1..(K + 1) |-> i.coef[kk] * IM(i, kk - 1) * QPow(i.dd, K - (kk - 1))]), QPow(i.dd, K))

MomentsOK ==
  Part = "moments" =>
    /\ \A k \in 0..MaxDeg : ZClosedOK(k)
    /\ \A k \in 0..Deg(c) : IM(c, k) = IMStein(c, k) /\ ICentral(c, k) = QPow(c.sn, k) * ZM(k)
    /\ Moment(c, 0) = ROne
    /\ Deg(c) >= 1 => Moment(c, 1) = MeanQ(c)
    /\ Deg(c) >= 2 => RSub(Moment(c, 2), RMul(MeanQ(c), MeanQ(c))) = VarQ(c)
    /\ \A k \in 0..Deg(c) : (c.mn = 0 /\ k % 2 = 1) => IsZero(Moment(c, k))           \* symmetry

MomentsOut(i) == [integral |-> PolyInt(i), moments |-> [kk \in 1..(Deg(i) + 1) |-> Moment(i, kk - 1)]]

\* ============================== the stored rule, num_locs <= 3 ====================================
\* numpy.polynomial.hermite.hermgauss(n): physicists' nodes x (weight exp(-x^2)) and weights w; the table holds
\* x^2 and w / sqrt(pi):   n = 1: x = 0, w = sqrt(pi);   n = 2: x = +-sqrt(1/2), w = sqrt(pi)/2;
\* n = 3: x = 0, w = 2 sqrt(pi)/3 and x = +-sqrt(3/2), w = sqrt(pi)/6.
RuleZeroW(n) == IF n = 1 THEN ROne ELSE IF n = 3 THEN RQ(2, 3) ELSE RZero
RulePairs(n) == IF n = 2 THEN << [xsq |-> RQ(1, 2), w |-> RQ(1, 2)] >>
                ELSE IF n = 3 THEN << [xsq |-> RQ(3, 2), w |-> RQ(1, 6)] >> ELSE << >>

\* forward(func = x^k): sum_i (w_i / sqrt(pi)) (sqrt(2 v) x_i + m)^k
\* a pair +-x contributes 2 w sum_{j even} C(k, j) m^(k-j) (2 v x^2)^(j/2)
PairPower(p, m, v, k) ==
  LET dsq == RMul(RMul(R(2), v), p.xsq)
  IN RMul(RMul(R(2), p.w),
          QRSum([jj \in 1..((k \div 2) + 1) |-> RMul(R(QChoose(k, 2 * (jj - 1))), RMul(QRPow(m, k - 2 * (jj - 1)), QRPow(dsq, jj - 1)))]))
CodeRule(n, m, v, k) ==
  RAdd(RMul(RuleZeroW(n), QRPow(m, k)), QRSum([pp \in 1..Len(RulePairs(n)) |-> PairPower(RulePairs(n)[pp], m, v, k)]))

\* what the rule misses at degree 2n: s^(2n) n!
Deficit(i, n) == RMul(R(QFact(n)), QRPow(SdQ(i), 2 * n))

RuleOK ==
  Part = "rule" =>
    /\ \A k \in 0..(2 * c.n - 1) : CodeRule(c.n, MeanQ(c), VarQ(c), k) = Moment(c, k)
    /\ CodeRule(c.n, MeanQ(c), VarQ(c), 2 * c.n) = RSub(Moment(c, 2 * c.n), Deficit(c, c.n))
    /\ c.sn # 0 => CodeRule(c.n, MeanQ(c), VarQ(c), 2 * c.n) # Moment(c, 2 * c.n)
    \* the weights of the rule sum to one (degree 0), whatever m and v
    /\ RAdd(RuleZeroW(c.n), QRSum([pp \in 1..Len(RulePairs(c.n)) |-> RMul(R(2), RulePairs(c.n)[pp].w)])) = ROne

RuleOut(i) == [deficit |-> Deficit(i, i.n), zero_w |-> RuleZeroW(i.n),
               pairs |-> [pp \in 1..Len(RulePairs(i.n)) |-> <<RulePairs(i.n)[pp].xsq, RulePairs(i.n)[pp].w>>]]

\* ============================== shapes and index map of forward ===================================
FwdLocPad(x)  == <<x.n>> \o ShOnes(Len(x.ms))                   \* _pad_with_singletons(locations, 0, means.dim())
FwdShifted(x) == ShBc2(ShBc2(x.ms, FwdLocPad(x)), x.ms)          \* sqrt(2 variances) * locations + means
FwdFuncOut(x) == ShBc2(FwdShifted(x), x.os)                      \* func(shifted) = dist(shifted).log_prob(observations)
FwdWPad(x)    == IF FwdFuncOut(x) = ShNone THEN ShNone ELSE <<x.n>> \o ShOnes(Len(FwdFuncOut(x)) - 1)
FwdProd(x)    == ShBc2(FwdFuncOut(x), FwdWPad(x))                \* log_probs * weights
FwdResult(x)  == IF FwdProd(x) = ShNone THEN ShNone ELSE Tail(FwdProd(x))   \* .sum(0)

\* the property's domain: observations broadcast against the function distribution without adding axes in front
FwdInDomain(x) == Len(x.os) <= Len(x.ms) /\ ShCompatible(<<x.ms, x.os>>)
FwdExpected(x) == ShBroadcastAll(<<x.ms, x.os>>)

\* element <<i>> \o b of the product: which weight, location, mean/variance element and observation it is built from
FwdReads(x, i, b) ==
  LET p  == <<i>> \o b
      fo == ShUnb(p, FwdFuncOut(x))          \* index into func's output (same rank as the product)
      sh == ShUnb(fo, FwdShifted(x))         \* index into the shifted locations
  IN [w    |-> ShUnb(p, FwdWPad(x))[1],
      loc  |-> ShUnb(sh, FwdLocPad(x))[1],
      mean |-> ShUnb(sh, x.ms),
      obs  |-> ShUnb(fo, x.os)]

ShapesOK ==
  Part = "shapes" =>
    /\ FwdInDomain(c) =>
         /\ FwdResult(c) = FwdExpected(c)
         /\ \A b \in ShIndices(FwdExpected(c)) : \A i \in 0..(c.n - 1) :
              LET r == FwdReads(c, i, b)
              IN r.w = i /\ r.loc = i /\ ShUnbSet(b, c.ms) = {r.mean} /\ ShUnbSet(b, c.os) = {r.obs}
    \* func's output always carries the location axis in front when the observations add no axis
    /\ (Len(c.os) <= Len(c.ms) /\ FwdFuncOut(c) # ShNone) => Head(FwdFuncOut(c)) = c.n

ShapeClass(x) == IF FwdInDomain(x) THEN "ok" ELSE IF FwdResult(x) = ShNone THEN "raises" ELSE "outside-domain"
ShapesOut(x)  == [class |-> ShapeClass(x), shape |-> FwdResult(x),
                  reads |-> IF FwdInDomain(x)
                            THEN {<<b, FwdReads(x, 0, b).mean, FwdReads(x, 0, b).obs>> : b \in ShIndices(FwdExpected(x))}
                            ELSE {}]

ShapeCases == {[n |-> n, ms |-> a, os |-> b] : n \in ShapeLocs, a \in ShShapes(ShapeDims, ShapeRank), b \in ShShapes(ShapeDims, ShapeRank)}

\* ============================== likelihood x method lattice =======================================
Liks    == {"Bernoulli", "Laplace", "StudentT", "Beta", "Softmax"}
Methods == {"expected_log_prob", "log_marginal", "marginal"}
OneDim(l) == l # "Softmax"                               \* subclasses of _OneDimensionalLikelihood
HasAnalyticMarginal(l) == l = "Bernoulli"                \* class attribute has_analytic_marginal

PathOf(l, m) ==
  IF l = "Bernoulli" THEN (IF m = "expected_log_prob" THEN "quadrature" ELSE "analytic")   \* probit identity
  ELSE IF OneDim(l) THEN (IF m = "marginal" THEN "mc" ELSE "quadrature")                   \* _OneDimensionalLikelihood
  ELSE "mc"                                                                                \* _Likelihood
\* what the quadrature integrates
IntegrandOf(l, m) ==
  IF PathOf(l, m) # "quadrature" THEN "-"
  ELSE IF l = "Bernoulli" THEN "log_normal_cdf((2y-1) f)"
  ELSE IF m = "expected_log_prob" THEN "log p(y|f)" ELSE "p(y|f), log outside"
\* the rule is built in __init__ from the value the setting has THEN; later values are not seen
NodesOf(x) == IF PathOf(x.lik, x.method) # "quadrature" THEN 0 ELSE IF x.ctor = 0 THEN DefaultLocs ELSE x.ctor
ResultShape(x) ==
  LET pts == x.batch \o <<DataN>>
  IN IF x.method = "marginal" /\ PathOf(x.lik, x.method) = "mc" THEN <<NumSamples>> \o pts ELSE pts

LatticeCells == [lik : Liks, method : Methods, ctor : LocsSettings, call : LocsSettings, batch : BatchShapes]

LatticeOK ==
  Part = "lattice" =>
    /\ PathOf(c.lik, c.method) \in {"analytic", "quadrature", "mc"}
    /\ (PathOf(c.lik, "marginal") = "analytic") = HasAnalyticMarginal(c.lik)
    /\ (PathOf(c.lik, c.method) = "quadrature") => OneDim(c.lik)
    /\ (OneDim(c.lik) /\ c.method = "expected_log_prob") => PathOf(c.lik, c.method) = "quadrature"
    /\ (NodesOf(c) = 0) = (PathOf(c.lik, c.method) # "quadrature")
    /\ NodesOf(c) = NodesOf([c EXCEPT !.call = 0])                \* the call-time setting is irrelevant
    /\ Len(ResultShape(c)) >= 1

LatticeOut(x) == [path |-> PathOf(x.lik, x.method), integrand |-> IntegrandOf(x.lik, x.method), nodes |-> NodesOf(x),
                  shape |-> ResultShape(x), decided |-> PathOf(x.lik, x.method) # "mc"]

\* ============================== repeated differentiation of log_normal_cdf ========================
\* zc: class of the argument tensor.  "tail": every entry below -1; "mixed": entries of all three branches; "notail": no entry below -1
\* (LogNormalCDF.forward then stores no numerator / denominator).  For the Bernoulli route the argument is (2y - 1)(m + sqrt(2v) t_i) over the
\* nodes t_i: "confident-right" (sign(m) = 2y - 1, |m| large), "confident-wrong", "uncertain" - all of them contain tail entries.
RediffCases ==
  [route : {"log_normal_cdf"}, zc : {"tail", "mixed", "notail"}, batch : {"none", "b2"}]
  \cup [route : {"bernoulli_elp"}, zc : {"confident-right", "confident-wrong", "uncertain"}, batch : {"none", "b2"}]
RediffTail(x) == x.zc # "notail"
\* the accuracy the property grants the derivative, by branch: relative 2e-3 where the rational tail approximation is differentiated, rounding elsewhere
DerivAccuracy == [tail |-> "2e-3 relative to phi/Phi", body |-> "rounding (1e-12 relative)"]
RediffOut(m) == [m |-> m, exp |-> BWExpected(m), accuracy |-> DerivAccuracy]
RediffNext == /\ \E m2 \in BWSteps(out.m, "lncdf") : out' = RediffOut(m2)
              /\ UNCHANGED c
RediffOK ==
  Part = "rediff" =>
    /\ DOMAIN out.m.ctx = BWNames("lncdf", RediffTail(c))
    /\ (RediffTail(c) <=> {"numerator", "denominator"} \subseteq DOMAIN out.m.ctx)      \* the attributes exist exactly when the tail branch of the backward reads them
    /\ BWTypeOK(out.m)
    /\ BWPure(out.m)
    /\ BWDerivOK(out.m)                 \* pass j delivers u_j . d/dz log_normal_cdf(z), for every j
    /\ out.exp = BWExpected(out.m)
\* without purity: fails only on a history with two passes when BWImpure is not empty (vacuity guard of the histories)
RediffDerivOK == Part = "rediff" => BWDerivOK(out.m)

\* ============================== machine ===========================================================
Init ==
  /\ c \in (CASE Part = "moments" -> Instances
              [] Part = "rule"    -> {[n |-> n, mn |-> i.mn, sn |-> i.sn, dd |-> i.dd] : n \in 1..3, i \in RuleLattice}
              [] Part = "shapes"  -> ShapeCases
              [] Part = "lattice" -> LatticeCells
              [] Part = "rediff"  -> RediffCases)
  /\ out = (CASE Part = "moments" -> MomentsOut(c)
              [] Part = "rule"    -> RuleOut(c)
              [] Part = "shapes"  -> ShapesOut(c)
              [] Part = "lattice" -> LatticeOut(c)
              [] Part = "rediff"  -> RediffOut(BWStart("lncdf", RediffTail(c))))
Next == IF Part = "rediff" THEN RediffNext ELSE UNCHANGED vars
Spec == Init /\ [][Next]_vars
=============================================================================
