----------------------------- MODULE Quadrature -----------------------------
(***************************************************************************)
(* Property C13: the one-dimensional Gauss-Hermite rule of the             *)
(* non-Gaussian likelihoods (gpytorch/utils/quadrature.py) and the         *)
(* likelihood / method lattice that uses it.                               *)
(*                                                                         *)
(* The parts are selected by the constant Part (one TLC run each).         *)
(*                                                                         *)
(* "moments"  The DENOTATION of "integrating a polynomial against          *)
(*   N(m, v)": for x = m + s z, z ~ N(0, 1), s = sqrt(v) rational,         *)
(*        E[x^k] = sum_j C(k, j) m^(k-j) s^j E[z^j],                       *)
(*        E[z^0] = 1, E[z^1] = 0, E[z^j] = (j - 1) E[z^(j-2)].             *)
(*   An instance is m = mn / dd, s = sn / dd and an integer coefficient    *)
(*   vector coef (coef[k+1] multiplies x^k).  Everything is computed in    *)
(*   integers scaled by dd^k (TLC integers are 32 bit; the lattice is      *)
(*   chosen so that no intermediate exceeds 2^31, and TLC reports an       *)
(*   overflow instead of wrapping) and normalised to a rational <<n, d>>   *)
(*   at the end.  TLC checks the recurrence against the closed form        *)
(*   (2j)! / (2^j j!), the binomial expansion against Stein's recurrence   *)
(*   M_k = m M_(k-1) + (k-1) v M_(k-2), the central moments                *)
(*   E[(x-m)^k] = s^k E[z^k], and hands the exact integral of every        *)
(*   instance to the replay in `out`.                                      *)
(*                                                                         *)
(* "rule"  The CODE-SHAPED forward for the rules whose nodes are square    *)
(*   roots of rationals (num_locs = 1, 2, 3): nodes come in pairs +-x with *)
(*   equal weights (plus the node 0 for odd num_locs);                     *)
(*        shifted = sqrt(2 v) x + m,   weight = w / sqrt(pi),              *)
(*        result  = sum over the location axis of weight * f(shifted).     *)
(*   For a monomial the odd powers of the offset cancel in each pair, the  *)
(*   even ones are powers of 2 v x^2, which is rational.  TLC checks that  *)
(*   this formula integrates every monomial of degree < 2 num_locs         *)
(*   exactly for every (m, v) of the lattice, and that at degree           *)
(*   2 num_locs it misses the integral by exactly s^(2 num_locs) num_locs! *)
(*   (the squared norm of the monic Hermite polynomial): the rule is exact *)
(*   to degree 2 num_locs - 1 and no further.                              *)
(*                                                                         *)
(* "shapes"  The shapes and the index map of forward for a function        *)
(*   distribution of batch shape ms and a func that combines the shifted   *)
(*   locations with observations of shape os (log_prob(observations)):     *)
(*   locations are viewed as [n, 1, .., 1], weights as [n, 1, .., 1] with  *)
(*   the rank of func's output, axis 0 is summed.  Declaratively the       *)
(*   result has shape broadcast(ms, os) and element b is the sum over ALL  *)
(*   locations i of weight i times func at location i of the mean /        *)
(*   variance element ShUnb(b, ms) and the observation ShUnb(b, os).       *)
(*                                                                         *)
(* "lattice"  Likelihood class x method x num_gauss_hermite_locs at        *)
(*   construction x the same setting at call time x batch shape: which     *)
(*   path computes the value (analytic formula, Gauss-Hermite quadrature   *)
(*   with how many nodes, Monte-Carlo samples) and the shape of the        *)
(*   result.  Transcribed from _OneDimensionalLikelihood, _Likelihood and  *)
(*   the five classes.  Monte-Carlo cells are not decided by the replay.   *)
(*                                                                         *)
(* "rediff"  The derivative clause of log_normal_cdf ("a derivative equal  *)
(*   to phi/Phi to the same relative accuracy") under REPEATED             *)
(*   differentiation.  LogNormalCDF has a hand-written backward that reads *)
(*   what the forward left on the context (two saved tensors and, for      *)
(*   entries with z < -1, the continued-fraction numerator / denominator   *)
(*   kept as plain attributes).  The machine of BackwardOps.tla runs       *)
(*   forward -> backward^k (k <= BWMaxBwd) through ONE graph with          *)
(*   different upstream gradients, with retain_graph, with accumulation    *)
(*   into .grad, and as Jacobian rows / per-observation gradients, for     *)
(*   log_normal_cdf itself over the classes of its argument (all entries   *)
(*   in the tail z < -1, the three branches mixed in one tensor, no tail   *)
(*   entry) and for BernoulliLikelihood.expected_log_prob, whose           *)
(*   quadrature nodes times +-1 always reach below -1.  Invariant: every   *)
(*   pass sees what the forward stored, i.e. delivers u_j . phi/Phi - the  *)
(*   first pass and every later one.                                       *)
(*                                                                         *)
(* "params"  The PARAMETER LATTICE of the one-dimensional likelihoods.     *)
(*   "for all ... likelihood parameters, batch shapes": every learnable    *)
(*   parameter (Laplace noise, Student-t noise and deg_free, Beta scale;   *)
(*   Bernoulli has none) ranges over its whole documented VALID range      *)
(*   (the default constraint: Positive() = (0, oo), GreaterThan(2) =       *)
(*   (2, oo)) in orders of magnitude: value = lower bound + 10^e for every *)
(*   e of Decades (-6 .. 2), as an exact rational.  A case fixes the       *)
(*   likelihood, how the value gets in (setter / initialize, tensor /      *)
(*   python float), the layout of the parameter tensor (scalar; one value  *)
(*   broadcast over a batch; a batch whose members MIX small and large     *)
(*   values: the exponents of every parameter spread over at least         *)
(*   MinSpread decades) and the shape of the function values.  The spec    *)
(*   states what the documented conditional reads from the parameters      *)
(*   (scale^2 = noise, df = deg_free, concentration1 + concentration0 =    *)
(*   scale + 2), that this reading is INJECTIVE on the lattice (no floor,  *)
(*   ceiling or clamp inside the valid range: two different valid values   *)
(*   never give the same conditional), which batch member every element    *)
(*   of the result reads (broadcast of [.., 1] against the function        *)
(*   shape), and the dimensionless observation placements in which the     *)
(*   rule has no truncation error (Laplace: every node on one side of the  *)
(*   observation, log density linear; Student-t / Beta: function standard  *)
(*   deviation a fraction r <= 1/5 of the width of the conditional), so    *)
(*   that the integrals can be held to closed forms / scale-equivariant    *)
(*   references at rounding level for every decade.  The same decades are  *)
(*   laid over the function distribution itself (mean = +-10^em, variance  *)
(*   = 10^ev) for the parameter-free Bernoulli likelihood (kind "func").   *)
(*   CONSTRAINT of every parameter (round 4): a further dimension of the   *)
(*   lattice.  Every parameter is registered with a constraint of one of   *)
(*   ConClasses: "default" (Positive() / GreaterThan(2)), "gt" (GreaterThan *)
(*   of a moved lower bound), "interval" (Interval(a, b): a finite upper   *)
(*   bound, sigmoid transform), "exp" (the default bounds with the         *)
(*   non-default transform exp / log), given to the constructor or         *)
(*   registered afterwards (ConHows).  The valid range is the range of     *)
(*   THAT constraint: value = its lower bound + 10^e.  The conditional     *)
(*   reads the value the public property reports, i.e. the raw parameter   *)
(*   through the REGISTERED constraint: a forward that inlines the default *)
(*   transform for a parameter (ParamInline) is told apart exactly on the  *)
(*   cases with a non-default class (ParamsThroughConstraintOK).  Every    *)
(*   lattice value is also valid under the default constraint, so a fresh  *)
(*   default-constrained likelihood with the same VALUE is the oracle for  *)
(*   "integrals depend on the constraint only through the value".          *)
(*                                                                         *)
(* "condf"  The conditional-distribution clause over the WHOLE RANGE of    *)
(*   the function values: |f| = 10^e for every e of FDecades (-6 .. 3),    *)
(*   both signs / every direction pattern, x observation class, for every  *)
(*   likelihood whose conditional the library builds (Bernoulli, Laplace,  *)
(*   Student-t, Beta, Softmax with and without mixing weights).  What is   *)
(*   exact in rationals is stated here: the Softmax logits z = W f and the *)
(*   log-odds log p(c|f) - log p(c'|f) = z_c - z_c' (unbounded: no floor - *)
(*   a conditional whose log-probabilities are floored CondFloor below the *)
(*   most likely class, as torch's Categorical(probs=..) does at 36.04, is *)
(*   told apart by a case of the lattice: CondNoFloorOK), the linear part  *)
(*   -|y - f| / b of the Laplace log density and its derivative            *)
(*   sign(y - f) / b (never 0).  The remaining densities are named; the    *)
(*   replay holds log_prob of the returned distribution AND its gradient   *)
(*   with respect to f to mpmath references over the whole lattice.        *)
(*                                                                         *)
(* "bigrules"  The RULE SIZE as a dimension ("polynomial degrees up to     *)
(*   2*num_locs-1 and num_gauss_hermite_locs settings"): num_locs ranges   *)
(*   over BigLocs (up to >= 100 nodes, beyond the sizes whose outermost    *)
(*   weights are still float32 numbers), given as constructor argument,    *)
(*   through settings.num_gauss_hermite_locs, or through a likelihood      *)
(*   built under the setting; x the default dtype at construction          *)
(*   (float64, float32) x mean / standard-deviation cells (mean = ratio x  *)
(*   sd: centred, half a standard deviation to either side, mean-          *)
(*   dominated) x degree class (the top even degree 2n-2, the top odd      *)
(*   degree 2n-1, the middle n and n+1).  Demanded: the rule holds exactly *)
(*   num_locs nodes and integrates the monomial exactly.  No rule with k   *)
(*   nodes is exact at degree 2k (the square of its node polynomial is     *)
(*   positive and is integrated to 0), so a MODELLED rule that keeps only  *)
(*   BigKept[n] < n nodes (e.g. drops the nodes whose weight underflows    *)
(*   float32) is refuted by the top-degree cases and only by them          *)
(*   (BigNodesOK).  The exact moment is the recurrence ZM / IM above; the  *)
(*   replay evaluates it in Python integers (TLC integers are 32 bit).     *)
(***************************************************************************)
EXTENDS Rational, Shapes, TLC, BackwardOps

CONSTANTS Part,
          Instances,     \* "moments": set of [mn, sn, dd, coef]
          MaxDeg,        \* "moments": largest k for the E[z^k] closed-form check (<= 12)
          RuleLattice,   \* "rule": set of [mn, sn, dd]
          ShapeDims, ShapeRank, ShapeLocs,      \* "shapes": axis sizes, maximal rank, numbers of locations
          LocsSettings,  \* "lattice": values of num_gauss_hermite_locs (0 = the setting is not entered)
          BatchShapes,   \* "lattice": batch shapes of the function distribution
          DataN, NumSamples, DefaultLocs,
          Decades,       \* "params": exponents e of the lattice values lower bound + 10^e
          MinSpread,     \* "params": a batch mixes small and large values: exponents of every parameter at least this far apart
          ParamK,        \* "params": members of a batched parameter tensor
          ParamFloor,    \* "params": the MODELLED forward floors every parameter at lower bound + 10^ParamFloor; the code has no floor (an exponent below Decades)
          ConClasses,    \* "params": constraint classes of a parameter ("default", "gt", "interval", "exp")
          ConDecades,    \* "params": exponents of the cases with a non-default constraint (a subset of Decades; 10^e below the width of the interval class)
          ConHows,       \* "params": how the constraint gets in ("ctor": constructor argument, "register": register_constraint afterwards)
          ParamInline,   \* "params": set of <<likelihood, parameter>> whose MODELLED forward inlines the default transform instead of going through the registered constraint; {} for the code
          FDecades,      \* "condf": exponents e of the function-value magnitudes 10^e
          CondFloor,     \* "condf": the MODELLED conditional floors log-probabilities this far below the most likely class (0: no floor, the code)
          BigLocs,       \* "bigrules": numbers of nodes (reaching >= 100)
          BigHows,       \* "bigrules": how num_locs gets in ("ctor": constructor argument, "setting": settings.num_gauss_hermite_locs, "likelihood": a likelihood built under the setting)
          BigDtypes,     \* "bigrules": default dtype when the rule is constructed
          BigKept        \* "bigrules": [n \in BigLocs |-> number of nodes the MODELLED rule holds]; n for the code

VARIABLES c, out
vars == <<c, out>>

\* ============================== integer helpers ===================================================
RECURSIVE QPow(_, _)
QPow(b, e) == IF e = 0 THEN 1 ELSE b * QPow(b, e - 1)
RECURSIVE QFact(_)
QFact(n) == IF n <= 1 THEN 1 ELSE n * QFact(n - 1)
RECURSIVE QChoose(_, _)
QChoose(n, k) == IF k = 0 \/ k = n THEN 1 ELSE QChoose(n - 1, k - 1) + QChoose(n - 1, k)
RECURSIVE QSum(_)
QSum(q) == IF q = <<>> THEN 0 ELSE Head(q) + QSum(Tail(q))
RECURSIVE QRSum(_)
QRSum(q) == IF q = <<>> THEN RZero ELSE RAdd(Head(q), QRSum(Tail(q)))
RECURSIVE QRPow(_, _)
QRPow(b, e) == IF e = 0 THEN ROne ELSE RMul(b, QRPow(b, e - 1))

\* ============================== moments ===========================================================
\* E[z^k] by the recurrence
RECURSIVE ZM(_)
ZM(k) == IF k = 0 THEN 1 ELSE IF k = 1 THEN 0 ELSE (k - 1) * ZM(k - 2)
\* closed form: (2j)! = E[z^(2j)] 2^j j!, odd moments vanish
ZClosedOK(k) == IF k % 2 = 1 THEN ZM(k) = 0 ELSE QFact(k) = ZM(k) * QPow(2, k \div 2) * QFact(k \div 2)

\* dd^k E[x^k] for x = (mn + sn z) / dd: binomial expansion
IM(i, k) == QSum([jj \in 1..(k + 1) |-> QChoose(k, jj - 1) * QPow(i.mn, k - (jj - 1)) * QPow(i.sn, jj - 1) * ZM(jj - 1)])
\* the same by Stein's recurrence  M_k = m M_(k-1) + (k - 1) v M_(k-2)
RECURSIVE IMStein(_, _)
IMStein(i, k) == IF k = 0 THEN 1 ELSE IF k = 1 THEN i.mn ELSE i.mn * IMStein(i, k - 1) + (k - 1) * i.sn * i.sn * IMStein(i, k - 2)
\* dd^k E[(x - m)^k] from the raw moments (inverse binomial)
ICentral(i, k) == QSum([jj \in 1..(k + 1) |-> QChoose(k, jj - 1) * QPow(-i.mn, k - (jj - 1)) * IM(i, jj - 1)])

MeanQ(i)      == RQ(i.mn, i.dd)
SdQ(i)        == RQ(i.sn, i.dd)
VarQ(i)       == RMul(SdQ(i), SdQ(i))
Moment(i, k)  == RQ(IM(i, k), QPow(i.dd, k))
Deg(i)        == Len(i.coef) - 1
\* the exact integral of sum_k coef[k+1] x^k against N(m, v)
PolyInt(i)    == LET K == Deg(i)
                 IN RQ(QSum([kk \in 1..(K + 1) |-> i.coef[kk] * IM(i, kk - 1) * QPow(i.dd, K - (kk - 1))]), QPow(i.dd, K))

MomentsOK ==
  Part = "moments" =>
    /\ \A k \in 0..MaxDeg : ZClosedOK(k)
    /\ \A k \in 0..Deg(c) : IM(c, k) = IMStein(c, k) /\ ICentral(c, k) = QPow(c.sn, k) * ZM(k)
    /\ Moment(c, 0) = ROne
    /\ Deg(c) >= 1 => Moment(c, 1) = MeanQ(c)
    /\ Deg(c) >= 2 => RSub(Moment(c, 2), RMul(MeanQ(c), MeanQ(c))) = VarQ(c)
    /\ \A k \in 0..Deg(c) : (c.mn = 0 /\ k % 2 = 1) => IsZero(Moment(c, k))           \* symmetry

MomentsOut(i) == [integral |-> PolyInt(i), moments |-> [kk \in 1..(Deg(i) + 1) |-> Moment(i, kk - 1)]]

\* ============================== the stored rule, num_locs <= 3 ====================================
\* numpy.polynomial.hermite.hermgauss(n): physicists' nodes x (weight exp(-x^2)) and weights w; the table holds
\* x^2 and w / sqrt(pi):   n = 1: x = 0, w = sqrt(pi);   n = 2: x = +-sqrt(1/2), w = sqrt(pi)/2;
\* n = 3: x = 0, w = 2 sqrt(pi)/3 and x = +-sqrt(3/2), w = sqrt(pi)/6.
RuleZeroW(n) == IF n = 1 THEN ROne ELSE IF n = 3 THEN RQ(2, 3) ELSE RZero
RulePairs(n) == IF n = 2 THEN << [xsq |-> RQ(1, 2), w |-> RQ(1, 2)] >>
                ELSE IF n = 3 THEN << [xsq |-> RQ(3, 2), w |-> RQ(1, 6)] >> ELSE << >>

\* forward(func = x^k): sum_i (w_i / sqrt(pi)) (sqrt(2 v) x_i + m)^k
\* a pair +-x contributes 2 w sum_{j even} C(k, j) m^(k-j) (2 v x^2)^(j/2)
PairPower(p, m, v, k) ==
  LET dsq == RMul(RMul(R(2), v), p.xsq)
  IN RMul(RMul(R(2), p.w),
          QRSum([jj \in 1..((k \div 2) + 1) |-> RMul(R(QChoose(k, 2 * (jj - 1))), RMul(QRPow(m, k - 2 * (jj - 1)), QRPow(dsq, jj - 1)))]))
CodeRule(n, m, v, k) ==
  RAdd(RMul(RuleZeroW(n), QRPow(m, k)), QRSum([pp \in 1..Len(RulePairs(n)) |-> PairPower(RulePairs(n)[pp], m, v, k)]))

\* what the rule misses at degree 2n: s^(2n) n!
Deficit(i, n) == RMul(R(QFact(n)), QRPow(SdQ(i), 2 * n))

RuleOK ==
  Part = "rule" =>
    /\ \A k \in 0..(2 * c.n - 1) : CodeRule(c.n, MeanQ(c), VarQ(c), k) = Moment(c, k)
    /\ CodeRule(c.n, MeanQ(c), VarQ(c), 2 * c.n) = RSub(Moment(c, 2 * c.n), Deficit(c, c.n))
    /\ c.sn # 0 => CodeRule(c.n, MeanQ(c), VarQ(c), 2 * c.n) # Moment(c, 2 * c.n)
    \* the weights of the rule sum to one (degree 0), whatever m and v
    /\ RAdd(RuleZeroW(c.n), QRSum([pp \in 1..Len(RulePairs(c.n)) |-> RMul(R(2), RulePairs(c.n)[pp].w)])) = ROne

RuleOut(i) == [deficit |-> Deficit(i, i.n), zero_w |-> RuleZeroW(i.n),
               pairs |-> [pp \in 1..Len(RulePairs(i.n)) |-> <<RulePairs(i.n)[pp].xsq, RulePairs(i.n)[pp].w>>]]

\* ============================== shapes and index map of forward ===================================
FwdLocPad(x)  == <<x.n>> \o ShOnes(Len(x.ms))                   \* _pad_with_singletons(locations, 0, means.dim())
FwdShifted(x) == ShBc2(ShBc2(x.ms, FwdLocPad(x)), x.ms)          \* sqrt(2 variances) * locations + means
FwdFuncOut(x) == ShBc2(FwdShifted(x), x.os)                      \* func(shifted) = dist(shifted).log_prob(observations)
FwdWPad(x)    == IF FwdFuncOut(x) = ShNone THEN ShNone ELSE <<x.n>> \o ShOnes(Len(FwdFuncOut(x)) - 1)
FwdProd(x)    == ShBc2(FwdFuncOut(x), FwdWPad(x))                \* log_probs * weights
FwdResult(x)  == IF FwdProd(x) = ShNone THEN ShNone ELSE Tail(FwdProd(x))   \* .sum(0)

\* the property's domain: observations broadcast against the function distribution without adding axes in front
FwdInDomain(x) == Len(x.os) <= Len(x.ms) /\ ShCompatible(<<x.ms, x.os>>)
FwdExpected(x) == ShBroadcastAll(<<x.ms, x.os>>)

\* element <<i>> \o b of the product: which weight, location, mean/variance element and observation it is built from
FwdReads(x, i, b) ==
  LET p  == <<i>> \o b
      fo == ShUnb(p, FwdFuncOut(x))          \* index into func's output (same rank as the product)
      sh == ShUnb(fo, FwdShifted(x))         \* index into the shifted locations
  IN [w    |-> ShUnb(p, FwdWPad(x))[1],
      loc  |-> ShUnb(sh, FwdLocPad(x))[1],
      mean |-> ShUnb(sh, x.ms),
      obs  |-> ShUnb(fo, x.os)]

ShapesOK ==
  Part = "shapes" =>
    /\ FwdInDomain(c) =>
         /\ FwdResult(c) = FwdExpected(c)
         /\ \A b \in ShIndices(FwdExpected(c)) : \A i \in 0..(c.n - 1) :
              LET r == FwdReads(c, i, b)
              IN r.w = i /\ r.loc = i /\ ShUnbSet(b, c.ms) = {r.mean} /\ ShUnbSet(b, c.os) = {r.obs}
    \* func's output always carries the location axis in front when the observations add no axis
    /\ (Len(c.os) <= Len(c.ms) /\ FwdFuncOut(c) # ShNone) => Head(FwdFuncOut(c)) = c.n

ShapeClass(x) == IF FwdInDomain(x) THEN "ok" ELSE IF FwdResult(x) = ShNone THEN "raises" ELSE "outside-domain"
ShapesOut(x)  == [class |-> ShapeClass(x), shape |-> FwdResult(x),
                  reads |-> IF FwdInDomain(x)
                            THEN {<<b, FwdReads(x, 0, b).mean, FwdReads(x, 0, b).obs>> : b \in ShIndices(FwdExpected(x))}
                            ELSE {}]

ShapeCases == {[n |-> n, ms |-> a, os |-> b] : n \in ShapeLocs, a \in ShShapes(ShapeDims, ShapeRank), b \in ShShapes(ShapeDims, ShapeRank)}

\* ============================== likelihood x method lattice =======================================
Liks    == {"Bernoulli", "Laplace", "StudentT", "Beta", "Softmax"}
Methods == {"expected_log_prob", "log_marginal", "marginal"}
OneDim(l) == l # "Softmax"                               \* subclasses of _OneDimensionalLikelihood
HasAnalyticMarginal(l) == l = "Bernoulli"                \* class attribute has_analytic_marginal

PathOf(l, m) ==
  IF l = "Bernoulli" THEN (IF m = "expected_log_prob" THEN "quadrature" ELSE "analytic")   \* probit identity
  ELSE IF OneDim(l) THEN (IF m = "marginal" THEN "mc" ELSE "quadrature")                   \* _OneDimensionalLikelihood
  ELSE "mc"                                                                                \* _Likelihood
\* what the quadrature integrates
IntegrandOf(l, m) ==
  IF PathOf(l, m) # "quadrature" THEN "-"
  ELSE IF l = "Bernoulli" THEN "log_normal_cdf((2y-1) f)"
  ELSE IF m = "expected_log_prob" THEN "log p(y|f)" ELSE "p(y|f), log outside"
\* the rule is built in __init__ from the value the setting has THEN; later values are not seen
NodesOf(x) == IF PathOf(x.lik, x.method) # "quadrature" THEN 0 ELSE IF x.ctor = 0 THEN DefaultLocs ELSE x.ctor
ResultShape(x) ==
  LET pts == x.batch \o <<DataN>>
  IN IF x.method = "marginal" /\ PathOf(x.lik, x.method) = "mc" THEN <<NumSamples>> \o pts ELSE pts

LatticeCells == [lik : Liks, method : Methods, ctor : LocsSettings, call : LocsSettings, batch : BatchShapes]

LatticeOK ==
  Part = "lattice" =>
    /\ PathOf(c.lik, c.method) \in {"analytic", "quadrature", "mc"}
    /\ (PathOf(c.lik, "marginal") = "analytic") = HasAnalyticMarginal(c.lik)
    /\ (PathOf(c.lik, c.method) = "quadrature") => OneDim(c.lik)
    /\ (OneDim(c.lik) /\ c.method = "expected_log_prob") => PathOf(c.lik, c.method) = "quadrature"
    /\ (NodesOf(c) = 0) = (PathOf(c.lik, c.method) # "quadrature")
    /\ NodesOf(c) = NodesOf([c EXCEPT !.call = 0])                \* the call-time setting is irrelevant
    /\ Len(ResultShape(c)) >= 1

LatticeOut(x) == [path |-> PathOf(x.lik, x.method), integrand |-> IntegrandOf(x.lik, x.method), nodes |-> NodesOf(x),
                  shape |-> ResultShape(x), decided |-> PathOf(x.lik, x.method) # "mc"]

\* ============================== parameter lattice of the one-dimensional likelihoods ==============
OneDimLiks == {l \in Liks : OneDim(l)}
ParamsOf(l) == CASE l = "Laplace"  -> {"noise"}
                 [] l = "StudentT" -> {"noise", "deg_free"}
                 [] l = "Beta"     -> {"scale"}
                 [] OTHER          -> {}                          \* BernoulliLikelihood.__init__ takes no argument
\* the documented valid range is the default constraint: Positive() for noise and scale, GreaterThan(2) for deg_free: (LowerOf(p), oo)
LowerOf(p)  == IF p = "deg_free" THEN 2 ELSE 0
Pow10(e)    == IF e >= 0 THEN <<QPow(10, e), 1>> ELSE <<1, QPow(10, -e)>>
ParamValue(p, e) == RAdd(R(LowerOf(p)), Pow10(e))
Assign(l)   == [ParamsOf(l) -> Decades]                          \* one exponent per parameter

\* the CONSTRAINT of a parameter: class |-> (lower bound, upper bound, transform).  "default" is what the constructor registers when no constraint is given
ConLower(p, k) == CASE k = "gt"       -> RAdd(R(LowerOf(p)), RQ(3, 2))     \* GreaterThan(LowerOf(p) + 3/2)
                    [] k = "interval" -> RAdd(R(LowerOf(p)), RQ(1, 2))     \* Interval(LowerOf(p) + 1/2, LowerOf(p) + 30)
                    [] OTHER          -> R(LowerOf(p))                     \* "default", "exp": (LowerOf(p), oo)
ConBounded(k)  == k = "interval"
ConUpper(p, k) == RAdd(R(LowerOf(p)), R(30))                              \* read only when ConBounded(k)
ConTransform(k) == CASE k = "interval" -> "sigmoid" [] k = "exp" -> "exp" [] OTHER -> "softplus"
ConValue(p, k, e) == RAdd(ConLower(p, k), Pow10(e))                       \* = ParamValue(p, e) for the default class
DefaultCon(l)  == [p \in ParamsOf(l) |-> "default"]
ConAssign(l)   == [ParamsOf(l) -> ConClasses]
\* the class through which the MODELLED forward reads raw_p: the registered one, unless the forward inlines the default transform
ModelReadClass(l, p, k) == IF <<l, p>> \in ParamInline THEN "default" ELSE k

\* what the documented conditional reads from the parameters (attribute of the returned distribution |-> exact value):
\*   Laplace(loc = f, scale = sqrt(noise));  StudentT(df = deg_free, loc = f, scale = sqrt(noise));
\*   Beta(concentration1 = sigmoid(f) s + 1, concentration0 = (1 - sigmoid(f)) s + 1), i.e. concentration1 + concentration0 = s + 2;
\*   Bernoulli(probs = Phi(f)) reads no parameter
CondOfC(l, a, k) == CASE l = "Laplace"  -> [scale_sq |-> ConValue("noise", k["noise"], a["noise"])]
                      [] l = "StudentT" -> [scale_sq |-> ConValue("noise", k["noise"], a["noise"]), df |-> ConValue("deg_free", k["deg_free"], a["deg_free"])]
                      [] l = "Beta"     -> [conc_sum |-> RAdd(ConValue("scale", k["scale"], a["scale"]), R(2))]
                      [] OTHER          -> [probs |-> <<0, 1>>]
CondOf(l, a) == CondOfC(l, a, DefaultCon(l))

\* the code-shaped reading: forward() uses the parameter as it is.  A "numerical guard" (clamp_min inside forward) is modelled by ParamFloor; with a floor
\* inside the lattice TLC must find a case whose conditional differs from the documented one (vacuity guard of Decades: checks/c13.py runs it with -4)
ModelExp(e)       == IF e < ParamFloor THEN ParamFloor ELSE e
ModelCondOf(l, a) == CondOf(l, [p \in DOMAIN a |-> ModelExp(a[p])])
ParamsNoFloorOK   == (Part = "params" /\ c.kind = "param") => \A j \in DOMAIN c.members : ModelCondOf(c.lik, c.members[j]) = CondOf(c.lik, c.members[j])
\* the conditional reads every parameter through the constraint registered for it (= the value the public property reports)
ParamsThroughConstraintOK == (Part = "params" /\ c.kind = "param") => \A p \in ParamsOf(c.lik) : ModelReadClass(c.lik, p, c.con[p]) = c.con[p]

\* how the value reaches the raw parameter: the property setter or Module.initialize, with a tensor or a python float
\* (`if not torch.is_tensor(value)` is a branch of every setter); a float carries one value for all batch members
ParamRoutes    == {"setter-tensor", "setter-float", "initialize-tensor", "initialize-float"}
FloatRoute(r)  == r \in {"setter-float", "initialize-float"}
\* a batched parameter tensor that mixes small and large values
ParamSpread(l, q) == \A p \in ParamsOf(l) : \E i, j \in DOMAIN q : q[i][p] - q[j][p] >= MinSpread
MixedSeqs(l)      == {q \in [1..ParamK -> Assign(l)] : ParamSpread(l, q)}

\* dimensionless observation placements <<m, r, k>>: function mean m, function standard deviation r x W, observation m + k x W (location-scale
\* families, W = sqrt(noise) the scale of the conditional) resp. <<m, r, y>>: standard deviation r x W with W = 1 / sqrt(1 + s), observation y (Beta)
NodeReach == 12            \* no node of a rule with at most 40 locations lies further than 12 standard deviations from the mean (sqrt(2) 8.099 = 11.46)
PlaceOf(l) == CASE l = "Laplace"  -> << <<RQ(3, 10), RQ(1, 10), RQ(13, 10)>>, <<R(-100), RQ(1, 2), RQ(-13, 2)>>, <<Pow10(-6), R(1), R(13)>> >>
                [] l = "StudentT" -> << <<RQ(3, 10), RQ(1, 20), R(0)>>, <<R(-100), RQ(1, 5), RQ(7, 10)>>, <<Pow10(-6), RQ(1, 10), R(-30)>> >>
                [] l = "Beta"     -> << <<R(-1), RQ(1, 20), RQ(1, 10)>>, <<RQ(3, 10), RQ(1, 5), RQ(1, 2)>>, <<R(3), RQ(1, 5), RQ(17, 20)>> >>
                [] OTHER          -> << >>
RegimeOf(l) == CASE l = "Laplace" -> "one-sided" [] l \in {"StudentT", "Beta"} -> "narrow" [] OTHER -> "none"
RAbsQ(a)    == IF a[1] < 0 THEN RNeg(a) ELSE a
PlaceOK(l)  == \A i \in DOMAIN PlaceOf(l) :
                 LET pl == PlaceOf(l)[i]
                 IN /\ RLt(RZero, pl[2])
                    /\ RegimeOf(l) = "one-sided" => RLe(RMul(R(NodeReach), pl[2]), RAbsQ(pl[3]))      \* |y - m| >= NodeReach function standard deviations
                    /\ RegimeOf(l) = "narrow"    => RLe(pl[2], RQ(1, 5))
                    /\ l = "Beta" => RLt(RZero, pl[3]) /\ RLt(pl[3], ROne)
ParamN == 3                \* points per function distribution = placements per likelihood

\* shapes: the parameter tensor has shape batch_shape + [1]; it is broadcast against the function values
ParamShape(x)  == x.bs \o <<1>>
ParamResult(x) == ShBc2(ParamShape(x), x.fs)
ParamMember(x, b) == IF x.bs = <<>> THEN 1 ELSE ShUnb(b, ParamShape(x))[1] + 1      \* which member's parameters element b of the result is built from
\* the property's domain (cf. FwdInDomain): the parameter tensor adds no axis in front of the function values - the rule views its locations as
\* [n, 1, .., 1] with the rank of the function distribution, so a likelihood with batch shape [K] needs function values of shape [K, N] or [1, N]
ParamInDomain(x) == Len(ParamShape(x)) <= Len(x.fs) /\ ShCompatible(<<ParamShape(x), x.fs>>)

ConExps(l)   == [ParamsOf(l) -> ConDecades]
ConRouteHows == {rh \in {<<"setter-tensor", "ctor">>, <<"initialize-float", "ctor">>, <<"setter-tensor", "register">>} : rh[2] \in ConHows}
ParamCasesOf(l) ==
  IF ParamsOf(l) = {}
  THEN {[kind |-> "param", lik |-> l, layout |-> "scalar", route |-> "none", bs |-> <<>>, fs |-> f, members |-> << [p \in {} |-> 0] >>, con |-> DefaultCon(l), conhow |-> "ctor"] : f \in {<<ParamN>>, <<ParamK, ParamN>>}}
  ELSE {[kind |-> "param", lik |-> l, layout |-> "scalar", route |-> r, bs |-> <<>>, fs |-> f, members |-> <<a>>, con |-> DefaultCon(l), conhow |-> "ctor"] :
            r \in ParamRoutes, a \in Assign(l), f \in {<<ParamN>>, <<ParamK, ParamN>>}}
       \cup {[kind |-> "param", lik |-> l, layout |-> "broadcast", route |-> r, bs |-> <<ParamK>>, fs |-> f, members |-> [j \in 1..ParamK |-> a], con |-> DefaultCon(l), conhow |-> "ctor"] :
            r \in {rr \in ParamRoutes : FloatRoute(rr)}, a \in Assign(l), f \in {<<ParamK, ParamN>>, <<1, ParamN>>}}
       \cup {[kind |-> "param", lik |-> l, layout |-> "batch", route |-> r, bs |-> <<ParamK>>, fs |-> f, members |-> q, con |-> DefaultCon(l), conhow |-> "ctor"] :
            r \in {rr \in ParamRoutes : ~FloatRoute(rr)}, q \in MixedSeqs(l), f \in {<<ParamK, ParamN>>, <<1, ParamN>>}}
       \* the constraint dimension: every assignment of classes to the parameters that is not all-default
       \cup {[kind |-> "param", lik |-> l, layout |-> "scalar", route |-> rh[1], bs |-> <<>>, fs |-> <<ParamN>>, members |-> <<a>>, con |-> k, conhow |-> rh[2]] :
            rh \in ConRouteHows, a \in ConExps(l), k \in ConAssign(l) \ {DefaultCon(l)}}
       \cup {[kind |-> "param", lik |-> l, layout |-> "batch", route |-> "setter-tensor", bs |-> <<ParamK>>, fs |-> <<ParamK, ParamN>>, members |-> q, con |-> k, conhow |-> "ctor"] :
            q \in {qq \in [1..ParamK -> ConExps(l)] : ParamSpread(l, qq)}, k \in ConAssign(l) \ {DefaultCon(l)}}
\* the same decades laid over the function distribution (the "parameters" of the parameter-free Bernoulli likelihood): mean sg 10^em, variance 10^ev
FuncCases  == [kind : {"func"}, em : Decades, sg : {-1, 1}, ev : Decades]
ParamCases == UNION {ParamCasesOf(l) : l \in OneDimLiks} \cup FuncCases

ParamsOK ==
  (Part = "params" /\ c.kind = "param") =>
    LET l == c.lik
    IN /\ \A j \in DOMAIN c.members : \A p \in ParamsOf(l) :
            LET a == c.members[j]
            IN /\ RLt(ConLower(p, c.con[p]), ConValue(p, c.con[p], a[p]))                      \* every lattice value is valid under the registered constraint
               /\ ConBounded(c.con[p]) => RLt(ConValue(p, c.con[p], a[p]), ConUpper(p, c.con[p]))
               /\ RLt(R(LowerOf(p)), ConValue(p, c.con[p], a[p]))                              \* ... and under the default one (the default-constrained twin exists)
               /\ c.con[p] = "default" => ConValue(p, c.con[p], a[p]) = ParamValue(p, a[p])
               \* no floor / ceiling / clamp inside the valid range: another valid value of p gives another conditional
               /\ \A e2 \in Decades \ {a[p]} : CondOfC(l, [a EXCEPT ![p] = e2], c.con) # CondOfC(l, a, c.con)
               \* ... and so does the same exponent under another constraint class with another lower bound
               /\ \A k2 \in ConClasses : ConLower(p, k2) # ConLower(p, c.con[p]) => CondOfC(l, a, [c.con EXCEPT ![p] = k2]) # CondOfC(l, a, c.con)
       /\ DOMAIN c.con = ParamsOf(l) /\ \A p \in ParamsOf(l) : c.con[p] \in ConClasses
       /\ c.conhow \in ConHows \cup {"ctor"}
       /\ (c.con # DefaultCon(l)) => \A j \in DOMAIN c.members : \A p \in ParamsOf(l) : c.members[j][p] \in ConDecades
       /\ c.layout = "batch" => ParamSpread(l, c.members)
       /\ c.layout = "broadcast" => \A j \in DOMAIN c.members : c.members[j] = c.members[1]
       /\ FloatRoute(c.route) => c.layout # "batch"
       /\ PlaceOK(l) /\ Len(PlaceOf(l)) \in {0, ParamN}
       /\ ParamInDomain(c)
       \* index map: element b of the result reads the function value b (un-broadcast) and the parameters of exactly one member
       /\ ParamResult(c) = ShBroadcastAll(<<ParamShape(c), c.fs>>)
       /\ \A b \in ShIndices(ParamResult(c)) :
            /\ ParamMember(c, b) \in DOMAIN c.members
            /\ ShUnbSet(b, ParamShape(c)) = {IF c.bs = <<>> THEN <<0>> ELSE <<ParamMember(c, b) - 1, 0>>}
FuncOK == (Part = "params" /\ c.kind = "func") => RLt(RZero, Pow10(c.ev))

ParamOut(x) ==
  IF x.kind = "func" THEN [m |-> RMul(R(x.sg), Pow10(x.em)), v |-> Pow10(x.ev)]
  ELSE [values |-> [j \in DOMAIN x.members |-> [p \in ParamsOf(x.lik) |-> ConValue(p, x.con[p], x.members[j][p])]],
        cond   |-> [j \in DOMAIN x.members |-> CondOfC(x.lik, x.members[j], x.con)],
        con    |-> [p \in ParamsOf(x.lik) |-> [class |-> x.con[p], lower |-> ConLower(p, x.con[p]), bounded |-> ConBounded(x.con[p]), upper |-> ConUpper(p, x.con[p]),
                                                transform |-> ConTransform(x.con[p]), dlower |-> R(LowerOf(p))]],
        pshape |-> ParamShape(x), shape |-> ParamResult(x),
        reads  |-> {<<b, ParamMember(x, b), ShUnb(b, x.fs)>> : b \in ShIndices(ParamResult(x))},
        regime |-> RegimeOf(x.lik), place |-> PlaceOf(x.lik), reach |-> NodeReach]

\* ============================== the conditional over the whole range of the function values =========
\* Softmax: C = 3 classes.  With mixing weights the latent vector has 2 features and z = W f for the integer matrix SoftW (rows = classes);
\* without, W = I and the latent vector has 3 entries.  f = 10^em x an integer direction pattern
SoftC     == 3
SoftW     == << <<1, 0>>, <<0, 1>>, <<-1, -1>> >>
SoftI     == << <<1, 0, 0>>, <<0, 1, 0>>, <<0, 0, 1>> >>
SoftDirs(mix) == IF mix THEN { <<1, 0>>, <<1, -1>>, <<-1, -1>>, <<2, 1>> } ELSE { <<1, 0, -1>>, <<1, 1, -1>>, <<0, 0, 1>>, <<-1, 2, 0>> }
SoftMat(mix)  == IF mix THEN SoftW ELSE SoftI
\* the logits in units of the magnitude (integers; TLC integers are 32 bit, so differences are taken BEFORE scaling by 10^em)
SoftZInt(x)   == LET W == SoftMat(x.mix) IN [cc \in 1..SoftC |-> QSum([a \in 1..Len(x.dir) |-> W[cc][a] * x.dir[a]])]
SoftLogits(x) == [cc \in 1..SoftC |-> RMul(Pow10(x.em), R(SoftZInt(x)[cc]))]
IMaxOf(q)     == CHOOSE m \in {q[i] : i \in DOMAIN q} : \A i \in DOMAIN q : q[i] <= m
\* log p(c | f) - log p(most likely class | f) = z_c - max z, for every class: unbounded below
SoftGaps(x)   == LET z == SoftZInt(x) IN [cc \in 1..SoftC |-> RMul(Pow10(x.em), R(z[cc] - IMaxOf(z)))]
\* the MODELLED conditional: log-probabilities floored CondFloor below the most likely class (0: none)
ModelGaps(x)  == [cc \in 1..SoftC |-> IF CondFloor > 0 /\ RLt(SoftGaps(x)[cc], R(-CondFloor)) THEN R(-CondFloor) ELSE SoftGaps(x)[cc]]
SoftObsClass(x) == LET g == SoftGaps(x)[x.obs] IN IF IsZero(g) THEN "most-likely" ELSE IF RLt(g, R(-36)) THEN "confidently-wrong" ELSE "less-likely"

\* one-dimensional likelihoods: f = sg 10^em; fixed parameters (noise 1/4, i.e. scale b = 1/2; deg_free 4; Beta scale 5); observation classes
CondOneDim  == {"Bernoulli", "Laplace", "StudentT", "Beta"}
CondB       == RQ(1, 2)                                                  \* sqrt(noise), noise = 1/4
CondPar(l)  == CASE l = "Laplace" -> [noise |-> RQ(1, 4)] [] l = "StudentT" -> [noise |-> RQ(1, 4), deg_free |-> R(4)] [] l = "Beta" -> [scale |-> R(5)] [] OTHER -> [none |-> RZero]
CondObs(l)  == CASE l = "Bernoulli" -> {"0", "1"} [] l = "Beta" -> {"low", "mid", "high"} [] OTHER -> {"fixed", "near-right", "near-left"}
CondF(x)    == RMul(R(x.sg), Pow10(x.em))
\* y - f for the location families (the offset itself for the "near" classes: no cancellation), y for the others
CondOffset(x) == CASE x.obs = "fixed" -> RSub(RQ(3, 10), CondF(x)) [] x.obs = "near-right" -> RMul(CondB, RQ(1, 2)) [] x.obs = "near-left" -> RMul(CondB, R(-2)) [] OTHER -> RZero
CondY(x)    == CASE x.obs \in {"0", "1"} -> (IF x.obs = "1" THEN ROne ELSE RZero)
                 [] x.obs = "low" -> RQ(1, 10) [] x.obs = "mid" -> RQ(1, 2) [] x.obs = "high" -> RQ(17, 20)
                 [] x.obs = "fixed" -> RQ(3, 10)
                 [] OTHER -> RAdd(CondF(x), CondOffset(x))                     \* "near-right", "near-left": y = f + offset
CondDensity(l) == CASE l = "Bernoulli" -> "Phi((2y-1) f)" [] l = "Laplace" -> "exp(-|y-f|/b)/(2b), b = sqrt(noise)"
                    [] l = "StudentT" -> "t_nu((y-f)/s)/s, s = sqrt(noise), nu = deg_free" [] l = "Beta" -> "Beta(y; sigmoid(f) s + 1, (1 - sigmoid(f)) s + 1)"
                    [] OTHER -> "softmax(W f)[y]"
\* Laplace: log p(y|f) + log(2b) = -|y - f| / b and d/df log p = sign(y - f) / b, exactly
LapLin(x)   == RNeg(RDiv(RAbsQ(CondOffset(x)), CondB))
LapSlope(x) == IF IsZero(CondOffset(x)) THEN RZero ELSE IF RLt(RZero, CondOffset(x)) THEN RDiv(ROne, CondB) ELSE RNeg(RDiv(ROne, CondB))

CondCases == [lik : CondOneDim, em : FDecades, sg : {-1, 1}, obs : {"0", "1", "low", "mid", "high", "fixed", "near-right", "near-left"}]
CondFCases == {x \in CondCases : x.obs \in CondObs(x.lik)}
             \cup {[lik |-> "Softmax", mix |-> mx, em |-> e, dir |-> d, obs |-> o] : mx \in BOOLEAN, e \in FDecades, d \in SoftDirs(TRUE) \cup SoftDirs(FALSE), o \in 1..SoftC}
CondFInit == {x \in CondFCases : x.lik = "Softmax" => x.dir \in SoftDirs(x.mix)}

CondFOK ==
  Part = "condf" =>
    IF c.lik = "Softmax"
    THEN /\ Len(c.dir) = Len(SoftMat(c.mix)[1])
         /\ \E cc \in 1..SoftC : IsZero(SoftGaps(c)[cc])                                  \* some class is the most likely one
         /\ \A cc \in 1..SoftC : RLe(SoftGaps(c)[cc], RZero)
         \* log-odds between any two classes are the logit differences (the normaliser cancels)
         /\ \A c1, c2 \in 1..SoftC : RMul(Pow10(c.em), R(SoftZInt(c)[c1] - SoftZInt(c)[c2])) = RMul(Pow10(c.em), R((SoftZInt(c)[c1] - IMaxOf(SoftZInt(c))) - (SoftZInt(c)[c2] - IMaxOf(SoftZInt(c)))))
         /\ \A cc \in 1..SoftC : RLe(SoftLogits(c)[cc], RMul(Pow10(c.em), R(IMaxOf(SoftZInt(c)))))
         \* the logits are linear in the magnitude: ten times the latent vector, ten times every gap
         /\ (c.em + 1 \in FDecades) => \A cc \in 1..SoftC : SoftGaps([c EXCEPT !.em = c.em + 1])[cc] = RMul(R(10), SoftGaps(c)[cc])
    ELSE /\ c.obs \in CondObs(c.lik)
         /\ c.lik = "Beta" => RLt(RZero, CondY(c)) /\ RLt(CondY(c), ROne)
         /\ (c.lik \in {"Laplace", "StudentT"} /\ c.obs # "fixed") => RLt(RZero, RAbsQ(CondOffset(c))) /\ RLe(RAbsQ(CondOffset(c)), R(1))      \* near: within two scales of f
         /\ c.lik = "Laplace" => /\ RLe(LapLin(c), RZero)
                                  /\ (~IsZero(CondOffset(c))) => ~IsZero(LapSlope(c))      \* the derivative never vanishes, however far the observation
                                  /\ RMul(LapSlope(c), CondOffset(c)) = RNeg(LapLin(c))     \* |y - f| / b
\* no floor under the log-probabilities: fails exactly when CondFloor > 0 and a case of the lattice has a class further below
CondNoFloorOK == (Part = "condf" /\ c.lik = "Softmax") => ModelGaps(c) = SoftGaps(c)

CondFOut(x) ==
  IF x.lik = "Softmax"
  THEN [density |-> CondDensity(x.lik), W |-> SoftMat(x.mix), f |-> [a \in 1..Len(x.dir) |-> RMul(Pow10(x.em), R(x.dir[a]))], logits |-> SoftLogits(x), gaps |-> SoftGaps(x),
        class |-> SoftObsClass(x)]
  ELSE [density |-> CondDensity(x.lik), par |-> CondPar(x.lik), f |-> CondF(x), y |-> CondY(x), offset |-> CondOffset(x),
        lin |-> IF x.lik = "Laplace" THEN LapLin(x) ELSE RZero, slope |-> IF x.lik = "Laplace" THEN LapSlope(x) ELSE RZero]

\* ============================== big rules: the rule size as a dimension ============================
BigDegClasses == {"top-even", "top-odd", "mid", "mid+1"}
BigDegree(n, d) == CASE d = "top-even" -> 2 * n - 2 [] d = "top-odd" -> 2 * n - 1 [] d = "mid" -> n [] OTHER -> n + 1
\* mean / standard deviation cells: sd rational (so that the moment is rational), mean = ratio x sd.  ratio 0: centred (odd moments vanish by symmetry);
\* +-1/2: every term of the binomial expansion has one sign (no cancellation in the exact value); 8: the mean dominates (the top coefficient hardly matters)
BigRatios == {RQ(0, 1), RQ(1, 2), RQ(-1, 2), RQ(8, 1)}
BigSds    == {RQ(1, 4), RQ(1, 1), RQ(3, 2)}
BigMean(x) == RMul(x.ratio, x.sd)
\* sign structure of E (m + s z)^k = sum_j C(k, j) m^(k-j) s^j E z^j (only even j contribute)
BigTerms(x) == LET k == BigDegree(x.n, x.deg)
               IN IF k % 2 = 0 THEN "positive"
                  ELSE IF IsZero(x.ratio) THEN "zero-by-symmetry" ELSE IF RLt(RZero, x.ratio) THEN "positive" ELSE "negative"
\* no rule with k nodes is exact at degree 2k: prod_i (x - x_i)^2 > 0 almost everywhere, the rule gives 0
MaxExactDegree(k) == 2 * k - 1
BigCases == [n : BigLocs, how : BigHows, dtype : BigDtypes, ratio : BigRatios, sd : BigSds, deg : BigDegClasses]
BigRulesOK ==
  Part = "bigrules" =>
    /\ BigDegree(c.n, c.deg) >= 0 /\ BigDegree(c.n, c.deg) <= 2 * c.n - 1            \* every case lies inside the property's quantifier: exactness is demanded
    /\ out.demand = "exact" /\ out.nodes = c.n
    /\ RLt(RZero, c.sd)
    /\ (BigTerms(c) = "zero-by-symmetry") <=> (IsZero(BigMean(c)) /\ BigDegree(c.n, c.deg) % 2 = 1)
    /\ \E d \in BigDegClasses : BigDegree(c.n, d) = MaxExactDegree(c.n)                \* the last degree of the quantifier is a case
\* the modelled rule holds num_locs nodes, so it CAN be exact on every case; fails exactly on the top degrees when BigKept[n] < n
BigNodesOK == Part = "bigrules" => BigDegree(c.n, c.deg) <= MaxExactDegree(BigKept[c.n])
\* ... and exactly num_locs of them
BigCountOK == Part = "bigrules" => BigKept[c.n] = c.n
BigOut(x) == [m |-> BigMean(x), s |-> x.sd, degree |-> BigDegree(x.n, x.deg), nodes |-> x.n, demand |-> "exact", terms |-> BigTerms(x),
              weights |-> IF x.dtype = "float64" THEN "positive, sum sqrt(pi)" ELSE "non-negative (float32 underflow), sum sqrt(pi)",
              tolerance |-> IF x.dtype = "float64" THEN "float64 rounding of n positive terms" ELSE "float32 rounding + float32 underflow of the weights"]

\* ============================== repeated differentiation of log_normal_cdf ========================
\* zc: class of the argument tensor.  "tail": every entry below -1; "mixed": entries of all three branches; "notail": no entry below -1
\* (LogNormalCDF.forward then stores no numerator / denominator).  For the Bernoulli route the argument is (2y - 1)(m + sqrt(2v) t_i) over the
\* nodes t_i: "confident-right" (sign(m) = 2y - 1, |m| large), "confident-wrong", "uncertain" - all of them contain tail entries.
RediffCases ==
  [route : {"log_normal_cdf"}, zc : {"tail", "mixed", "notail"}, batch : {"none", "b2"}]
  \cup [route : {"bernoulli_elp"}, zc : {"confident-right", "confident-wrong", "uncertain"}, batch : {"none", "b2"}]
RediffTail(x) == x.zc # "notail"
\* the accuracy the property grants the derivative, by branch: relative 2e-3 where the rational tail approximation is differentiated, rounding elsewhere
DerivAccuracy == [tail |-> "2e-3 relative to phi/Phi", body |-> "rounding (1e-12 relative)"]
RediffOut(m) == [m |-> m, exp |-> BWExpected(m), accuracy |-> DerivAccuracy]
RediffNext == /\ \E m2 \in BWSteps(out.m, "lncdf") : out' = RediffOut(m2)
              /\ UNCHANGED c
RediffOK ==
  Part = "rediff" =>
    /\ DOMAIN out.m.ctx = BWNames("lncdf", RediffTail(c))
    /\ (RediffTail(c) <=> {"numerator", "denominator"} \subseteq DOMAIN out.m.ctx)      \* the attributes exist exactly when the tail branch of the backward reads them
    /\ BWTypeOK(out.m)
    /\ BWPure(out.m)
    /\ BWDerivOK(out.m)                 \* pass j delivers u_j . d/dz log_normal_cdf(z), for every j
    /\ out.exp = BWExpected(out.m)
\* without purity: fails only on a history with two passes when BWImpure is not empty (vacuity guard of the histories)
RediffDerivOK == Part = "rediff" => BWDerivOK(out.m)

\* ============================== machine ===========================================================
Init ==
  /\ c \in (CASE Part = "moments" -> Instances
              [] Part = "rule"    -> {[n |-> n, mn |-> i.mn, sn |-> i.sn, dd |-> i.dd] : n \in 1..3, i \in RuleLattice}
              [] Part = "shapes"  -> ShapeCases
              [] Part = "lattice" -> LatticeCells
              [] Part = "params"  -> ParamCases
              [] Part = "condf"   -> CondFInit
              [] Part = "bigrules" -> BigCases
              [] Part = "rediff"  -> RediffCases)
  /\ out = (CASE Part = "moments" -> MomentsOut(c)
              [] Part = "rule"    -> RuleOut(c)
              [] Part = "shapes"  -> ShapesOut(c)
              [] Part = "lattice" -> LatticeOut(c)
              [] Part = "params"  -> ParamOut(c)
              [] Part = "condf"   -> CondFOut(c)
              [] Part = "bigrules" -> BigOut(c)
              [] Part = "rediff"  -> RediffOut(BWStart("lncdf", RediffTail(c))))
Next == IF Part = "rediff" THEN RediffNext ELSE UNCHANGED vars
Spec == Init /\ [][Next]_vars
=============================================================================
